// Coin type as a dimension of the wallets of monitors A and L.
//
// The statement quantifies over all wallets. A wallet's coin type (meta "coin": skycoin or
// bitcoin) decides the TEXT encodings of its addresses and secret keys in the file (bitcoin:
// base58check addresses with version 0, secret keys in wallet import format) and, for bip44, the
// coin part of the derivation path; the lock / save / reload / wrong password / unlock oracle is
// the same. The harness therefore needs its own reading and writing of the wallet import format
// (to know what a secret key looks like in a bitcoin wallet file, and to get the raw key bytes
// out of such a file): base58 over math/big and a double SHA-256 checksum, written from the
// public description of the format, no product code.
package main

import (
	"bytes"
	"crypto/sha256"
	"encoding/hex"
	"errors"
	"math/big"
	"math/rand"
	"strings"

	"github.com/skycoin/skycoin/src/wallet"
)

var coinTypes = []wallet.CoinType{wallet.CoinTypeSkycoin, wallet.CoinTypeBitcoin}

// drawCoin: one wallet in three is a bitcoin wallet
func drawCoin(rng *rand.Rand) wallet.CoinType {
	if rng.Intn(3) == 0 {
		return wallet.CoinTypeBitcoin
	}
	return wallet.CoinTypeSkycoin
}

const b58Alphabet = "123456789ABCDEFGHJKLMNPQRSTUVWXYZabcdefghijkmnopqrstuvwxyz"

func b58Encode(b []byte) string {
	x := new(big.Int).SetBytes(b)
	base, mod := big.NewInt(58), new(big.Int)
	var out []byte
	for x.Sign() > 0 {
		x.DivMod(x, base, mod)
		out = append(out, b58Alphabet[mod.Int64()])
	}
	for _, c := range b {
		if c != 0 {
			break
		}
		out = append(out, b58Alphabet[0])
	}
	for i, j := 0, len(out)-1; i < j; i, j = i+1, j-1 {
		out[i], out[j] = out[j], out[i]
	}
	return string(out)
}

func b58Decode(s string) ([]byte, error) {
	x, base := new(big.Int), big.NewInt(58)
	for _, c := range []byte(s) {
		d := strings.IndexByte(b58Alphabet, c)
		if d < 0 {
			return nil, errors.New("not a base58 character")
		}
		x.Mul(x, base).Add(x, big.NewInt(int64(d)))
	}
	body := x.Bytes()
	zeros := 0
	for zeros < len(s) && s[zeros] == b58Alphabet[0] {
		zeros++
	}
	return append(make([]byte, zeros), body...), nil
}

func check4(b []byte) []byte {
	h1 := sha256.Sum256(b)
	h2 := sha256.Sum256(h1[:])
	return h2[:4]
}

// wifEncode is the wallet import format of a 32-byte key: base58(0x80 | key [| 0x01] | checksum)
func wifEncode(key []byte, compressed bool) string {
	b := append([]byte{0x80}, key...)
	if compressed {
		b = append(b, 0x01)
	}
	return b58Encode(append(b, check4(b)...))
}

// wifDecode returns the 32 key bytes of a wallet-import-format string
func wifDecode(s string) ([]byte, error) {
	b, err := b58Decode(s)
	if err != nil {
		return nil, err
	}
	if len(b) != 37 && len(b) != 38 {
		return nil, errors.New("wrong length")
	}
	if b[0] != 0x80 || (len(b) == 38 && b[33] != 0x01) {
		return nil, errors.New("wrong version or suffix")
	}
	if !bytes.Equal(check4(b[:len(b)-4]), b[len(b)-4:]) {
		return nil, errors.New("wrong checksum")
	}
	return b[1:33], nil
}

// rawSecret reads a secret key as written in a wallet file by its FORM (64 hex digits, or a
// wallet-import-format string), whatever the file's coin field says
func rawSecret(text string) ([]byte, bool) {
	if len(text) == 64 {
		if raw, err := hex.DecodeString(text); err == nil {
			return raw, true
		}
	}
	if raw, err := wifDecode(text); err == nil {
		return raw, true
	}
	return nil, false
}

// secretTextEncoding names the needle that must be visible in an unlocked wallet file of the coin
func secretTextEncoding(coin wallet.CoinType) string {
	if coin == wallet.CoinTypeBitcoin {
		return "secretKey/wif"
	}
	return "secretKey/hex"
}

// secretKeyNeedles: every searched encoding of one secret key, the coin-specific text forms included
func secretKeyNeedles(key []byte) []needle {
	c := encodings("secretKey", key, false)
	c = append(c, needle{"secretKey/wif", []byte(wifEncode(key, true))})
	c = append(c, needle{"secretKey/wif-uncompressed", []byte(wifEncode(key, false))})
	return c
}
