// C18 — Wallet encryption protects secrets and decryption is robust.
//
// Monitor A (secrecy, round trip): for every lockable wallet kind and both ciphers the harness
// collects the secret corpus (seed, last seed, passphrase, every secret key, bip44 account
// private keys — plain, hex, base64 re-encodings), locks the wallet and scans the serialised
// form, the file Save writes and the decoded `secrets` blob for any of it; addresses/public keys
// must be unchanged; >= 20 other passwords (neighbours of the real one) must be rejected and leave
// the wallet untouched; Unlock with the password must give back identical entries, secrets and
// serialisation (modulo the encryption flag fields); for bip44, addresses derived while locked
// gain their (reference-checked) secrets on unlock. The wallet's coin type (skycoin / bitcoin,
// coin.go) is a dimension of the construction: one wallet in three is a bitcoin wallet, whose
// file carries base58check addresses and wallet-import-format secret keys (searched for as such;
// restored secrets are compared as raw key bytes). A control decides the restart branch: when
// the loader refuses the wallet's PLAIN file already, the locked file is not expected to load.
//
// Monitor L (legacy.go): the same oracle for wallets LOADED FROM FILES with incomplete or edited
// metadata (the repository's old *.wlt fixtures and structured mutations of current files), the
// expected secrets read from the file by the harness.
//
// Monitor B (robust decryption): Decrypt of arbitrary bytes, in a child process, each batch of
// inputs written to disk first and every input announced before the call. Oracle: success only
// for an unmodified ciphertext with the right password and then with the right plaintext;
// otherwise an error; never a panic or a dead child.
package main

import (
	"bufio"
	"bytes"
	"crypto/sha256"
	"encoding/base64"
	"encoding/hex"
	"encoding/json"
	"fmt"
	"io/ioutil"
	"math/rand"
	"os"
	"path/filepath"
	"reflect"
	"strconv"
	"strings"
	"time"

	"github.com/skycoin/skycoin/src/cipher"
	"github.com/skycoin/skycoin/src/cipher/bip32"
	"github.com/skycoin/skycoin/src/cipher/crypto"
	"github.com/skycoin/skycoin/src/cipher/encrypt"
	"github.com/skycoin/skycoin/src/wallet"
	"github.com/skycoin/skycoin/src/wallet/bip44wallet"
	_ "github.com/skycoin/skycoin/src/wallet/collection"
	_ "github.com/skycoin/skycoin/src/wallet/deterministic"

	"verif/lib/vf"
	"verif/lib/wfix"
)

func main() {
	if vf.ChildMode() == "decrypt" {
		childDecrypt(os.Args[1])
		return
	}
	wfix.Quiet()
	r := vf.Start("C18", "exploration")

	only := os.Getenv("VERIF_C18_ONLY") // development aid: "A", "B" or "L" (the floors of the other monitors then fail)

	// ---- monitor L (wallet files: legacy / edited metadata), see legacy.go. Its few cases that
	// need the default scrypt keep running in the background while A and B work ----
	waitL := func() {}
	if only == "" || only == "L" {
		waitL = monitorL(r)
	}

	// ---- monitor A ----
	nA := r.Pick(300, 5000)
	if !r.Quick() && only != "L" {
		// the default (N=2^20, ~1 GiB) scrypt registration, sequentially, a couple of times
		for i := 0; i < 2; i++ {
			roundTrip(r, -1-i, true)
		}
	}
	if only == "B" || only == "L" {
		nA = 0
	}
	vf.Parallel(nA, 16, func(i int) {
		panicked, msg, frame := vf.Recover(func() { roundTrip(r, i, false) })
		if panicked {
			r.Violation("panic", map[string]string{"monitor": "A", "frame": frame, "msg": msg}, map[string]interface{}{"round_trip": i})
		}
	})

	// ---- monitor B ----
	if only != "A" && only != "L" {
		monitorB(r)
	}
	waitL()

	q := r.Quick()
	fl := func(k string, qv, tv int64) {
		if q {
			r.Floor(k, qv)
		} else {
			r.Floor(k, tv)
		}
	}
	for _, k := range []string{"deterministic", "bip44", "collection"} {
		fl("A.roundtrip."+k+".sha256-xor", 50, 900)
		fl("A.roundtrip."+k+".scrypt-chacha20poly1305-insecure", 6, 150)
		fl("A.roundtrip."+k+".coin.skycoin", 35, 700)
		fl("A.roundtrip."+k+".coin.bitcoin", 15, 300)
	}
	for _, c := range coinTypes {
		fl("A.roundtrip.coin."+string(c)+".sha256-xor", 50, 900)
		fl("A.roundtrip.coin."+string(c)+".scrypt-chacha20poly1305-insecure", 5, 100)
		fl("A.unlock.via_reloaded_file.coin."+string(c), 10, 250)
	}
	if !q {
		r.Floor("A.roundtrip.default_scrypt", 2)
	}
	fl("A.wrong_password.rejected", 6000, 100000)
	fl("A.corpus.needles_searched", 8000, 120000)
	fl("A.corpus.present_before_lock", 1200, 20000)
	fl("A.unlock.identical", 300, 5000)
	fl("A.unlock.via_reloaded_file", 80, 1200)
	fl("A.bip44.locked_generation.secrets_gained", 100, 1500)
	fl("A.bip44.locked_generation.secrets_gained.coin.bitcoin", 25, 400)
	floorsL(r, fl)
	fl("B.inputs", 40000, 2000000)
	for _, c := range []string{"sha256-xor", "scrypt-chacha20poly1305"} {
		fl("B."+c+".valid.accepted", 100, 4000)
		fl("B."+c+".valid.wrong_password.rejected", 100, 4000)
		fl("B."+c+".text_mutation", 2000, 80000)
		fl("B."+c+".raw_mutation", 2000, 80000)
		fl("B."+c+".random_bytes", 800, 40000)
		fl("B."+c+".random_base64", 1000, 40000)
		fl("B."+c+".same_raw_other_text.accepted_or_rejected", 50, 2000)
	}
	fl("B.scrypt-chacha20poly1305.crafted_meta", 5000, 250000)
	fl("B.scrypt-chacha20poly1305.crafted_meta.reached_aead", 300, 15000)
	fl("B.scrypt-chacha20poly1305.crafted_prefix", 1200, 60000)
	fl("B.sha256-xor.crafted_checksum", 1500, 60000)
	r.Finish("A: wallets (deterministic / bip44 incl. change chain and second account / collection; coin type skycoin or, one in three, bitcoin) with random seeds, passphrases and passwords, locked with sha256-xor or scrypt (insecure registration; the default one twice in the thorough tier); L: wallet files (the repository's *.wlt fixtures and serialisations of fresh wallets, every other one of these a bitcoin wallet) passed through a structured JSON mutator of the optional meta fields (removed / empty / version-0.1 profile / coin alias / no crypto type), loaded with wallet.Load, then locked, saved, reloaded, opened with other passwords and the right one, locked again with a second password - expected secrets taken from the file by the harness' own JSON model; B: per cipher random bytes, random base64, valid ciphertexts (right/wrong password), every kind of text- and raw-level deletion/truncation/bit flip, and structured metadata (length prefix, JSON fields, scrypt parameters, nonce/salt sizes; for sha256-xor payload edits with a recomputed outer checksum); all drawn from the run seed",
		"harness safety bound: crafted scrypt metadata keeps N*r <= 2^15, p <= 4, keyLen <= 1024 (a crafted N=2^30 would make the code allocate terabytes; that resource question is outside this check)",
		"the secret scan looks for plain, hex (both cases), base64 (std/raw/url) and, for secret keys, wallet-import-format (compressed and uncompressed, harness' own base58check) encodings and, for mnemonics, every run of four consecutive words; other encodings are not searched",
		"A: a wallet whose plain (never locked) file the loader refuses is followed in memory only (counter A.control.plain_file_refused_by_loader.*): on this tree that is every collection wallet of coin type bitcoin made by the constructor, which writes skycoin addresses into it (proposed fix collection-coin-address.diff); L writes such files with the coin's addresses itself, so the file path of that class is covered there",
		"a hang of the decrypt child is reported as inconclusive, not as a violation",
		"L: a mutated file the loader refuses (error, or a panic inside the loader) is counted and dropped, and so is a file the loader accepts although its own IsEncrypted cannot read the flag; meta fields that are absent and fields that are empty are treated as equal when comparing the serialisation before lock and after unlock; files without a crypto type cost a default-scrypt derivation per step, so that class is small (3 files in the quick tier, one other password on one of them)")
}

// =====================================================================================
// Monitor A

type needle struct {
	what string
	b    []byte
}

func encodings(what string, raw []byte, isText bool) []needle {
	var out []needle
	add := func(suffix string, b []byte) {
		if len(b) >= 6 {
			out = append(out, needle{what + suffix, b})
		}
	}
	if isText {
		add("", raw)
	} else {
		add("/raw", raw)
	}
	add("/hex", []byte(hex.EncodeToString(raw)))
	add("/HEX", []byte(strings.ToUpper(hex.EncodeToString(raw))))
	if len(raw) >= 6 {
		add("/b64", []byte(strings.TrimRight(base64.StdEncoding.EncodeToString(raw[:len(raw)/3*3]), "=")))
		add("/b64url", []byte(strings.TrimRight(base64.URLEncoding.EncodeToString(raw[:len(raw)/3*3]), "=")))
	}
	return out
}

type snapshot struct {
	ser     []byte
	entries []wfix.FlatEntry
	seed    string
	last    string
	pass    string
	xprvs   []string
}

func snap(w wallet.Wallet) snapshot {
	s := snapshot{seed: w.Seed(), last: w.LastSeed(), pass: w.SeedPassphrase()}
	s.ser, _ = w.Serialize()
	s.entries, _ = wfix.AllEntries(w)
	if w.Type() == wallet.WalletTypeBip44 {
		var doc struct {
			Accounts []struct {
				PrivateKey string `json:"private_key"`
			} `json:"accounts"`
		}
		_ = json.Unmarshal(s.ser, &doc)
		for _, a := range doc.Accounts {
			if a.PrivateKey != "" {
				s.xprvs = append(s.xprvs, a.PrivateKey)
			}
		}
	}
	return s
}

func corpusOf(s snapshot, kind string) []needle {
	var c []needle
	if s.seed != "" {
		c = append(c, encodings("seed", []byte(s.seed), true)...)
		words := strings.Fields(s.seed)
		if len(words) >= 12 {
			for i := 0; i+4 <= len(words); i++ {
				c = append(c, needle{"seed/words", []byte(strings.Join(words[i:i+4], " "))})
			}
		}
	}
	if s.last != "" && s.last != s.seed {
		c = append(c, needle{"lastSeed", []byte(s.last)})
		c = append(c, needle{"lastSeed/HEX", []byte(strings.ToUpper(s.last))})
		if raw, err := hex.DecodeString(s.last); err == nil {
			c = append(c, encodings("lastSeed", raw, false)[0:]...)
		}
	}
	if s.pass != "" {
		c = append(c, encodings("seedPassphrase", []byte(s.pass), true)...)
	}
	for _, fe := range s.entries {
		if fe.E.Secret != (cipher.SecKey{}) {
			c = append(c, secretKeyNeedles(fe.E.Secret[:])...)
		}
	}
	for _, x := range s.xprvs {
		c = append(c, needle{"accountPrivateKey", []byte(x)})
		if k, err := bip32.DeserializeEncodedPrivateKey(x); err == nil {
			c = append(c, encodings("accountPrivateKey/key", k.Key, false)...)
		}
	}
	return c
}

// scanFor returns the first needle found in any of the haystacks
func scanFor(c []needle, hay ...[]byte) (string, bool) {
	for _, n := range c {
		for _, h := range hay {
			if bytes.Contains(h, n.b) {
				return n.what, true
			}
		}
	}
	return "", false
}

func metaOf(ser []byte) map[string]string {
	var doc struct {
		Meta map[string]string `json:"meta"`
	}
	_ = json.Unmarshal(ser, &doc)
	return doc.Meta
}

// stripFlags parses a serialisation and removes the fields that legitimately differ between
// the never-locked and the unlocked wallet
func stripFlags(ser []byte) (interface{}, error) {
	var doc map[string]interface{}
	if err := json.Unmarshal(ser, &doc); err != nil {
		return nil, err
	}
	if m, ok := doc["meta"].(map[string]interface{}); ok {
		delete(m, "encrypted")
		delete(m, "secrets")
		delete(m, "cryptoType")
	}
	return doc, nil
}

func sameEntries(a, b []wfix.FlatEntry, withSecrets bool) string {
	if len(a) != len(b) {
		return fmt.Sprintf("%d entries vs %d", len(a), len(b))
	}
	for i := range a {
		x, y := a[i], b[i]
		if x.Account != y.Account || x.Chain != y.Chain || x.Index != y.Index ||
			x.E.Address.String() != y.E.Address.String() || x.E.Public != y.E.Public || x.E.ChildNumber != y.E.ChildNumber {
			return fmt.Sprintf("entry %d (account %d chain %d index %d) differs", i, x.Account, x.Chain, x.Index)
		}
		if withSecrets && x.E.Secret != y.E.Secret {
			return fmt.Sprintf("secret of entry %d (%s) differs", i, x.E.Address)
		}
	}
	return ""
}

type otherPassword struct {
	how string
	pw  []byte
}

// wrongPasswords lists passwords different from pw: its neighbours first, then bit flips and
// unrelated ones
func wrongPasswords(rng *rand.Rand, pw []byte, n int) []otherPassword {
	s := string(pw)
	out := []otherPassword{
		{"trailing-nul", []byte(s + "\x00")},
		{"upper-case", []byte(strings.ToUpper(s))}, {"lower-case", []byte(strings.ToLower(s))},
		{"drop-last", []byte(s[:len(s)-1])}, {"drop-first", []byte(s[1:])},
		{"trailing-space", []byte(s + " ")}, {"leading-space", []byte(" " + s)}, {"leading-nul", []byte("\x00" + s)},
		{"doubled", []byte(s + s)}, {"suffix", []byte(s + "1")}, {"prefix", []byte("x" + s)}, {"trailing-newline", []byte(s + "\n")},
		{"first-half", []byte(s[:len(s)/2])}, {"second-half", []byte(s[len(s)/2:])},
		{"unrelated", []byte("password")}, {"unrelated", []byte("pw")}, {"nul-only", []byte{0}},
		{"one-char-replaced", []byte(s[:2] + "#" + s[3:])},
	}
	if len(pw) > 64 {
		// HMAC replaces keys longer than its block by their hash
		h := sha256.Sum256(pw)
		out = append([]otherPassword{{"hmac-hashed-long-key", h[:]}}, out...)
	}
	for len(out) < n+4 {
		b := append([]byte(nil), pw...)
		if rng.Intn(2) == 0 {
			b[rng.Intn(len(b))] ^= 1 << uint(rng.Intn(8))
			out = append(out, otherPassword{"bit-flip", b})
		} else {
			out = append(out, otherPassword{"unrelated", []byte(wfix.RandToken(rng, 1+rng.Intn(16)))})
		}
	}
	res := []otherPassword{}
	for _, o := range out {
		if !bytes.Equal(o.pw, pw) && len(o.pw) > 0 && len(res) < n {
			res = append(res, o)
		}
	}
	return res
}

func roundTrip(r *vf.Run, i int, defaultScrypt bool) {
	rng := r.Rand("A", i)
	kind := []string{wallet.WalletTypeDeterministic, wallet.WalletTypeBip44, wallet.WalletTypeCollection}[rng.Intn(3)]
	coin := drawCoin(rng) // see coin.go
	ct := crypto.CryptoTypeSha256Xor
	if rng.Intn(6) == 0 {
		ct = crypto.CryptoTypeScryptChacha20poly1305Insecure
	}
	if defaultScrypt {
		ct = crypto.CryptoTypeScryptChacha20poly1305
	}
	pw := []byte("Pw-" + wfix.RandToken(rng, 5+rng.Intn(10)))
	if rng.Intn(8) == 0 {
		pw = []byte("Long-" + wfix.RandToken(rng, 62+rng.Intn(20))) // longer than the HMAC block
	}
	id := fmt.Sprintf("rt%d", i)
	trace := []string{}
	logf := func(f string, a ...interface{}) { trace = append(trace, fmt.Sprintf(f, a...)) }

	var w wallet.Wallet
	var err error
	switch kind {
	case wallet.WalletTypeDeterministic:
		seed := wfix.SeedString(rng)
		w, err = wallet.NewWallet(id+".wlt", "label-"+id, seed, wallet.Options{Type: kind, Coin: coin, GenerateN: uint64(1 + rng.Intn(8))})
		logf("deterministic coin=%s seed=%q", coin, seed)
	case wallet.WalletTypeBip44:
		seed := wfix.Mnemonic(rng)
		pass := ""
		if rng.Intn(3) > 0 {
			pass = "Phrase-" + wfix.RandToken(rng, 6+rng.Intn(8))
		}
		w, err = wallet.NewWallet(id+".wlt", "label-"+id, seed, wallet.Options{Type: kind, Coin: coin, SeedPassphrase: pass, GenerateN: uint64(1 + rng.Intn(5))})
		if err == nil {
			if k := rng.Intn(4); k > 0 {
				_, err = w.GenerateAddresses(wallet.OptionGenerateN(uint64(k)), wallet.OptionChange())
			}
		}
		if err == nil && rng.Intn(3) == 0 {
			if _, err = w.(*bip44wallet.Wallet).NewAccount("second"); err == nil {
				_, err = w.GenerateAddresses(wallet.OptionGenerateN(uint64(1+rng.Intn(3))), wallet.OptionAccount(1))
			}
		}
		logf("bip44 coin=%s seed=%q pass=%q", coin, seed, pass)
	case wallet.WalletTypeCollection:
		keys := make([]cipher.SecKey, 1+rng.Intn(6))
		for j := range keys {
			keys[j] = wfix.SecKey(rng)
		}
		w, err = wallet.NewWallet(id+".wlt", "label-"+id, "", wallet.Options{Type: kind, Coin: coin, CollectionPrivateKeys: keys})
		logf("collection coin=%s %d keys", coin, len(keys))
	}
	attrs := func(extra ...string) map[string]string {
		m := map[string]string{"monitor": "A", "wallet": kind, "coin": string(coin), "cipher": string(ct)}
		for j := 0; j+1 < len(extra); j += 2 {
			m[extra[j]] = extra[j+1]
		}
		return m
	}
	if err != nil {
		r.Violation("harness-create-failed", attrs("error", err.Error()), trace)
		return
	}
	if w.Coin() != coin {
		r.Violation("harness-create-failed", attrs("error", "constructor ignored the coin type: "+string(w.Coin())), trace)
		return
	}
	w.SetCryptoType(ct)
	pre := snap(w)
	corpus := corpusOf(pre, kind)
	witness := func(extra map[string]interface{}) map[string]interface{} {
		ws, _ := w.Serialize()
		m := map[string]interface{}{"round_trip": i, "trace": trace, "password": string(pw), "before_lock": string(pre.ser), "wallet_now": string(ws)}
		for k, v := range extra {
			m[k] = v
		}
		return m
	}
	r.Eval(1)
	// sanity of the scan itself: the plain secrets are visible before locking
	for _, n := range corpus {
		if !strings.Contains(n.what, "/") || n.what == secretTextEncoding(coin) {
			if bytes.Contains(pre.ser, n.b) {
				r.Count("A.corpus.present_before_lock", 1)
			} else {
				r.Violation("harness-corpus-not-in-plain-wallet", attrs("what", n.what), witness(nil))
			}
		}
	}

	// control for the restart branch below: does the loader read this wallet's file at all (before
	// any locking)? If not, that the locked file does not load either says nothing about locking.
	dir := vf.TempDir("c18a")
	defer os.RemoveAll(dir)
	plainLoads := false
	if cdir := filepath.Join(dir, "plain"); os.MkdirAll(cdir, 0700) == nil && wallet.Save(w, cdir) == nil {
		vf.Recover(func() {
			w0, err := wallet.Load(filepath.Join(cdir, w.Filename()))
			plainLoads = err == nil && w0 != nil
		})
		os.RemoveAll(cdir)
	}
	if !plainLoads {
		r.Count("A.control.plain_file_refused_by_loader."+kind+"."+string(coin), 1)
	}

	// ---- Lock ----
	logf("lock %s", ct)
	if err := w.Lock(pw); err != nil {
		r.Violation("lock-failed", attrs("error", err.Error()), witness(nil))
		return
	}
	locked := snap(w)
	if !w.IsEncrypted() {
		r.Violation("not-encrypted-after-lock", attrs(), witness(nil))
	}
	hay := [][]byte{locked.ser}
	if err := wallet.Save(w, dir); err != nil {
		r.Violation("save-failed", attrs("error", err.Error()), witness(nil))
		return
	}
	files, _ := ioutil.ReadDir(dir)
	for _, f := range files {
		b, _ := ioutil.ReadFile(filepath.Join(dir, f.Name()))
		hay = append(hay, b)
	}
	if len(hay) < 2 {
		r.Violation("save-wrote-nothing", attrs(), witness(nil))
	}
	m := metaOf(locked.ser)
	if raw, err := base64.StdEncoding.DecodeString(m["secrets"]); err == nil {
		hay = append(hay, raw)
	}
	// the accessor values are part of the serialised meta; list them too
	hay = append(hay, []byte("seed="+w.Seed()+" last="+w.LastSeed()+" pass="+w.SeedPassphrase()))
	r.Count("A.corpus.needles_searched", int64(len(corpus)))
	if what, found := scanFor(corpus, hay...); found {
		r.Violation("secret-visible-after-lock", attrs("secret", strings.SplitN(what, "/", 2)[0], "encoding", what), witness(nil))
	}
	for _, fe := range locked.entries {
		if fe.E.Secret != (cipher.SecKey{}) {
			r.Violation("secret-visible-after-lock", attrs("secret", "secretKey", "encoding", "in-memory entry"), witness(nil))
			break
		}
	}
	if d := sameEntries(pre.entries, locked.entries, false); d != "" {
		r.Violation("addresses-changed-by-lock", attrs("detail", d), witness(nil))
	}

	// continue with the wallet as a restarted node would see it, half of the time
	reloaded := false
	if rng.Intn(2) == 0 && plainLoads {
		w2, err := wallet.Load(filepath.Join(dir, w.Filename()))
		if err != nil || w2 == nil {
			r.Violation("locked-wallet-does-not-load", attrs("error", fmt.Sprint(err)), witness(nil))
			return
		}
		w = w2
		reloaded = true
		logf("reloaded from file")
	}

	// ---- other passwords ----
	nwp := 28
	if ct != crypto.CryptoTypeSha256Xor {
		nwp = 20 // each attempt costs a key derivation
	}
	if defaultScrypt {
		nwp = 3
	}
	wp := wrongPasswords(rng, pw, nwp)
	before, _ := w.Serialize()
	for _, p := range wp {
		got, err := w.Unlock(p.pw)
		if err == nil || got != nil {
			r.Count("A.wrong_password.accepted."+p.how, 1)
			r.Violation("wrong-password-accepted", attrs("neighbour", p.how), witness(map[string]interface{}{"tried_hex": hex.EncodeToString(p.pw), "neighbour": p.how}))
			continue
		}
		r.Count("A.wrong_password.rejected", 1)
	}
	for _, p := range [][]byte{nil, {}} {
		if got, err := w.Unlock(p); err == nil || got != nil {
			r.Violation("wrong-password-accepted", attrs("neighbour", "empty"), witness(nil))
		}
	}
	after, _ := w.Serialize()
	if !bytes.Equal(before, after) {
		r.Violation("wallet-changed-by-rejected-unlock", attrs(), witness(map[string]interface{}{"before": string(before)}))
	}

	// ---- Unlock ----
	logf("unlock")
	u, err := w.Unlock(pw)
	if err != nil || u == nil {
		r.Violation("unlock-failed", attrs("error", fmt.Sprint(err)), witness(nil))
		return
	}
	us := snap(u)
	okAll := true
	if u.IsEncrypted() {
		r.Violation("still-encrypted-after-unlock", attrs(), witness(nil))
		okAll = false
	}
	if us.seed != pre.seed || us.last != pre.last || us.pass != pre.pass {
		r.Violation("seed-not-restored", attrs("detail", fmt.Sprintf("seed %v lastSeed %v passphrase %v", us.seed == pre.seed, us.last == pre.last, us.pass == pre.pass)), witness(map[string]interface{}{"unlocked": string(us.ser)}))
		okAll = false
	}
	if d := sameEntries(pre.entries, us.entries, true); d != "" {
		r.Violation("entries-not-restored", attrs("detail", d), witness(map[string]interface{}{"unlocked": string(us.ser)}))
		okAll = false
	}
	a, e1 := stripFlags(pre.ser)
	b, e2 := stripFlags(us.ser)
	if e1 != nil || e2 != nil || !reflect.DeepEqual(a, b) {
		r.Violation("serialisation-not-restored", attrs(), witness(map[string]interface{}{"unlocked": string(us.ser)}))
		okAll = false
	}
	if mu := metaOf(us.ser); mu["encrypted"] != "false" || mu["secrets"] != "" {
		r.Violation("flags-after-unlock", attrs("encrypted", mu["encrypted"]), witness(nil))
		okAll = false
	}
	if okAll {
		r.Count("A.unlock.identical", 1)
		if reloaded {
			r.Count("A.unlock.via_reloaded_file", 1)
		}
		if defaultScrypt {
			r.Count("A.roundtrip.default_scrypt", 1)
		} else {
			r.Count("A.roundtrip."+kind+"."+string(ct), 1)
			r.Count("A.roundtrip."+kind+".coin."+string(coin), 1)
			r.Count("A.roundtrip.coin."+string(coin)+"."+string(ct), 1)
			if reloaded {
				r.Count("A.unlock.via_reloaded_file.coin."+string(coin), 1)
			}
		}
		r.Distinct(fmt.Sprintf("%s/%s/%s/%d/%x", kind, coin, ct, len(pre.entries), sha256.Sum256(pre.ser)))
		r.Sample(map[string]interface{}{"monitor": "A", "wallet": kind, "coin": string(coin), "cipher": string(ct), "entries": len(pre.entries), "needles": len(corpus), "other_passwords_tried": len(wp), "reloaded_from_file": reloaded})
	}

	// ---- bip44: addresses derived while locked gain their secrets on unlock ----
	if kind == wallet.WalletTypeBip44 && !defaultScrypt {
		cache := wfix.NewRefPubCache()
		k1, k2 := 1+rng.Intn(4), rng.Intn(3)
		logf("while locked: +%d external, +%d change", k1, k2)
		if _, err := w.GenerateAddresses(wallet.OptionGenerateN(uint64(k1))); err != nil {
			r.Violation("locked-generation-failed", attrs("error", err.Error()), witness(nil))
			return
		}
		if k2 > 0 {
			if _, err := w.GenerateAddresses(wallet.OptionGenerateN(uint64(k2)), wallet.OptionChange()); err != nil {
				r.Violation("locked-generation-failed", attrs("error", err.Error()), witness(nil))
				return
			}
		}
		ls := snap(w)
		if what, found := scanFor(corpus, ls.ser); found {
			r.Violation("secret-visible-after-lock", attrs("secret", strings.SplitN(what, "/", 2)[0], "encoding", what, "phase", "after locked generation"), witness(nil))
		}
		u2, err := w.Unlock(pw)
		if err != nil || u2 == nil {
			r.Violation("unlock-failed", attrs("error", fmt.Sprint(err), "phase", "after locked generation"), witness(nil))
			return
		}
		es, _ := wfix.AllEntries(u2)
		if len(es) != len(pre.entries)+k1+k2 {
			r.Violation("entries-not-restored", attrs("detail", "count after locked generation"), witness(nil))
			return
		}
		old := map[string]cipher.SecKey{}
		for _, fe := range pre.entries {
			old[fe.E.Address.String()] = fe.E.Secret
		}
		gained := 0
		for _, fe := range es {
			if s, was := old[fe.E.Address.String()]; was {
				if s != fe.E.Secret {
					r.Violation("entries-not-restored", attrs("detail", "old secret changed after locked generation"), witness(nil))
					return
				}
				continue
			}
			if fe.E.Secret == (cipher.SecKey{}) {
				r.Violation("secret-missing-for-address-derived-while-locked", attrs("address", fe.E.Address.String()), witness(nil))
				return
			}
			if err := wfix.CheckEntry(coin, fe.E, cache); err != nil {
				r.Violation("secret-wrong-for-address-derived-while-locked", attrs("detail", err.Error()), witness(nil))
				return
			}
			if fe.E.ChildNumber != uint32(fe.Index) {
				r.Violation("child-number", attrs("address", fe.E.Address.String()), witness(nil))
				return
			}
			gained++
		}
		if gained != k1+k2 {
			r.Violation("entries-not-restored", attrs("detail", "new entries after locked generation"), witness(nil))
			return
		}
		r.Count("A.bip44.locked_generation.secrets_gained", int64(gained))
		r.Count("A.bip44.locked_generation.secrets_gained.coin."+string(coin), int64(gained))
		// and a later unlock with another password is still refused
		if got, err := w.Unlock(wp[len(wp)-1].pw); err == nil || got != nil {
			r.Violation("wrong-password-accepted", attrs("neighbour", wp[len(wp)-1].how, "phase", "after locked generation"), witness(nil))
		}
	}
}

// =====================================================================================
// Monitor B

const (
	cSha  = "sha256-xor"
	cScr  = "scrypt-chacha20poly1305"
	batch = 2500
)

type valid struct {
	cipher string
	text   []byte // ciphertext as produced by Encrypt
	raw    []byte // its base64 decoding
	pw     []byte
	plain  []byte
	heavy  bool // decryption costs tens of ms: mutate sparingly
}

type input struct {
	cipher string
	pw     []byte
	data   []byte
	class  string
	base   *valid // the ciphertext this input was derived from (nil: none)
	must   bool   // must decrypt
	sub    string // counter suffix
	how    string // for wrong-password inputs: relation to the right password
}

func rawDecode(b []byte) ([]byte, bool) {
	out := make([]byte, base64.StdEncoding.DecodedLen(len(b)))
	n, err := base64.StdEncoding.Decode(out, b)
	if err != nil {
		return nil, false
	}
	return out[:n], true
}

func b64(raw []byte) []byte { return []byte(base64.StdEncoding.EncodeToString(raw)) }

func makePool(r *vf.Run) []*valid {
	rng := r.Rand("B", "pool")
	var pool []*valid
	lens := []int{0, 1, 2, 27, 28, 29, 31, 32, 33, 59, 60, 61, 64, 100, 255, 300}
	for i := 0; i < 48; i++ {
		l := lens[i%len(lens)]
		plain := wfix.RandBytes(rng, l)
		if i%5 == 0 {
			plain = []byte(fmt.Sprintf(`{"seed":"%s","lastSeed":"%x"}`, wfix.RandToken(rng, 20), wfix.RandBytes(rng, 32)))
		}
		pw := []byte("pw-" + wfix.RandToken(rng, 1+rng.Intn(12)))
		// sha256-xor
		t, err := encrypt.Sha256Xor{}.Encrypt(plain, pw)
		if err != nil {
			panic(err)
		}
		raw, _ := rawDecode(t)
		pool = append(pool, &valid{cSha, t, raw, pw, plain, false})
		// scrypt with small work factors (Decrypt takes the factors from the metadata)
		enc := encrypt.ScryptChacha20poly1305{N: 1 << uint(1+rng.Intn(8)), R: 1 + rng.Intn(4), P: 1 + rng.Intn(2), KeyLen: 32}
		heavy := false
		if i == 7 || i == 29 {
			enc = encrypt.ScryptChacha20poly1305{N: 1 << 15, R: 8, P: 1, KeyLen: 32} // the "insecure" registration
			heavy = true
		}
		t, err = enc.Encrypt(plain, pw)
		if err != nil {
			panic(err)
		}
		raw, _ = rawDecode(t)
		pool = append(pool, &valid{cScr, t, raw, pw, plain, heavy})
	}
	return pool
}

func pickValid(rng *rand.Rand, pool []*valid, c string, allowHeavy bool) *valid {
	for {
		v := pool[rng.Intn(len(pool))]
		if v.cipher == c && (allowHeavy || !v.heavy) {
			return v
		}
	}
}

func otherPw(rng *rand.Rand, pw []byte) ([]byte, string) {
	s := string(pw)
	c := []otherPassword{{"upper-case", []byte(strings.ToUpper(s))}, {"trailing-space", []byte(s + " ")}, {"drop-last", []byte(s[:len(s)-1])},
		{"trailing-nul", []byte(s + "\x00")}, {"unrelated", []byte("x")}, {"unrelated", []byte(wfix.RandToken(rng, 8))}, {"leading-nul", []byte("\x00" + s)}}
	p := c[rng.Intn(len(c))]
	if bytes.Equal(p.pw, pw) || len(p.pw) == 0 {
		return []byte(s + "!"), "suffix"
	}
	return p.pw, p.how
}

// scryptMeta crafts the JSON metadata of a scrypt-chacha ciphertext
func scryptMeta(rng *rand.Rand) (string, bool) {
	if rng.Intn(12) == 0 {
		odd := []string{"null", "[]", `"x"`, "123", "{}", `{"n":"16"}`, `{"n":1e99,"r":1,"p":1}`, `{"n":16,"r":1,"p":1,"keyLen":32,"salt":"!!","nonce":"AAAA"}`,
			`{"n":16,"r":1,"p":1,"keyLen":32,"salt":"AAAA","nonce":123}`, `{"n":16,"r":1.5,"p":1}`, `{"n":16,"r":1,"p":1,"keyLen":32,"salt":null,"nonce":null}`, "{", "", "tru",
			`{"N":16,"R":1,"P":1,"KEYLEN":32,"SALT":"AAAA","NONCE":"AAAAAAAAAAAAAAAA"}`, `{"n":16,"n":0,"r":1,"p":1,"keyLen":32,"salt":"","nonce":"AAAAAAAAAAAAAAAA"}`}
		return odd[rng.Intn(len(odd))], false
	}
	if rng.Intn(4) == 0 {
		// a well-formed header with at most one field off: most of these reach the AEAD
		n, rr, p, k, nl, sl := 1<<uint(1+rng.Intn(10)), 1+rng.Intn(2), 1+rng.Intn(2), 32, 12, 32
		switch rng.Intn(8) {
		case 0:
			n = []int{0, 1, 3, -2}[rng.Intn(4)]
		case 1:
			rr = []int{0, -1}[rng.Intn(2)]
		case 2:
			p = []int{0, -1}[rng.Intn(2)]
		case 3:
			k = []int{0, 31, 33, -1}[rng.Intn(4)]
		case 4:
			nl = []int{0, 11, 13, 24}[rng.Intn(4)]
		case 5:
			sl = rng.Intn(65)
		}
		meta := fmt.Sprintf(`{"n":%d,"r":%d,"p":%d,"keyLen":%d,"salt":"%s","nonce":"%s"}`, n, rr, p, k,
			base64.StdEncoding.EncodeToString(wfix.RandBytes(rng, sl)), base64.StdEncoding.EncodeToString(wfix.RandBytes(rng, nl)))
		return meta, n > 1 && n&(n-1) == 0 && rr > 0 && p > 0 && k == 32 && nl == 12
	}
	ns := []int{0, 1, 2, 3, 4, 5, 8, 16, 16, 16, 64, 256, 1024, 4096, 32768, -1, -2, -16}
	rs := []int{0, 1, 1, 1, 2, 8, -1, -2}
	ps := []int{0, 1, 1, 1, 2, 3, -1, -2}
	kl := []int{0, 1, 16, 31, 32, 32, 32, 32, 33, 64, -1, -32, 1024}
	n, rr, p, k := ns[rng.Intn(len(ns))], rs[rng.Intn(len(rs))], ps[rng.Intn(len(ps))], kl[rng.Intn(len(kl))]
	// harness safety bound
	if n > 0 && rr > 0 && n*rr > 1<<15 {
		rr = 1
	}
	nl := []int{0, 1, 8, 11, 12, 12, 12, 12, 13, 16, 24}[rng.Intn(11)]
	if rng.Intn(4) == 0 {
		nl = rng.Intn(25)
	}
	sl := []int{0, 1, 16, 32, 32, 64}[rng.Intn(6)]
	if rng.Intn(4) == 0 {
		sl = rng.Intn(65)
	}
	fields := []string{
		fmt.Sprintf(`"n":%d`, n), fmt.Sprintf(`"r":%d`, rr), fmt.Sprintf(`"p":%d`, p), fmt.Sprintf(`"keyLen":%d`, k),
		fmt.Sprintf(`"salt":"%s"`, base64.StdEncoding.EncodeToString(wfix.RandBytes(rng, sl))),
		fmt.Sprintf(`"nonce":"%s"`, base64.StdEncoding.EncodeToString(wfix.RandBytes(rng, nl))),
	}
	if rng.Intn(6) == 0 { // drop a field
		j := rng.Intn(len(fields))
		fields = append(fields[:j], fields[j+1:]...)
		if j == 0 {
			n = 0
		}
		if j == 1 {
			rr = 0
		}
		if j == 2 {
			p = 0
		}
		if j == 3 {
			k = 0
		}
	}
	reach := n > 1 && n&(n-1) == 0 && rr > 0 && p > 0 && k == 32 && nl == 12
	hasNonce := false
	for _, f := range fields {
		if strings.HasPrefix(f, `"nonce"`) {
			hasNonce = true
		}
	}
	reach = reach && hasNonce
	return "{" + strings.Join(fields, ",") + "}", reach
}

func le16(n int) []byte { return []byte{byte(n), byte(n >> 8)} }

func genInput(rng *rand.Rand, pool []*valid) input {
	c := cSha
	if rng.Intn(2) == 0 {
		c = cScr
	}
	pw := []byte("pw-" + wfix.RandToken(rng, 1+rng.Intn(8)))
	switch x := rng.Intn(100); {
	case x < 6:
		l := rng.Intn(65)
		if rng.Intn(3) == 0 {
			l = rng.Intn(5)
		}
		return input{cipher: c, pw: pw, data: wfix.RandBytes(rng, l), class: "random_bytes"}
	case x < 14:
		l := rng.Intn(200)
		switch rng.Intn(3) {
		case 0:
			l = rng.Intn(8)
		case 1:
			l = rng.Intn(70)
		}
		d := b64(wfix.RandBytes(rng, l))
		if rng.Intn(8) == 0 { // whitespace only / newlines in between
			d = append([]byte("\n"), d...)
		}
		return input{cipher: c, pw: pw, data: d, class: "random_base64"}
	case x < 17:
		v := pickValid(rng, pool, c, rng.Intn(200) == 0)
		return input{cipher: c, pw: v.pw, data: v.text, class: "valid", base: v, must: true, sub: "valid.accepted"}
	case x < 20:
		v := pickValid(rng, pool, c, rng.Intn(200) == 0)
		p, how := otherPw(rng, v.pw)
		return input{cipher: c, pw: p, data: v.text, class: "valid_wrong_password", base: v, sub: "valid.wrong_password.rejected", how: how}
	case x < 21:
		return input{cipher: c, pw: nil, data: pickValid(rng, pool, c, false).text, class: "empty_password"}
	case x < 38:
		v := pickValid(rng, pool, c, false)
		t := append([]byte(nil), v.text...)
		j := rng.Intn(len(t))
		switch rng.Intn(6) {
		case 0:
			t = append(t[:j], t[j+1:]...) // delete a character
		case 1:
			t = t[:j] // truncate
		case 2:
			t[j] = "ABCDEFGHIJKLMNOPQRSTUVWXYZabcdefghijklmnopqrstuvwxyz0123456789+/=-_ \n"[rng.Intn(69)]
		case 3:
			t = append(t[:j], append([]byte{"A=\n\r !"[rng.Intn(6)]}, t[j:]...)...) // insert
		case 4:
			t = append(t, "A=\nQ"[rng.Intn(4)])
		case 5:
			t = append(t, t...)
		}
		return input{cipher: c, pw: v.pw, data: t, class: "text_mutation", base: v}
	case x < 56:
		v := pickValid(rng, pool, c, false)
		raw := append([]byte(nil), v.raw...)
		j := rng.Intn(len(raw))
		switch rng.Intn(5) {
		case 0:
			raw = append(raw[:j], raw[j+1:]...)
		case 1:
			raw = raw[:j]
		case 2:
			raw[j] ^= 1 << uint(rng.Intn(8))
		case 3:
			raw = append(raw, wfix.RandBytes(rng, 1+rng.Intn(33))...)
		case 4:
			raw[j] = byte(rng.Intn(256))
		}
		return input{cipher: c, pw: v.pw, data: b64(raw), class: "raw_mutation", base: v}
	case x < 60:
		// same raw bytes, another text (newlines, or non-canonical trailing bits): the statement
		// allows both outcomes; only "plaintext or error" is checked
		v := pickValid(rng, pool, c, false)
		t := append([]byte(nil), v.text...)
		j := rng.Intn(len(t)/4) * 4
		t = append(t[:j], append([]byte("\n"), t[j:]...)...)
		return input{cipher: c, pw: v.pw, data: t, class: "same_raw_other_text", base: v}
	}
	if c == cScr {
		if rng.Intn(5) == 0 {
			// length prefix games on an otherwise valid ciphertext or on filler
			v := pickValid(rng, pool, c, false)
			raw := append([]byte(nil), v.raw...)
			ml := int(raw[0]) | int(raw[1])<<8
			pref := []int{0, 1, 2, ml - 1, ml + 1, len(raw) - 2, len(raw) - 1, len(raw), 0xFFFD, 0xFFFE, 0xFFFF, rng.Intn(1 << 16)}[rng.Intn(12)]
			switch rng.Intn(4) {
			case 0: // only the prefix, or prefix + a few bytes
				raw = append(le16(pref), wfix.RandBytes(rng, rng.Intn(4))...)
			case 1:
				if rng.Intn(40) == 0 { // long body so that the wrapped bound is inside the data
					raw = append(le16([]int{0xFFFD, 0xFFFE, 0xFFFF}[rng.Intn(3)]), bytes.Repeat([]byte(" "), 0x10000+32)...)
				} else {
					raw = append(le16(pref), raw[2:]...)
				}
			default:
				raw = append(le16(pref), raw[2:]...)
			}
			return input{cipher: c, pw: v.pw, data: b64(raw), class: "crafted_prefix", base: v}
		}
		meta, reach := scryptMeta(rng)
		body := wfix.RandBytes(rng, []int{0, 1, 15, 16, 17, 32, 48}[rng.Intn(7)])
		raw := append(append(le16(len(meta)), meta...), body...)
		in := input{cipher: c, pw: pw, data: b64(raw), class: "crafted_meta"}
		if reach {
			in.sub = "crafted_meta.reached_aead"
		}
		return in
	}
	// sha256-xor: edit the payload and recompute the outer checksum so that the deeper checks run
	v := pickValid(rng, pool, c, false)
	pay := append([]byte(nil), v.raw[32:]...) // nonce + blocks
	switch rng.Intn(8) {
	case 0:
		pay = pay[:rng.Intn(len(pay)+1)]
	case 1:
		pay = pay[:32+rng.Intn(len(pay)-31)/32*32] // whole blocks only
	case 2:
		pay[rng.Intn(len(pay))] ^= 1 << uint(rng.Intn(8))
	case 3:
		pay = append(pay, wfix.RandBytes(rng, 32*(1+rng.Intn(3)))...)
	case 4:
		pay = append(pay, wfix.RandBytes(rng, 1+rng.Intn(31))...)
	case 5:
		pay = pay[:32] // nonce only
	case 6:
		pay = nil
	case 7:
		pay = wfix.RandBytes(rng, 32*(2+rng.Intn(4)))
	}
	sum := sha256.Sum256(pay)
	return input{cipher: c, pw: v.pw, data: b64(append(sum[:], pay...)), class: "crafted_checksum", base: v}
}

type result struct {
	started bool
	done    bool
	outcome string // ok / err / panic
	sum     string // sha256 of the plaintext (ok)
	detail  string // panic: frame|message
}

func monitorB(r *vf.Run) {
	pool := makePool(r)
	total := r.Pick(40000, 2000000)
	nb := (total + batch - 1) / batch
	vf.Parallel(nb, 16, func(bi int) {
		rng := r.Rand("B", "batch", bi)
		ins := make([]input, batch)
		for i := range ins {
			ins[i] = genInput(rng, pool)
		}
		if bi == 0 {
			// the boundary inputs always present
			fixed := [][]byte{{}, []byte("\n"), []byte("QQ=="), []byte("QUE="), []byte("AAAA"), []byte("/v8="), []byte("//8="), []byte("/f8=")}
			k := 0
			for _, c := range []string{cSha, cScr} {
				for _, d := range fixed {
					ins[k] = input{cipher: c, pw: []byte("pw"), data: d, class: "random_base64"}
					k++
				}
			}
		}
		runBatch(r, bi, ins)
	})
}

func runBatch(r *vf.Run, bi int, ins []input) {
	dir := vf.TempDir(fmt.Sprintf("c18b%d", bi))
	defer os.RemoveAll(dir)
	res := make([]result, len(ins))
	from := 0
	for attempt := 0; from < len(ins) && attempt < 50; attempt++ {
		// inputs go to disk before the child sees them
		path := filepath.Join(dir, fmt.Sprintf("inputs-%d.txt", attempt))
		var buf bytes.Buffer
		for i := from; i < len(ins); i++ {
			fmt.Fprintf(&buf, "%d %s %s- %s-\n", i, ins[i].cipher, hex.EncodeToString(ins[i].pw), hex.EncodeToString(ins[i].data))
		}
		if err := ioutil.WriteFile(path, buf.Bytes(), 0600); err != nil {
			r.Inconclusive("cannot write batch file: " + err.Error())
			return
		}
		cr := vf.RunChild(dir, "", "decrypt", []string{path}, nil, 10*time.Minute)
		last := -1
		sc := bufio.NewScanner(bytes.NewReader(cr.Stdout))
		sc.Buffer(make([]byte, 1<<20), 1<<24)
		for sc.Scan() {
			f := strings.SplitN(sc.Text(), " ", 4)
			if len(f) < 2 {
				continue
			}
			i, err := strconv.Atoi(f[1])
			if err != nil || i < 0 || i >= len(ins) {
				continue
			}
			switch f[0] {
			case "S":
				res[i].started = true
				last = i
			case "R":
				res[i].done = true
				res[i].outcome = f[2]
				if len(f) > 3 {
					if f[2] == "ok" {
						res[i].sum = f[3]
					} else {
						res[i].detail = f[3]
					}
				}
			}
		}
		if cr.TimedOut {
			r.Inconclusive(fmt.Sprintf("decrypt child timed out in batch %d at input %d (%s, class %s)", bi, last, ins[max(last, 0)].cipher, ins[max(last, 0)].class))
			return
		}
		if last >= 0 && !res[last].done {
			// the child died inside Decrypt(ins[last])
			head, frame := vf.CrashSignature(cr.Stderr)
			in := ins[last]
			r.Violation("child-died", map[string]string{"monitor": "B", "cipher": in.cipher, "class": in.class, "headline": head, "frame": frame},
				map[string]interface{}{"data_hex": hex.EncodeToString(in.data), "password_hex": hex.EncodeToString(in.pw), "stderr_head": string(cr.Stderr[:min(len(cr.Stderr), 2000)])})
			res[last].done = true
			res[last].outcome = "died"
			from = last + 1
			continue
		}
		if cr.ExitCode != 0 || last != len(ins)-1 {
			r.Inconclusive(fmt.Sprintf("decrypt child ended early in batch %d (exit %d, last input %d): %s", bi, cr.ExitCode, last, string(cr.Stderr[:min(len(cr.Stderr), 300)])))
			return
		}
		from = len(ins)
	}
	for i, in := range ins {
		evalB(r, in, res[i])
	}
}

func max(a, b int) int {
	if a > b {
		return a
	}
	return b
}
func min(a, b int) int {
	if a < b {
		return a
	}
	return b
}

func panicClass(detail string) string {
	switch {
	case strings.Contains(detail, "bad nonce length"):
		return "nonce-size"
	case strings.Contains(detail, "slice bounds out of range"):
		return "slice-bounds"
	case strings.Contains(detail, "index out of range"):
		return "index-range"
	case strings.Contains(detail, "divide by zero"):
		return "divide-by-zero"
	case strings.Contains(detail, "makeslice"):
		return "makeslice"
	}
	return "other"
}

func evalB(r *vf.Run, in input, res result) {
	if !res.done {
		return
	}
	r.Eval(1)
	r.Count("B.inputs", 1)
	r.Count("B."+in.cipher+"."+in.class, 1)
	r.Count("B.outcome."+res.outcome, 1)
	if in.sub == "crafted_meta.reached_aead" {
		r.Count("B."+in.cipher+"."+in.sub, 1) // header well-formed enough that only authentication can refuse it
		in.sub = ""
	}
	if key := sha256.Sum256(append([]byte(in.cipher+"|"+string(in.pw)+"|"), in.data...)); r.Quick() || key[0]&15 == 0 {
		r.DistinctBytes(key[:]) // (sampled 1/16 in the thorough tier to bound memory)
	}
	wit := func() map[string]interface{} {
		return map[string]interface{}{"cipher": in.cipher, "class": in.class, "data_hex": hex.EncodeToString(in.data), "data_text": printable(in.data),
			"password_hex": hex.EncodeToString(in.pw), "outcome": res.outcome, "detail": res.detail}
	}
	attrs := map[string]string{"monitor": "B", "cipher": in.cipher, "class": in.class}
	switch res.outcome {
	case "panic":
		f := strings.SplitN(res.detail, "|", 2)
		attrs["frame"] = f[0]
		if len(f) > 1 {
			attrs["msg"] = f[1]
		}
		attrs["panic_class"] = panicClass(res.detail)
		r.Count("B.panic."+in.cipher+"."+in.class+"."+attrs["panic_class"]+"@"+attrs["frame"], 1)
		r.Violation("panic", attrs, wit())
	case "ok":
		raw, dec := rawDecode(in.data)
		authentic := in.base != nil && dec && bytes.Equal(raw, in.base.raw) && bytes.Equal(in.pw, in.base.pw)
		if !authentic {
			if in.base != nil && dec && bytes.Equal(raw, in.base.raw) {
				// the ciphertext is genuine, only the password is another one
				attrs["neighbour"] = in.how
				r.Count("B.wrong_password.accepted."+in.how, 1)
				r.Violation("wrong-password-accepted", attrs, wit())
				return
			}
			if in.base != nil && bytes.Equal(in.pw, in.base.pw) {
				if want := sha256.Sum256(in.base.plain); res.sum == hex.EncodeToString(want[:]) {
					// a damaged ciphertext that still yields the original plaintext: "the plaintext
					// or an error" holds; recorded, not a violation
					r.Count("B.observed.modified_ciphertext_gave_original_plaintext", 1)
					return
				}
			}
			r.Violation("decrypt-accepted-unauthentic-input", attrs, wit())
			return
		}
		want := sha256.Sum256(in.base.plain)
		if res.sum != hex.EncodeToString(want[:]) {
			r.Violation("decrypt-returned-wrong-plaintext", attrs, wit())
			return
		}
		if in.sub != "" && in.must {
			r.Count("B."+in.cipher+"."+in.sub, 1)
		}
		if in.class == "same_raw_other_text" {
			r.Count("B."+in.cipher+".same_raw_other_text.accepted_or_rejected", 1)
		}
		if in.must {
			r.Sample(map[string]interface{}{"monitor": "B", "cipher": in.cipher, "class": in.class, "plaintext_len": len(in.base.plain), "outcome": "plaintext"})
		}
	case "err":
		if in.must {
			r.Violation("valid-ciphertext-rejected", attrs, wit())
			return
		}
		if in.sub != "" {
			r.Count("B."+in.cipher+"."+in.sub, 1)
		}
		if in.class == "same_raw_other_text" {
			r.Count("B."+in.cipher+".same_raw_other_text.accepted_or_rejected", 1)
		}
	}
}

func printable(b []byte) string {
	if len(b) > 400 {
		b = b[:400]
	}
	return strconv.Quote(string(b))
}

// ---- child ------------------------------------------------------------------------------

func childDecrypt(path string) {
	f, err := os.Open(path)
	if err != nil {
		fmt.Fprintln(os.Stderr, err)
		os.Exit(3)
	}
	defer f.Close()
	sc := bufio.NewScanner(f)
	sc.Buffer(make([]byte, 1<<20), 1<<24)
	for sc.Scan() {
		fs := strings.Split(sc.Text(), " ")
		if len(fs) != 4 {
			continue
		}
		pw, _ := hex.DecodeString(strings.TrimSuffix(fs[2], "-"))
		data, _ := hex.DecodeString(strings.TrimSuffix(fs[3], "-"))
		if len(pw) == 0 {
			pw = nil
		}
		os.Stdout.WriteString("S " + fs[0] + "\n") // announced (file-backed stdout) before the call
		var out []byte
		var derr error
		panicked, msg, frame := vf.Recover(func() {
			switch fs[1] {
			case cSha:
				out, derr = encrypt.Sha256Xor{}.Decrypt(data, pw)
			default:
				// the work factors come from the ciphertext's metadata, not from the receiver
				out, derr = encrypt.DefaultScryptChacha20poly1305.Decrypt(data, pw)
			}
		})
		switch {
		case panicked:
			os.Stdout.WriteString("R " + fs[0] + " panic " + frame + "|" + strings.Replace(msg, "\n", " ", -1) + "\n")
		case derr != nil:
			os.Stdout.WriteString("R " + fs[0] + " err\n")
		default:
			h := sha256.Sum256(out)
			os.Stdout.WriteString("R " + fs[0] + " ok " + hex.EncodeToString(h[:]) + "\n")
		}
	}
	os.Exit(0)
}
