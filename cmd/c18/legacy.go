// Monitor L (wallet FILES: legacy and hand-edited metadata).
//
// Monitor A only sees wallets that came out of the current constructors, whose metadata is
// always complete. The statement is about all wallets, and a node also locks wallets it loaded
// from files written by older versions (no cryptoType / encrypted / secrets fields, version 0.1)
// or edited by hand. This monitor takes real wallet files — the repository's own *.wlt fixtures
// and serialisations of freshly made wallets — runs a structured JSON mutator over the optional
// meta fields (remove / empty / legacy profiles / coin alias), writes the result to disk and loads
// it through wallet.Load. A file the loader refuses is counted and dropped. For a file it accepts
// the oracle is the one of monitor A, with the expected secrets read from the FILE by the harness'
// own JSON model (not through the wallet's accessors): after Lock no secret of the file appears in
// the serialised form / the saved file / the decoded secrets blob; the saved locked file loads
// again; other passwords are rejected and change nothing; the password restores exactly the
// file's seed, lastSeed, passphrase, account keys and per-address secret keys, in memory and via the
// reloaded file; after locking again with a second password the first one is refused.
//
// Files that carry no crypto type are locked with the product's default cipher (scrypt N=2^20,
// ~1 GiB and seconds per derivation), so that class is small and runs three at a time.
package main

import (
	"bytes"
	"crypto/sha256"
	"encoding/base64"
	"encoding/hex"
	"encoding/json"
	"fmt"
	"io/ioutil"
	"math/rand"
	"os"
	"path/filepath"
	"reflect"
	"sort"
	"strings"

	"github.com/skycoin/skycoin/src/cipher"
	"github.com/skycoin/skycoin/src/cipher/crypto"
	"github.com/skycoin/skycoin/src/wallet"
	"github.com/skycoin/skycoin/src/wallet/bip44wallet"

	"verif/lib/vf"
	"verif/lib/wfix"
)

var lockableKinds = []string{wallet.WalletTypeDeterministic, wallet.WalletTypeBip44, wallet.WalletTypeCollection}

// ---- the harness' own reading of a wallet file -------------------------------------------

type fileEntry struct {
	Address string
	Secret  string // as written in the file (hex, or wallet import format in a bitcoin wallet)
}

type fileModel struct {
	kind    string
	meta    map[string]string
	entries []fileEntry
	xprvs   []string
}

type fileDoc struct {
	Meta    map[string]string `json:"meta"`
	Entries []struct {
		Address string `json:"address"`
		Secret  string `json:"secret_key"`
	} `json:"entries"`
	Accounts []struct {
		PrivateKey string `json:"private_key"`
		Chains     []struct {
			Entries []struct {
				Address string `json:"address"`
				Secret  string `json:"secret"`
			} `json:"entries"`
		} `json:"chains"`
	} `json:"accounts"`
}

func readModel(data []byte) (*fileModel, error) {
	var d fileDoc
	if err := json.Unmarshal(data, &d); err != nil {
		return nil, err
	}
	m := &fileModel{kind: d.Meta["type"], meta: d.Meta}
	for _, e := range d.Entries {
		m.entries = append(m.entries, fileEntry{e.Address, e.Secret})
	}
	for _, a := range d.Accounts {
		if a.PrivateKey != "" {
			m.xprvs = append(m.xprvs, a.PrivateKey)
		}
		for _, c := range a.Chains {
			for _, e := range c.Entries {
				m.entries = append(m.entries, fileEntry{e.Address, e.Secret})
			}
		}
	}
	return m, nil
}

// asSnapshot gives the model the shape corpusOf understands
func (m *fileModel) asSnapshot() snapshot {
	s := snapshot{seed: m.meta["seed"], last: m.meta["lastSeed"], pass: m.meta["seedPassphrase"], xprvs: m.xprvs}
	for i, e := range m.entries {
		raw, ok := rawSecret(e.Secret) // coin.go
		if !ok || len(raw) != 32 {
			continue
		}
		var fe wfix.FlatEntry
		fe.Index = i
		copy(fe.E.Secret[:], raw)
		s.entries = append(s.entries, fe)
	}
	return s
}

// secretsByAddress: address -> lower-case hex of the raw secret key bytes ("" when the file holds
// none; the text itself when the harness cannot read it as a key)
func (m *fileModel) secretsByAddress() map[string]string {
	out := map[string]string{}
	for _, e := range m.entries {
		if raw, ok := rawSecret(e.Secret); ok {
			out[e.Address] = hex.EncodeToString(raw)
		} else {
			out[e.Address] = strings.ToLower(e.Secret)
		}
	}
	return out
}

// coin is the file's coin type as the harness reads it ("" if the field is absent or unknown)
func (m *fileModel) coin() string { return normCoin(m.meta["coin"]) }

func normCoin(c string) string {
	switch strings.ToLower(c) {
	case "skycoin", "sky":
		return string(wallet.CoinTypeSkycoin)
	case "bitcoin", "btc":
		return string(wallet.CoinTypeBitcoin)
	}
	return ""
}

// coinAddresses rewrites the address of every entry of a collection wallet file to the address
// of the entry's public key under the file's coin type: the file a node has to be able to read.
// (collection.NewWallet writes skycoin addresses whatever the coin type - see the report on
// fixes-proposed/collection-coin-address.diff; with that repaired this is the identity.)
func coinAddresses(data []byte, coin wallet.CoinType) ([]byte, bool, error) {
	var doc map[string]interface{}
	dec := json.NewDecoder(bytes.NewReader(data))
	dec.UseNumber()
	if err := dec.Decode(&doc); err != nil {
		return nil, false, err
	}
	changed := false
	es, _ := doc["entries"].([]interface{})
	for _, x := range es {
		e, ok := x.(map[string]interface{})
		if !ok {
			continue
		}
		ph, _ := e["public_key"].(string)
		pk, err := cipher.PubKeyFromHex(ph)
		if err != nil {
			return nil, false, err
		}
		if a := wfix.AddressOf(coin, pk).String(); e["address"] != a {
			e["address"] = a
			changed = true
		}
	}
	out, err := json.MarshalIndent(doc, "", "    ")
	return out, changed, err
}

func walletSecretsByAddress(w wallet.Wallet) (map[string]string, error) {
	es, err := wfix.AllEntries(w)
	if err != nil {
		return nil, err
	}
	out := map[string]string{}
	for _, fe := range es {
		s := ""
		if fe.E.Secret != (cipher.SecKey{}) {
			s = hex.EncodeToString(fe.E.Secret[:])
		}
		out[fe.E.Address.String()] = s
	}
	return out, nil
}

func diffMaps(want, got map[string]string, secretsToo bool) string {
	if len(want) != len(got) {
		return fmt.Sprintf("%d addresses in the file, %d in the wallet", len(want), len(got))
	}
	keys := make([]string, 0, len(want))
	for k := range want {
		keys = append(keys, k)
	}
	sort.Strings(keys)
	for _, k := range keys {
		g, ok := got[k]
		if !ok {
			return "address " + k + " of the file is not in the wallet"
		}
		if secretsToo && g != want[k] {
			return "secret key of " + k + " differs from the file"
		}
	}
	return ""
}

// stripFlagsAndEmpty is stripFlags for files with incomplete metadata: a meta field the file
// does not have and the same field with an empty value are the same wallet (a missing key reads
// as ""), so unlocking may materialise e.g. "seedPassphrase": "" without having changed anything
func stripFlagsAndEmpty(ser []byte) (interface{}, error) {
	doc, err := stripFlags(ser)
	if err != nil {
		return nil, err
	}
	if m, ok := doc.(map[string]interface{})["meta"].(map[string]interface{}); ok {
		for k, v := range m {
			if s, isStr := v.(string); isStr && s == "" {
				delete(m, k)
			}
		}
	}
	return doc, nil
}

// ---- base files ---------------------------------------------------------------------------

type baseFile struct {
	name string // fixture path relative to the repository, or "generated"
	data []byte
	kind string
}

// fixtureFiles: the repository's own unencrypted wallet files of the lockable kinds
func fixtureFiles() []baseFile {
	var out []baseFile
	root := vf.RepoDir()
	var paths []string
	for _, pat := range []string{"src/wallet/testdata/*.wlt", "src/wallet/*/testdata/*.wlt"} {
		p, _ := filepath.Glob(filepath.Join(root, pat))
		paths = append(paths, p...)
	}
	sort.Strings(paths)
	for _, p := range paths {
		b, err := ioutil.ReadFile(p)
		if err != nil {
			continue
		}
		m, err := readModel(b)
		if err != nil || m.meta == nil {
			continue
		}
		ok := false
		for _, k := range lockableKinds {
			ok = ok || m.kind == k
		}
		if !ok || m.meta["encrypted"] == "true" || len(m.entries) == 0 {
			continue
		}
		if c := strings.ToLower(m.meta["coin"]); c != "skycoin" && c != "sky" {
			continue
		}
		rel, _ := filepath.Rel(root, p)
		out = append(out, baseFile{rel, b, m.kind})
	}
	return out
}

func generatedFile(rng *rand.Rand, kind string, coin wallet.CoinType, id string) (baseFile, error) {
	var w wallet.Wallet
	var err error
	switch kind {
	case wallet.WalletTypeDeterministic:
		w, err = wallet.NewWallet(id+".wlt", "label-"+id, wfix.SeedString(rng), wallet.Options{Type: kind, Coin: coin, GenerateN: uint64(1 + rng.Intn(5))})
	case wallet.WalletTypeBip44:
		pass := ""
		if rng.Intn(2) == 0 {
			pass = "Phrase-" + wfix.RandToken(rng, 6+rng.Intn(8))
		}
		w, err = wallet.NewWallet(id+".wlt", "label-"+id, wfix.Mnemonic(rng), wallet.Options{Type: kind, Coin: coin, SeedPassphrase: pass, GenerateN: uint64(1 + rng.Intn(3))})
		if err == nil && rng.Intn(2) == 0 {
			_, err = w.GenerateAddresses(wallet.OptionGenerateN(uint64(1+rng.Intn(2))), wallet.OptionChange())
		}
		if err == nil && rng.Intn(4) == 0 {
			if _, err = w.(*bip44wallet.Wallet).NewAccount("second"); err == nil {
				_, err = w.GenerateAddresses(wallet.OptionGenerateN(1), wallet.OptionAccount(1))
			}
		}
	case wallet.WalletTypeCollection:
		keys := make([]cipher.SecKey, 1+rng.Intn(4))
		for j := range keys {
			keys[j] = wfix.SecKey(rng)
		}
		w, err = wallet.NewWallet(id+".wlt", "label-"+id, "", wallet.Options{Type: kind, Coin: coin, CollectionPrivateKeys: keys})
	}
	if err != nil {
		return baseFile{}, err
	}
	b, err := w.Serialize()
	if err == nil && kind == wallet.WalletTypeCollection {
		var changed bool
		if b, changed, err = coinAddresses(b, coin); changed {
			return baseFile{"generated+coin-addresses", b, kind}, err
		}
	}
	return baseFile{"generated", b, kind}, err
}

// ---- the structured mutator ---------------------------------------------------------------

var optionalMeta = []string{"encrypted", "secrets", "version", "coin", "label", "type", "lastSeed", "tm", "seedPassphrase", "bip44Coin", "seed", "filename"}

var cheapCiphers = []crypto.CryptoType{crypto.CryptoTypeSha256Xor, crypto.CryptoTypeScryptChacha20poly1305Insecure}

// mutate edits the meta object of a wallet file. noCryptoType selects the class of files that
// carry no crypto type (absent, empty, or a version 0.1 profile); all others get a cheap one.
func mutate(rng *rand.Rand, data []byte, noCryptoType bool) ([]byte, []string, error) {
	var doc map[string]interface{}
	dec := json.NewDecoder(bytes.NewReader(data))
	dec.UseNumber()
	if err := dec.Decode(&doc); err != nil {
		return nil, nil, err
	}
	meta, ok := doc["meta"].(map[string]interface{})
	if !ok {
		return nil, nil, fmt.Errorf("no meta object")
	}
	var ops []string
	remove := func(k string) {
		if _, has := meta[k]; has {
			delete(meta, k)
			ops = append(ops, k+".removed")
		} else {
			ops = append(ops, k+".absent")
		}
	}
	empty := func(k string) { meta[k] = ""; ops = append(ops, k+".empty") }
	if noCryptoType {
		_, has := meta["cryptoType"]
		switch x := rng.Intn(4); {
		case !has && x < 2:
			ops = append(ops, "cryptoType.absent") // a genuine old file, as it is
		case x == 3:
			empty("cryptoType")
		case x == 2:
			// what a version 0.1 node wrote
			remove("cryptoType")
			remove("encrypted")
			remove("secrets")
			if meta["type"] != wallet.WalletTypeBip44 {
				meta["version"] = "0.1"
				ops = append(ops, "version.0.1")
			}
		default:
			remove("cryptoType")
		}
	} else {
		n := rng.Intn(4) // 0: only the cipher is swapped
		for j := 0; j < n; j++ {
			k := optionalMeta[rng.Intn(len(optionalMeta))]
			// fields whose loss makes the file unloadable are drawn less often
			if (k == "type" || k == "filename" || k == "coin" || k == "seed") && rng.Intn(3) > 0 {
				k = []string{"encrypted", "secrets", "version", "label", "tm"}[rng.Intn(5)]
			}
			if rng.Intn(2) == 0 {
				remove(k)
			} else {
				empty(k)
			}
		}
		switch rng.Intn(10) {
		case 0:
			remove("encrypted")
			remove("secrets")
		case 1:
			if c, _ := meta["coin"].(string); c == "skycoin" {
				meta["coin"] = "sky"
				ops = append(ops, "coin.alias")
			} else if c == "bitcoin" {
				meta["coin"] = "btc"
				ops = append(ops, "coin.alias")
			}
		case 2:
			meta["encrypted"] = "false"
			ops = append(ops, "encrypted.false")
		}
		ct := cheapCiphers[0]
		if rng.Intn(8) == 0 {
			ct = cheapCiphers[1]
		}
		meta["cryptoType"] = string(ct)
		ops = append(ops, "cryptoType."+string(ct))
	}
	out, err := json.MarshalIndent(doc, "", "    ")
	return out, ops, err
}

// ---- one case -----------------------------------------------------------------------------

func legacyCase(r *vf.Run, i int, noCryptoType bool, fixtures []baseFile) {
	label := "cheap"
	if noCryptoType {
		label = "nocrypto"
	}
	rng := r.Rand("L", label, i)
	kind := lockableKinds[i%3]
	id := fmt.Sprintf("lg-%s-%d", label, i)

	// base file: a fixture of the repository or a fresh serialisation
	var base baseFile
	var cand []baseFile
	for _, f := range fixtures {
		if f.kind == kind {
			cand = append(cand, f)
		}
	}
	if len(cand) > 0 && rng.Intn(5) < 2 {
		base = cand[rng.Intn(len(cand))]
	} else {
		var err error
		// every other generated file of a kind is a bitcoin wallet (coin.go)
		base, err = generatedFile(rng, kind, coinTypes[(i/3)%2], id)
		if err != nil {
			r.Violation("harness-create-failed", map[string]string{"monitor": "L", "wallet": kind, "error": err.Error()}, nil)
			return
		}
	}
	data, ops, err := mutate(rng, base.data, noCryptoType)
	if err != nil {
		r.Violation("harness-mutator-failed", map[string]string{"monitor": "L", "wallet": kind, "error": err.Error()}, base.name)
		return
	}
	model, err := readModel(data)
	if err != nil {
		r.Violation("harness-mutator-failed", map[string]string{"monitor": "L", "wallet": kind, "error": err.Error()}, base.name)
		return
	}
	fileCT := model.meta["cryptoType"]
	pw := []byte("Pw-" + wfix.RandToken(rng, 5+rng.Intn(10)))
	trace := []string{"base " + base.name, "mutations " + strings.Join(ops, ",")}
	logf := func(f string, a ...interface{}) { trace = append(trace, fmt.Sprintf(f, a...)) }
	var coinOf func() string
	attrs := func(extra ...string) map[string]string {
		m := map[string]string{"monitor": "L", "wallet": kind, "coin": coinOf(), "file_crypto_type": fileCT, "cipher": fileCT, "source": strings.SplitN(base.name, "/", 2)[0]}
		if fileCT == "" {
			// documented behaviour: a wallet without a crypto type is locked with the default one
			m["file_crypto_type"] = "none"
			m["cipher"] = string(crypto.CryptoTypeScryptChacha20poly1305)
		}
		for j := 0; j+1 < len(extra); j += 2 {
			m[extra[j]] = extra[j+1]
		}
		return m
	}
	var w wallet.Wallet
	coinOf = func() string {
		c := model.coin()
		if c == "" && w != nil {
			c = normCoin(string(w.Coin()))
		}
		if c == "" {
			c = "none"
		}
		return c
	}
	witness := func(extra map[string]interface{}) map[string]interface{} {
		m := map[string]interface{}{"case": id, "trace": trace, "password": string(pw), "wallet_file": string(data)}
		if w != nil {
			vf.Recover(func() {
				ws, _ := w.Serialize()
				m["wallet_now"] = string(ws)
			})
		}
		for k, v := range extra {
			m[k] = v
		}
		return m
	}

	dir := vf.TempDir("c18l")
	defer os.RemoveAll(dir)
	src := filepath.Join(dir, "in")
	dst := filepath.Join(dir, "out")
	_ = os.MkdirAll(src, 0700)
	_ = os.MkdirAll(dst, 0700)
	path := filepath.Join(src, id+".wlt")
	if err := ioutil.WriteFile(path, data, 0600); err != nil {
		r.Inconclusive("cannot write wallet file: " + err.Error())
		return
	}
	r.Eval(1)
	r.Count("L.cases", 1)
	r.Count("L.files."+kind+".coin."+coinOf(), 1)
	for _, op := range ops {
		if !strings.HasPrefix(op, "cryptoType.s") {
			r.Count("L.mutation."+op, 1)
		}
	}

	// ---- load ----
	var lerr error
	panicked, msg, _ := vf.Recover(func() { w, lerr = wallet.Load(path) })
	if panicked || lerr != nil || w == nil {
		// not a wallet for this node; nothing to lock. (How the loader refuses is not this property's matter.)
		w = nil
		r.Count("L.load.refused", 1)
		r.Count("L.load.refused."+kind+".coin."+coinOf(), 1)
		if panicked {
			r.Count("L.load.refused.by_panic", 1)
			_ = msg
		}
		return
	}
	encrypted := false
	if p, _, _ := vf.Recover(func() { encrypted = w.IsEncrypted() }); p {
		// the loader let a file through whose flags its own accessors cannot read: no defined
		// locked / unlocked state to speak about
		r.Count("L.load.accepted_but_unreadable_flags", 1)
		return
	}
	if encrypted || w.Type() != kind {
		r.Count("L.load.other_state", 1)
		return
	}
	r.Count("L.load.accepted", 1)
	if strings.HasPrefix(base.name, "generated") {
		r.Count("L.source.generated", 1)
		if base.name != "generated" {
			r.Count("L.source.generated.collection_addresses_rewritten_to_coin", 1)
		}
	} else {
		r.Count("L.source.repository_fixture", 1)
	}

	// the harness' reading of the file and the loader's must agree on what the secrets are
	want := model.secretsByAddress()
	got, err := walletSecretsByAddress(w)
	if err != nil {
		r.Violation("harness-entries", attrs("error", err.Error()), witness(nil))
		return
	}
	if d := diffMaps(want, got, true); d != "" || w.Seed() != model.meta["seed"] || w.LastSeed() != model.meta["lastSeed"] || w.SeedPassphrase() != model.meta["seedPassphrase"] {
		r.Violation("harness-file-model-differs-from-loaded-wallet", attrs("detail", d), witness(nil))
		return
	}
	pre := snap(w)
	corpus := corpusOf(model.asSnapshot(), kind)
	if len(corpus) == 0 {
		r.Count("L.no_secret_in_file", 1)
		return
	}
	for _, n := range corpus {
		if !strings.Contains(n.what, "/") || n.what == secretTextEncoding(wallet.CoinType(model.coin())) {
			if bytes.Contains(data, n.b) {
				r.Count("L.corpus.present_in_file", 1)
			}
		}
	}

	// ---- Lock ----
	logf("lock (file crypto type %q)", fileCT)
	var lockErr error
	if p, m, f := vf.Recover(func() { lockErr = w.Lock(pw) }); p {
		r.Violation("panic", attrs("frame", f, "msg", m, "op", "Lock"), witness(nil))
		return
	}
	if lockErr != nil {
		r.Violation("lock-failed", attrs("error", lockErr.Error()), witness(nil))
		return
	}
	locked := snap(w)
	if !w.IsEncrypted() {
		r.Violation("not-encrypted-after-lock", attrs(), witness(nil))
	}
	hay := [][]byte{locked.ser}
	if err := wallet.Save(w, dst); err != nil {
		r.Violation("save-failed", attrs("error", err.Error()), witness(nil))
		return
	}
	saved := filepath.Join(dst, w.Filename())
	sb, err := ioutil.ReadFile(saved)
	if err != nil {
		r.Violation("save-wrote-nothing", attrs(), witness(nil))
		return
	}
	hay = append(hay, sb)
	lm := metaOf(locked.ser)
	if raw, err := base64.StdEncoding.DecodeString(lm["secrets"]); err == nil {
		hay = append(hay, raw)
	}
	hay = append(hay, []byte("seed="+w.Seed()+" last="+w.LastSeed()+" pass="+w.SeedPassphrase()))
	r.Count("L.corpus.needles_searched", int64(len(corpus)))
	if what, found := scanFor(corpus, hay...); found {
		r.Violation("secret-visible-after-lock", attrs("secret", strings.SplitN(what, "/", 2)[0], "encoding", what), witness(nil))
	}
	if gotL, err := walletSecretsByAddress(w); err != nil {
		r.Violation("harness-entries", attrs("error", err.Error()), witness(nil))
	} else {
		if d := diffMaps(want, gotL, false); d != "" {
			r.Violation("addresses-changed-by-lock", attrs("detail", d), witness(nil))
		}
		for a, s := range gotL {
			if s != "" {
				r.Violation("secret-visible-after-lock", attrs("secret", "secretKey", "encoding", "in-memory entry", "address", a), witness(nil))
				break
			}
		}
	}

	// ---- the saved locked file is a wallet again ----
	var w2 wallet.Wallet
	var rerr error
	if p, m, f := vf.Recover(func() { w2, rerr = wallet.Load(saved) }); p {
		r.Violation("panic", attrs("frame", f, "msg", m, "op", "Load of the locked file"), witness(map[string]interface{}{"locked_file": string(sb)}))
		return
	}
	if rerr != nil || w2 == nil {
		r.Violation("locked-wallet-does-not-load", attrs("error", fmt.Sprint(rerr)), witness(map[string]interface{}{"locked_file": string(sb)}))
		return
	}
	if !w2.IsEncrypted() {
		r.Violation("not-encrypted-after-lock", attrs("phase", "reloaded file"), witness(nil))
	}
	r.Count("L.locked_file.reloaded", 1)

	// the wallets to open: both for cheap ciphers, one of the two (drawn) for the default scrypt
	type target struct {
		name string
		w    wallet.Wallet
	}
	targets := []target{{"in-memory", w}, {"reloaded-file", w2}}
	nwp := 12
	slowish := fileCT == string(crypto.CryptoTypeScryptChacha20poly1305Insecure)
	if slowish {
		nwp = 3 // each attempt costs a key derivation
	}
	if noCryptoType {
		targets = targets[rng.Intn(2):][:1]
		nwp = 0
		if i%3 == int(uint64(r.Seed)%3) || !r.Quick() {
			nwp = 1
		}
	}
	wp := wrongPasswords(rng, pw, 13) // one spare for the re-lock step
	pw2 := append([]byte("Second-"), wp[12].pw...)
	if noCryptoType && nwp == 1 {
		// a single, expensive attempt: not the zero-padding neighbour (known finding D35)
		wp = wp[1+rng.Intn(11):]
	}
	wp = wp[:nwp]
	var unlocked wallet.Wallet
	okAll := true
	for _, t := range targets {
		before, _ := t.w.Serialize()
		for _, p := range wp {
			var gotW wallet.Wallet
			var uerr error
			if pn, m, f := vf.Recover(func() { gotW, uerr = t.w.Unlock(p.pw) }); pn {
				r.Violation("panic", attrs("frame", f, "msg", m, "op", "Unlock with another password"), witness(nil))
				return
			}
			if uerr == nil || gotW != nil {
				if r.Violation("wrong-password-accepted", attrs("neighbour", p.how, "via", t.name), witness(map[string]interface{}{"tried_hex": hex.EncodeToString(p.pw)})) {
					okAll = false
				}
				continue
			}
			r.Count("L.wrong_password.rejected", 1)
		}
		if gotW, uerr := t.w.Unlock(nil); uerr == nil || gotW != nil {
			r.Violation("wrong-password-accepted", attrs("neighbour", "empty", "via", t.name), witness(nil))
			okAll = false
		}
		after, _ := t.w.Serialize()
		if !bytes.Equal(before, after) {
			r.Violation("wallet-changed-by-rejected-unlock", attrs("via", t.name), witness(map[string]interface{}{"before": string(before)}))
			okAll = false
		}

		logf("unlock %s", t.name)
		var u wallet.Wallet
		var uerr error
		if pn, m, f := vf.Recover(func() { u, uerr = t.w.Unlock(pw) }); pn {
			r.Violation("panic", attrs("frame", f, "msg", m, "op", "Unlock"), witness(nil))
			return
		}
		if uerr != nil || u == nil {
			r.Violation("unlock-failed", attrs("error", fmt.Sprint(uerr), "via", t.name), witness(map[string]interface{}{"locked_file": string(sb)}))
			return
		}
		us := snap(u)
		ext := map[string]interface{}{"unlocked": string(us.ser), "via": t.name}
		if u.IsEncrypted() {
			r.Violation("still-encrypted-after-unlock", attrs("via", t.name), witness(ext))
			okAll = false
		}
		if us.seed != model.meta["seed"] || us.last != model.meta["lastSeed"] || us.pass != model.meta["seedPassphrase"] {
			r.Violation("seed-not-restored", attrs("via", t.name, "detail", fmt.Sprintf("seed %v lastSeed %v passphrase %v",
				us.seed == model.meta["seed"], us.last == model.meta["lastSeed"], us.pass == model.meta["seedPassphrase"])), witness(ext))
			okAll = false
		}
		gotU, err := walletSecretsByAddress(u)
		if err != nil {
			r.Violation("harness-entries", attrs("error", err.Error()), witness(ext))
			return
		}
		if d := diffMaps(want, gotU, true); d != "" {
			r.Violation("entries-not-restored", attrs("via", t.name, "detail", d), witness(ext))
			okAll = false
		}
		if !reflect.DeepEqual(us.xprvs, pre.xprvs) || !reflect.DeepEqual(us.xprvs, model.xprvs) {
			r.Violation("entries-not-restored", attrs("via", t.name, "detail", "account private keys differ from the file"), witness(ext))
			okAll = false
		}
		a, e1 := stripFlagsAndEmpty(pre.ser)
		b, e2 := stripFlagsAndEmpty(us.ser)
		if e1 != nil || e2 != nil || !reflect.DeepEqual(a, b) {
			r.Violation("serialisation-not-restored", attrs("via", t.name), witness(ext))
			okAll = false
		}
		if mu := metaOf(us.ser); mu["encrypted"] != "false" || mu["secrets"] != "" {
			r.Violation("flags-after-unlock", attrs("encrypted", mu["encrypted"], "via", t.name), witness(ext))
			okAll = false
		}
		if okAll {
			r.Count("L.unlock.identical."+t.name, 1)
		}
		unlocked = u
	}
	if !okAll {
		return
	}
	r.Count("L.roundtrip."+kind, 1)
	r.Count("L.roundtrip."+kind+".coin."+coinOf(), 1)
	if noCryptoType {
		r.Count("L.no_crypto_type.roundtrip."+kind, 1)
	}
	r.Distinct(fmt.Sprintf("L/%s/%s/%x", kind, strings.Join(ops, ","), sha256.Sum256(data)))
	r.Sample(map[string]interface{}{"monitor": "L", "wallet": kind, "base": base.name, "mutations": ops, "coin": coinOf(), "file_crypto_type": fileCT,
		"entries": len(model.entries), "needles": len(corpus), "other_passwords_tried": len(wp) * len(targets)})
	if noCryptoType || (slowish && r.Quick()) {
		return
	}

	// ---- lock again with a second password: the first one is now "any other password" ----
	logf("lock again with a second password")
	if err := unlocked.Lock(pw2); err != nil {
		r.Violation("lock-failed", attrs("error", err.Error(), "phase", "second lock"), witness(nil))
		return
	}
	ser2, _ := unlocked.Serialize()
	if what, found := scanFor(corpus, ser2); found {
		r.Violation("secret-visible-after-lock", attrs("secret", strings.SplitN(what, "/", 2)[0], "encoding", what, "phase", "second lock"), witness(nil))
	}
	if gotW, err := unlocked.Unlock(pw); err == nil || gotW != nil {
		r.Violation("wrong-password-accepted", attrs("neighbour", "previous-password", "phase", "second lock"), witness(nil))
		return
	}
	r.Count("L.relock.previous_password_rejected", 1)
	u3, err := unlocked.Unlock(pw2)
	if err != nil || u3 == nil {
		r.Violation("unlock-failed", attrs("error", fmt.Sprint(err), "phase", "second lock"), witness(nil))
		return
	}
	got3, err := walletSecretsByAddress(u3)
	if err != nil || diffMaps(want, got3, true) != "" || u3.Seed() != model.meta["seed"] || u3.LastSeed() != model.meta["lastSeed"] || u3.SeedPassphrase() != model.meta["seedPassphrase"] {
		r.Violation("entries-not-restored", attrs("phase", "second lock"), witness(nil))
		return
	}
	r.Count("L.relock.restored", 1)
	r.Count("L.relock.restored.coin."+coinOf(), 1)
}

// monitorL runs the no-crypto-type class a few times (in the background: those cases spend
// their time inside the default scrypt, three at a time because each derivation takes ~1 GiB)
// and the cheap class widely. The returned function waits for the background cases.
func monitorL(r *vf.Run) (wait func()) {
	fixtures := fixtureFiles()
	r.Count("L.repository_fixtures_found", int64(len(fixtures)))
	run := func(i int, noCT bool) {
		panicked, msg, frame := vf.Recover(func() { legacyCase(r, i, noCT, fixtures) })
		if panicked {
			r.Violation("panic", map[string]string{"monitor": "L", "frame": frame, "msg": msg}, map[string]interface{}{"legacy_case": i, "no_crypto_type": noCT})
		}
	}
	part := os.Getenv("VERIF_C18_LPART") // development aid: "nocrypto" or "cheap" (floors of the other class then fail)
	done := make(chan struct{})
	go func() {
		defer close(done)
		if part != "cheap" {
			vf.Parallel(r.Pick(3, 12), 3, func(i int) { run(i, true) })
		}
	}()
	if part != "nocrypto" {
		vf.Parallel(r.Pick(120, 2000), 16, func(i int) { run(i, false) })
	}
	return func() { <-done }
}

func floorsL(r *vf.Run, fl func(k string, qv, tv int64)) {
	fl("L.repository_fixtures_found", 6, 6)
	fl("L.load.accepted", 60, 1000)
	fl("L.load.refused", 3, 50)
	fl("L.source.repository_fixture", 10, 200)
	fl("L.source.generated", 30, 500)
	for _, k := range lockableKinds {
		fl("L.roundtrip."+k, 10, 200)
		fl("L.no_crypto_type.roundtrip."+k, 1, 3)
		fl("L.roundtrip."+k+".coin.bitcoin", 2, 80)
	}
	fl("L.locked_file.reloaded", 60, 1000)
	fl("L.unlock.identical.in-memory", 55, 900)
	fl("L.unlock.identical.reloaded-file", 55, 900)
	fl("L.wrong_password.rejected", 800, 15000)
	fl("L.corpus.needles_searched", 1000, 20000)
	fl("L.relock.previous_password_rejected", 40, 700)
	fl("L.relock.restored", 40, 700)
	fl("L.relock.restored.coin.bitcoin", 8, 200)
}
