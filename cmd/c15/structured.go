// C15, structure-aware leg: payloads derived from a VALID serialized address.
//
// Character-level mutations of an address text never survive the checksum, so they only ever
// exercise the "checksum" and "not-base58" refusals. This leg starts from the reference's own
// serialization of a version-0 address (21 body bytes and their correct 4-byte checksum) and
// derives payloads that keep as much of that valid structure as possible: bytes appended,
// prepended (zero bytes = leading '1' characters), removed, the body made longer or shorter with
// a recomputed checksum, the checksum moved to the end of a longer payload, a non-zero version
// with a recomputed checksum. Every payload goes to the byte entry point (AddressFromBytes /
// BitcoinAddressFromBytes, and the Must variants on a subset) and, base58-encoded by the
// reference, to the text entry point (DecodeBase58Address / DecodeBase58BitcoinAddress and Must
// variants). The reference decides: accepted iff exactly 25 bytes, correct checksum, version 0;
// and within the family of one key no two different accepted texts (or payloads) may give the
// same address value.
package main

import (
	"bytes"
	"crypto/sha256"
	"fmt"
	"math/rand"

	"github.com/skycoin/skycoin/src/cipher"

	"verif/lib/refb58"
	"verif/lib/vf"
)

// addrVal is what the code under test returned, normalized over both address types
type addrVal struct {
	version byte
	key     [20]byte
	text    string // String()
	raw     []byte // Bytes()
}

type family struct {
	name      string
	verAt     int                   // index of the version byte in the 21-byte body
	keyAt     int                   // index of the 20 key bytes in the body
	sum       func(b []byte) []byte // reference checksum (4 bytes) over a body of any length
	fnBytes   string                // names for reports
	fnText    string
	fromBytes func([]byte) (addrVal, error)
	fromText  func(string) (addrVal, error)
	mustBytes func([]byte) addrVal
	mustText  func(string) addrVal
}

func skyVal(a cipher.Address) addrVal {
	return addrVal{version: a.Version, key: a.Key, text: a.String(), raw: a.Bytes()}
}

func btcVal(a cipher.BitcoinAddress) addrVal {
	return addrVal{version: a.Version, key: a.Key, text: a.String(), raw: a.Bytes()}
}

var families = []*family{
	{
		name: "sky", keyAt: 0, verAt: 20,
		sum:     func(b []byte) []byte { h := sha256.Sum256(b); return h[:4] },
		fnBytes: "AddressFromBytes", fnText: "DecodeBase58Address",
		fromBytes: func(p []byte) (addrVal, error) {
			a, err := cipher.AddressFromBytes(p)
			if err != nil {
				return addrVal{}, err
			}
			return skyVal(a), nil
		},
		fromText: func(s string) (addrVal, error) {
			a, err := cipher.DecodeBase58Address(s)
			if err != nil {
				return addrVal{}, err
			}
			return skyVal(a), nil
		},
		mustBytes: func(p []byte) addrVal { return skyVal(cipher.MustAddressFromBytes(p)) },
		mustText:  func(s string) addrVal { return skyVal(cipher.MustDecodeBase58Address(s)) },
	},
	{
		name: "btc", keyAt: 1, verAt: 0,
		sum:     refb58.Checksum4,
		fnBytes: "BitcoinAddressFromBytes", fnText: "DecodeBase58BitcoinAddress",
		fromBytes: func(p []byte) (addrVal, error) {
			a, err := cipher.BitcoinAddressFromBytes(p)
			if err != nil {
				return addrVal{}, err
			}
			return btcVal(a), nil
		},
		fromText: func(s string) (addrVal, error) {
			a, err := cipher.DecodeBase58BitcoinAddress(s)
			if err != nil {
				return addrVal{}, err
			}
			return btcVal(a), nil
		},
		mustBytes: func(p []byte) addrVal { return btcVal(cipher.MustBitcoinAddressFromBytes(p)) },
		mustText:  func(s string) addrVal { return btcVal(cipher.MustDecodeBase58BitcoinAddress(s)) },
	},
}

// body is the 21 bytes that are checksummed
func (f *family) body(key []byte, ver byte) []byte {
	b := make([]byte, 21)
	copy(b[f.keyAt:], key)
	b[f.verAt] = ver
	return b
}

// seal appends the reference checksum of b (b may have any length)
func (f *family) seal(b []byte) []byte {
	return append(append([]byte{}, b...), f.sum(b)...)
}

// decide is the statement's right-hand side on a byte payload: exactly 25 bytes, the last four
// are the checksum of the first 21, version 0
func (f *family) decide(p []byte) (key []byte, why string) {
	if len(p) != 25 {
		return nil, "length"
	}
	if !bytes.Equal(f.sum(p[:21]), p[21:]) {
		return nil, "checksum"
	}
	if p[f.verAt] != 0 {
		return nil, "version"
	}
	return p[f.keyAt : f.keyAt+20], ""
}

func rnd(g *rand.Rand, n int) []byte {
	b := make([]byte, n)
	g.Read(b)
	return b
}

func cat(parts ...[]byte) []byte {
	var out []byte
	for _, p := range parts {
		out = append(out, p...)
	}
	return out
}

// derivation builds one payload from the valid serialization `base` (= body || checksum) of key
type derivation struct {
	class string
	make  func(g *rand.Rand, f *family, key, base []byte) []byte
}

var derivations = []derivation{
	{"canonical", func(g *rand.Rand, f *family, key, base []byte) []byte { return base }},
	{"append-one-byte", func(g *rand.Rand, f *family, key, base []byte) []byte { return cat(base, rnd(g, 1)) }},
	{"append-random-bytes", func(g *rand.Rand, f *family, key, base []byte) []byte { return cat(base, rnd(g, 2+g.Intn(30))) }},
	{"append-zero-bytes", func(g *rand.Rand, f *family, key, base []byte) []byte { return cat(base, make([]byte, 1+g.Intn(8))) }},
	{"append-own-checksum", func(g *rand.Rand, f *family, key, base []byte) []byte { return f.seal(base) }},
	{"doubled", func(g *rand.Rand, f *family, key, base []byte) []byte { return cat(base, base) }},
	{"prepend-zero-bytes", func(g *rand.Rand, f *family, key, base []byte) []byte { return cat(make([]byte, 1+g.Intn(4)), base) }},
	{"prepend-random-bytes", func(g *rand.Rand, f *family, key, base []byte) []byte { return cat(rnd(g, 1+g.Intn(8)), base) }},
	{"drop-last-byte", func(g *rand.Rand, f *family, key, base []byte) []byte { return base[:24] }},
	{"drop-first-byte", func(g *rand.Rand, f *family, key, base []byte) []byte { return base[1:] }},
	{"drop-inner-byte", func(g *rand.Rand, f *family, key, base []byte) []byte {
		pos := 1 + g.Intn(23)
		return cat(base[:pos], base[pos+1:])
	}},
	{"body-without-checksum", func(g *rand.Rand, f *family, key, base []byte) []byte { return base[:21] }},
	{"checksum-moved-to-end", func(g *rand.Rand, f *family, key, base []byte) []byte {
		// the valid body, filler, then the valid checksum as the last four bytes
		return cat(base[:21], rnd(g, 1+g.Intn(8)), base[21:])
	}},
	{"longer-body-recomputed-checksum", func(g *rand.Rand, f *family, key, base []byte) []byte {
		return f.seal(cat(base[:21], rnd(g, 1+g.Intn(11))))
	}},
	{"shorter-body-recomputed-checksum", func(g *rand.Rand, f *family, key, base []byte) []byte {
		return f.seal(base[:1+g.Intn(20)])
	}},
	{"version-nonzero-recomputed-checksum", func(g *rand.Rand, f *family, key, base []byte) []byte {
		return f.seal(f.body(key, byte(1+g.Intn(255))))
	}},
	{"version-nonzero-stale-checksum", func(g *rand.Rand, f *family, key, base []byte) []byte {
		p := append([]byte{}, base...)
		p[f.verAt] = byte(1 + g.Intn(255))
		return p
	}},
	{"version-nonzero-plus-appended", func(g *rand.Rand, f *family, key, base []byte) []byte {
		return cat(f.seal(f.body(key, byte(1+g.Intn(255)))), rnd(g, 1+g.Intn(4)))
	}},
}

func structKey(g *rand.Rand) ([]byte, string) {
	key := rnd(g, 20)
	switch g.Intn(6) {
	case 0:
		z := 1 + g.Intn(20)
		for j := 0; j < z; j++ {
			key[j] = 0
		}
		return key, "leading-zero-key"
	case 1:
		for j := range key {
			key[j] = 0xff
		}
		return key, "ff-key"
	case 2:
		z := 1 + g.Intn(19)
		for j := 20 - z; j < 20; j++ {
			key[j] = 0
		}
		return key, "trailing-zero-key"
	}
	return key, "random-key"
}

func violB(kind, fn, class string, input []byte, detail string) {
	viol(kind, fn, class, string(input), detail)
}

// checkVal: an accepted value must be exactly the reference's (version 0, key) and serialize
// back to the canonical payload and text
func checkVal(f *family, fn, class string, input []byte, v addrVal, key, canonPayload []byte, canonText string) bool {
	if v.version != 0 || !bytes.Equal(v.key[:], key) {
		violB("decode-mismatch", fn, class, input, fmt.Sprintf("value version %d key %x, want version 0 key %x", v.version, v.key, key))
		return false
	}
	if !bytes.Equal(v.raw, canonPayload) || v.text != canonText {
		violB("not-canonical", fn, class, input, fmt.Sprintf("Bytes() = %x String() = %s, want %x %s", v.raw, v.text, canonPayload, canonText))
		return false
	}
	return true
}

// structuredCase runs every derivation of one key through one family
func structuredCase(f *family, key []byte, kclass string, withMust bool, c *ctr, sample bool) {
	g := c.g
	base := f.seal(f.body(key, 0))
	canonText := refb58.Encode(base)
	pre := "struct." + f.name + "."

	// accepted inputs of this family: address value -> first accepted text / payload
	type seen struct{ text, payload string }
	byValue := map[string]*seen{}
	note := func(v addrVal, text string, payload []byte, fn, class string) {
		id := string(append([]byte{v.version}, v.key[:]...))
		s := byValue[id]
		if s == nil {
			s = &seen{}
			byValue[id] = s
		}
		if text != "" {
			if s.text != "" && s.text != text {
				viol("not-one-to-one", fn, class, text, fmt.Sprintf("texts %q and %q both decode to version %d key %x", s.text, text, v.version, v.key))
			} else {
				s.text = text
			}
		}
		if payload != nil {
			if s.payload != "" && s.payload != string(payload) {
				violB("not-one-to-one", fn, class, payload, fmt.Sprintf("payloads %x and %x both decode to version %d key %x", s.payload, payload, v.version, v.key))
			} else {
				s.payload = string(payload)
			}
		}
	}

	for _, d := range derivations {
		p := d.make(g, f, key, base)
		class := "struct:" + d.class
		text := refb58.Encode(p)
		wantKey, why := f.decide(p)
		c.add("struct.case:" + d.class)
		c.add("struct.key:" + kclass)
		c.distinct("struct-"+f.name, p, false)
		if sample && (d.class == "append-one-byte" || d.class == "canonical" || d.class == "prepend-zero-bytes") {
			r.Sample(map[string]string{"leg": "structured", "family": f.name, "class": class, "payload": hx(p), "text": text,
				"reference_valid": fmt.Sprint(wantKey != nil), "reference_reason": why})
		}

		// the reference's text decision must agree with its payload decision (decode(encode(p)) = p):
		// a self-check of the oracle, not of the code under test
		if f.name == "sky" {
			k2, why2 := refAddrDecode(text)
			if (k2 == nil) != (wantKey == nil) || why2 != why {
				r.Inconclusive(fmt.Sprintf("reference disagrees with itself on payload %x: %q vs %q", p, why, why2))
			}
		}

		// ---- byte entry point
		c.evals++
		var v addrVal
		var err error
		if guard(f.fnBytes, class, string(p), func() { v, err = f.fromBytes(p) }) {
			switch {
			case wantKey == nil && err == nil:
				violB("accepted-invalid", f.fnBytes, class+"/"+why, p, fmt.Sprintf("%d-byte payload accepted as version %d key %x", len(p), v.version, v.key))
				note(v, "", p, f.fnBytes, class)
			case wantKey == nil:
				c.add(pre + "bytes.rejected")
				c.add(pre + "bytes.rejected:" + why)
			case err != nil:
				violB("rejected-valid", f.fnBytes, class, p, err.Error())
			default:
				if checkVal(f, f.fnBytes, class, p, v, wantKey, base, canonText) {
					c.add(pre + "bytes.accepted")
				}
				note(v, "", p, f.fnBytes, class)
			}
		}

		// ---- text entry point (the empty payload has the empty text, which is not base58)
		c.evals++
		if guard(f.fnText, class, text, func() { v, err = f.fromText(text) }) {
			switch {
			case wantKey == nil && err == nil:
				viol("accepted-invalid", f.fnText, class+"/"+why, text, fmt.Sprintf("text of a %d-byte payload %x accepted as version %d key %x (canonical text %s)", len(p), p, v.version, v.key, v.text))
				note(v, text, nil, f.fnText, class)
			case wantKey == nil:
				c.add(pre + "text.rejected")
				c.add(pre + "text.rejected:" + why)
			case err != nil:
				viol("rejected-valid", f.fnText, class, text, err.Error())
			default:
				if checkVal(f, f.fnText, class, []byte(text), v, wantKey, base, canonText) {
					c.add(pre + "text.accepted")
				}
				note(v, text, nil, f.fnText, class)
			}
		}

		// ---- Must variants: panic iff the reference refuses, same value otherwise
		if withMust {
			for _, m := range []struct {
				fn    string
				input []byte
				call  func() addrVal
			}{
				{"Must" + f.fnBytes, p, func() addrVal { return f.mustBytes(p) }},
				{"Must" + f.fnText, []byte(text), func() addrVal { return f.mustText(text) }},
			} {
				c.evals++
				var mv addrVal
				panicked, _, _ := vf.Recover(func() { mv = m.call() })
				switch {
				case wantKey == nil && !panicked:
					violB("accepted-invalid", m.fn, class+"/"+why, m.input, fmt.Sprintf("returned version %d key %x", mv.version, mv.key))
				case wantKey == nil:
					c.add(pre + "must.refused")
				case panicked:
					violB("rejected-valid", m.fn, class, m.input, "panicked on a canonical address")
				default:
					if checkVal(f, m.fn, class, m.input, mv, wantKey, base, canonText) {
						c.add(pre + "must.accepted")
					}
				}
			}
		}
	}

	// one-to-one within the family of this key: exactly the canonical text and payload were accepted
	c.evals++
	ok := len(byValue) == 1
	for _, s := range byValue {
		if s.text != canonText || s.payload != string(base) {
			ok = false
		}
	}
	if ok {
		c.add("struct.one-to-one.families")
	} else {
		// something else than the canonical form was (also) accepted, or the canonical form was
		// refused; reported above per case
		c.add("struct.one-to-one.broken")
	}
}

func legStructured() {
	n := r.Pick(3000, 100000)
	shards("struct", n, 256, func(i int, c *ctr) {
		key, kclass := structKey(c.g)
		for _, f := range families {
			structuredCase(f, key, kclass, i%4 == 0, c, i < 1)
		}
	})
	// fixed corner: the all-zero key (text starts with many '1's) and the empty payload
	c := &ctr{m: map[string]int64{}, g: r.Rand("struct-corner", 0)}
	for _, f := range families {
		structuredCase(f, make([]byte, 20), "all-zero-key", true, c, false)
		for _, p := range [][]byte{{}, {0}, make([]byte, 25), make([]byte, 26)} {
			c.evals++
			p := p
			want, _ := f.decide(p)
			var err error
			if guard(f.fnBytes, "struct:degenerate", string(p), func() { _, err = f.fromBytes(p) }) {
				if (want == nil) != (err != nil) {
					violB("accepted-invalid", f.fnBytes, "struct:degenerate", p, fmt.Sprint(err))
				} else {
					c.add("struct.degenerate.agree")
				}
			}
		}
	}
	for k, v := range c.m {
		r.Count(k, v)
	}
	r.Eval(c.evals)
}

// structuredText yields the address text of one derived payload for the API leg
func structuredText(g *rand.Rand, i int) (class, text string) {
	f := families[0]
	key, _ := structKey(g)
	base := f.seal(f.body(key, 0))
	d := derivations[i%len(derivations)]
	return "struct:" + d.class, refb58.Encode(d.make(g, f, key, base))
}
