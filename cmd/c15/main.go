// C15 — base58 and address encodings are exact and canonical.
//
// Differential monitor against lib/refb58 (big-integer base58): exhaustive over all byte strings
// of length 0..2, all alphabet strings of length 1..3 and all strings of length 1..2 over the full
// byte range; random and structured longer inputs; addresses decode iff the reference says they
// are the canonical text of a version-0 address with a correct checksum (then String() gives the
// text back). structured.go adds payloads derived from a valid 25-byte serialization (bytes
// appended / prepended / removed, recomputed checksums, non-zero version) at the byte and text
// entry points with a one-to-one check. The same address strings are posted to the real
// /api/v2/address/verify handler.
package main

import (
	"bytes"
	"crypto/sha256"
	"encoding/json"
	"fmt"
	"io/ioutil"
	"log"
	"math/rand"
	"net/http"
	"runtime"
	"strings"
	"sync"
	"time"
	"unicode/utf8"

	"github.com/skycoin/skycoin/src/api"
	"github.com/skycoin/skycoin/src/cipher"
	"github.com/skycoin/skycoin/src/cipher/base58"
	"github.com/skycoin/skycoin/src/util/logging"

	"verif/lib/refb58"
	"verif/lib/vf"
)

var r *vf.Run

// ctr is a per-shard counter set, flushed into the run once per shard
type ctr struct {
	m     map[string]int64
	evals int64
	g     *rand.Rand
	n     int // cases seen by this shard (for distinct sampling)
}

func (c *ctr) add(k string) { c.m[k]++ }

func shards(leg string, n, chunk int, f func(i int, c *ctr)) {
	nch := (n + chunk - 1) / chunk
	vf.Parallel(nch, runtime.NumCPU(), func(ci int) {
		c := &ctr{m: map[string]int64{}, g: r.Rand(leg, ci)}
		end := (ci + 1) * chunk
		if end > n {
			end = n
		}
		for i := ci * chunk; i < end; i++ {
			f(i, c)
		}
		for k, v := range c.m {
			r.Count(k, v)
		}
		r.Eval(c.evals)
	})
}

// distinct enters the case in the distinct set; in the thorough tier only every 16th random
// case is entered (a conservative count) to bound memory
func (c *ctr) distinct(tag string, b []byte, always bool) {
	c.n++
	if always || r.Quick() || c.n%16 == 0 {
		r.DistinctBytes(append([]byte(tag), b...))
	}
}

func hx(b []byte) string { return vf.Hex(b) }

func viol(kind, fn, class, input, detail string) {
	if capped(kind, fn, class) {
		return
	}
	r.Violation(kind, map[string]string{"func": fn, "class": class},
		map[string]string{"func": fn, "class": class, "input_hex": hx([]byte(input)), "input_text": fmt.Sprintf("%q", input), "detail": detail})
}

// capped limits the reports per (kind, function, class) to three; repeats are only counted, so
// that the first lines of output show every distinct class of violation
var (
	capMu   sync.Mutex
	capSeen = map[string]int{}
)

func capped(kind, fn, class string) bool {
	key := kind + "/" + fn + "/" + class
	capMu.Lock()
	capSeen[key]++
	n := capSeen[key]
	capMu.Unlock()
	if n > 3 {
		r.Count("violation.repeats:"+key, 1)
		return true
	}
	return false
}

func guard(fn, class, input string, f func()) bool {
	p, msg, frame := vf.Recover(f)
	if !p {
		return true
	}
	if capped("panic", fn, class) {
		return false
	}
	if len(msg) > 120 {
		msg = msg[:120]
	}
	r.Violation("panic", map[string]string{"func": fn, "class": class, "frame": frame, "msg": msg},
		map[string]string{"func": fn, "class": class, "input_hex": hx([]byte(input)), "panic": msg, "frame": frame})
	return false
}

// ------------------------------------------------------------------------------------------
// oracles

// checkEncode: Encode(b) equals the reference text and decodes back to b
func checkEncode(b []byte, class string, c *ctr) {
	c.evals++
	want := refb58.Encode(b)
	var got string
	if !guard("base58.Encode", class, string(b), func() { got = base58.Encode(b) }) {
		return
	}
	if got != want {
		viol("encode-mismatch", "base58.Encode", class, string(b), "got "+got+" want "+want)
		return
	}
	c.add("encode.agree")
	c.add("encode.agree:" + class)
	if len(b) == 0 {
		// the empty byte string encodes to "", which the decoder documents as invalid
		var err error
		if guard("base58.Decode", class, "", func() { _, err = base58.Decode(got) }) {
			if err == nil {
				c.add("decode.empty-string.accepted(unasserted)")
			} else {
				c.add("decode.empty-string.refused")
			}
		}
		return
	}
	var back []byte
	var err error
	if !guard("base58.Decode", class, got, func() { back, err = base58.Decode(got) }) {
		return
	}
	if err != nil || !bytes.Equal(back, b) {
		viol("roundtrip-mismatch", "base58.Decode", class, got, fmt.Sprintf("Decode(Encode(%x)) = %x, %v", b, back, err))
		return
	}
	c.add("roundtrip.bytes.agree")
}

// checkDecode: Decode(s) succeeds iff s is a non-empty alphabet string; then it equals the
// reference bytes and re-encodes to s
func checkDecode(s string, class string, c *ctr) {
	c.evals++
	valid := s != "" && refb58.InAlphabet(s)
	var got []byte
	var err error
	if !guard("base58.Decode", class, s, func() { got, err = base58.Decode(s) }) {
		return
	}
	if !valid {
		if err == nil {
			viol("accepted-invalid", "base58.Decode", class, s, fmt.Sprintf("decoded to %x", got))
			return
		}
		c.add("decode.rejected")
		c.add("decode.rejected:" + class)
		return
	}
	want, _ := refb58.Decode(s)
	if err != nil {
		viol("rejected-valid", "base58.Decode", class, s, err.Error())
		return
	}
	if !bytes.Equal(got, want) {
		viol("decode-mismatch", "base58.Decode", class, s, fmt.Sprintf("got %x want %x", got, want))
		return
	}
	var back string
	if !guard("base58.Encode", class, s, func() { back = base58.Encode(got) }) {
		return
	}
	if back != s {
		viol("not-canonical", "base58.Encode", class, s, "Encode(Decode(s)) = "+back)
		return
	}
	c.add("decode.accepted")
	c.add("decode.accepted:" + class)
}

// skycoin address text: base58( key[20] || version || SHA256(key || version)[:4] )
func refAddrBytes(key []byte, version byte) []byte {
	b := append(append([]byte{}, key...), version)
	h := sha256.Sum256(b)
	return append(b, h[:4]...)
}

// refAddrDecode is the statement's right-hand side: s is the text of a version-0 address with a
// correct checksum
func refAddrDecode(s string) (key []byte, why string) {
	if s == "" || !refb58.InAlphabet(s) {
		return nil, "not-base58"
	}
	b, _ := refb58.Decode(s)
	if len(b) != 25 {
		return nil, "length"
	}
	h := sha256.Sum256(b[:21])
	if !bytes.Equal(h[:4], b[21:]) {
		return nil, "checksum"
	}
	if b[20] != 0 {
		return nil, "version"
	}
	return b[:20], ""
}

// bitcoin address text: base58( version || key[20] || SHA256(SHA256(version || key))[:4] )
func refBtcAddrBytes(key []byte, version byte) []byte {
	b := append([]byte{version}, key...)
	return append(b, refb58.Checksum4(b)...)
}

func refBtcAddrDecode(s string) (key []byte, why string) {
	if s == "" || !refb58.InAlphabet(s) {
		return nil, "not-base58"
	}
	b, _ := refb58.Decode(s)
	if len(b) != 25 {
		return nil, "length"
	}
	if !bytes.Equal(refb58.Checksum4(b[:21]), b[21:]) {
		return nil, "checksum"
	}
	if b[0] != 0 {
		return nil, "version"
	}
	return b[1:21], ""
}

func checkAddrString(s, class string, c *ctr) (valid bool) {
	c.evals++
	key, why := refAddrDecode(s)
	var a cipher.Address
	var err error
	if !guard("DecodeBase58Address", class, s, func() { a, err = cipher.DecodeBase58Address(s) }) {
		return false
	}
	c.add("address.case:" + class)
	if key == nil {
		if err == nil {
			viol("accepted-invalid", "DecodeBase58Address", class+"/"+why, s, "decoded to "+hx(a.Bytes()))
			return false
		}
		c.add("address.rejected")
		c.add("address.rejected:" + why)
		return false
	}
	if err != nil {
		viol("rejected-valid", "DecodeBase58Address", class, s, err.Error())
		return true
	}
	if a.Version != 0 || !bytes.Equal(a.Key[:], key) {
		viol("decode-mismatch", "DecodeBase58Address", class, s, "value "+hx(a.Bytes()))
		return true
	}
	if a.String() != s {
		viol("not-canonical", "Address.String", class, s, "String() = "+a.String())
		return true
	}
	c.add("address.accepted")
	c.add("address.accepted:" + class)
	return true
}

func checkBtcAddrString(s, class string, c *ctr) {
	c.evals++
	key, why := refBtcAddrDecode(s)
	var a cipher.BitcoinAddress
	var err error
	if !guard("DecodeBase58BitcoinAddress", class, s, func() { a, err = cipher.DecodeBase58BitcoinAddress(s) }) {
		return
	}
	if key == nil {
		if err == nil {
			viol("accepted-invalid", "DecodeBase58BitcoinAddress", class+"/"+why, s, "decoded to "+hx(a.Bytes()))
			return
		}
		c.add("btcaddress.rejected")
		c.add("btcaddress.rejected:" + why)
		return
	}
	if err != nil {
		viol("rejected-valid", "DecodeBase58BitcoinAddress", class, s, err.Error())
		return
	}
	if a.Version != 0 || !bytes.Equal(a.Key[:], key) || a.String() != s {
		viol("not-canonical", "DecodeBase58BitcoinAddress", class, s, "value "+hx(a.Bytes())+" String() = "+a.String())
		return
	}
	c.add("btcaddress.accepted")
}

// ------------------------------------------------------------------------------------------
// generators

func randLen(g *rand.Rand) int {
	switch g.Intn(10) {
	case 0:
		return 65 + g.Intn(448) // up to 512
	case 1, 2:
		return 20 + g.Intn(45)
	default:
		return 1 + g.Intn(40)
	}
}

func genBytes(g *rand.Rand) (string, []byte) {
	n := randLen(g)
	b := make([]byte, n)
	g.Read(b)
	switch g.Intn(8) {
	case 0:
		z := 1 + g.Intn(n)
		for i := 0; i < z; i++ {
			b[i] = 0
		}
		if z == n {
			return "bytes:all-zero", b
		}
		return "bytes:leading-zeros", b
	case 1:
		for i := range b {
			b[i] = 0xff
		}
		return "bytes:all-ff", b
	case 2:
		// 0xff run after some zeros
		z := g.Intn(n)
		for i := range b {
			if i < z {
				b[i] = 0
			} else {
				b[i] = 0xff
			}
		}
		return "bytes:zeros-then-ff", b
	case 3:
		// 58^k and 58^k - 1 boundaries have carries across all digits: 0x01 followed by zeros, etc.
		for i := range b {
			b[i] = 0
		}
		b[g.Intn(n)] = byte(1 << uint(g.Intn(8)))
		return "bytes:single-bit", b
	default:
		return "bytes:random", b
	}
}

var lookalikes = []string{"0", "O", "I", "l", " ", "\t", "\n", "\r", "+", "/", "=", "-", "_", ".", "\x00", "\x7f",
	"\u00e9", "\uff11", "\u0131", "\u2170", "\u00a0", "\u3000", "\U0001F600", "\xff", "\x80", "\xc3", "\xe2\x82", "\xf0\x9f\x98"}

func genAlpha(g *rand.Rand, n int) []byte {
	b := make([]byte, n)
	for i := range b {
		b[i] = refb58.Alphabet[g.Intn(58)]
	}
	return b
}

func genString(g *rand.Rand) (string, string) {
	n := randLen(g)
	if g.Intn(12) == 0 {
		n = 513 + g.Intn(700) // over-long
	}
	b := genAlpha(g, n)
	switch g.Intn(8) {
	case 0:
		z := 1 + g.Intn(n)
		for i := 0; i < z; i++ {
			b[i] = '1'
		}
		return "string:leading-ones", string(b)
	case 1:
		for i := range b {
			b[i] = 'z'
		}
		return "string:all-z", string(b)
	case 2, 3:
		// one foreign character somewhere
		bad := lookalikes[g.Intn(len(lookalikes))]
		pos := g.Intn(n + 1)
		s := string(b[:pos]) + bad + string(b[pos:])
		cl := "string:foreign-ascii"
		if bad[0] >= 0x80 {
			cl = "string:foreign-non-ascii"
			if !utf8.ValidString(bad) {
				cl = "string:invalid-utf8"
			}
		}
		return cl, s
	case 4:
		// arbitrary bytes
		g.Read(b)
		return "string:random-bytes", string(b)
	default:
		return "string:alphabet", string(b)
	}
}

func mutateAddr(g *rand.Rand, s string) (string, string) {
	b := []byte(s)
	switch g.Intn(12) {
	case 0:
		pos := g.Intn(len(b))
		ch := refb58.Alphabet[g.Intn(58)]
		for ch == b[pos] {
			ch = refb58.Alphabet[g.Intn(58)]
		}
		b[pos] = ch
		return "addr:substitute-char", string(b)
	case 1:
		pos := g.Intn(len(b) + 1)
		return "addr:insert-char", s[:pos] + string(refb58.Alphabet[g.Intn(58)]) + s[pos:]
	case 2:
		pos := g.Intn(len(b))
		return "addr:delete-char", s[:pos] + s[pos+1:]
	case 3:
		return "addr:extra-leading-1", "1" + s
	case 4:
		return "addr:trailing-space", s + " "
	case 5:
		return "addr:leading-space", " " + s
	case 6:
		pos := g.Intn(len(b))
		bad := lookalikes[g.Intn(len(lookalikes))]
		return "addr:foreign-char", s[:pos] + bad + s[pos+1:]
	case 7:
		i, j := g.Intn(len(b)), g.Intn(len(b))
		b[i], b[j] = b[j], b[i]
		return "addr:swap-chars", string(b)
	case 8:
		return "addr:doubled", s + s
	case 9:
		return "addr:lower-cased", strings.ToLower(s)
	case 10:
		return "addr:trailing-newline", s + "\n"
	default:
		pos := g.Intn(len(b))
		return "addr:truncated", s[:pos]
	}
}

// genAddrCase returns an address-like string and its generator class
func genAddrCase(g *rand.Rand, i int) (string, string) {
	key := make([]byte, 20)
	g.Read(key)
	kclass := "addr:valid"
	switch g.Intn(6) {
	case 0:
		z := 1 + g.Intn(20)
		for j := 0; j < z; j++ {
			key[j] = 0
		}
		kclass = "addr:valid-leading-zero-key"
	case 1:
		for j := range key {
			key[j] = 0xff
		}
		kclass = "addr:valid-ff-key"
	}
	valid := refb58.Encode(refAddrBytes(key, 0))
	switch i % 8 {
	case 0, 1:
		return kclass, valid
	case 2, 3:
		return mutateAddr(g, valid)
	case 4:
		// wrong version but self-consistent checksum
		return "addr:version-nonzero-good-checksum", refb58.Encode(refAddrBytes(key, byte(1+g.Intn(255))))
	case 5:
		// version 0, corrupted checksum / payload byte
		b := refAddrBytes(key, 0)
		b[g.Intn(25)] ^= byte(1 << uint(g.Intn(8)))
		return "addr:payload-bitflip", refb58.Encode(b)
	case 6:
		// wrong payload length with a self-consistent checksum
		l := []int{0, 1, 19, 21, 24, 32}[g.Intn(6)]
		k := make([]byte, l)
		g.Read(k)
		return "addr:wrong-length-good-checksum", refb58.Encode(refAddrBytes(k, 0))
	default:
		return "addr:random-alphabet-string", string(genAlpha(g, 20+g.Intn(20)))
	}
}

// ------------------------------------------------------------------------------------------
// legs

func legExhaustive() {
	// all byte strings of length 0, 1, 2
	c := &ctr{m: map[string]int64{}}
	checkEncode([]byte{}, "bytes:exhaustive-len0", c)
	for k, v := range c.m {
		r.Count(k, v)
	}
	r.Eval(c.evals)
	r.DistinctBytes([]byte("enc"))
	shards("ex1", 256, 64, func(i int, c *ctr) {
		b := []byte{byte(i)}
		checkEncode(b, "bytes:exhaustive-len1", c)
		c.distinct("enc", b, true)
	})
	shards("ex2", 65536, 4096, func(i int, c *ctr) {
		b := []byte{byte(i >> 8), byte(i)}
		checkEncode(b, "bytes:exhaustive-len2", c)
		c.distinct("enc", b, true)
	})
	// all alphabet strings of length 1, 2, 3
	A := refb58.Alphabet
	shards("ea", 58+58*58+58*58*58, 4096, func(i int, c *ctr) {
		var s string
		switch {
		case i < 58:
			s = string(A[i])
		case i < 58+58*58:
			j := i - 58
			s = string([]byte{A[j/58], A[j%58]})
		default:
			j := i - 58 - 58*58
			s = string([]byte{A[j/(58*58)], A[(j/58)%58], A[j%58]})
		}
		checkDecode(s, fmt.Sprintf("string:exhaustive-alphabet-len%d", len(s)), c)
		c.distinct("dec", []byte(s), true)
	})
	// all strings of length 1 and 2 over the full byte range (includes every non-alphabet byte,
	// every invalid UTF-8 start/continuation byte and all 2-byte UTF-8 sequences)
	shards("eb", 256+65536, 4096, func(i int, c *ctr) {
		var s string
		if i < 256 {
			s = string([]byte{byte(i)})
		} else {
			j := i - 256
			s = string([]byte{byte(j >> 8), byte(j)})
		}
		checkDecode(s, fmt.Sprintf("string:exhaustive-anybyte-len%d", len(s)), c)
		c.distinct("dec", []byte(s), true)
	})
	// the empty string
	var err error
	r.Eval(1)
	if guard("base58.Decode", "string:empty", "", func() { _, err = base58.Decode("") }) {
		if err == nil {
			viol("accepted-invalid", "base58.Decode", "string:empty", "", "")
		} else {
			r.Count("decode.rejected:string:empty", 1)
		}
	}
	r.Extra("exhaustive_subspaces", []string{"byte strings of length 0..2 (65793)", "alphabet strings of length 1..3 (198534)", "strings of length 1..2 over all 256 byte values (65792)"})
}

func legRandom() {
	n := r.Pick(60000, 6000000)
	shards("bytes", n, 4096, func(i int, c *ctr) {
		cl, b := genBytes(c.g)
		checkEncode(b, cl, c)
		c.distinct("enc", b, false)
		if i < 2 {
			r.Sample(map[string]string{"leg": "encode", "class": cl, "bytes": hx(b), "text": refb58.Encode(b)})
		}
	})
	shards("strings", n, 4096, func(i int, c *ctr) {
		cl, s := genString(c.g)
		checkDecode(s, cl, c)
		c.distinct("dec", []byte(s), false)
		if i < 2 {
			r.Sample(map[string]string{"leg": "decode", "class": cl, "text": fmt.Sprintf("%q", s)})
		}
	})
}

func legAddresses() {
	n := r.Pick(60000, 6000000)
	shards("addr", n, 4096, func(i int, c *ctr) {
		cl, s := genAddrCase(c.g, i)
		ok := checkAddrString(s, cl, c)
		c.distinct("addr", []byte(s), false)
		if ok && i%8 < 2 {
			// value -> text -> value for the same address built from its fields
			key, _ := refAddrDecode(s)
			a := cipher.Address{Version: 0}
			copy(a.Key[:], key)
			c.evals++
			if a.String() != s || !bytes.Equal(a.Bytes(), refAddrBytes(key, 0)) {
				viol("encode-mismatch", "Address.String", cl, s, "String() = "+a.String()+" Bytes() = "+hx(a.Bytes()))
			} else if b, err := cipher.AddressFromBytes(a.Bytes()); err != nil || b != a {
				viol("roundtrip-mismatch", "AddressFromBytes", cl, s, fmt.Sprint(err))
			} else {
				c.add("address.value-text-value.agree")
			}
		}
		if i < 3 {
			r.Sample(map[string]string{"leg": "address", "class": cl, "text": fmt.Sprintf("%q", s), "reference_valid": fmt.Sprint(ok)})
		}
	})
	// Bitcoin-format addresses (cipher/bitcoin.go) follow the same rule with version first and a double hash
	shards("btc", n/6, 4096, func(i int, c *ctr) {
		g := c.g
		key := make([]byte, 20)
		g.Read(key)
		if g.Intn(4) == 0 {
			for j := 0; j < 1+g.Intn(6); j++ {
				key[j] = 0
			}
		}
		var s, cl string
		switch i % 4 {
		case 0:
			s, cl = refb58.Encode(refBtcAddrBytes(key, 0)), "btc:valid"
		case 1:
			cl, s = mutateAddr(g, refb58.Encode(refBtcAddrBytes(key, 0)))
			cl = "btc:" + cl
		case 2:
			s, cl = refb58.Encode(refBtcAddrBytes(key, byte(1+g.Intn(255)))), "btc:version-nonzero-good-checksum"
		default:
			b := refBtcAddrBytes(key, 0)
			b[g.Intn(25)] ^= byte(1 << uint(g.Intn(8)))
			s, cl = refb58.Encode(b), "btc:payload-bitflip"
		}
		checkBtcAddrString(s, cl, c)
		c.distinct("btc", []byte(s), false)
	})
}

// legAPI posts address strings to the real HTTP handler (api.Create with no gateway: the
// address endpoint never touches it)
func legAPI() {
	logging.Disable()
	srv, err := api.Create("127.0.0.1:0", api.Config{
		DisableCSRF:    true,
		EnabledAPISets: map[string]struct{}{api.EndpointsRead: {}},
	}, nil)
	if err != nil {
		r.Inconclusive("api.Create: " + err.Error())
		return
	}
	done := make(chan struct{})
	go func() { _ = srv.Serve(); close(done) }()
	defer func() { srv.Shutdown(); <-done }()
	url := "http://" + srv.Addr() + "/api/v2/address/verify"
	client := &http.Client{Timeout: 20 * time.Second, Transport: &http.Transport{MaxIdleConnsPerHost: 32}}

	n0 := r.Pick(4000, 80000)
	n := n0 + n0/4 // the last fifth: texts of payloads derived from a valid serialization (structured.go)
	shards("api", n, 256, func(i int, c *ctr) {
		var cl, s string
		if i < n0 {
			cl, s = genAddrCase(c.g, i)
		} else {
			cl, s = structuredText(c.g, i-n0)
			c.add("api.struct.case")
		}
		if !utf8.ValidString(s) {
			c.add("api.skipped(not-utf8-cannot-be-json)")
			return
		}
		body, _ := json.Marshal(map[string]string{"address": s})
		key, why := refAddrDecode(s)
		c.evals++
		var resp *http.Response
		var err error
		for try := 0; try < 4; try++ {
			if resp, err = client.Post(url, "application/json", bytes.NewReader(body)); err == nil {
				break
			}
			time.Sleep(200 * time.Millisecond)
		}
		if err != nil {
			r.Inconclusive("api post: " + err.Error())
			return
		}
		raw, _ := ioutil.ReadAll(resp.Body)
		resp.Body.Close()
		c.distinct("api", []byte(s), false)
		switch {
		case s == "":
			if resp.StatusCode != http.StatusBadRequest {
				viol("api-mismatch", "POST /api/v2/address/verify", "api:empty", s, fmt.Sprintf("status %d", resp.StatusCode))
			} else {
				c.add("api.rejected:empty")
			}
		case key != nil:
			var out struct {
				Data *struct {
					Version *int `json:"version"`
				} `json:"data"`
			}
			if resp.StatusCode != http.StatusOK || json.Unmarshal(raw, &out) != nil || out.Data == nil {
				viol("rejected-valid", "POST /api/v2/address/verify", "api:"+cl, s, fmt.Sprintf("status %d body %s", resp.StatusCode, raw))
			} else {
				c.add("api.accepted")
			}
		default:
			if resp.StatusCode != http.StatusUnprocessableEntity {
				viol("accepted-invalid", "POST /api/v2/address/verify", "api:"+cl+"/"+why, s, fmt.Sprintf("status %d body %s", resp.StatusCode, raw))
			} else {
				c.add("api.rejected")
				c.add("api.rejected:" + why)
			}
		}
	})
}

func main() {
	log.SetOutput(ioutil.Discard)
	r = vf.Start("C15", "exploration")

	for _, l := range []struct {
		name string
		f    func()
	}{{"exhaustive", legExhaustive}, {"random", legRandom}, {"addresses", legAddresses}, {"structured", legStructured}, {"api", legAPI}} {
		t0 := time.Now()
		l.f()
		r.Extra("wall_s."+l.name, time.Since(t0).Seconds())
	}

	fl := func(k string, quick, thorough int64) {
		if r.Quick() {
			r.Floor(k, quick)
		} else {
			r.Floor(k, thorough)
		}
	}
	r.Floor("encode.agree:bytes:exhaustive-len0", 1)
	r.Floor("encode.agree:bytes:exhaustive-len1", 256)
	r.Floor("encode.agree:bytes:exhaustive-len2", 65536)
	r.Floor("decode.accepted:string:exhaustive-alphabet-len1", 58)
	r.Floor("decode.accepted:string:exhaustive-alphabet-len2", 58*58)
	r.Floor("decode.accepted:string:exhaustive-alphabet-len3", 58*58*58)
	r.Floor("decode.accepted:string:exhaustive-anybyte-len1", 58)
	r.Floor("decode.accepted:string:exhaustive-anybyte-len2", 58*58)
	r.Floor("decode.rejected:string:exhaustive-anybyte-len1", 256-58)
	r.Floor("decode.rejected:string:exhaustive-anybyte-len2", 65536-58*58)
	r.Floor("decode.rejected:string:empty", 1)
	for _, c := range []string{"bytes:random", "bytes:leading-zeros", "bytes:all-zero", "bytes:all-ff", "bytes:zeros-then-ff", "bytes:single-bit"} {
		fl("encode.agree:"+c, 300, 30000)
	}
	for _, c := range []string{"string:alphabet", "string:leading-ones", "string:all-z"} {
		fl("decode.accepted:"+c, 3000, 300000)
	}
	for _, c := range []string{"string:foreign-ascii", "string:foreign-non-ascii", "string:invalid-utf8", "string:random-bytes"} {
		fl("decode.rejected:"+c, 1500, 150000)
	}
	fl("address.accepted", 12000, 1200000)
	fl("address.value-text-value.agree", 12000, 1200000)
	for _, c := range []string{"addr:valid", "addr:valid-leading-zero-key", "addr:valid-ff-key"} {
		fl("address.accepted:"+c, 1500, 150000)
	}
	for _, c := range []string{"not-base58", "length", "checksum", "version"} {
		fl("address.rejected:"+c, 3000, 300000)
	}
	for _, c := range []string{"addr:substitute-char", "addr:insert-char", "addr:delete-char", "addr:extra-leading-1", "addr:trailing-space", "addr:leading-space",
		"addr:foreign-char", "addr:swap-chars", "addr:doubled", "addr:lower-cased", "addr:trailing-newline", "addr:truncated",
		"addr:version-nonzero-good-checksum", "addr:payload-bitflip", "addr:wrong-length-good-checksum", "addr:random-alphabet-string"} {
		fl("address.case:"+c, 700, 70000)
	}
	fl("btcaddress.accepted", 2000, 200000)
	fl("btcaddress.rejected:version", 2000, 200000)
	fl("btcaddress.rejected:checksum", 2000, 200000)
	// structured leg: every derivation class ran for both families, both entry points refused for
	// every reason, and the canonical form was the only accepted one in (nearly) every family
	for _, d := range derivations {
		fl("struct.case:"+d.class, 5000, 175000)
	}
	for _, f := range []string{"sky", "btc"} {
		fl("struct."+f+".bytes.accepted", 2500, 90000)
		fl("struct."+f+".text.accepted", 2500, 90000)
		fl("struct."+f+".must.accepted", 1200, 40000)
		fl("struct."+f+".must.refused", 20000, 750000)
		for _, why := range []string{"length", "checksum", "version"} {
			fl("struct."+f+".bytes.rejected:"+why, 2500, 90000)
			fl("struct."+f+".text.rejected:"+why, 2500, 90000)
		}
	}
	fl("struct.one-to-one.families", 5000, 175000)
	r.Floor("struct.degenerate.agree", 8)
	fl("api.struct.case", 900, 18000)
	fl("api.accepted", 800, 16000)
	fl("api.rejected", 1500, 30000)
	for _, c := range []string{"not-base58", "length", "checksum", "version"} {
		fl("api.rejected:"+c, 100, 2000)
	}

	r.Finish("exhaustive over all byte strings of length 0..2, all alphabet strings of length 1..3 and all strings of length 1..2 over the 256 byte values; random byte strings and strings by class (leading zeros/ones, 0xFF runs, single bit, foreign ASCII / non-ASCII / invalid UTF-8 characters, over-long to 1200 characters); address texts built by the reference (valid, leading-zero keys, non-zero version or wrong payload length with a consistent checksum, bit flips) and 12 text mutations of valid addresses; structure-aware payloads derived from the reference's valid 25-byte serialization of a random key (bytes appended / prepended incl. zero bytes / removed, longer or shorter body with recomputed checksum, checksum moved to the end, non-zero version with recomputed or stale checksum) given as bytes to AddressFromBytes / BitcoinAddressFromBytes and as reference-encoded text to the Decode and Must entry points, with a one-to-one check (only the canonical text and payload of a key may be accepted); each case is distinct by its bytes and non-trivial because the reference decides its expected outcome (in the thorough tier only every 16th random case is entered in the distinct set, a conservative count)",
		"the empty string is treated as invalid for Decode, as the package documents (ErrInvalidString), although the big-integer definition would map it to the empty byte string",
		"strings that are not valid UTF-8 cannot be carried in a JSON request unchanged and are skipped in the API leg only",
		"lib/refb58 (math/big repeated division) is assumed correct; it is checked against published vectors in lib/refbip tests")
}
