package main

// Independent address parser (written from the C26 statement) and the hostile address-string
// generator. Nothing here calls the code under test.

import (
	"fmt"
	"math/rand"
	"strings"
)

// parsePeerAddr decides whether s is "of the form ip:port with a global unicast IPv4 address (or
// loopback when explicitly allowed) and a port of at least 1024". It returns the address class and,
// when the string is not acceptable, the reason.
//
// Form: exactly one ':'; left of it a dotted quad (four decimal fields 0..255, ASCII digits only, no
// leading zeros, nothing else); right of it a decimal port (ASCII digits only, 1024..65535; leading
// zeros do not change the number and are tolerated, counted separately in the evidence).
//
// Scope (RFC 1122 / RFC 4291 address-scope classes, the same classes the standard library's
// IsGlobalUnicast documents): unspecified 0.0.0.0, loopback 127/8, link-local 169.254/16, multicast
// 224/4 and the limited broadcast 255.255.255.255 are NOT global unicast; everything else is
// (including RFC 1918 private space, which the documentation of "global unicast" explicitly
// includes).
func parsePeerAddr(s string, allowLoopback bool) (class string, ok bool, why string) {
	if strings.Count(s, ":") != 1 {
		return "", false, "not-exactly-one-colon"
	}
	i := strings.IndexByte(s, ':')
	host, ps := s[:i], s[i+1:]
	var oct [4]int
	fields := strings.Split(host, ".")
	if len(fields) != 4 {
		return "", false, "not-dotted-quad"
	}
	for k, f := range fields {
		if len(f) == 0 || len(f) > 3 {
			return "", false, "not-dotted-quad"
		}
		if len(f) > 1 && f[0] == '0' {
			return "", false, "octet-leading-zero"
		}
		n := 0
		for j := 0; j < len(f); j++ {
			if f[j] < '0' || f[j] > '9' {
				return "", false, "not-dotted-quad"
			}
			n = n*10 + int(f[j]-'0')
		}
		if n > 255 {
			return "", false, "octet-out-of-range"
		}
		oct[k] = n
	}
	if len(ps) == 0 {
		return "", false, "empty-port"
	}
	port := 0
	for j := 0; j < len(ps); j++ {
		if ps[j] < '0' || ps[j] > '9' {
			return "", false, "port-not-decimal"
		}
		if port <= 65535 {
			port = port*10 + int(ps[j]-'0')
		}
	}
	if port > 65535 {
		return "", false, "port-out-of-range"
	}
	if port < 1024 {
		return "", false, "port-below-1024"
	}
	switch {
	case oct == [4]int{0, 0, 0, 0}:
		return "unspecified", false, "unspecified-ip"
	case oct[0] == 127:
		if !allowLoopback {
			return "loopback", false, "loopback-not-allowed"
		}
		class = "loopback"
	case oct[0] == 169 && oct[1] == 254:
		return "link-local", false, "link-local-ip"
	case oct[0] >= 224 && oct[0] <= 239:
		return "multicast", false, "multicast-ip"
	case oct == [4]int{255, 255, 255, 255}:
		return "broadcast", false, "broadcast-ip"
	case oct[0] == 10, oct[0] == 172 && oct[1] >= 16 && oct[1] <= 31, oct[0] == 192 && oct[1] == 168:
		class = "private"
	case oct[0] == 0:
		class = "this-network-0/8"
	case oct[0] >= 240:
		class = "reserved-240/4"
	default:
		class = "global"
	}
	if len(ps) > 1 && ps[0] == '0' {
		class += "+port-leading-zero"
	}
	return class, true, ""
}

// ---- generator ---------------------------------------------------------------------------------

// genAddr is one generated address string with the generator's label
type genAddr struct {
	S     string
	Label string
}

func goodIP(r *rand.Rand) string {
	for {
		a := 1 + r.Intn(223)
		b, c, d := r.Intn(256), r.Intn(256), r.Intn(256)
		if a == 127 || (a == 169 && b == 254) {
			continue
		}
		return fmt.Sprintf("%d.%d.%d.%d", a, b, c, d)
	}
}

func goodPort(r *rand.Rand) int {
	switch r.Intn(6) {
	case 0:
		return 1024
	case 1:
		return 65535
	case 2:
		return 6000
	}
	return 1024 + r.Intn(65536-1024)
}

func validAddr(r *rand.Rand) genAddr {
	return genAddr{fmt.Sprintf("%s:%d", goodIP(r), goodPort(r)), "valid.global"}
}

var hostileIPs = []struct{ ip, label string }{
	{"0.0.0.0", "ip.unspecified"}, {"127.0.0.1", "ip.loopback"}, {"127.255.3.9", "ip.loopback"},
	{"10.0.0.1", "ip.private"}, {"172.16.5.5", "ip.private"}, {"192.168.1.1", "ip.private"},
	{"169.254.1.1", "ip.link-local"}, {"224.0.0.1", "ip.multicast"}, {"239.255.255.250", "ip.multicast"},
	{"255.255.255.255", "ip.broadcast"}, {"240.0.0.1", "ip.reserved"}, {"0.1.2.3", "ip.this-network"},
	{"1.2.3", "ip.three-fields"}, {"1.2.3.4.5", "ip.five-fields"}, {"01.2.3.4", "ip.leading-zero"},
	{"1.2.3.256", "ip.octet-256"}, {"0x1.2.3.4", "ip.hex"}, {"1.2.3.4/24", "ip.cidr"},
	{"16909060", "ip.integer"}, {"1.2.3.-4", "ip.negative"}, {"1..3.4", "ip.empty-field"},
	{"١.٢.٣.٤", "ip.arabic-digits"}, {"１.2.3.4", "ip.fullwidth-digit"},
	{"::1", "ip6.loopback"}, {"[::1]", "ip6.bracket-loopback"}, {"2001:db8::1", "ip6.global"},
	{"[2001:db8::1]", "ip6.bracket-global"}, {"::ffff:1.2.3.4", "ip6.v4-mapped"}, {"fe80::1%eth0", "ip6.zone"},
	{"localhost", "host.localhost"}, {"example.com", "host.name"}, {"", "ip.empty"}, {"1.2.3.4.", "ip.trailing-dot"},
}

var hostilePorts = []struct{ p, label string }{
	{"0", "port.0"}, {"1", "port.1"}, {"1023", "port.1023"}, {"65536", "port.65536"}, {"99999", "port.99999"},
	{"-1", "port.negative"}, {"+6000", "port.plus"}, {"06000", "port.leading-zero"}, {"00000001024", "port.leading-zeros"},
	{"01023", "port.leading-zero-low"}, {"0x1770", "port.hex"}, {"", "port.empty"}, {"6e3", "port.exp"},
	{"6000.0", "port.decimal-point"}, {"６000", "port.fullwidth-digit"}, {"٦٠٠٠", "port.arabic-digits"},
	{"6_000", "port.underscore"}, {"18446744073709557616", "port.wraps-64bit"}, {"4294973296", "port.wraps-32bit"},
	{"71536", "port.wraps-16bit"}, {"http", "port.service-name"},
}

var spaces = []struct{ s, label string }{
	{" ", "ws.space"}, {"\t", "ws.tab"}, {"\n", "ws.newline"}, {"\r\n", "ws.crlf"}, {"\v", "ws.vtab"}, {"\f", "ws.formfeed"},
	{" ", "ws.nbsp"}, {" ", "ws.em-space"}, {"​", "ws.zero-width"}, {"\u0085", "ws.nel"}, {"\x00", "ws.nul"},
}

// hostile produces one hostile address string
func hostile(r *rand.Rand) genAddr {
	switch r.Intn(9) {
	case 0: // bad ip, good port
		h := hostileIPs[r.Intn(len(hostileIPs))]
		return genAddr{fmt.Sprintf("%s:%d", h.ip, goodPort(r)), h.label}
	case 1: // good ip, bad port
		p := hostilePorts[r.Intn(len(hostilePorts))]
		return genAddr{goodIP(r) + ":" + p.p, p.label}
	case 2: // both
		h := hostileIPs[r.Intn(len(hostileIPs))]
		p := hostilePorts[r.Intn(len(hostilePorts))]
		return genAddr{h.ip + ":" + p.p, h.label + "+" + p.label}
	case 3: // whitespace somewhere in an otherwise valid address
		a := validAddr(r).S
		w := spaces[r.Intn(len(spaces))]
		pos := r.Intn(len(a) + 1)
		return genAddr{a[:pos] + w.s + a[pos:], w.label}
	case 4: // colons
		a := goodIP(r)
		p := goodPort(r)
		switch r.Intn(6) {
		case 0:
			return genAddr{fmt.Sprintf("%s:%d:%d", a, p, p), "colon.extra-port"}
		case 1:
			return genAddr{fmt.Sprintf("%s::%d", a, p), "colon.double"}
		case 2:
			return genAddr{fmt.Sprintf(":%d", p), "colon.no-ip"}
		case 3:
			return genAddr{a + ":", "colon.no-port"}
		case 4:
			return genAddr{a, "colon.none"}
		default:
			return genAddr{fmt.Sprintf("%s:%d:", a, p), "colon.trailing"}
		}
	case 5: // boundary ports with special IPs (e.g. loopback with a low port)
		h := hostileIPs[r.Intn(12)]
		p := []string{"1023", "1024", "65535", "65536", "0"}[r.Intn(5)]
		return genAddr{h.ip + ":" + p, h.label + "+port." + p}
	case 6: // byte-level mutation of a valid address
		b := []byte(validAddr(r).S)
		for n := 1 + r.Intn(2); n > 0; n-- {
			switch r.Intn(3) {
			case 0:
				b[r.Intn(len(b))] = byte(r.Intn(256))
			case 1:
				i := r.Intn(len(b))
				b = append(b[:i], b[i+1:]...)
			default:
				i := r.Intn(len(b) + 1)
				b = append(b[:i], append([]byte{"0123456789.:- +"[r.Intn(15)]}, b[i:]...)...)
			}
			if len(b) == 0 {
				b = []byte(":")
			}
		}
		return genAddr{string(b), "mutated"}
	case 7: // long / odd
		switch r.Intn(4) {
		case 0:
			return genAddr{goodIP(r) + ":" + strings.Repeat("0", 300) + "6000", "port.300-leading-zeros"}
		case 1:
			return genAddr{strings.Repeat("1", 5000) + ":6000", "ip.very-long"}
		case 2:
			return genAddr{goodIP(r) + ":6000#comment", "suffix.comment"}
		default:
			return genAddr{"http://" + goodIP(r) + ":6000", "prefix.scheme"}
		}
	default: // special-scope IP with a perfectly good port
		h := hostileIPs[r.Intn(12)]
		return genAddr{fmt.Sprintf("%s:%d", h.ip, 6000+r.Intn(10)), h.label}
	}
}
