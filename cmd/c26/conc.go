package main

// C26, concurrent leg — one pex.Pex shared by 4..16 goroutines.
//
// In the node the peer list is used from several goroutines at once (daemon loop, message handlers,
// the HTTP API, the peer-list download started by New). The statement quantifies over all histories, so
// the bound and the validity of the list must also hold when the calls overlap. A round builds one Pex
// (Max 8..500, a prefilled list that leaves a few free slots, 0..3 trusted default connections, some
// prefilled peers aged so that AddPeer's eviction path is live), releases all goroutines from a barrier and
// lets each run its own deterministic operation list (a function of VERIF_SEED and the round number):
// bulk additions of DISTINCT valid addresses, each large enough to fill the free slots on its own, single
// additions, removals, SetHasIncomingPort, retry counters, SetUserAgent, the random/trusted reads and
// saves. The interleaving itself is NOT controlled (many short rounds instead); what is checked does not
// depend on it:
//
//   * every read (Random, RandomExchangeable, Trusted, AllTrusted) returns a consistent snapshot, so it
//     holds at most Max peers, each acceptable to the independent address parser;
//   * at quiescence: size <= Max, every address acceptable under the configuration (no loopback unless
//     allowed), the default connections that no operation list removes are present and still trusted, no
//     other peer is trusted, and the saved cache file holds exactly the list.
//
// The same rounds (a subset) are run by the `c26race` binary (this package built with -race); data-race
// reports whose two innermost skycoin frames are in src/daemon/pex are violations.
//
// The overlap counters use lib/sched's assembly atomics, which the race detector does not see, so that the
// bookkeeping does not add happens-before edges between the callers.

import (
	"encoding/json"
	"fmt"
	"io/ioutil"
	"math/rand"
	"os"
	"path/filepath"
	"runtime"
	"sort"
	"strconv"
	"strings"
	"sync"
	"time"

	"github.com/skycoin/skycoin/src/daemon/pex"
	"github.com/skycoin/skycoin/src/util/useragent"

	"verif/lib/sched"
	"verif/lib/vf"
)

// cOp is one operation of a concurrent round (explicit arguments: the witness is the whole plan)
type cOp struct {
	Kind  string   `json:"kind"`
	Addr  string   `json:"addr,omitempty"`
	Addrs []string `json:"addrs,omitempty"`
	N     int      `json:"n,omitempty"`
	Flag  bool     `json:"flag,omitempty"`
}

// cRound is the plan of one round
type cRound struct {
	Idx      int      `json:"round"`
	Seed     int64    `json:"round_seed"`
	Shape    string   `json:"shape"`
	Max      int      `json:"max"`
	Local    bool     `json:"allow_localhost"`
	Defaults []string `json:"default_connections"`
	Prefill  []string `json:"prefill"`
	Aged     []string `json:"aged"`
	Free     int      `json:"free_slots"`
	Ops      [][]cOp  `json:"ops_per_goroutine"`
}

// cFinding is a violated invariant of one round
type cFinding struct {
	Kind  string            `json:"kind"`
	Attrs map[string]string `json:"attrs"`
	Round *cRound           `json:"plan,omitempty"`
}

type cJob struct {
	Idx  int   `json:"idx"`
	Seed int64 `json:"seed"`
}

type cChildOut struct {
	Finished bool             `json:"finished"`
	Counts   map[string]int64 `json:"counts"`
	Findings []cFinding       `json:"findings"`
	Hung     string           `json:"hung,omitempty"`
}

var concMaxes = []int{8, 8, 8, 12, 12, 16, 16, 24, 24, 32, 40, 64, 64, 100, 200, 500}

// uniq hands out distinct valid addresses
type uniq struct {
	r    *rand.Rand
	seen map[string]bool
}

func (u *uniq) next() string {
	for {
		a := validAddr(u.r).S
		if !u.seen[a] {
			u.seen[a] = true
			return a
		}
	}
}

func (u *uniq) list(n int) []string {
	out := make([]string, 0, n)
	for i := 0; i < n; i++ {
		out = append(out, u.next())
	}
	return out
}

// genConcRound builds the plan of round idx; a pure function of (idx, seed)
func genConcRound(idx int, seed int64) *cRound {
	r := rand.New(rand.NewSource(seed))
	u := &uniq{r: r, seen: map[string]bool{}}
	p := &cRound{Idx: idx, Seed: seed, Max: concMaxes[r.Intn(len(concMaxes))], Local: r.Intn(2) == 0}
	nDef := r.Intn(4)
	p.Defaults = u.list(nDef)
	room := p.Max - nDef
	switch x := r.Intn(10); {
	case x == 0:
		p.Free = 0 // full list
	case x == 1:
		p.Free = room // nothing but the default connections
	default:
		p.Free = 1 + r.Intn((room+1)/2)
	}
	p.Prefill = u.list(room - p.Free)
	if r.Intn(2) == 0 { // some old untrusted peers: AddPeer may evict them when the list is full
		for _, a := range p.Prefill {
			if r.Intn(3) == 0 {
				p.Aged = append(p.Aged, a)
			}
		}
	}
	known := append(append([]string{}, p.Prefill...), p.Defaults...)
	someKnown := func() string {
		if len(known) == 0 {
			return u.next()
		}
		return known[r.Intn(len(known))]
	}
	// a few valid addresses that several goroutines offer
	shared := u.list(4)
	oneAddr := func() string {
		switch x := r.Intn(100); {
		case x < 70:
			return u.next()
		case x < 78:
			return shared[r.Intn(len(shared))]
		case x < 84:
			return someKnown()
		case x < 90:
			return fmt.Sprintf("127.0.0.1:%d", 6000+r.Intn(6))
		default:
			return hostile(r).S
		}
	}
	bulk := func(min int) []string {
		var n int
		switch r.Intn(5) {
		case 0:
			n = min + r.Intn(min+2)
		case 1:
			n = p.Max
		case 2:
			n = 2*p.Max + r.Intn(8)
		case 3:
			n = 1 + r.Intn(3)
		default:
			n = min + r.Intn(p.Max/2+2)
		}
		if n < min {
			n = min
		}
		as := u.list(n) // distinct, valid, new
		// a few extra entries of the other classes
		for k := r.Intn(4); k > 0; k-- {
			i := r.Intn(len(as) + 1)
			as = append(as[:i], append([]string{oneAddr()}, as[i:]...)...)
		}
		return as
	}
	g := 4 + r.Intn(13)
	p.Shape = []string{"mixed", "mixed", "burst", "burst-behind-save"}[r.Intn(4)]
	minBulk := p.Free
	if minBulk < 1 {
		minBulk = 1
	}
	for gi := 0; gi < g; gi++ {
		n := 2 + r.Intn(6)
		ops := make([]cOp, 0, n)
		for k := 0; k < n; k++ {
			x := r.Intn(100)
			if k == 0 && p.Shape != "mixed" {
				// several connections deliver peer lists at the same moment
				x = 0
				if p.Shape == "burst-behind-save" && gi == 0 {
					x = 70
				}
			}
			switch {
			case x < 34:
				ops = append(ops, cOp{Kind: "AddPeers", Addrs: bulk(minBulk)})
			case x < 50:
				ops = append(ops, cOp{Kind: "AddPeer", Addr: oneAddr()})
			case x < 58:
				a := someKnown()
				if len(p.Prefill) > 0 && r.Intn(10) != 0 {
					a = p.Prefill[r.Intn(len(p.Prefill))] // mostly untrusted peers
				}
				if r.Intn(6) == 0 {
					a = oneAddr()
				}
				ops = append(ops, cOp{Kind: "RemovePeer", Addr: a})
			case x < 63:
				a := someKnown()
				if r.Intn(3) == 0 {
					a = oneAddr()
				}
				ops = append(ops, cOp{Kind: "SetHasIncomingPort", Addr: a, Flag: r.Intn(4) != 0})
			case x < 68:
				ops = append(ops, cOp{Kind: "IncreaseRetryTimes", Addr: someKnown(), N: []int{1, 1, 3, 12}[r.Intn(4)]})
			case x < 70:
				if r.Intn(3) == 0 {
					ops = append(ops, cOp{Kind: "ResetAllRetryTimes"})
				} else {
					ops = append(ops, cOp{Kind: "ResetRetryTimes", Addr: someKnown()})
				}
			case x < 76:
				ops = append(ops, cOp{Kind: "Save"})
			case x < 79:
				ops = append(ops, cOp{Kind: "SetUserAgent", Addr: someKnown()})
			case x < 84:
				ops = append(ops, cOp{Kind: "Random", N: r.Intn(6) * r.Intn(6)})
			case x < 89:
				ops = append(ops, cOp{Kind: "RandomExchangeable", N: r.Intn(6) * r.Intn(6)})
			case x < 93:
				ops = append(ops, cOp{Kind: "Trusted"})
			case x < 96:
				ops = append(ops, cOp{Kind: "AllTrusted"})
			case x < 99:
				ops = append(ops, cOp{Kind: "GetPeer", Addr: someKnown()})
			default:
				ops = append(ops, cOp{Kind: "IsFull"})
			}
		}
		p.Ops = append(p.Ops, ops)
	}
	return p
}

// contended: how many goroutines hold a bulk addition that could fill the free slots on its own
// (computed from the plan with the independent parser, nothing is asked of the code under test)
func (p *cRound) contended() int {
	if p.Free == 0 {
		return 0
	}
	n := 0
	for _, ops := range p.Ops {
		for _, op := range ops {
			if op.Kind != "AddPeers" {
				continue
			}
			ok := 0
			for _, a := range op.Addrs {
				if _, v, _ := parsePeerAddr(a, p.Local); v {
					ok++
				}
			}
			if ok >= p.Free {
				n++
				break
			}
		}
	}
	return n
}

type cacheEntry struct {
	Addr    string
	Trusted bool
}

// runConcRound executes one plan on a fresh Pex in dir and returns the violated invariants.
// hung != "" when the watchdog fired (inconclusive, never a verdict).
func runConcRound(p *cRound, dir string, cnt counters) (fs []cFinding, hung string) {
	_ = os.MkdirAll(dir, 0755)
	defer os.RemoveAll(dir)
	c := pex.NewConfig()
	c.DataDirectory = dir
	c.Max = p.Max
	c.AllowLocalhost = p.Local
	c.NetworkDisabled = true
	c.DownloadPeerList = false
	c.Disabled = true
	c.DefaultConnections = append([]string(nil), p.Defaults...)
	px, err := pex.New(c)
	if err != nil {
		cnt["conc.new-failed"]++
		return nil, ""
	}
	px.AddPeers(append([]string(nil), p.Prefill...))
	for _, a := range p.Aged {
		px.VerifSetLastSeen(a, oldStamp)
	}
	if n := len(px.VerifPeers()); n != len(p.Defaults)+len(p.Prefill) {
		cnt["conc.prefill-differs-from-plan"]++
	}
	add := func(kind string, attrs map[string]string) {
		fs = append(fs, cFinding{Kind: kind, Attrs: attrs, Round: p})
	}

	g := len(p.Ops)
	var arrived, inflight, bulkInflight int64
	var overlapped, bulkOverlapped, calls int64
	var mu sync.Mutex // findings and counters of the goroutines
	kinds := map[string]int64{}
	var readPeers int64
	var wg sync.WaitGroup
	for gi := 0; gi < g; gi++ {
		wg.Add(1)
		go func(gi int) {
			defer wg.Done()
			var lf []cFinding
			lk := map[string]int64{}
			var lOver, lBulkOver, lCalls, lRead int64
			sched.Xadd(&arrived, 1)
			for spins := 0; sched.Load(&arrived) < int64(g); spins++ {
				if spins%64 == 63 {
					runtime.Gosched()
				}
			}
			for _, op := range p.Ops[gi] {
				lk[op.Kind]++
				lCalls++
				if sched.Xadd(&inflight, 1) > 1 {
					lOver++
				}
				isBulk := op.Kind == "AddPeers"
				if isBulk && sched.Xadd(&bulkInflight, 1) > 1 {
					lBulkOver++
				}
				var ps pex.Peers
				read := false
				switch op.Kind {
				case "AddPeers":
					px.AddPeers(append([]string(nil), op.Addrs...))
				case "AddPeer":
					_ = px.AddPeer(op.Addr)
				case "RemovePeer":
					px.RemovePeer(op.Addr)
				case "SetHasIncomingPort":
					_ = px.SetHasIncomingPort(op.Addr, op.Flag)
				case "IncreaseRetryTimes":
					for i := 0; i < op.N; i++ {
						px.IncreaseRetryTimes(op.Addr)
					}
				case "ResetRetryTimes":
					px.ResetRetryTimes(op.Addr)
				case "ResetAllRetryTimes":
					px.ResetAllRetryTimes()
				case "SetUserAgent":
					_ = px.SetUserAgent(op.Addr, useragent.Data{Coin: "skycoin", Version: "0.27.0"})
				case "Save":
					if err := px.VerifSave(); err != nil {
						lf = append(lf, cFinding{Kind: "conc-save-failed", Attrs: map[string]string{"err": err.Error()}, Round: p})
					}
				case "Random":
					ps, read = px.Random(op.N), true
				case "RandomExchangeable":
					ps, read = px.RandomExchangeable(op.N), true
				case "Trusted":
					ps, read = px.Trusted(), true
				case "AllTrusted":
					ps, read = px.AllTrusted(), true
				case "GetPeer":
					if q, ok := px.GetPeer(op.Addr); ok {
						ps, read = pex.Peers{q}, true
					}
				case "IsFull":
					_ = px.IsFull()
				default:
					panic("unknown concurrent op " + op.Kind)
				}
				if isBulk {
					sched.Xadd(&bulkInflight, -1)
				}
				sched.Xadd(&inflight, -1)
				if read {
					// one read is one consistent snapshot of the list
					lRead += int64(len(ps))
					if len(ps) > p.Max {
						lf = append(lf, cFinding{Kind: "conc-read-exceeds-max", Attrs: map[string]string{"read": op.Kind, "max": strconv.Itoa(p.Max), "returned": strconv.Itoa(len(ps))}, Round: p})
					}
					if (op.Kind == "Random" || op.Kind == "RandomExchangeable") && op.N > 0 && len(ps) > op.N {
						lf = append(lf, cFinding{Kind: "conc-read-returns-more-than-asked", Attrs: map[string]string{"read": op.Kind, "asked": strconv.Itoa(op.N), "returned": strconv.Itoa(len(ps))}, Round: p})
					}
					for _, q := range ps {
						if _, ok, why := parsePeerAddr(q.Addr, p.Local); !ok {
							lf = append(lf, cFinding{Kind: "conc-invalid-peer-in-list", Attrs: map[string]string{"why": why, "addr": fmt.Sprintf("%q", q.Addr), "allow_localhost": strconv.FormatBool(p.Local), "seen_by": op.Kind}, Round: p})
							break
						}
					}
				}
			}
			mu.Lock()
			fs = append(fs, lf...)
			for k, v := range lk {
				kinds[k] += v
			}
			overlapped += lOver
			bulkOverlapped += lBulkOver
			calls += lCalls
			readPeers += lRead
			mu.Unlock()
		}(gi)
	}
	done := make(chan struct{})
	go func() { wg.Wait(); close(done) }()
	select {
	case <-done:
	case <-time.After(180 * time.Second):
		buf := make([]byte, 1<<16)
		buf = buf[:runtime.Stack(buf, true)]
		return fs, fmt.Sprintf("round %d did not finish within 180 s: %s", p.Idx, string(buf))
	}

	// ---- quiescence ----
	cnt["conc.rounds"]++
	cnt["conc.rounds.shape."+p.Shape]++
	cnt["conc.goroutines"] += int64(g)
	cnt["conc.calls"] += calls
	for k, v := range kinds {
		cnt["conc.calls."+k] += v
	}
	cnt["conc.calls-started-while-another-in-flight"] += overlapped
	cnt["conc.addpeers-started-while-addpeers-in-flight"] += bulkOverlapped
	if overlapped > 0 {
		cnt["conc.rounds.with-overlapping-calls"]++
	}
	if bulkOverlapped > 0 {
		cnt["conc.rounds.with-overlapping-addpeers"]++
	}
	if p.contended() >= 2 {
		cnt["conc.rounds.several-bulk-adds-each-filling-the-free-slots"]++
	}
	cnt["conc.reads.peers-checked"] += readPeers

	raw := px.VerifPeers()
	list := map[string]pex.Peer{}
	for _, q := range raw {
		list[q.Addr] = q
	}
	if len(raw) > p.Max {
		add("conc-list-exceeds-max", map[string]string{"max": strconv.Itoa(p.Max), "size": strconv.Itoa(len(raw)), "free_before": strconv.Itoa(p.Free), "goroutines": strconv.Itoa(g)})
	}
	switch {
	case len(raw) == p.Max:
		cnt["conc.rounds.ended-at-exactly-max"]++
	case len(raw) < p.Max:
		cnt["conc.rounds.ended-below-max"]++
	}
	if len(list) != len(raw) {
		add("conc-duplicate-peer-address", map[string]string{"peers": strconv.Itoa(len(raw)), "distinct": strconv.Itoa(len(list))})
	}
	for a := range list {
		class, ok, why := parsePeerAddr(a, p.Local)
		if !ok {
			add("conc-invalid-peer-in-list", map[string]string{"why": why, "addr": fmt.Sprintf("%q", a), "allow_localhost": strconv.FormatBool(p.Local), "seen_by": "quiescent dump"})
			break
		}
		cnt["conc.quiescent.class."+class]++
		cnt["conc.quiescent.peers-checked"]++
	}
	removed := map[string]bool{}
	for _, ops := range p.Ops {
		for _, op := range ops {
			if op.Kind == "RemovePeer" {
				removed[op.Addr] = true
			}
		}
	}
	isDefault := map[string]bool{}
	for _, a := range p.Defaults {
		isDefault[a] = true
		if removed[a] {
			cnt["conc.quiescent.trusted-removed-by-plan"]++
			continue
		}
		q, ok := list[a]
		switch {
		case !ok:
			add("conc-trusted-peer-lost", map[string]string{"addr": a, "size": strconv.Itoa(len(raw)), "max": strconv.Itoa(p.Max)})
		case !q.Trusted:
			add("conc-trusted-flag-lost", map[string]string{"addr": a})
		default:
			cnt["conc.quiescent.trusted-present-and-trusted"]++
		}
	}
	for a, q := range list {
		if q.Trusted && !isDefault[a] {
			add("conc-untrusted-peer-became-trusted", map[string]string{"addr": a})
			break
		}
	}
	evicted := 0
	for _, a := range p.Aged {
		if _, ok := list[a]; !ok && !removed[a] {
			evicted++
		}
	}
	cnt["conc.quiescent.old-untrusted-peers-evicted"] += int64(evicted)

	// the saved cache file holds exactly the list
	if err := px.VerifSave(); err != nil {
		add("conc-save-failed", map[string]string{"err": err.Error()})
		return fs, ""
	}
	b, err := ioutil.ReadFile(filepath.Join(dir, pex.PeerCacheFilename))
	doc := map[string]cacheEntry{}
	if err == nil {
		err = json.Unmarshal(b, &doc)
	}
	if err != nil {
		add("conc-saved-file-unreadable", map[string]string{"err": err.Error()})
		return fs, ""
	}
	for k, e := range doc {
		q, ok := list[k]
		switch {
		case !ok:
			add("conc-saved-file-differs", map[string]string{"what": "entry-not-in-list", "addr": fmt.Sprintf("%q", k)})
		case e.Addr != k:
			add("conc-saved-file-differs", map[string]string{"what": "key-and-addr-differ", "addr": fmt.Sprintf("%q", k)})
		case e.Trusted != q.Trusted:
			add("conc-saved-file-differs", map[string]string{"what": "trusted-flag", "addr": fmt.Sprintf("%q", k)})
		default:
			cnt["conc.savefile.entries-compared"]++
			continue
		}
		break
	}
	for a, q := range list {
		if _, ok := doc[a]; ok {
			continue
		}
		if q.RetryTimes > pex.MaxPeerRetryTimes {
			cnt["conc.savefile.omitted-retry-limit-exceeded"]++ // documented: such peers are not saved
			continue
		}
		add("conc-saved-file-differs", map[string]string{"what": "peer-not-saved", "addr": fmt.Sprintf("%q", a), "retry_times": strconv.Itoa(q.RetryTimes)})
		break
	}
	return fs, ""
}

func concScratch(tag string) string {
	// tmpfs: the rounds save the peer list many times and every save is an fsync
	if d, err := ioutil.TempDir("/dev/shm", "verif-"+tag+"-"); err == nil {
		return d
	}
	return vf.TempDir(tag)
}

// runConcJobs runs the given rounds one after the other
func runConcJobs(jobs []cJob, reps int, cnt counters, maxFindings int) (fs []cFinding, hung string) {
	// the parent owns the scratch directory (a child that dies cannot clean up)
	base := os.Getenv("VERIF_CONC_SCRATCH")
	if base == "" {
		base = concScratch("c26conc")
		defer os.RemoveAll(base)
	}
	seenKind := map[string]int{}
	for _, j := range jobs {
		p := genConcRound(j.Idx, j.Seed)
		for rep := 0; rep < reps; rep++ {
			var f []cFinding
			var h string
			if pan, msg, frame := vf.Recover(func() {
				f, h = runConcRound(p, filepath.Join(base, fmt.Sprintf("r%d-%d", j.Idx, rep)), cnt)
			}); pan {
				f = append(f, cFinding{Kind: "panic", Attrs: map[string]string{"panic": msg, "frame": frame, "leg": "concurrent"}, Round: p})
			}
			if h != "" {
				return fs, h
			}
			if len(f) > 0 {
				cnt["conc.rounds.with-finding"]++
			}
			for _, x := range f {
				key := x.Kind + "|" + x.Attrs["why"] + "|" + x.Attrs["what"]
				seenKind[key]++
				if seenKind[key] <= 1 && len(fs) < maxFindings {
					fs = append(fs, x)
				}
			}
		}
	}
	return fs, ""
}

// concChild is the body of a child process (VERIF_CHILD=conc) of either build: a goroutine of a round that
// dies (concurrent map access, a panic under the lock) must not take the check down
func concChild() {
	var jobs []cJob
	b, err := ioutil.ReadFile(os.Getenv("VERIF_CONC_JOBS"))
	if err != nil || json.Unmarshal(b, &jobs) != nil {
		fmt.Fprintln(os.Stderr, "cannot read the job file")
		os.Exit(3)
	}
	out := cChildOut{Counts: map[string]int64{}}
	cnt := counters{}
	out.Findings, out.Hung = runConcJobs(jobs, 1, cnt, 4)
	for k, v := range cnt {
		out.Counts[k] = v
	}
	out.Finished = out.Hung == ""
	ob, _ := json.Marshal(out)
	_ = ioutil.WriteFile(os.Getenv("VERIF_CONC_OUT"), ob, 0644)
	os.Exit(0)
}

var racePkgs = []string{
	"github.com/skycoin/skycoin/src/daemon/pex",
}

// concLeg is one child running rounds [0, n): build "plain" (this binary) or "race" (c26race)
type concLeg struct {
	r       *vf.Run
	build   string
	dir     string
	scratch string // on tmpfs when possible; owned by the parent
	wg      sync.WaitGroup
	child   vf.ChildResult
	out     cChildOut
	outOK   bool
	text    string
	nobin   string
	n       int
}

func concJobs(r *vf.Run, n int) []cJob {
	js := make([]cJob, 0, n)
	for i := 0; i < n; i++ {
		js = append(js, cJob{Idx: i, Seed: r.SubSeed("conc", i)})
	}
	return js
}

// startConc launches a child on rounds [0, n) and returns at once
func startConc(r *vf.Run, build string, n int) *concLeg {
	l := &concLeg{r: r, build: build, n: n}
	bin := ""
	if build == "race" {
		bin = filepath.Join(os.Getenv("VERIF_BIN"), "c26race")
		if _, err := os.Stat(bin); err != nil {
			l.nobin = "race-instrumented binary " + bin + " not found (run through ./check)"
			return l
		}
	}
	l.dir = vf.TempDir("c26" + build)
	l.scratch = concScratch("c26" + build)
	jb, _ := json.Marshal(concJobs(r, n))
	_ = ioutil.WriteFile(filepath.Join(l.dir, "jobs.json"), jb, 0644)
	env := []string{
		"VERIF_CONC_SCRATCH=" + l.scratch,
		"VERIF_CONC_JOBS=" + filepath.Join(l.dir, "jobs.json"),
		"VERIF_CONC_OUT=" + filepath.Join(l.dir, "result.json"),
		"GORACE=log_path=" + filepath.Join(l.dir, "race") + " halt_on_error=0 exitcode=0",
	}
	l.wg.Add(1)
	go func() {
		defer l.wg.Done()
		// the timeout is a watchdog: it can only make the run inconclusive
		l.child = vf.RunChild(l.dir, bin, "conc", nil, env, time.Duration(r.Pick(900, 3600))*time.Second)
		if b, err := ioutil.ReadFile(filepath.Join(l.dir, "result.json")); err == nil {
			l.outOK = json.Unmarshal(b, &l.out) == nil
		}
		files, _ := filepath.Glob(filepath.Join(l.dir, "race.*"))
		for _, f := range files {
			b, _ := ioutil.ReadFile(f)
			l.text += string(b) + "\n"
		}
		if strings.Contains(string(l.child.Stderr), "WARNING: DATA RACE") {
			l.text += string(l.child.Stderr)
		}
	}()
	return l
}

func reportConcFindings(r *vf.Run, build string, fs []cFinding) {
	sort.SliceStable(fs, func(i, j int) bool { return fs[i].Kind < fs[j].Kind })
	for _, f := range fs {
		attrs := map[string]string{"build": build}
		for k, v := range f.Attrs {
			attrs[k] = v
		}
		w := map[string]interface{}{"detail": f.Attrs, "conc": f.Round,
			"note": "the interleaving is not recorded; --replay repeats this round's plan many times"}
		r.Violation(f.Kind, attrs, w)
	}
}

// finish waits for the child and turns what it left behind into counters, violations, inconclusives
func (l *concLeg) finish() {
	r := l.r
	pre := map[string]string{"plain": "conc.", "race": "race."}[l.build]
	if l.build == "race" {
		r.Count("race.reports", 0)
		r.Count("race.reports.product(src/daemon/pex)", 0)
	}
	if l.nobin != "" {
		r.Inconclusive(l.nobin)
		return
	}
	l.wg.Wait()
	defer os.RemoveAll(l.dir)
	defer os.RemoveAll(l.scratch)
	leg := "concurrent(" + l.build + "-build)"
	if l.child.TimedOut {
		r.Inconclusive(leg + ": child timed out")
		return
	}
	if head, frame := vf.CrashSignature(l.child.Stderr); head != "" {
		r.Violation("panic", map[string]string{"panic": head, "frame": frame, "leg": leg},
			map[string]interface{}{"frames": vf.FirstFrames(l.child.Stderr, 6), "exit": l.child.ExitCode,
				"note": "rounds are generated from VERIF_SEED; rerun the check with the same seed"})
		return
	}
	if !l.outOK || !l.out.Finished {
		s := string(l.child.Stderr) + l.out.Hung
		if len(s) > 1200 {
			s = s[:1200]
		}
		r.Inconclusive(fmt.Sprintf("%s: child did not finish (exit %d): %s", leg, l.child.ExitCode, s))
		return
	}
	r.Count(pre+"children", 1)
	for k, v := range l.out.Counts {
		r.Count(pre+strings.TrimPrefix(k, "conc."), v)
	}
	r.Eval(l.out.Counts["conc.rounds"])
	reportConcFindings(r, l.build, l.out.Findings)
	if l.build != "race" {
		return
	}
	sched.RepoDir = vf.RepoDir()
	seen := map[string]bool{}
	for _, rep := range sched.ParseRaceReports(l.text, racePkgs) {
		r.Count("race.reports", 1)
		txt := rep.Text
		if len(txt) > 3000 {
			txt = txt[:3000]
		}
		if rep.Class != "product" {
			r.Count("race.reports."+rep.Class, 1)
			if !seen["class:"+rep.Class] {
				seen["class:"+rep.Class] = true
				r.Inconclusive("race report not attributed to src/daemon/pex (class " + rep.Class + ", " + rep.Pair + "): " + txt)
			}
			continue
		}
		r.Count("race.reports.product(src/daemon/pex)", 1)
		if seen[rep.Pair] {
			continue
		}
		seen[rep.Pair] = true
		r.Violation("data-race", map[string]string{"pair": rep.Pair, "leg": leg},
			map[string]string{"pair": rep.Pair, "ops": rep.Ops[0] + " / " + rep.Ops[1], "report": txt})
	}
}

// concEvidence records what the plans (not the runs) contain
func concEvidence(r *vf.Run, n int) {
	jobs := concJobs(r, n)
	for i, j := range jobs {
		r.Distinct("conc:" + strconv.FormatInt(j.Seed, 36))
		if i >= 2 {
			continue
		}
		p := genConcRound(j.Idx, j.Seed)
		ops := map[string]int{}
		for _, g := range p.Ops {
			for _, op := range g {
				ops[op.Kind]++
			}
		}
		r.Sample(map[string]interface{}{"concurrent_round": p.Idx, "shape": p.Shape, "max": p.Max, "free_slots": p.Free, "default_connections": len(p.Defaults),
			"goroutines": len(p.Ops), "ops": ops, "bulk_adds_each_filling_the_free_slots": p.contended()})
	}
}

// replayConc repeats one recorded plan (the interleaving is not part of the witness)
func replayConc(r *vf.Run, p *cRound, reps int) {
	cnt := counters{}
	base := concScratch("c26replay")
	defer os.RemoveAll(base)
	seen := map[string]bool{}
	for i := 0; i < reps; i++ {
		fs, hung := runConcRound(p, filepath.Join(base, strconv.Itoa(i)), cnt)
		if hung != "" {
			r.Inconclusive("replay: " + hung[:min(len(hung), 800)])
			break
		}
		for _, f := range fs {
			if !seen[f.Kind] {
				seen[f.Kind] = true
				r.Violation(f.Kind, f.Attrs, map[string]interface{}{"detail": f.Attrs, "conc": p, "repetition": i})
			}
		}
	}
	for k, v := range cnt {
		r.Count(k, v)
	}
	r.Eval(int64(reps))
}
