// C26 — The peer list only contains valid peers and respects its bound.
//
// A real pex.Pex (temp data directory, networking disabled) is driven by random operation sequences
// whose address strings come from a hostile generator. After every operation the complete peer dump
// (hook VerifPeers) is checked with an independent address parser written from the statement, the
// size bound is checked after every addition, and the trusted peers (the default connections given at
// construction) must still be present unless the sequence removed them explicitly.
package main

import (
	"encoding/json"
	"fmt"
	"io/ioutil"
	"math/rand"
	"os"
	"path/filepath"
	"runtime/debug"
	"sort"
	"strconv"
	"strings"
	"sync"
	"time"

	"github.com/sirupsen/logrus"

	"github.com/skycoin/skycoin/src/daemon/pex"
	"github.com/skycoin/skycoin/src/util/logging"
	"github.com/skycoin/skycoin/src/util/useragent"

	"verif/lib/vf"
)

// Op is one concrete operation (explicit arguments, so that a witness can be replayed)
type Op struct {
	Kind   string            `json:"kind"`
	Addr   string            `json:"addr,omitempty"`
	Label  string            `json:"label,omitempty"`
	Addrs  []string          `json:"addrs,omitempty"`
	N      int               `json:"n,omitempty"`
	Flag   bool              `json:"flag,omitempty"`
	Secs   int64             `json:"secs,omitempty"`
	Inject map[string]string `json:"inject,omitempty"` // reload: cache-file key -> Addr field
	Local  bool              `json:"allow_localhost,omitempty"`
}

// Setup is the configuration of one sequence
type Setup struct {
	Max      int      `json:"max"`
	Local    bool     `json:"allow_localhost"`
	Defaults []string `json:"default_connections"`
}

type finding struct {
	Kind  string
	Attrs map[string]string
	Step  int
}

type counters map[string]int64

// pex uses an unsynchronised package-level PRNG in CanTry (reached from Random/Trusted); sequences run
// on several goroutines (each on its OWN Pex), so those calls are serialised here; the concurrent leg
// (conc.go) shares one Pex between goroutines like the node does and does not serialise anything
var canTryMu sync.Mutex

const oldStamp = int64(1000000000) // 2001: older than any expiry used here

type seq struct {
	dir      string
	setup    Setup
	px       *pex.Pex
	local    bool // current AllowLocalhost
	trusted  map[string]bool
	cnt      counters
	ops      []Op
	states   map[uint64]struct{}
	labelCnt map[string]int64
}

func (s *seq) config() pex.Config {
	c := pex.NewConfig()
	c.DataDirectory = s.dir
	c.Max = s.setup.Max
	c.AllowLocalhost = s.local
	c.NetworkDisabled = true
	c.DownloadPeerList = false
	c.Disabled = true
	c.DefaultConnections = append([]string(nil), s.setup.Defaults...)
	return c
}

func fnv64(s string) uint64 {
	h := uint64(14695981039346656037)
	for i := 0; i < len(s); i++ {
		h ^= uint64(s[i])
		h *= 1099511628211
	}
	return h
}

func dumpOf(px *pex.Pex) map[string]pex.Peer {
	m := map[string]pex.Peer{}
	for _, p := range px.VerifPeers() {
		m[p.Addr] = p
	}
	return m
}

// checkList: every address in the list is acceptable by the statement's definition
func (s *seq) checkList(d map[string]pex.Peer, raw []pex.Peer) *finding {
	if len(raw) != len(d) {
		return &finding{Kind: "duplicate-peer-address", Attrs: map[string]string{"peers": strconv.Itoa(len(raw)), "distinct": strconv.Itoa(len(d))}}
	}
	for a := range d {
		class, ok, why := parsePeerAddr(a, s.local)
		if !ok {
			return &finding{Kind: "invalid-peer-in-list", Attrs: map[string]string{"why": why, "addr": fmt.Sprintf("%q", a), "allow_localhost": strconv.FormatBool(s.local)}}
		}
		s.cnt["list.class."+class]++
		if p, found := s.px.GetPeer(a); !found || p.Addr != a {
			return &finding{Kind: "peer-not-retrievable", Attrs: map[string]string{"addr": fmt.Sprintf("%q", a)}}
		}
	}
	return nil
}

func (s *seq) checkTrusted(d map[string]pex.Peer, after string) *finding {
	for a := range s.trusted {
		if _, ok := d[a]; !ok {
			return &finding{Kind: "trusted-peer-lost", Attrs: map[string]string{"addr": a, "after_op": after}}
		}
	}
	return nil
}

func (s *seq) open() error {
	px, err := pex.New(s.config())
	if err != nil {
		return err
	}
	s.px = px
	return nil
}

// do executes one operation and checks; returns a finding or nil
func (s *seq) do(op Op) *finding {
	s.ops = append(s.ops, op)
	step := len(s.ops) - 1
	px := s.px
	before := dumpOf(px)
	s.cnt["op."+op.Kind]++
	var f *finding
	sizeBound := func(after map[string]pex.Peer, kind string) *finding {
		lim := s.setup.Max
		if len(before) > lim {
			lim = len(before)
		}
		if len(after) > lim {
			return &finding{Kind: kind, Attrs: map[string]string{"max": strconv.Itoa(s.setup.Max), "before": strconv.Itoa(len(before)), "after": strconv.Itoa(len(after))}}
		}
		return nil
	}
	switch op.Kind {
	case "AddPeer":
		err := px.AddPeer(op.Addr)
		after := dumpOf(px)
		lbl := strings.SplitN(op.Label, "+", 2)[0]
		if err == nil {
			s.cnt["addpeer.accepted"]++
			s.labelCnt["addpeer.accepted."+lbl]++
			if len(before) >= s.setup.Max && len(after) == len(before) {
				grew := false
				for a := range after {
					if _, ok := before[a]; !ok {
						grew = true
					}
				}
				if grew {
					s.cnt["addpeer.evicted-an-old-untrusted-peer"]++
				}
			}
		} else {
			s.cnt["addpeer.rejected"]++
			if err == pex.ErrPeerlistFull {
				s.cnt["addpeer.refused-full"]++
			} else {
				s.labelCnt["addpeer.rejected."+lbl]++
			}
		}
		f = sizeBound(after, "addpeer-exceeds-max")
	case "AddPeers":
		n := px.AddPeers(op.Addrs)
		after := dumpOf(px)
		s.cnt["addpeers.addresses-offered"] += int64(len(op.Addrs))
		s.cnt["addpeers.reported-added"] += int64(n)
		if len(before) >= s.setup.Max {
			s.cnt["addpeers.called-when-full"]++
		} else if len(op.Addrs) > s.setup.Max-len(before) {
			s.cnt["addpeers.offered-more-than-room"]++
			if len(after) == s.setup.Max {
				s.cnt["addpeers.filled-to-exactly-max"]++
			}
		}
		f = sizeBound(after, "addpeers-exceeds-max")
	case "RemovePeer":
		px.RemovePeer(op.Addr)
		if s.trusted[op.Addr] {
			s.cnt["removepeer.trusted"]++
		}
		delete(s.trusted, op.Addr)
	case "IncreaseRetryTimes":
		for i := 0; i < op.N; i++ {
			px.IncreaseRetryTimes(op.Addr)
		}
	case "ResetRetryTimes":
		px.ResetRetryTimes(op.Addr)
	case "ResetAllRetryTimes":
		px.ResetAllRetryTimes()
	case "SetHasIncomingPort":
		if px.SetHasIncomingPort(op.Addr, op.Flag) == nil {
			s.cnt["sethasincomingport.ok"]++
		}
	case "SetUserAgent":
		if px.SetUserAgent(op.Addr, useragent.Data{Coin: "skycoin", Version: "0.27.0"}) == nil {
			s.cnt["setuseragent.ok"]++
		}
	case "Age": // harness action: make peers look long unseen, so that eviction and expiry trigger
		for _, a := range op.Addrs {
			if px.VerifSetLastSeen(a, oldStamp) {
				s.cnt["age.peers"]++
			}
		}
	case "ClearOld":
		px.VerifClearOld(time.Duration(op.Secs) * time.Second)
		after := dumpOf(px)
		s.cnt["clearold.removed"] += int64(len(before) - len(after))
		for a, p := range before {
			if _, ok := after[a]; ok && p.Trusted && p.LastSeen == oldStamp {
				s.cnt["clearold.old-trusted-kept"]++
			}
		}
	case "Reload":
		if err := px.VerifSave(); err != nil {
			return &finding{Kind: "save-failed", Attrs: map[string]string{"err": err.Error()}, Step: step}
		}
		fn := filepath.Join(s.dir, pex.PeerCacheFilename)
		if len(op.Inject) > 0 {
			b, err := ioutil.ReadFile(fn)
			doc := map[string]map[string]interface{}{}
			if err == nil && json.Unmarshal(b, &doc) == nil {
				keys := make([]string, 0, len(op.Inject))
				for k := range op.Inject {
					keys = append(keys, k)
				}
				sort.Strings(keys)
				for i, k := range keys {
					t := true
					doc[k] = map[string]interface{}{"Addr": op.Inject[k], "LastSeen": oldStamp + int64(i), "Trusted": i%2 == 0, "HasIncomingPort": &t}
				}
				nb, _ := json.Marshal(doc)
				_ = ioutil.WriteFile(fn, nb, 0600)
				s.cnt["reload.injected-entries"] += int64(len(keys))
			}
		}
		s.local = op.Local
		if err := s.open(); err != nil {
			s.cnt["reload.new-failed"]++
			return &finding{Kind: "", Step: -1} // not a violation: the sequence ends here
		}
		s.cnt["reload.ok"]++
		px = s.px
		// construction marks the default connections as trusted again
		s.trusted = map[string]bool{}
		for _, a := range s.setup.Defaults {
			s.trusted[a] = true
		}
		after := dumpOf(px)
		if s.setup.Max > 0 && len(after) > s.setup.Max {
			f = &finding{Kind: "reload-exceeds-max", Attrs: map[string]string{"max": strconv.Itoa(s.setup.Max), "after": strconv.Itoa(len(after))}}
		}
		for a := range after {
			if _, ok := before[a]; !ok {
				s.cnt["reload.injected-accepted"]++
			}
		}
	case "Random", "RandomExchangeable", "Trusted", "AllTrusted":
		var ps pex.Peers
		canTryMu.Lock()
		switch op.Kind {
		case "Random":
			ps = px.Random(op.N)
		case "RandomExchangeable":
			ps = px.RandomExchangeable(op.N)
		case "Trusted":
			ps = px.Trusted()
		default:
			ps = px.AllTrusted()
		}
		canTryMu.Unlock()
		s.cnt["read.peers-returned"] += int64(len(ps))
		for _, p := range ps {
			if _, ok := before[p.Addr]; !ok {
				f = &finding{Kind: "read-returns-unknown-peer", Attrs: map[string]string{"addr": fmt.Sprintf("%q", p.Addr), "read": op.Kind}}
			}
			if _, ok, why := parsePeerAddr(p.Addr, s.local); !ok {
				f = &finding{Kind: "invalid-peer-in-list", Attrs: map[string]string{"why": why, "addr": fmt.Sprintf("%q", p.Addr), "allow_localhost": strconv.FormatBool(s.local), "read": op.Kind}}
			}
		}
	default:
		panic("unknown op " + op.Kind)
	}
	raw := px.VerifPeers()
	d := map[string]pex.Peer{}
	for _, p := range raw {
		d[p.Addr] = p
	}
	if f == nil {
		f = s.checkList(d, raw)
	}
	if f == nil {
		f = s.checkTrusted(d, op.Kind)
	}
	if f != nil {
		f.Step = step
		return f
	}
	s.cnt["list.trusted-present-checks"] += int64(len(s.trusted))
	if len(d) >= s.setup.Max {
		s.cnt["list.at-or-above-max-after-op"]++
	}
	if s.states != nil {
		ks := make([]string, 0, len(d))
		for a, p := range d {
			ks = append(ks, a+map[bool]string{true: "!", false: ""}[p.Trusted])
		}
		sort.Strings(ks)
		s.states[fnv64(strconv.Itoa(s.setup.Max)+strings.Join(ks, ","))] = struct{}{}
	}
	return nil
}

// ---- generation ---------------------------------------------------------------------------------

type opGen struct {
	r    *rand.Rand
	pool []string // a few valid addresses that come back again and again
}

func (g *opGen) someAddr(d map[string]pex.Peer, local bool) genAddr {
	r := g.r
	switch x := r.Intn(100); {
	case x < 30:
		return genAddr{g.pool[r.Intn(len(g.pool))], "valid.pool"}
	case x < 45:
		return validAddr(r)
	case x < 52:
		return genAddr{fmt.Sprintf("127.0.0.1:%d", 6000+r.Intn(4)), "valid-iff-localhost-allowed"}
	case x < 60 && len(d) > 0:
		return genAddr{g.known(d), "known"}
	default:
		return hostile(r)
	}
}

func (g *opGen) known(d map[string]pex.Peer) string {
	ks := make([]string, 0, len(d))
	for a := range d {
		ks = append(ks, a)
	}
	if len(ks) == 0 {
		return g.pool[0]
	}
	sort.Strings(ks)
	return ks[g.r.Intn(len(ks))]
}

func (g *opGen) next(s *seq) Op {
	r := g.r
	d := dumpOf(s.px)
	switch x := r.Intn(100); {
	case x < 26:
		a := g.someAddr(d, s.local)
		return Op{Kind: "AddPeer", Addr: a.S, Label: a.Label}
	case x < 46:
		n := r.Intn(2*s.setup.Max + 6)
		if r.Intn(4) == 0 {
			n = r.Intn(4)
		}
		as := make([]string, 0, n)
		for i := 0; i < n; i++ {
			a := g.someAddr(d, s.local)
			as = append(as, a.S)
			if r.Intn(8) == 0 {
				as = append(as, a.S) // duplicate inside the list
			}
		}
		return Op{Kind: "AddPeers", Addrs: as}
	case x < 54:
		a := g.known(d)
		if r.Intn(5) == 0 {
			a = g.someAddr(d, s.local).S
		}
		return Op{Kind: "RemovePeer", Addr: a}
	case x < 59:
		return Op{Kind: "IncreaseRetryTimes", Addr: g.known(d), N: []int{1, 1, 3, 12}[r.Intn(4)]}
	case x < 62:
		if r.Intn(3) == 0 {
			return Op{Kind: "ResetAllRetryTimes"}
		}
		return Op{Kind: "ResetRetryTimes", Addr: g.known(d)}
	case x < 65:
		a := g.known(d)
		if r.Intn(3) == 0 {
			a = g.someAddr(d, s.local).S
		}
		return Op{Kind: "SetHasIncomingPort", Addr: a, Flag: r.Intn(2) == 0}
	case x < 67:
		a := g.known(d)
		if r.Intn(3) == 0 {
			a = g.someAddr(d, s.local).S
		}
		return Op{Kind: "SetUserAgent", Addr: a}
	case x < 78:
		// age all peers (trusted ones included), or a random subset
		as := []string{}
		all := r.Intn(2) == 0
		for a := range d {
			if all || r.Intn(2) == 0 {
				as = append(as, a)
			}
		}
		sort.Strings(as)
		return Op{Kind: "Age", Addrs: as}
	case x < 86:
		return Op{Kind: "ClearOld", Secs: []int64{0, 3600, 7 * 24 * 3600, 30 * 24 * 3600}[r.Intn(4)]}
	case x < 93:
		op := Op{Kind: "Reload", Local: s.local}
		if r.Intn(2) == 0 {
			op.Inject = map[string]string{}
			for i, n := 0, 1+r.Intn(2*s.setup.Max+3); i < n; i++ {
				a := g.someAddr(d, s.local)
				v := a.S
				if r.Intn(6) == 0 {
					v = validAddr(r).S // key and Addr field disagree
				}
				op.Inject[a.S] = v
			}
		}
		if r.Intn(5) == 0 {
			op.Local = !s.local
		}
		return op
	default:
		k := []string{"Random", "RandomExchangeable", "Trusted", "AllTrusted"}[r.Intn(4)]
		return Op{Kind: k, N: r.Intn(5)}
	}
}

func makeSetup(r *rand.Rand) (Setup, []string) {
	st := Setup{Max: []int{1, 2, 5, 50}[r.Intn(4)], Local: r.Intn(2) == 0}
	pool := []string{}
	for i := 0; i < 8; i++ {
		pool = append(pool, validAddr(r).S)
	}
	nd := r.Intn(4)
	if nd > st.Max {
		nd = st.Max
	}
	if r.Intn(40) == 0 {
		nd = st.Max + 1 // more default connections than room: construction is expected to refuse
	}
	for i := 0; i < nd; i++ {
		if i < len(pool) && r.Intn(2) == 0 {
			st.Defaults = append(st.Defaults, pool[i])
		} else {
			st.Defaults = append(st.Defaults, validAddr(r).S)
		}
	}
	return st, pool
}

// runSeq runs one sequence (generated when ops == nil, replayed otherwise)
func runSeq(base string, idx int, r *rand.Rand, setup *Setup, ops []Op, nOps int, cnt counters, labelCnt map[string]int64, states map[uint64]struct{}) (*seq, *finding) {
	s := &seq{cnt: cnt, labelCnt: labelCnt, states: states}
	var g *opGen
	if setup == nil {
		st, pool := makeSetup(r)
		s.setup = st
		g = &opGen{r: r, pool: pool}
	} else {
		s.setup = *setup
	}
	s.local = s.setup.Local
	s.dir = filepath.Join(base, "s"+strconv.Itoa(idx))
	_ = os.MkdirAll(s.dir, 0755)
	defer os.RemoveAll(s.dir)
	if err := s.open(); err != nil {
		cnt["new.failed"]++
		if len(s.setup.Defaults) > s.setup.Max {
			cnt["new.failed.more-defaults-than-max"]++
		}
		return s, nil
	}
	cnt["new.ok"]++
	cnt["setup.max."+strconv.Itoa(s.setup.Max)]++
	cnt["setup.allow-localhost."+strconv.FormatBool(s.local)]++
	s.trusted = map[string]bool{}
	for _, a := range s.setup.Defaults {
		s.trusted[a] = true
	}
	// the freshly constructed list is checked too
	raw := s.px.VerifPeers()
	d := map[string]pex.Peer{}
	for _, p := range raw {
		d[p.Addr] = p
	}
	if f := s.checkList(d, raw); f != nil {
		return s, f
	}
	if f := s.checkTrusted(d, "New"); f != nil {
		return s, f
	}
	n := nOps
	if ops != nil {
		n = len(ops)
	}
	for i := 0; i < n; i++ {
		var op Op
		if ops != nil {
			op = ops[i]
		} else {
			op = g.next(s)
		}
		if f := s.do(op); f != nil {
			if f.Step < 0 {
				return s, nil
			}
			return s, f
		}
	}
	cnt["seq.completed"]++
	return s, nil
}

type witness struct {
	Setup  Setup             `json:"setup"`
	Ops    []Op              `json:"ops"`
	Step   int               `json:"failing_step"`
	Detail map[string]string `json:"detail"`
	Conc   *cRound           `json:"conc,omitempty"`
}

func main() {
	logging.SetLevel(logrus.PanicLevel)
	logging.Disable()
	if vf.ChildMode() == "conc" {
		concChild()
	}
	r := vf.Start("C26", "exploration")
	debug.SetGCPercent(400) // many tiny allocations on 16 workers: avoid back-to-back GC cycles
	base := vf.TempDir("c26")
	defer os.RemoveAll(base)

	if p := r.ReplayPath(); p != "" {
		b, err := ioutil.ReadFile(p)
		var doc struct {
			Witness witness `json:"witness"`
		}
		if err != nil || json.Unmarshal(b, &doc) != nil {
			fmt.Fprintln(os.Stderr, "cannot read replay file")
			os.RemoveAll(base)
			os.Exit(3)
		}
		if doc.Witness.Conc != nil {
			// a round of the concurrent leg: the interleaving is not recorded, the plan is repeated
			r.Distinct("replay:a")
			r.Distinct("replay:b")
			replayConc(r, doc.Witness.Conc, 400)
			r.Sample(map[string]interface{}{"replayed": p, "repetitions": 400})
			os.RemoveAll(base)
			r.Finish("400 repetitions of a recorded concurrent round (uncontrolled interleaving)")
		}
		cnt, lc := counters{}, map[string]int64{}
		_, f := runSeq(base, 0, nil, &doc.Witness.Setup, doc.Witness.Ops, 0, cnt, lc, nil)
		r.Eval(1)
		r.Distinct("replay:a")
		r.Distinct("replay:b")
		for k, v := range cnt {
			r.Count(k, v)
		}
		if f != nil {
			r.Violation(f.Kind, f.Attrs, doc.Witness)
		}
		r.Sample(map[string]interface{}{"replayed": p})
		os.RemoveAll(base)
		r.Finish("replay of a recorded operation sequence")
	}

	// concurrent leg: the race-instrumented child runs beside the sequential sequences, the plain one after them
	nConc, nConcRace := r.Pick(240, 3000), r.Pick(80, 1000)
	raceLeg := startConc(r, "race", nConcRace)

	nSeq := r.Pick(6000, 300000)
	const nOps = 30
	const chunk = 100
	var mu sync.Mutex
	total := counters{}
	labels := map[string]int64{}
	allStates := map[uint64]struct{}{}
	type hit struct {
		f *finding
		s *seq
	}
	var hits []hit
	vf.Parallel((nSeq+chunk-1)/chunk, 16, func(ci int) {
		cnt, lc := counters{}, map[string]int64{}
		states := map[uint64]struct{}{}
		var local []hit
		for i := ci * chunk; i < (ci+1)*chunk && i < nSeq; i++ {
			var s *seq
			var f *finding
			if p, msg, frame := vf.Recover(func() {
				s, f = runSeq(base, i, r.Rand("seq", i), nil, nil, nOps, cnt, lc, states)
			}); p {
				f = &finding{Kind: "panic", Attrs: map[string]string{"panic": msg, "frame": frame}}
			}
			if f != nil && len(local) < 3 {
				local = append(local, hit{f, s})
			}
			if f != nil {
				cnt["seq.with-finding"]++
			}
			if i < 2 && s != nil {
				r.Sample(map[string]interface{}{"setup": s.setup, "first_ops": s.ops[:min(len(s.ops), 8)]})
			}
		}
		mu.Lock()
		for k, v := range cnt {
			total[k] += v
		}
		for k, v := range lc {
			labels[k] += v
		}
		for h := range states {
			if len(allStates) < 3000000 {
				allStates[h] = struct{}{}
			}
		}
		hits = append(hits, local...)
		mu.Unlock()
	})
	r.Eval(int64(nSeq))
	plainLeg := startConc(r, "plain", nConc)
	plainLeg.finish()
	raceLeg.finish()
	concEvidence(r, nConc)
	for h := range allStates {
		r.Distinct("st:" + strconv.FormatUint(h, 36))
	}
	total["states.distinct-peer-lists"] = int64(len(allStates))
	// address-string classes seen by AddPeer: how many generator classes were accepted / rejected
	acc, rej := 0, 0
	for k := range labels {
		if strings.HasPrefix(k, "addpeer.accepted.") {
			acc++
		} else {
			rej++
		}
	}
	total["addpeer.classes-accepted"] = int64(acc)
	total["addpeer.classes-rejected"] = int64(rej)
	for k, v := range total {
		r.Count(k, v)
	}
	r.Extra("addpeer_outcome_by_generator_class", labels)

	// one report per (kind, why) class: the witness with the fewest operations
	sort.Slice(hits, func(i, j int) bool { return hits[i].f.Step < hits[j].f.Step })
	seen := map[string]bool{}
	for _, h := range hits {
		key := h.f.Kind + "|" + h.f.Attrs["why"] + "|" + h.f.Attrs["after_op"]
		if seen[key] {
			continue
		}
		seen[key] = true
		w := witness{Step: h.f.Step, Detail: h.f.Attrs}
		if h.s != nil {
			w.Setup = h.s.setup
			w.Ops = h.s.ops
		}
		r.Violation(h.f.Kind, h.f.Attrs, w)
	}

	scale := int64(1)
	if !r.Quick() {
		scale = 30
	}
	for k, v := range map[string]int64{
		"new.ok": 4500, "seq.completed": 3000, "op.AddPeer": 30000, "op.AddPeers": 20000, "op.ClearOld": 8000, "op.Reload": 5000,
		"addpeer.accepted": 10000, "addpeer.rejected": 10000, "addpeer.refused-full": 1000, "addpeer.evicted-an-old-untrusted-peer": 300,
		"addpeers.called-when-full": 3000, "addpeers.offered-more-than-room": 3000, "addpeers.filled-to-exactly-max": 1000,
		"clearold.removed": 5000, "clearold.old-trusted-kept": 1000, "reload.ok": 3000, "reload.injected-entries": 5000, "reload.injected-accepted": 500,
		"list.trusted-present-checks": 50000, "list.at-or-above-max-after-op": 20000, "list.class.global": 100000, "list.class.private": 1000,
		"list.class.loopback": 500, "removepeer.trusted": 200,
	} {
		r.Floor(k, v*scale)
	}
	r.Floor("states.distinct-peer-lists", int64(r.Pick(5000, 100000)))
	r.Floor("addpeer.classes-rejected", 50)
	r.Floor("addpeer.classes-accepted", 4)
	// concurrent leg (plain build "conc.*", race build "race.*"); the overlap floors are far below what an
	// idle or a loaded 16-core machine shows (more than half of the rounds)
	for pre, n := range map[string]int64{"conc.": int64(nConc), "race.": int64(nConcRace)} {
		r.Floor(pre+"children", 1)
		r.Floor(pre+"rounds", n*9/10)
		r.Floor(pre+"rounds.several-bulk-adds-each-filling-the-free-slots", n/2)
		r.Floor(pre+"rounds.with-overlapping-addpeers", n/20)
		r.Floor(pre+"calls-started-while-another-in-flight", n)
		r.Floor(pre+"rounds.ended-at-exactly-max", n/4)
		r.Floor(pre+"calls.AddPeers", n*5)
		r.Floor(pre+"calls.AddPeer", n)
		r.Floor(pre+"calls.RemovePeer", n/2)
		r.Floor(pre+"calls.Save", n/2)
		r.Floor(pre+"calls.Random", n/2)
		r.Floor(pre+"calls.RandomExchangeable", n/2)
		r.Floor(pre+"calls.Trusted", n/3)
		r.Floor(pre+"calls.IncreaseRetryTimes", n/3)
		r.Floor(pre+"calls.SetHasIncomingPort", n/2)
		r.Floor(pre+"quiescent.peers-checked", n*8)
		r.Floor(pre+"quiescent.trusted-present-and-trusted", n/2)
		r.Floor(pre+"quiescent.old-untrusted-peers-evicted", n/20)
		r.Floor(pre+"savefile.entries-compared", n*8)
		r.Floor(pre+"reads.peers-checked", n*4)
	}
	os.RemoveAll(base)
	r.Finish("random sequences of 30 operations (AddPeer, AddPeers, RemovePeer, retry counters, SetHasIncomingPort, SetUserAgent, ageing, expiry pass, save+reload with injected cache entries, reads) "+
		"on a real pex.Pex with Max in {1,2,5,50}, localhost allowed or not, 0-3 default (trusted) connections; address strings from a hostile generator (~90 classes); "+
		"a case is non-trivial when it produces a peer list (addresses + trusted flags) not seen before. "+
		"Concurrent leg: short rounds in which 4-16 goroutines, released from a barrier, run seeded operation lists (bulk additions of distinct valid addresses that each fill the free slots, AddPeer, RemovePeer, "+
		"SetHasIncomingPort, retry counters, SetUserAgent, Random/RandomExchangeable/Trusted/AllTrusted, save) against one Pex with Max 8..500 and a prefilled list; every read and the quiescent list are checked "+
		"(size <= Max, valid addresses, default connections present and trusted, nobody else trusted, saved file = list); the same rounds run in a race-instrumented build, data races inside src/daemon/pex are violations",
		"concurrent leg: the operation lists are a function of VERIF_SEED, the interleaving is left to the Go scheduler and is neither controlled nor recorded (rounds and calls that started while another call was in flight are counted; a replay repeats the round's plan 400 times)",
		"\"global unicast\" is the address-scope class (not unspecified/loopback/link-local/multicast/broadcast); RFC 1918 private, 0/8 and 240/4 addresses count as global unicast, as the scope definition and the standard library documentation say",
		"a port written with leading zeros denotes the same number and is accepted by the oracle (counted in list.class.*+port-leading-zero)",
		"trusted peers are the default connections given at construction; an explicit RemovePeer of a trusted peer is not an eviction",
		"Max > 0 (Max = 0 means unbounded); CustomPeersFile is not used",
		"peers are aged through the VerifSetLastSeen hook instead of waiting",
	)
}

func min(a, b int) int {
	if a < b {
		return a
	}
	return b
}
