package main

import "testing"

func TestParsePeerAddr(t *testing.T) {
	cases := []struct {
		s     string
		local bool
		ok    bool
	}{
		{"1.2.3.4:6000", false, true}, {"1.2.3.4:1024", false, true}, {"1.2.3.4:65535", false, true},
		{"1.2.3.4:1023", false, false}, {"1.2.3.4:0", false, false}, {"1.2.3.4:65536", false, false},
		{"1.2.3.4:+6000", false, false}, {"1.2.3.4:-1", false, false}, {"1.2.3.4:", false, false}, {"1.2.3.4", false, false},
		{"1.2.3.4:06000", false, true}, {"1.2.3.4:01023", false, false}, {"1.2.3.4:18446744073709557616", false, false},
		{"127.0.0.1:6000", false, false}, {"127.0.0.1:6000", true, true}, {"127.9.9.9:6000", true, true}, {"127.0.0.1:80", true, false},
		{"0.0.0.0:6000", true, false}, {"169.254.0.1:6000", true, false}, {"224.0.0.1:6000", true, false}, {"239.1.1.1:6000", true, false},
		{"255.255.255.255:6000", true, false}, {"10.0.0.1:6000", false, true}, {"192.168.0.1:6000", false, true}, {"223.255.255.255:6000", false, true},
		{"01.2.3.4:6000", false, false}, {"1.2.3:6000", false, false}, {"1.2.3.4.5:6000", false, false}, {"1.2.3.256:6000", false, false},
		{"[::1]:6000", true, false}, {"::1:6000", true, false}, {"localhost:6000", true, false}, {" 1.2.3.4:6000", false, false},
		{"1.2.3.4:6000 ", false, false}, {"1.2.3.4:6000:1", false, false}, {"١.٢.٣.٤:6000", false, false}, {"1.2.3.4:６000", false, false}, {"", false, false},
	}
	for _, c := range cases {
		if _, ok, why := parsePeerAddr(c.s, c.local); ok != c.ok {
			t.Errorf("%q local=%v: got %v (%s) want %v", c.s, c.local, ok, why, c.ok)
		}
	}
}
