// Command vnodeapi is cmd/vnode plus the wallet type registrations that skycoin.go performs by
// importing the wallet packages: without them a node only loads bip44 wallet files from disk
// (deterministic, collection and xpub files are skipped as "unknown type"). Used by C27/C28.
package main

import (
	_ "github.com/skycoin/skycoin/src/wallet/bip44wallet"
	_ "github.com/skycoin/skycoin/src/wallet/collection"
	_ "github.com/skycoin/skycoin/src/wallet/deterministic"
	_ "github.com/skycoin/skycoin/src/wallet/xpubwallet"

	"verif/lib/node"
)

func main() { node.ChildMain() }
