// c30: droplet.ToString / droplet.FromString against big-integer arithmetic.
//
// Legs:
//  1. round trip: ToString(n) must be the six-decimal text of n (integer part, '.', six
//     digits) and FromString of it must give n back, for every n <= 2^63-1 tried; for
//     n >= 2^63 (not representable) ToString must not return a wrong text.
//  2. plain decimal strings built from (integer digits, fraction digits): accepted with the
//     exact value iff value*10^6 is an integer in [0, 2^63-1] (see classes below).
//  3. hostile strings (signs, whitespace, separators, hex, NaN/Inf, unicode digits, exponent
//     forms, misplaced signs): soundness only - if accepted with value v, the string must be
//     a decimal literal denoting exactly v/10^6.
//
// The reference reading of a string is refParse below: a hand-written parser for
// [+-]? (digits [. digits*] | . digits) ([eE] [+-]? digits)? evaluated with math/big.
package main

import (
	"fmt"
	"math/big"
	"math/rand"
	"os"
	"strconv"
	"strings"
	"sync"
	"time"

	"github.com/skycoin/skycoin/src/util/droplet"
	"github.com/skycoin/skycoin/src/util/logging"

	"verif/lib/rp"
	"verif/lib/vf"
)

const (
	workers = 16
	maxExp  = 5000 // exponents beyond this are a resource question (D15), not asserted here
)

var (
	bMaxI64 = new(big.Int).SetUint64(1<<63 - 1)
	bTen    = big.NewInt(10)
)

type local struct {
	counts   map[string]int64
	distinct map[string]struct{}
	evals    int64
}

func newLocal() *local { return &local{counts: map[string]int64{}, distinct: map[string]struct{}{}} }

func (l *local) note(class string) {
	l.evals++
	l.counts[class]++
}

func (l *local) dist(k string) {
	if len(l.distinct) < 200000 {
		l.distinct[k] = struct{}{}
	}
}

func (l *local) merge(r *vf.Run) {
	for k, v := range l.counts {
		r.Count(k, v)
	}
	for k := range l.distinct {
		r.Distinct(k)
	}
	r.Eval(l.evals)
}

// ---- reference reading ------------------------------------------------------------------

func isDigits(s string) bool {
	if s == "" {
		return false
	}
	for i := 0; i < len(s); i++ {
		if s[i] < '0' || s[i] > '9' {
			return false
		}
	}
	return true
}

// refParse reads s as a decimal literal. ok=false: not a decimal literal at all.
// Otherwise the value is neg? -mant*10^exp10 : mant*10^exp10. tooBig=true: the exponent is
// beyond maxExp (value not evaluated).
func refParse(s string) (ok bool, neg bool, mant *big.Int, exp10 int64, hasExp bool, tooBig bool) {
	body := s
	if i := strings.IndexAny(body, "eE"); i >= 0 {
		hasExp = true
		es := body[i+1:]
		body = body[:i]
		eneg := false
		if len(es) > 0 && (es[0] == '+' || es[0] == '-') {
			eneg = es[0] == '-'
			es = es[1:]
		}
		if !isDigits(es) {
			return
		}
		ev := new(big.Int)
		ev.SetString(es, 10)
		if ev.Cmp(big.NewInt(maxExp)) > 0 {
			tooBig = true // whatever the mantissa is, this input is not evaluated
			return
		}
		exp10 = ev.Int64()
		if eneg {
			exp10 = -exp10
		}
	}
	if len(body) > 0 && (body[0] == '+' || body[0] == '-') {
		neg = body[0] == '-'
		body = body[1:]
	}
	ip, fp := body, ""
	hasPoint := false
	if i := strings.IndexByte(body, '.'); i >= 0 {
		hasPoint = true
		ip, fp = body[:i], body[i+1:]
	}
	if ip == "" && fp == "" {
		return
	}
	if ip != "" && !isDigits(ip) {
		return
	}
	if fp != "" && !isDigits(fp) {
		return
	}
	if ip == "" && !hasPoint {
		return
	}
	mant = new(big.Int)
	if _, good := mant.SetString(ip+fp, 10); !good {
		mant = nil
		return
	}
	exp10 -= int64(len(fp))
	ok = true
	return
}

// droplets returns value*10^6 if that is an integer (exact=true)
func droplets(mant *big.Int, exp10 int64) (v *big.Int, exact bool) {
	e := exp10 + 6
	v = new(big.Int).Set(mant)
	if e >= 0 {
		v.Mul(v, new(big.Int).Exp(bTen, big.NewInt(e), nil))
		return v, true
	}
	q, m := new(big.Int).QuoRem(v, new(big.Int).Exp(bTen, big.NewInt(-e), nil), new(big.Int))
	return q, m.Sign() == 0
}

// ---- the checks -------------------------------------------------------------------------

type checker struct{ r *vf.Run }

func sixDecimal(n uint64) string {
	b := new(big.Int).SetUint64(n)
	q, m := new(big.Int).QuoRem(b, big.NewInt(1000000), new(big.Int))
	f := m.String()
	return q.String() + "." + strings.Repeat("0", 6-len(f)) + f
}

func (c *checker) roundTrip(l *local, n uint64, class string) {
	var s string
	var err error
	p, msg, frame := vf.Recover(func() { s, err = droplet.ToString(n) })
	if p {
		c.r.Violation("panic", map[string]string{"fn": "ToString", "frame": frame, "msg": msg, "n": fmt.Sprint(n)}, nil)
		return
	}
	want := sixDecimal(n)
	if n > 1<<63-1 {
		// not representable: an error is expected; a text is tolerated only if it is the right one
		if err == nil && s != want {
			c.r.Violation("tostring-wrong-text", map[string]string{"n": fmt.Sprint(n), "got": s, "want": "error or " + want, "class": "unrepresentable"}, nil)
		}
		if err != nil {
			l.note("tostring.unrepresentable_error")
		} else {
			l.note("tostring.unrepresentable_text")
		}
		return
	}
	if err != nil {
		c.r.Violation("tostring-error", map[string]string{"n": fmt.Sprint(n), "err": err.Error()}, nil)
		return
	}
	if s != want {
		c.r.Violation("tostring-wrong-text", map[string]string{"n": fmt.Sprint(n), "got": s, "want": want, "class": class}, nil)
		return
	}
	var back uint64
	p, msg, frame = vf.Recover(func() { back, err = droplet.FromString(s) })
	if p {
		c.r.Violation("panic", map[string]string{"fn": "FromString", "frame": frame, "msg": msg, "input": fmt.Sprintf("%q", s), "leg": "roundtrip"}, nil)
		return
	}
	if err != nil {
		c.r.Violation("roundtrip-rejected", map[string]string{"n": fmt.Sprint(n), "text": s, "err": err.Error()}, nil)
		return
	}
	if back != n {
		c.r.Violation("roundtrip-mismatch", map[string]string{"n": fmt.Sprint(n), "text": s, "back": fmt.Sprint(back)}, nil)
		return
	}
	l.note("roundtrip." + class)
}

// expectation for a parsed string
type expect int

const (
	mustAccept  expect = iota // plain decimal, <= 6 fraction digits, value fits
	mustReject                // denotes no admissible amount
	soundOnly                 // acceptance optional; if accepted the value must be exact
	notADecimal               // not a decimal literal: must be rejected
)

// parse calls FromString and judges the result. plain = the string has the plain form
// digits[.digits] (no sign, no exponent, at least one integer digit, no bare point).
func (c *checker) parse(l *local, s string, leg string) {
	ok, neg, mant, exp10, hasExp, tooBig := refParse(s)
	if tooBig {
		l.note(leg + ".skipped_huge_exponent")
		return
	}
	var exp expect
	var val *big.Int
	class := ""
	switch {
	case !ok:
		exp, class = notADecimal, "not_a_decimal"
	default:
		v, exact := droplets(mant, exp10)
		val = v
		isNeg := neg && mant.Sign() != 0
		plain := !hasExp && !neg && s[0] != '+' && s[0] != '.' && s[len(s)-1] != '.'
		fracDigits := 0
		if i := strings.IndexByte(s, '.'); i >= 0 && !hasExp {
			fracDigits = len(s) - i - 1
		}
		switch {
		case isNeg:
			exp, class = mustReject, "negative"
		case !exact:
			exp, class = mustReject, "more_than_six_decimals"
		case v.Cmp(bMaxI64) > 0:
			exp, class = mustReject, "too_large"
		case plain && fracDigits <= 6:
			exp, class = mustAccept, "plain_ok"
		case plain:
			exp, class = soundOnly, "plain_trailing_zeros_beyond_six"
		case hasExp:
			exp, class = soundOnly, "exponent_form_value_ok"
		default:
			exp, class = soundOnly, "signed_or_bare_point_value_ok"
		}
	}
	var got uint64
	var err error
	p, msg, frame := vf.Recover(func() { got, err = droplet.FromString(s) })
	attrs := map[string]string{"input": fmt.Sprintf("%q", s), "class": class, "leg": leg, "shape": shape(s)}
	if p {
		attrs["frame"], attrs["msg"] = frame, msg
		c.r.Violation("panic", attrs, nil)
		return
	}
	accepted := err == nil
	switch exp {
	case mustAccept:
		if !accepted {
			attrs["err"] = err.Error()
			attrs["want"] = val.String()
			c.r.Violation("rejected-valid-amount", attrs, nil)
		} else if new(big.Int).SetUint64(got).Cmp(val) != 0 {
			attrs["got"], attrs["want"] = fmt.Sprint(got), val.String()
			c.r.Violation("wrong-value", attrs, nil)
		}
	case mustReject:
		if accepted {
			attrs["got"] = fmt.Sprint(got)
			c.r.Violation("accepted-inadmissible-amount", attrs, nil)
		}
	case notADecimal:
		if accepted {
			attrs["got"] = fmt.Sprint(got)
			c.r.Violation("accepted-non-decimal", attrs, nil)
		}
	case soundOnly:
		if accepted && new(big.Int).SetUint64(got).Cmp(val) != 0 {
			attrs["got"], attrs["want"] = fmt.Sprint(got), val.String()
			c.r.Violation("wrong-value", attrs, nil)
		}
	}
	if accepted {
		l.note(leg + ".accepted." + class)
	} else {
		l.note(leg + ".rejected." + class)
	}
}

// shape abstracts a string for structural matching of findings: every maximal run of ASCII
// digits becomes "d", e/E becomes "e", everything else is kept (non-printable as \xNN)
func shape(s string) string {
	var sb strings.Builder
	prevDigit := false
	for i := 0; i < len(s); i++ {
		ch := s[i]
		switch {
		case ch >= '0' && ch <= '9':
			if !prevDigit {
				sb.WriteByte('d')
			}
			prevDigit = true
			continue
		case ch == 'e' || ch == 'E':
			sb.WriteByte('e')
		case ch < 0x20 || ch > 0x7e:
			fmt.Fprintf(&sb, "\\x%02x", ch)
		default:
			sb.WriteByte(ch)
		}
		prevDigit = false
	}
	return sb.String()
}

// ---- generators -------------------------------------------------------------------------

func digits(rng *rand.Rand, n int) string {
	b := make([]byte, n)
	for i := range b {
		b[i] = byte('0' + rng.Intn(10))
	}
	return string(b)
}

// plainString builds digits[.digits] around interesting magnitudes
func plainString(rng *rand.Rand) string {
	var ip string
	switch rng.Intn(8) {
	case 0:
		ip = "0"
	case 1:
		ip = digits(rng, 1+rng.Intn(6))
	case 2:
		ip = digits(rng, 1+rng.Intn(13))
	case 3: // around 9223372036854.775807
		ip = fmt.Sprint(9223372036854 + int64(rng.Intn(5)) - 2)
	case 4:
		ip = "9223372036854"
	case 5:
		ip = digits(rng, 13+rng.Intn(3))
	case 6:
		ip = digits(rng, 14+rng.Intn(30))
	case 7:
		ip = strings.Repeat("0", rng.Intn(4)) + digits(rng, 1+rng.Intn(13))
	}
	nf := rng.Intn(10)
	if rng.Intn(6) == 0 {
		nf = 0
	}
	if nf == 0 && rng.Intn(2) == 0 {
		return ip
	}
	var fp string
	switch rng.Intn(6) {
	case 0:
		fp = digits(rng, nf)
	case 1: // trailing zeros
		k := rng.Intn(nf + 1)
		fp = digits(rng, k) + strings.Repeat("0", nf-k)
	case 2: // around .775807
		fp = fmt.Sprint(775807 + rng.Intn(5) - 2)
		if rng.Intn(3) == 0 {
			fp += digits(rng, rng.Intn(3))
		}
	case 3: // six digits then zeros / a late non-zero digit
		fp = digits(rng, 6) + strings.Repeat("0", rng.Intn(4))
		if rng.Intn(2) == 0 {
			fp += fmt.Sprint(1 + rng.Intn(9))
		}
	case 4:
		fp = strings.Repeat("0", nf)
	case 5:
		fp = strings.Repeat("9", nf)
	}
	if fp == "" {
		return ip
	}
	return ip + "." + fp
}

var hostileTokens = []string{
	"0", "1", "5", "9", "00", "10", "123", "999999", "1000000", "9223372036854", "775807", "775808", "9223372036854775807", "9223372036854775808",
	".", ".", ".", "+", "-", "+", "-", "e", "E", "e", " ", "\t", "\n", ",", "_", "x", "0x", "0b", "0o", "'", "f", "d",
	"NaN", "nan", "Inf", "inf", "Infinity", "-Inf", "١", "٢٣", "１", "½", "−", " ", "\x00", "​", "%", "$", "/", "(", ")",
	"e5", "e-5", "e+5", "E6", "e-6", "e-7", "e0", "e00", "e-0", "e18", "e19", "e-18", "e308", "e-308", "e4999", "e-4999", "e5000", "e+", "e-", "ee", "e1e1", "e1.5", "e.5",
	".5", "5.", ".+5", ".-5", ".+0", ".-0", "+.5", "-.5", "+-1", "--1", "++1", "-0", "+0", "-0.0", "1.-5", "1.+5", "..", ".e1", "1..2", "1.2.3",
}

func hostileString(rng *rand.Rand) string {
	switch rng.Intn(10) {
	case 0: // exponent forms of admissible values: mantissa shifted against the exponent
		m := digits(rng, 1+rng.Intn(8))
		e := rng.Intn(30) - 15
		es := "e"
		if rng.Intn(2) == 0 {
			es = "E"
		}
		sgn := ""
		if e >= 0 && rng.Intn(2) == 0 {
			sgn = "+"
		}
		s := m
		if rng.Intn(2) == 0 && len(m) > 1 {
			k := 1 + rng.Intn(len(m)-1)
			s = m[:k] + "." + m[k:]
		}
		return s + es + sgn + fmt.Sprint(e)
	case 1: // exponent forms around the signed 64-bit limit
		return fmt.Sprintf("9.22337203685477580%de%d", 6+rng.Intn(3), 12+rng.Intn(2))
	case 2: // a plain string decorated with one hostile token at a random position
		s := plainString(rng)
		t := hostileTokens[rng.Intn(len(hostileTokens))]
		k := rng.Intn(len(s) + 1)
		return s[:k] + t + s[k:]
	case 3: // sign right after the point, the decimal library's blind spot for garbage
		return "." + []string{"+", "-"}[rng.Intn(2)] + digits(rng, 1+rng.Intn(7))
	default:
		n := 1 + rng.Intn(5)
		var sb strings.Builder
		for i := 0; i < n; i++ {
			sb.WriteString(hostileTokens[rng.Intn(len(hostileTokens))])
		}
		return sb.String()
	}
}

// ---- main -------------------------------------------------------------------------------

func childBigExponent() {
	// D15 observation: time to refuse (or accept) a moderately large exponent
	in := os.Getenv("VERIF_C30_INPUT")
	t0 := time.Now()
	_, err := droplet.FromString(in)
	fmt.Printf("elapsed_ms=%d err=%v\n", time.Since(t0).Milliseconds(), err)
}

func main() {
	logging.Disable()
	if vf.ChildMode() == "bigexp" {
		childBigExponent()
		return
	}
	r := vf.Start("C30", "exploration")
	c := &checker{r: r}
	if p := r.ReplayPath(); p != "" {
		f := rp.Load(p, "C30")
		l := newLocal()
		if in, ok := f.Attrs["input"]; ok {
			str, err := strconv.Unquote(in)
			if err != nil {
				fmt.Fprintln(os.Stderr, "replay:", err)
				os.Exit(3)
			}
			c.parse(l, str, f.Attrs["leg"])
		} else {
			c.roundTrip(l, f.U64("n"), "replay")
		}
		rp.Done("C30", r.Violations())
	}

	var mu sync.Mutex
	locals := []*local{}
	getLocal := func() *local {
		l := newLocal()
		mu.Lock()
		locals = append(locals, l)
		mu.Unlock()
		return l
	}

	// leg 1a: all n in [0, 2*10^6]
	const dense = 2000000
	const chunk = 50000
	vf.Parallel(dense/chunk+1, workers, func(i int) {
		l := getLocal()
		lo := uint64(i) * chunk
		for n := lo; n < lo+chunk && n <= dense; n++ {
			c.roundTrip(l, n, "dense_0_to_2e6")
		}
		l.dist(fmt.Sprintf("dense:%d", i))
	})
	// leg 1b: structured values
	{
		l := getLocal()
		seen := map[uint64]bool{}
		try := func(n uint64, class string) {
			if seen[n] {
				return
			}
			seen[n] = true
			c.roundTrip(l, n, class)
			l.dist(fmt.Sprintf("rt:%d", n))
		}
		for j, p := 0, uint64(1); j <= 19; j, p = j+1, p*10 {
			for k := uint64(1); k <= 99; k++ {
				hi, lo := bitsMul(k, p)
				if hi != 0 {
					continue
				}
				try(lo, "k_times_10^j")
				try(lo-1, "k_times_10^j")
				try(lo+1, "k_times_10^j")
			}
			if j == 19 {
				break
			}
		}
		for k := uint(0); k < 64; k++ {
			p := uint64(1) << k
			try(p-1, "pow2")
			try(p, "pow2")
			try(p+1, "pow2")
		}
		for _, n := range []uint64{1<<63 - 1, 1 << 63, 1<<63 + 1, ^uint64(0), ^uint64(0) - 1, 9223372036854775807, 9223372036854775806, 9223372036854000000, 9223372036853999999} {
			try(n, "limits")
		}
	}
	// leg 1c: random values
	nRand := r.Pick(3000000, 100000000)
	shards := 64
	vf.Parallel(shards, workers, func(s int) {
		l := getLocal()
		rng := r.Rand("roundtrip", s)
		for i := 0; i < nRand/shards; i++ {
			var n uint64
			switch i & 3 {
			case 0:
				n = rng.Uint64() >> 1
			case 1:
				n = rng.Uint64() >> uint(rng.Intn(64))
			case 2:
				n = rng.Uint64() // half of these are >= 2^63
			case 3:
				n = uint64(rng.Int63n(100000000000000)) // up to the coin supply
			}
			cl := "random"
			if n > 1<<63-1 {
				cl = "random_unrepresentable"
			}
			c.roundTrip(l, n, cl)
			if i&1023 == 0 {
				l.dist(fmt.Sprintf("rt:%d", n))
			}
		}
	})

	// leg 2: plain decimal strings
	nPlain := r.Pick(3000000, 60000000)
	vf.Parallel(shards, workers, func(s int) {
		l := getLocal()
		rng := r.Rand("plain", s)
		for i := 0; i < nPlain/shards; i++ {
			str := plainString(rng)
			c.parse(l, str, "plain")
			if i&255 == 0 {
				l.dist("p:" + str)
			}
		}
	})
	// exact limits, explicitly
	{
		l := getLocal()
		for _, s := range []string{"9223372036854.775807", "9223372036854.775808", "9223372036854.7758070", "9223372036854.77580700000", "9223372036854.7758071",
			"0", "0.000001", "0.0000001", "0.0000010", "0.000000", "0.0000000", "1", "1.0", "1.000000", "1.0000000", "001.5", "000", "18446744073709.551615", "18446744073709551615", "9223372036855"} {
			c.parse(l, s, "plain")
			l.dist("p:" + s)
		}
	}

	// leg 3: hostile strings
	nHost := r.Pick(3000000, 60000000)
	vf.Parallel(shards, workers, func(s int) {
		l := getLocal()
		rng := r.Rand("hostile", s)
		for i := 0; i < nHost/shards; i++ {
			str := hostileString(rng)
			c.parse(l, str, "hostile")
			if i&255 == 0 {
				l.dist("h:" + str)
			}
		}
	})
	{
		l := getLocal()
		for _, s := range hostileTokens {
			c.parse(l, s, "hostile")
		}
		for _, s := range []string{"", " ", " 1", "1 ", "1,000", "1_000", "0x10", "1e3", "1E3", "1e+3", "10e-7", "1e-6", "1e-7", "0e-7", "0e10", "1e18", "9223372036854775807e-6", "9223372036854775808e-6",
			"NaN", "Inf", "+Inf", "-1", "-0", "-0.000000", "+1", "+1.5", ".", "1.", ".5", "+.5", ".+5", ".-5", ".+0", "٣", "１", "1e5000", "1e-5000"} {
			c.parse(l, s, "hostile")
			l.dist("h:" + s)
		}
	}

	for _, l := range locals {
		l.merge(r)
	}

	// D15 observation (not asserted): a moderately large exponent, measured in a child
	{
		dir := vf.TempDir("c30")
		res := vf.RunChild(dir, "", "bigexp", nil, []string{"VERIF_C30_INPUT=1e200000"}, 60*time.Second)
		obs := map[string]interface{}{"input": "1e200000", "timed_out_60s": res.TimedOut, "wall_ms": res.Wall.Milliseconds(), "child_stdout": strings.TrimSpace(string(res.Stdout))}
		r.Extra("observation_large_exponent_not_asserted", obs)
		os.RemoveAll(dir)
	}

	r.Sample(map[string]interface{}{"leg": "roundtrip", "n": "9223372036854775807", "text": "9223372036854.775807"})
	r.Sample(map[string]interface{}{"leg": "plain", "input": "9223372036854.775808", "expect": "rejected (2^63 droplets)"})
	r.Sample(map[string]interface{}{"leg": "plain", "input": "0.0000001", "expect": "rejected (seven decimals)"})
	r.Sample(map[string]interface{}{"leg": "hostile", "input": "1e-6", "expect": "if accepted then exactly 1 droplet"})
	r.Sample(map[string]interface{}{"leg": "hostile", "input": ".+5", "expect": "rejected (not a decimal literal)"})

	r.Floor("roundtrip.dense_0_to_2e6", dense)
	r.Floor("roundtrip.k_times_10^j", 3000)
	r.Floor("roundtrip.pow2", 150)
	r.Floor("roundtrip.random", int64(nRand/4))
	r.Floor("tostring.unrepresentable_error", int64(nRand/16))
	r.Floor("plain.accepted.plain_ok", int64(nPlain/10))
	r.Floor("plain.rejected.more_than_six_decimals", int64(nPlain/20))
	r.Floor("plain.rejected.too_large", int64(nPlain/20))
	r.Floor("hostile.rejected.not_a_decimal", int64(nHost/10))
	r.Floor("hostile.rejected.negative", int64(nHost/1000))
	r.Floor("hostile.accepted.exponent_form_value_ok", int64(nHost/1000))

	r.Finish("round trip for every n in [0,2*10^6], k*10^j+-1, 2^k+-1, the 2^63 neighbourhood and random values (uniform, log-uniform, supply-sized); plain decimal strings generated from integer/fraction digit parts around 9223372036854.775807 with 0..9 fraction digits; hostile strings from token concatenation and single-token corruption of plain strings; expected values from a hand-written decimal reader evaluated with math/big",
		"completeness (must accept) is asserted only for the plain form digits[.digits] with at most six fraction digits; strings whose extra fraction digits are all zero, signed forms, bare points and exponent forms are checked for soundness only (if accepted, the value must be exact)",
		"a string that is not a decimal literal ([+-]? digits[.digits*] | .digits, optional [eE][+-]?digits) must be rejected",
		"exponents are capped at |e| <= 5000; larger exponents are a resource question (D15) recorded as an observation, not asserted",
		"for n >= 2^63 ToString must either fail or return the exact text; it must never return a wrong text")
}

func bitsMul(a, b uint64) (hi, lo uint64) {
	p := new(big.Int).Mul(new(big.Int).SetUint64(a), new(big.Int).SetUint64(b))
	if p.BitLen() > 64 {
		return 1, 0
	}
	return 0, p.Uint64()
}
