// Command c06 decides property C06 on the shared ledger workload (see lib/ledgerrun)
package main

import "verif/lib/ledgerrun"

func main() { ledgerrun.Main("C06") }
