// Service life cycles with out-of-band directory changes.
//
// A sequence no longer lives in one service: a "restart" step stops the service (temporary wallets
// vanish, unloaded wallets come back with the state their file has), optionally changes the wallet
// directory the way users and backup tools do while the node is down, and starts a new service on
// it; the ordinary operations then continue on the new service. The out-of-band changes:
//
//	rename   X.wlt -> another *.wlt name (the meta data inside still records the old name)
//	copy     X.wlt -> another *.wlt name, with X's current or an EARLIER content (a restored backup
//	         next to the original). For every wallet kind with a generating secret the directory then
//	         holds the same wallet twice: the statement's "no two loaded wallets share a seed or
//	         fingerprint" and "a fresh service starts" cannot both hold, refusing to start is the
//	         expected answer (modelled, counted); the user then removes one of the two files
//	         (the copy, or the original: backup restored under another name) and starts again
//	revert   X.wlt gets the content it had at an earlier point of the sequence (same name)
//	away     X.wlt -> a name without the wallet extension (X.wlt.old): not a wallet any more
//	back     such a file is renamed to a *.wlt name again (the original or a new one)
//	delete   X.wlt removed
//	stray    a copy of X under a non-wallet name (.bak, .tmp.N, ~, .swp) or a text file
//
// The oracle stays the statement's: the new service must start (unless the model holds a duplicate),
// hold exactly the *.wlt files of the directory, each equal to its file's content (modulo the
// recorded file name, which the statement does not speak about), and from then on all clauses are
// evaluated after every operation as before - in particular memory == freshly started service,
// no shared fingerprint/secret, and an operation on wallet X writes file X and nothing else.
package main

import (
	"bytes"
	"encoding/json"
	"fmt"
	"io/ioutil"
	"os"
	"path/filepath"
	"sort"
	"strings"

	"github.com/skycoin/skycoin/src/wallet"

	"verif/lib/wfix"
)

// version is one state a wallet file had during the sequence
type version struct {
	name      string // file name it was written under
	data      []byte
	encrypted bool
	pw        []byte
}

const maxVersions = 6

// wltExt is the wallet file extension as documented (the product's constant has no dot and its
// loader takes every name ending in "wlt"; the harness makes no name where the two readings differ)
const wltExt = ".wlt"

// recordVersion remembers the state the service just wrote for wallet m
func (s *seqState) recordVersion(m *mw, data []byte) {
	vs := s.versions[m]
	if n := len(vs); n > 0 && bytes.Equal(vs[n-1].data, data) {
		return
	}
	vs = append(vs, version{name: m.id, data: append([]byte(nil), data...), encrypted: m.encrypted, pw: m.pw})
	if len(vs) > maxVersions {
		vs = vs[len(vs)-maxVersions:]
	}
	s.versions[m] = vs
}

// withoutFilename parses a wallet serialisation and drops meta.filename
func withoutFilename(data []byte) (string, error) {
	var v map[string]interface{}
	if err := json.Unmarshal(data, &v); err != nil {
		return "", err
	}
	if meta, ok := v["meta"].(map[string]interface{}); ok {
		delete(meta, "filename")
	}
	out, err := json.Marshal(v)
	return string(out), err
}

func (s *seqState) dirHas(name string) bool {
	_, err := os.Lstat(filepath.Join(s.dir, name))
	return err == nil
}

// otherWalletName makes a *.wlt name that is not in the directory and was never used by the sequence
func (s *seqState) otherWalletName(old string) string {
	base := strings.TrimSuffix(old, wltExt)
	for {
		var n string
		switch s.rng.Intn(5) {
		case 0:
			n = s.newName()
		case 1:
			n = "restored-" + old
		case 2:
			n = base + " (copy)" + wltExt
		case 3:
			n = fmt.Sprintf("backup_%s_%s%s", base, wfix.RandToken(s.rng, 3), wltExt)
		default:
			n = old + wltExt // w1-2.wlt.wlt
		}
		if _, taken := s.namesUsed[n]; !taken && !s.dirHas(n) {
			s.namesUsed[n] = true
			return n
		}
	}
}

func (s *seqState) write(name string, data []byte) {
	if err := ioutil.WriteFile(filepath.Join(s.dir, name), data, 0600); err != nil {
		panic(err)
	}
}

func (s *seqState) loadedIDs() []string {
	var ids []string
	for id := range s.loaded {
		ids = append(ids, id)
	}
	sort.Strings(ids)
	return ids
}

// duplicates lists pairs of loaded wallets that the model knows to be the same wallet twice
func (s *seqState) duplicates() [][2]string {
	var out [][2]string
	seen := map[string]string{}
	for _, id := range s.loadedIDs() {
		k := s.loaded[id].key()
		if k == "" {
			continue
		}
		if o, dup := seen[k]; dup {
			out = append(out, [2]string{o, id})
			continue
		}
		seen[k] = id
	}
	return out
}

// outOfBand applies one directory change to the stopped directory and to the model
func (s *seqState) outOfBand(allowCopy bool) {
	rng := s.rng
	m := s.pick(nil)
	x := rng.Intn(100)
	switch {
	case x < 30 && m != nil: // rename
		n := s.otherWalletName(m.id)
		s.logf("  out-of-band: rename %s -> %s", m.id, n)
		if err := os.Rename(filepath.Join(s.dir, m.id), filepath.Join(s.dir, n)); err != nil {
			panic(err)
		}
		delete(s.loaded, m.id)
		m.id, m.offName = n, true
		s.loaded[n] = m
		s.r.Count("oob.rename", 1)
	case x < 50 && m != nil && allowCopy: // copy under another wallet name (current or earlier content)
		cur, err := ioutil.ReadFile(filepath.Join(s.dir, m.id))
		if err != nil {
			panic(err)
		}
		c := *m
		c.id, c.offName = s.otherWalletName(m.id), true
		what := "current"
		data := cur
		if vs := s.versions[m]; len(vs) > 1 && rng.Intn(2) == 0 {
			v := vs[rng.Intn(len(vs)-1)]
			data, c.encrypted, c.pw = v.data, v.encrypted, v.pw
			what = "earlier"
		}
		s.logf("  out-of-band: copy %s (%s content) -> %s", m.id, what, c.id)
		s.write(c.id, data)
		s.loaded[c.id] = &c
		s.r.Count("oob.copy_"+what, 1)
		if c.key() == "" {
			s.r.Count("oob.copy_without_generating_secret", 1)
		}
	case x < 62 && m != nil: // the file gets an earlier content back
		vs := s.versions[m]
		cur, _ := ioutil.ReadFile(filepath.Join(s.dir, m.id))
		var cand []version
		for _, v := range vs {
			if !bytes.Equal(v.data, cur) {
				cand = append(cand, v)
			}
		}
		if len(cand) == 0 {
			s.r.Count("oob.revert_no_earlier_state", 1)
			return
		}
		v := cand[rng.Intn(len(cand))]
		s.logf("  out-of-band: %s gets the content back it had %d bytes ago (written as %s, encrypted=%v)", m.id, len(v.data), v.name, v.encrypted)
		s.write(m.id, v.data)
		m.encrypted, m.pw = v.encrypted, v.pw
		if v.name != m.id {
			m.offName = true
		}
		s.r.Count("oob.revert", 1)
	case x < 70 && m != nil: // no longer a wallet file
		n := m.id + []string{".old", ".bak", ".disabled", "-saved"}[rng.Intn(4)]
		if rng.Intn(4) == 0 {
			n = strings.TrimSuffix(m.id, wltExt)
		}
		if strings.HasSuffix(n, "wlt") { // w1-2.wlt.wlt
			n = m.id + ".old"
		}
		if s.dirHas(n) {
			return
		}
		s.logf("  out-of-band: rename %s -> %s (not a wallet name)", m.id, n)
		if err := os.Rename(filepath.Join(s.dir, m.id), filepath.Join(s.dir, n)); err != nil {
			panic(err)
		}
		delete(s.loaded, m.id)
		s.away[n] = m
		s.r.Count("oob.away", 1)
	case x < 78: // an earlier moved-away file becomes a wallet again
		var names []string
		for n := range s.away {
			names = append(names, n)
		}
		if len(names) == 0 {
			return
		}
		sort.Strings(names)
		n := names[rng.Intn(len(names))]
		a := s.away[n]
		to := a.id
		if rng.Intn(2) == 0 || s.dirHas(to) || s.loaded[to] != nil {
			to = s.otherWalletName(a.id)
		}
		s.logf("  out-of-band: rename %s -> %s (a wallet name again, was %s)", n, to, a.id)
		if err := os.Rename(filepath.Join(s.dir, n), filepath.Join(s.dir, to)); err != nil {
			panic(err)
		}
		delete(s.away, n)
		if to != a.id {
			a.offName = true
		}
		a.id = to
		s.loaded[to] = a
		s.r.Count("oob.back", 1)
	case x < 83 && m != nil: // removed
		s.logf("  out-of-band: delete %s", m.id)
		if err := os.Remove(filepath.Join(s.dir, m.id)); err != nil {
			panic(err)
		}
		delete(s.loaded, m.id)
		s.r.Count("oob.delete", 1)
	default: // stray files
		n := "notes-" + wfix.RandToken(rng, 4) + ".txt"
		data := []byte("wallet passwords are in the other file\n")
		if m != nil && rng.Intn(4) > 0 {
			cur, err := ioutil.ReadFile(filepath.Join(s.dir, m.id))
			if err != nil {
				panic(err)
			}
			data = cur
			switch rng.Intn(5) {
			case 0:
				n = m.id + ".bak"
			case 1:
				n = fmt.Sprintf("%s.tmp.%d", m.id, rng.Intn(100000))
			case 2:
				n = m.id + "~"
			case 3:
				n = "." + m.id + ".swp"
			default:
				n = strings.TrimSuffix(m.id, wltExt) + ".json"
			}
			if vs := s.versions[m]; len(vs) > 0 && rng.Intn(3) == 0 {
				data = vs[rng.Intn(len(vs))].data
			}
		}
		if s.dirHas(n) {
			return
		}
		s.logf("  out-of-band: stray file %s (%d bytes)", n, len(data))
		s.write(n, data)
		s.r.Count("oob.stray", 1)
	}
}

// opRestart ends the service's life, changes the directory from outside and starts a new service
func (s *seqState) opRestart() {
	rng := s.rng
	p := s.before()
	s.touch = "*"
	// the stop: temporary wallets are gone, unloaded wallets are ordinary files again
	for id, m := range s.loaded {
		if m.temp {
			delete(s.loaded, id)
		}
	}
	for id, m := range s.gone {
		if _, still := s.unloaded[id]; still {
			s.loaded[id] = m
			s.r.Count("restart.unloaded_wallet_back", 1)
		}
	}
	s.gone = map[string]*mw{}
	s.unloaded = map[string][]byte{}

	nOOB := 0
	if rng.Intn(5) > 0 {
		nOOB = 1 + rng.Intn(3)
	}
	s.logf("restart (%d out-of-band changes)", nOOB)
	for i := 0; i < nOOB; i++ {
		s.outOfBand(len(s.duplicates()) == 0)
	}
	if nOOB == 0 {
		s.r.Count("restart.plain", 1)
	}

	for attempt := 0; ; attempt++ {
		dups := s.duplicates()
		disk := readDir(s.dir)
		// harness self-check: the model's wallets are the directory's *.wlt files
		var files []string
		for n := range disk.files {
			if strings.HasSuffix(n, wltExt) {
				files = append(files, n)
			}
		}
		sort.Strings(files)
		if ids := s.loadedIDs(); strings.Join(ids, "|") != strings.Join(files, "|") {
			panic(fmt.Sprintf("harness model out of sync with the directory: model %v, files %v, trace %s", ids, files, strings.Join(s.trace[len(s.trace)-minInt(12, len(s.trace)):], "\n")))
		}

		svc, err := wallet.NewService(s.cfg)
		if err != nil {
			if len(dups) == 0 {
				s.violation("service-does-not-restart", map[string]string{"error": err.Error()}, "no duplicate wallet in the directory, yet the service refuses to start: "+err.Error())
				return
			}
			// expected: the same wallet is in the directory twice. One of the two files goes.
			s.r.Count("restart.refused_duplicate_wallet_files", 1)
			d := dups[0]
			drop := d[rng.Intn(2)]
			s.logf("  start refused (%v); out-of-band: delete %s", err, drop)
			if err := os.Remove(filepath.Join(s.dir, drop)); err != nil {
				panic(err)
			}
			delete(s.loaded, drop)
			s.r.Count("oob.duplicate_resolved", 1)
			if attempt > 4 {
				panic("duplicates do not go away")
			}
			continue
		}
		s.svc = svc
		if len(dups) > 0 {
			s.logf("  started although %s and %s are the same wallet", dups[0][0], dups[0][1])
			s.r.Count("restart.started_on_duplicate_wallet_files", 1)
		}
		// every *.wlt file is held, with the content of its file
		mem, _, err := memSnap(svc)
		if err != nil {
			s.violation("memory-unreadable", nil, err.Error())
			return
		}
		for _, n := range files {
			b, ok := mem[n]
			if !ok {
				if len(dups) > 0 {
					// a service that starts on duplicates by skipping one of them: the model follows
					delete(s.loaded, n)
					continue
				}
				s.violation("wallet-file-not-loaded-at-start", nil, n+" is in the directory but the started service does not hold it")
				return
			}
			got, err1 := withoutFilename(b)
			want, err2 := withoutFilename(disk.files[n])
			if err1 != nil || err2 != nil {
				s.violation("wallet-unparsable-at-start", nil, fmt.Sprintf("%s: %v %v", n, err1, err2))
				return
			}
			if got != want {
				s.violation("started-wallet-differs-from-file", map[string]string{"wallet": s.loaded[n].kind}, fmt.Sprintf("%s: the started service's wallet is not the file's content\n--- memory\n%s\n--- file\n%s", n, got, want))
				return
			}
			s.r.Count("checked.started_wallet_equals_file", 1)
		}
		break
	}
	s.r.Count("restart.ok", 1)
	s.after(p, nil, nil)
}
