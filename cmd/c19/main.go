// C19 — The wallet service's memory and disk views never diverge.
//
// Model-based sequential monitor over a real wallet.Service on a temp directory. Random sequences
// of 20-60 operations: create (all kinds, with/without encryption, explicit or generated names,
// duplicate seed, duplicate name, bad parameters, save failures), create temporary, new addresses,
// scan, label update, encrypt, decrypt, recover, unload, UpdateSecrets / Update with closures that
// succeed, fail early or fail after mutating their argument, and read-only views.
// After EVERY operation:
//
//	(1) a fresh wallet.NewService on the same directory starts;
//	(2) every non-temporary wallet in memory has an identically serialised twin in the fresh
//	    service, and every wallet the fresh service loads is in memory or was unloaded by the
//	    sequence (then its file is byte-identical to what it was at unload time);
//	(3) if the operation returned an error, the in-memory serialisations and the directory
//	    (names and contents) equal the pre-operation snapshot;
//	(4) no two wallets in memory share a fingerprint or a generating secret (type+seed+passphrase,
//	    or xpub) as supplied by the harness;
//	(5) temporary wallets never reach the disk (no file of their name, their seed in no file);
//	(6) a successful operation on wallet X changed file X and no other file of the directory.
//
// A sequence spans several service lifetimes: "restart" steps stop the service, change the directory
// from outside (renamed / copied / restored / reverted / removed wallet files, stray files) and start
// a new service on it - see oob.go.
//
// The generator never re-creates the seed or file name of an *unloaded* wallet (statement silent).
package main

import (
	"bytes"
	"errors"
	"fmt"
	"io/ioutil"
	"math/rand"
	"os"
	"path/filepath"
	"sort"
	"strings"

	"github.com/skycoin/skycoin/src/cipher"
	"github.com/skycoin/skycoin/src/cipher/crypto"
	"github.com/skycoin/skycoin/src/wallet"
	_ "github.com/skycoin/skycoin/src/wallet/bip44wallet"
	_ "github.com/skycoin/skycoin/src/wallet/collection"
	_ "github.com/skycoin/skycoin/src/wallet/deterministic"
	_ "github.com/skycoin/skycoin/src/wallet/xpubwallet"

	"verif/lib/vf"
	"verif/lib/wfix"
)

type mw struct { // what the harness knows about a wallet it created
	id        string
	kind      string
	seed      string
	pass      string
	xpub      string
	temp      bool
	encrypted bool
	pw        []byte
	genName   bool
	offName   bool // the file's name differs from the name recorded inside it (out-of-band rename / copy) until the service writes it
}

func (m *mw) key() string {
	switch m.kind {
	case wallet.WalletTypeCollection:
		return ""
	case wallet.WalletTypeXPub:
		return "xpub|" + m.xpub
	}
	return m.kind + "|" + m.seed + "|" + m.pass
}

type dirSnap struct {
	files map[string][]byte // regular files
	other []string          // anything else
}

type seqState struct {
	r        *vf.Run
	id       int
	rng      *rand.Rand
	dir      string
	cfg      wallet.Config
	svc      *wallet.Service
	loaded   map[string]*mw
	unloaded map[string][]byte
	used     map[string]bool // generating secrets ever used by a non-rejected create (loaded or unloaded)
	seedUse  map[string]int  // how many created wallets carry this seed string (same-mnemonic variants share it by design)
	nameCtr  int
	trace    []string
	bad      bool

	// service life cycles and out-of-band directory changes (oob.go)
	gone      map[string]*mw    // models of the unloaded wallets (they come back at the next start)
	away      map[string]*mw    // wallet files renamed to a non-wallet name, by that name
	versions  map[*mw][]version // states the service wrote for a wallet
	namesUsed map[string]bool   // *.wlt names handed out for out-of-band renames / copies
	touch     string            // the wallet id the current operation works on ("" none, "*" restart)
}

func (s *seqState) logf(f string, a ...interface{}) { s.trace = append(s.trace, fmt.Sprintf(f, a...)) }

func (s *seqState) violation(kind string, attrs map[string]string, detail string) {
	s.bad = true
	if attrs == nil {
		attrs = map[string]string{}
	}
	attrs["detail"] = detail
	if len(s.trace) > 0 {
		attrs["op"] = strings.SplitN(s.trace[len(s.trace)-1], " ", 2)[0]
	}
	listing := []string{}
	if fis, err := ioutil.ReadDir(s.dir); err == nil {
		for _, fi := range fis {
			listing = append(listing, fmt.Sprintf("%s (%d bytes, %s)", fi.Name(), fi.Size(), fi.Mode()))
		}
	}
	s.r.Violation(kind, attrs, map[string]interface{}{"sequence": s.id, "trace": s.trace, "detail": detail, "directory": listing})
}

func readDir(dir string) dirSnap {
	d := dirSnap{files: map[string][]byte{}}
	fis, _ := ioutil.ReadDir(dir)
	for _, fi := range fis {
		if fi.Mode().IsRegular() {
			b, _ := ioutil.ReadFile(filepath.Join(dir, fi.Name()))
			d.files[fi.Name()] = b
		} else {
			d.other = append(d.other, fi.Name())
		}
	}
	sort.Strings(d.other)
	return d
}

func diffFiles(a, b map[string][]byte, ignore func(string) bool) string {
	for n, x := range a {
		if ignore != nil && ignore(n) {
			continue
		}
		y, ok := b[n]
		if !ok {
			return "file " + n + " disappeared"
		}
		if !bytes.Equal(x, y) {
			return "file " + n + " changed"
		}
	}
	for n := range b {
		if ignore != nil && ignore(n) {
			continue
		}
		if _, ok := a[n]; !ok {
			return "file " + n + " appeared"
		}
	}
	return ""
}

func memSnap(svc *wallet.Service) (map[string][]byte, map[string]wallet.Wallet, error) {
	ws, err := svc.GetWallets()
	if err != nil {
		return nil, nil, err
	}
	out := map[string][]byte{}
	for id, w := range ws {
		b, err := w.Serialize()
		if err != nil {
			return nil, nil, fmt.Errorf("wallet %s does not serialise: %v", id, err)
		}
		out[id] = b
	}
	return out, ws, nil
}

type pre struct {
	mem map[string][]byte
	dir dirSnap
}

func (s *seqState) before() pre {
	m, _, err := memSnap(s.svc)
	if err != nil {
		s.violation("memory-unreadable", nil, err.Error())
	}
	s.touch = ""
	return pre{m, readDir(s.dir)}
}

// after runs the five clauses. opErr is the operation's result; ignore filters directory
// entries the harness itself injected (save-failure cases only).
func (s *seqState) after(p pre, opErr error, ignore func(string) bool) {
	if s.bad {
		return
	}
	s.r.Eval(1)
	mem, ws, err := memSnap(s.svc)
	if err != nil {
		s.violation("memory-unreadable", nil, err.Error())
		return
	}
	disk := readDir(s.dir)

	// (3) a failed operation changes neither view
	if opErr != nil {
		if d := diffFiles(p.mem, mem, nil); d != "" {
			s.violation("failed-operation-changed-memory", map[string]string{"error": opErr.Error()}, strings.Replace(d, "file ", "wallet ", 1))
			return
		}
		if d := diffFiles(p.dir.files, disk.files, ignore); d != "" {
			s.violation("failed-operation-changed-disk", map[string]string{"error": opErr.Error()}, d)
			return
		}
		s.r.Count("checked.failed_op_changed_nothing", 1)
	}

	// (1) a fresh service starts
	fresh, err := wallet.NewService(s.cfg)
	if err != nil {
		s.violation("fresh-service-does-not-start", nil, err.Error())
		return
	}
	fmem, _, err := memSnap(fresh)
	if err != nil {
		s.violation("fresh-service-unreadable", nil, err.Error())
		return
	}
	// (2) memory == disk view
	for id, b := range mem {
		if ws[id].IsTemp() {
			continue
		}
		fb, ok := fmem[id]
		if !ok {
			s.violation("memory-wallet-missing-on-disk", map[string]string{"wallet": ws[id].Type()}, id+" is in memory but a fresh service does not load it")
			return
		}
		if !bytes.Equal(b, fb) {
			s.violation("memory-differs-from-disk", map[string]string{"wallet": ws[id].Type()}, fmt.Sprintf("%s: memory and freshly loaded serialisations differ\n--- memory\n%s\n--- disk\n%s", id, b, fb))
			return
		}
		s.r.Count("checked.wallet_memory_equals_disk", 1)
	}
	for id := range fmem {
		if w, ok := ws[id]; ok && !w.IsTemp() {
			continue
		}
		at, ok := s.unloaded[id]
		if !ok {
			s.violation("disk-wallet-not-in-memory", nil, id+" is loaded by a fresh service but is neither in memory nor unloaded by the sequence")
			return
		}
		if !bytes.Equal(at, disk.files[id]) {
			s.violation("unloaded-wallet-file-changed", nil, id+" changed on disk after it was unloaded")
			return
		}
		s.r.Count("checked.unloaded_file_unchanged", 1)
	}
	// the model agrees on which wallets exist
	for id := range s.loaded {
		if _, ok := mem[id]; !ok {
			s.violation("wallet-vanished-from-memory", nil, id)
			return
		}
	}
	for id := range mem {
		if _, ok := s.loaded[id]; !ok {
			s.violation("unexpected-wallet-in-memory", nil, id+" is in memory although no successful operation put it there")
			return
		}
	}
	// (4) no shared fingerprint / generating secret
	fps := map[string]string{}
	keys := map[string]string{}
	for id, w := range ws {
		if fp := w.Fingerprint(); fp != "" {
			if o, dup := fps[fp]; dup {
				s.violation("shared-fingerprint", map[string]string{"wallet": w.Type()}, fmt.Sprintf("%s and %s have fingerprint %s", o, id, fp))
				return
			}
			fps[fp] = id
		}
		if m := s.loaded[id]; m != nil && m.key() != "" {
			if o, dup := keys[m.key()]; dup {
				s.violation("shared-seed", map[string]string{"wallet": w.Type()}, fmt.Sprintf("%s and %s were created from the same %s", o, id, m.kind))
				return
			}
			keys[m.key()] = id
		}
	}
	// (5) temporary wallets never on disk
	for id, m := range s.loaded {
		if !m.temp {
			continue
		}
		if !ws[id].IsTemp() {
			s.violation("temporary-flag-lost", nil, id)
			return
		}
		if _, ok := disk.files[id]; ok {
			s.violation("temporary-wallet-on-disk", map[string]string{"wallet": m.kind}, "file "+id+" exists")
			return
		}
		if _, ok := fmem[id]; ok {
			s.violation("temporary-wallet-on-disk", map[string]string{"wallet": m.kind}, "a fresh service loads "+id)
			return
		}
		if len(m.seed) >= 8 && s.seedUse[m.seed] == 1 {
			for n, b := range disk.files {
				if bytes.Contains(b, []byte(m.seed)) {
					s.violation("temporary-wallet-on-disk", map[string]string{"wallet": m.kind}, "seed of "+id+" found in "+n)
					return
				}
			}
		}
		s.r.Count("checked.temp_wallet_not_on_disk", 1)
	}
	// (6) a successful operation on wallet X writes file X and no other (files the service does not
	// own - other wallets, stray backups, moved-away wallets - stay as they are)
	if opErr == nil && s.touch != "*" {
		if d := diffFiles(p.dir.files, disk.files, func(n string) bool { return n == s.touch || (ignore != nil && ignore(n)) }); d != "" {
			s.violation("operation-wrote-another-file", nil, fmt.Sprintf("operation on %q: %s", s.touch, d))
			return
		}
		s.r.Count("checked.op_wrote_only_its_file", 1)
	}
	// remember the state the service wrote (later out-of-band reverts / restored backups use it)
	if opErr == nil && s.touch != "" && s.touch != "*" {
		if m := s.loaded[s.touch]; m != nil && !m.temp {
			if b, ok := disk.files[s.touch]; ok {
				if m.offName && !bytes.Equal(b, p.dir.files[s.touch]) {
					// first write after the file got another name from outside, all clauses held
					m.offName = false
					s.r.Count("checked.write_after_out_of_band_name_change", 1)
				}
				s.recordVersion(m, b)
			}
		}
	}
}

// ---- helpers ---------------------------------------------------------------------------

func (s *seqState) newName() string {
	s.nameCtr++
	return fmt.Sprintf("w%d-%d.wlt", s.id, s.nameCtr)
}

func (s *seqState) pick(filter func(*mw) bool) *mw {
	var all []string
	for id := range s.loaded {
		all = append(all, id)
	}
	sort.Strings(all) // (filters may draw from the PRNG: fixed order keeps runs reproducible)
	var ids []string
	for _, id := range all {
		if filter == nil || filter(s.loaded[id]) {
			ids = append(ids, id)
		}
	}
	if len(ids) == 0 {
		return nil
	}
	return s.loaded[ids[s.rng.Intn(len(ids))]]
}

func outcome(err error) string {
	if err != nil {
		return "error"
	}
	return "ok"
}

func (s *seqState) count(op string, err error) {
	s.r.Count("op."+op+"."+outcome(err), 1)
}

func (s *seqState) freshSeed(kind string) (seed, pass string) {
	for {
		if kind == wallet.WalletTypeBip44 {
			seed = wfix.Mnemonic(s.rng)
			if s.rng.Intn(3) == 0 {
				pass = "pass-" + wfix.RandToken(s.rng, 6)
			}
		} else {
			seed = wfix.SeedString(s.rng)
		}
		if !s.used[kind+"|"+seed+"|"+pass] {
			return
		}
	}
}

func (s *seqState) freshXPub() string {
	// the external-chain xpub of a throw-away bip44 wallet
	b, err := wallet.NewWallet("x.wlt", "x", wfix.Mnemonic(s.rng), wallet.Options{Type: wallet.WalletTypeBip44})
	if err != nil {
		panic(err)
	}
	data, _ := b.Serialize()
	const key = `"public_key": "`
	i := bytes.Index(data, []byte(key))
	rest := data[i+len(key):]
	return string(rest[:bytes.IndexByte(rest, '"')])
}

// ---- operations --------------------------------------------------------------------------

func (s *seqState) opCreate(temp bool) {
	rng := s.rng
	kind := []string{wallet.WalletTypeDeterministic, wallet.WalletTypeBip44, wallet.WalletTypeXPub, wallet.WalletTypeCollection}[rng.Intn(4)]
	m := &mw{kind: kind, temp: temp}
	// the crypto type is always named: a wallet created without one records the default scrypt
	// registration (N=2^20, 1 GiB per operation) and a later EncryptWallet would use it
	opts := wallet.Options{Type: kind, Label: "label " + wfix.RandToken(rng, 4), Temp: temp, GenerateN: uint64(rng.Intn(4)), CryptoType: s.cfg.CryptoType}
	name := s.newName()
	if rng.Intn(10) < 3 {
		name = "" // the service picks a name
		m.genName = true
	}
	variant := "plain"
	var ignore func(string) bool
	cleanup := func() {}
	switch kind {
	case wallet.WalletTypeDeterministic, wallet.WalletTypeBip44:
		m.seed, m.pass = s.freshSeed(kind)
	case wallet.WalletTypeXPub:
		m.xpub = s.freshXPub()
	case wallet.WalletTypeCollection:
		opts.GenerateN = 0
		keys := make([]cipher.SecKey, rng.Intn(4))
		for i := range keys {
			keys[i] = wfix.SecKey(rng)
		}
		opts.CollectionPrivateKeys = keys
	}
	if kind != wallet.WalletTypeXPub && rng.Intn(100) < 35 {
		m.encrypted = true
		m.pw = []byte("pw-" + wfix.RandToken(rng, 6))
	}
	// variants (most of them must be refused)
	switch x := rng.Intn(100); {
	case x < 10: // duplicate generating secret of a loaded wallet
		if o := s.pick(func(o *mw) bool { return o.key() != "" }); o != nil {
			variant = "duplicate_seed"
			kind, m.kind, opts.Type = o.kind, o.kind, o.kind
			m.seed, m.pass, m.xpub = o.seed, o.pass, o.xpub
			opts.CollectionPrivateKeys = nil
			if kind == wallet.WalletTypeXPub {
				m.encrypted = false
			}
		}
	case x < 16: // name of a loaded wallet
		if o := s.pick(nil); o != nil {
			variant = "duplicate_name"
			name = o.id
			m.genName = false
		}
	case x < 19:
		variant = "no_label"
		opts.Label = ""
		if kind == wallet.WalletTypeXPub {
			variant = "plain" // xpub wallets accept an empty label
		}
	case x < 22:
		if kind == wallet.WalletTypeDeterministic || kind == wallet.WalletTypeBip44 {
			variant = "no_seed"
			m.seed = ""
		}
	case x < 25:
		if kind == wallet.WalletTypeBip44 {
			variant = "invalid_mnemonic"
			m.seed = "not a valid mnemonic " + wfix.RandToken(rng, 5)
		} else if kind == wallet.WalletTypeDeterministic {
			variant = "passphrase_on_deterministic"
			m.pass = "pass"
		} else if kind == wallet.WalletTypeXPub {
			variant = "invalid_xpub"
			m.xpub = "xpub" + wfix.RandToken(rng, 40)
		} else {
			variant = "collection_generate_n"
			opts.GenerateN = 2
		}
	case x < 28:
		if kind != wallet.WalletTypeXPub {
			variant = "encrypt_without_password"
			m.encrypted = true
			m.pw = nil
		} else {
			variant = "encrypt_xpub"
			m.encrypted = true
			m.pw = []byte("pw")
		}
	case x < 30:
		variant = "unknown_type"
		opts.Type = "nosuchtype"
	case x < 32:
		if kind != wallet.WalletTypeCollection {
			variant = "scan_without_finder"
			opts.ScanN = 5
		}
	case x < 36:
		if kind == wallet.WalletTypeDeterministic || kind == wallet.WalletTypeBip44 {
			// the statement's "share a seed" is read as "same generating secret": the same
			// mnemonic under another wallet type / passphrase derives other keys. Observed, not asserted.
			if o := s.pick(func(o *mw) bool {
				return (o.kind == wallet.WalletTypeBip44 || o.kind == wallet.WalletTypeDeterministic) && len(strings.Fields(o.seed)) >= 12
			}); o != nil {
				m.seed = o.seed
				if o.kind == kind && kind == wallet.WalletTypeBip44 {
					variant = "same_mnemonic_other_passphrase"
					m.pass = o.pass + "-other"
				} else if o.kind != kind {
					variant = "same_mnemonic_other_type"
					m.pass = ""
				} else {
					m.seed, m.pass = s.freshSeed(kind)
				}
				if s.used[m.key()] {
					variant = "plain"
					m.seed, m.pass = s.freshSeed(kind)
				}
			}
		}
	case x < 39 && !temp:
		variant = "save_fails_name_too_long"
		name = strings.Repeat("n", 246) + ".wlt" // the name fits, the service's temp-file name does not
		m.genName = false
	case x < 42 && !temp:
		variant = "save_fails_directory_in_the_way"
		name = s.newName()
		m.genName = false
		p := filepath.Join(s.dir, name)
		_ = os.Mkdir(p, 0700)
		nm := name
		ignore = func(n string) bool { return strings.HasPrefix(n, nm+".tmp.") }
		cleanup = func() {
			_ = os.Remove(p)
			if fis, err := ioutil.ReadDir(s.dir); err == nil {
				for _, fi := range fis {
					if strings.HasPrefix(fi.Name(), nm+".tmp.") {
						_ = os.Remove(filepath.Join(s.dir, fi.Name()))
					}
				}
			}
		}
	}
	if temp && m.encrypted && variant == "plain" {
		variant = "encrypt_temporary"
	}
	opts.Seed, opts.SeedPassphrase, opts.XPub = m.seed, m.pass, m.xpub
	opts.Encrypt, opts.Password = m.encrypted, m.pw
	what := "create"
	if temp {
		what = "create_temp"
	}
	s.logf("%s %s name=%q variant=%s encrypt=%v seed=%q pass=%q xpub=%q n=%d", what, kind, name, variant, m.encrypted, m.seed, m.pass, m.xpub, opts.GenerateN)
	p := s.before()
	w, err := s.svc.CreateWallet(name, opts)
	s.count(what+"."+variant, err)
	if err == nil {
		m.id = w.Filename()
		s.touch = m.id
		s.loaded[m.id] = m
		if m.key() != "" {
			s.used[m.key()] = true
		}
		if m.seed != "" {
			s.seedUse[m.seed]++
		}
		if _, hit := s.unloaded[m.id]; hit && m.genName {
			// a generated name collided with an unloaded wallet's file: outside the statement
			delete(s.unloaded, m.id)
			delete(s.gone, m.id)
			s.r.Count("excluded.generated_name_hits_unloaded_file", 1)
		}
		s.r.Count("wallets.created."+kind, 1)
	}
	s.after(p, err, ignore)
	cleanup()
}

func (s *seqState) password(m *mw) ([]byte, string) {
	switch x := s.rng.Intn(10); {
	case x < 6:
		return m.pw, "right"
	case x < 8:
		return []byte("wrong-" + wfix.RandToken(s.rng, 4)), "wrong"
	default:
		if m.encrypted {
			return nil, "missing"
		}
		return []byte("needless"), "needless"
	}
}

func (s *seqState) opNewAddresses() {
	m := s.pick(nil)
	if m == nil {
		return
	}
	n := []int{0, 1, 2, 5}[s.rng.Intn(4)]
	opts := []wallet.Option{wallet.OptionGenerateN(uint64(n))}
	sel := "default"
	if m.kind == wallet.WalletTypeBip44 {
		switch s.rng.Intn(6) {
		case 0, 1:
			opts = append(opts, wallet.OptionChange())
			sel = "change"
		case 2:
			opts = append(opts, wallet.OptionExternal())
			sel = "external"
		case 3:
			opts = append(opts, wallet.OptionExternal(), wallet.OptionChange())
			sel = "both-chains"
		case 4:
			opts = append(opts, wallet.OptionAccount(3))
			sel = "no-such-account"
		}
	}
	if m.kind == wallet.WalletTypeCollection {
		keys := make([]cipher.SecKey, n)
		for i := range keys {
			keys[i] = wfix.SecKey(s.rng)
		}
		opts = []wallet.Option{wallet.OptionCollectionPrivateKeys(keys)}
	}
	pw, how := s.password(m)
	s.logf("new_addresses %s n=%d chain=%s password=%s (encrypted=%v)", m.id, n, sel, how, m.encrypted)
	p := s.before()
	s.touch = m.id
	_, err := s.svc.NewAddresses(m.id, pw, opts...)
	s.count("new_addresses."+how, err)
	if err == nil && sel == "change" {
		s.r.Count("op.new_addresses.change_chain_ok", 1)
	}
	s.after(p, err, nil)
}

func (s *seqState) opScan() {
	m := s.pick(nil)
	if m == nil {
		return
	}
	n := []int{1, 3, 8}[s.rng.Intn(3)]
	tf := &wfix.StubTF{}
	for i := 0; i < 2; i++ {
		p, _ := wfix.Pattern(s.rng, n)
		tf.Patterns = append(tf.Patterns, p)
	}
	how2 := "answers"
	if s.rng.Intn(6) == 0 {
		tf.Fail = errors.New("activity lookup failed")
		how2 = "finder-fails"
	}
	pw, how := s.password(m)
	if m.kind == wallet.WalletTypeBip44 && how == "right" {
		pw = nil // bip44 scans take no password
	}
	s.logf("scan %s n=%d password=%s finder=%s", m.id, n, how, how2)
	p := s.before()
	s.touch = m.id
	_, err := s.svc.ScanAddresses(m.id, pw, uint64(n), tf)
	s.count("scan."+how2, err)
	s.after(p, err, nil)
}

func (s *seqState) opLabel() {
	m := s.pick(nil)
	id := "nosuch.wlt"
	if m != nil && s.rng.Intn(8) > 0 {
		id = m.id
	}
	label := "relabel " + wfix.RandToken(s.rng, 5)
	s.logf("label %s %q", id, label)
	p := s.before()
	s.touch = id
	err := s.svc.UpdateWalletLabel(id, label)
	s.count("label", err)
	s.after(p, err, nil)
}

func (s *seqState) opEncrypt() {
	m := s.pick(nil)
	if m == nil {
		return
	}
	pw := []byte("enc-" + wfix.RandToken(s.rng, 6))
	if s.rng.Intn(8) == 0 {
		pw = nil
	}
	s.logf("encrypt %s (encrypted=%v temp=%v kind=%s) password=%q", m.id, m.encrypted, m.temp, m.kind, pw)
	p := s.before()
	s.touch = m.id
	_, err := s.svc.EncryptWallet(m.id, pw)
	s.count("encrypt", err)
	if err == nil {
		m.encrypted, m.pw = true, pw
	}
	s.after(p, err, nil)
}

func (s *seqState) opDecrypt() {
	m := s.pick(func(m *mw) bool { return m.encrypted || s.rng.Intn(4) == 0 })
	if m == nil {
		return
	}
	pw, how := s.password(m)
	s.logf("decrypt %s password=%s (encrypted=%v)", m.id, how, m.encrypted)
	p := s.before()
	s.touch = m.id
	_, err := s.svc.DecryptWallet(m.id, pw)
	s.count("decrypt."+how, err)
	if err == nil {
		m.encrypted, m.pw = false, nil
	}
	s.after(p, err, nil)
}

func (s *seqState) opRecover() {
	m := s.pick(func(m *mw) bool { return m.encrypted || s.rng.Intn(5) == 0 })
	if m == nil {
		return
	}
	seed, pass, how := m.seed, m.pass, "right-seed"
	switch s.rng.Intn(5) {
	case 0:
		if m.kind == wallet.WalletTypeBip44 {
			seed = wfix.Mnemonic(s.rng)
		} else {
			seed = wfix.SeedString(s.rng)
		}
		how = "wrong-seed"
	case 1:
		if m.kind == wallet.WalletTypeBip44 {
			pass += "x"
			how = "wrong-passphrase"
		}
	}
	var npw []byte
	if s.rng.Intn(3) > 0 {
		npw = []byte("rec-" + wfix.RandToken(s.rng, 6))
	}
	s.logf("recover %s %s new_password=%q (encrypted=%v kind=%s)", m.id, how, npw, m.encrypted, m.kind)
	p := s.before()
	s.touch = m.id
	_, err := s.svc.RecoverWallet(m.id, seed, pass, npw)
	s.count("recover."+how, err)
	if err == nil {
		m.encrypted, m.pw = len(npw) > 0, npw
	}
	s.after(p, err, nil)
}

func (s *seqState) opUnload() {
	m := s.pick(nil)
	id := "nosuch.wlt"
	if m != nil && s.rng.Intn(8) > 0 {
		id = m.id
	}
	s.logf("unload %s", id)
	p := s.before()
	err := s.svc.UnloadWallet(id)
	s.count("unload", err)
	if err == nil && m != nil && id == m.id {
		if !m.temp {
			if b, ok := p.dir.files[id]; ok {
				s.unloaded[id] = b
				s.gone[id] = m
			}
		}
		delete(s.loaded, id)
	}
	s.after(p, err, nil)
}

func (s *seqState) closure() (func(wallet.Wallet) error, string) {
	n := uint64(1 + s.rng.Intn(3))
	mutate := func(w wallet.Wallet) error {
		w.SetLabel("closure " + wfix.RandToken(s.rng, 4))
		var opts []wallet.Option
		switch w.Type() {
		case wallet.WalletTypeCollection:
			opts = []wallet.Option{wallet.OptionCollectionPrivateKeys([]cipher.SecKey{wfix.SecKey(s.rng)})}
		case wallet.WalletTypeBip44:
			opts = []wallet.Option{wallet.OptionGenerateN(n), wallet.OptionChange()}
		default:
			opts = []wallet.Option{wallet.OptionGenerateN(n)}
		}
		_, err := w.GenerateAddresses(opts...)
		return err
	}
	switch s.rng.Intn(3) {
	case 0:
		return mutate, "mutates-and-succeeds"
	case 1:
		return func(wallet.Wallet) error { return errors.New("closure refuses") }, "fails-early"
	default:
		return func(w wallet.Wallet) error {
			if err := mutate(w); err != nil {
				return err
			}
			return errors.New("closure fails after mutating")
		}, "fails-after-mutating"
	}
}

func (s *seqState) opUpdateSecrets() {
	m := s.pick(nil)
	if m == nil {
		return
	}
	f, how := s.closure()
	pw, pwHow := s.password(m)
	s.logf("update_secrets %s closure=%s password=%s (encrypted=%v kind=%s)", m.id, how, pwHow, m.encrypted, m.kind)
	p := s.before()
	s.touch = m.id
	err := s.svc.UpdateSecrets(m.id, pw, f)
	s.count("update_secrets."+how, err)
	s.after(p, err, nil)
}

func (s *seqState) opUpdate() {
	m := s.pick(nil)
	if m == nil {
		return
	}
	f, how := s.closure()
	s.logf("update %s closure=%s (encrypted=%v kind=%s)", m.id, how, m.encrypted, m.kind)
	p := s.before()
	s.touch = m.id
	err := s.svc.Update(m.id, f)
	s.count("update."+how, err)
	s.after(p, err, nil)
}

func (s *seqState) opView() {
	m := s.pick(nil)
	if m == nil {
		return
	}
	f, how := s.closure()
	pw, _ := s.password(m)
	which := s.rng.Intn(3)
	s.logf("view(%d) %s closure=%s", which, m.id, how)
	p := s.before()
	var err error
	switch which {
	case 0:
		err = s.svc.View(m.id, f)
	case 1:
		err = s.svc.ViewSecrets(m.id, pw, f)
	default:
		_, _, err = s.svc.GetWalletSeed(m.id, pw)
	}
	s.count("view", err)
	// a read-only operation changes nothing whatever it returns
	s.after(p, errors.New("read-only operation"), nil)
	_ = err
}

func runSequence(r *vf.Run, id int) {
	rng := r.Rand("seq", id)
	dir := vf.TempDir("c19")
	defer os.RemoveAll(dir)
	cfg := wallet.NewConfig()
	cfg.WalletDir = dir
	cfg.EnableWalletAPI = true
	cfg.EnableSeedAPI = true
	cfg.CryptoType = crypto.CryptoTypeSha256Xor
	if rng.Intn(8) == 0 {
		cfg.CryptoType = crypto.CryptoTypeScryptChacha20poly1305Insecure
	}
	svc, err := wallet.NewService(cfg)
	if err != nil {
		r.Violation("service-start-failed", map[string]string{"detail": err.Error()}, nil)
		return
	}
	s := &seqState{r: r, id: id, rng: rng, dir: dir, cfg: cfg, svc: svc, loaded: map[string]*mw{}, unloaded: map[string][]byte{}, used: map[string]bool{}, seedUse: map[string]int{},
		gone: map[string]*mw{}, away: map[string]*mw{}, versions: map[*mw][]version{}, namesUsed: map[string]bool{}}
	nops := 20 + rng.Intn(41)
	// start with a couple of wallets so that the other operations have targets
	s.opCreate(false)
	for i := 1; i < nops && !s.bad; i++ {
		if rng.Intn(100) < 8 {
			s.opRestart()
			continue
		}
		switch x := rng.Intn(100); {
		case x < 22:
			s.opCreate(false)
		case x < 29:
			s.opCreate(true)
		case x < 44:
			s.opNewAddresses()
		case x < 52:
			s.opScan()
		case x < 59:
			s.opLabel()
		case x < 66:
			s.opEncrypt()
		case x < 73:
			s.opDecrypt()
		case x < 79:
			s.opRecover()
		case x < 84:
			s.opUnload()
		case x < 91:
			s.opUpdateSecrets()
		case x < 96:
			s.opUpdate()
		default:
			s.opView()
		}
	}
	if !s.bad {
		r.Count("sequences", 1)
		r.Count("sequences.ops", int64(len(s.trace)))
		r.Distinct(fmt.Sprintf("%d|%s", id, strings.Join(s.trace, "|")))
		r.Sample(map[string]interface{}{"sequence": id, "ops": len(s.trace), "wallets_loaded_at_end": len(s.loaded), "unloaded": len(s.unloaded), "first_ops": s.trace[:minInt(6, len(s.trace))]})
	}
}

func minInt(a, b int) int {
	if a < b {
		return a
	}
	return b
}

func main() {
	wfix.Quiet()
	r := vf.Start("C19", "exploration")
	n := r.Pick(150, 5000)
	vf.Parallel(n, 16, func(i int) {
		panicked, msg, frame := vf.Recover(func() { runSequence(r, i) })
		if panicked {
			r.Violation("panic", map[string]string{"frame": frame, "msg": msg}, map[string]interface{}{"sequence": i})
		}
	})
	q := r.Quick()
	fl := func(k string, qv, tv int64) {
		if q {
			r.Floor(k, qv)
		} else {
			r.Floor(k, tv)
		}
	}
	fl("sequences", int64(n), int64(n))
	fl("checked.wallet_memory_equals_disk", 10000, 300000)
	fl("checked.failed_op_changed_nothing", 1500, 50000)
	fl("checked.unloaded_file_unchanged", 300, 10000)
	fl("checked.temp_wallet_not_on_disk", 300, 10000)
	for _, k := range []string{"deterministic", "bip44", "xpub", "collection"} {
		fl("wallets.created."+k, 80, 2500)
	}
	fl("op.create.plain.ok", 300, 10000)
	fl("op.create.duplicate_seed.error", 30, 1000)
	fl("op.create.duplicate_name.error", 30, 1000)
	fl("op.create.save_fails_name_too_long.error", 15, 500)
	fl("op.create.save_fails_directory_in_the_way.error", 15, 500)
	fl("op.create_temp.plain.ok", 80, 2500)
	fl("op.new_addresses.right.ok", 150, 5000)
	fl("op.new_addresses.wrong.error", 15, 500)
	fl("op.new_addresses.change_chain_ok", 20, 600)
	fl("op.scan.answers.ok", 80, 2500)
	fl("op.scan.finder-fails.error", 10, 300)
	fl("op.label.ok", 100, 3000)
	fl("op.encrypt.ok", 50, 1500)
	fl("op.encrypt.error", 50, 1500)
	fl("op.decrypt.right.ok", 30, 1000)
	fl("op.decrypt.wrong.error", 10, 300)
	fl("op.recover.right-seed.ok", 20, 600)
	fl("op.recover.wrong-seed.error", 5, 150)
	fl("op.unload.ok", 100, 3000)
	fl("op.update_secrets.mutates-and-succeeds.ok", 30, 1000)
	fl("op.update_secrets.fails-after-mutating.error", 50, 1500)
	fl("op.update_secrets.fails-early.error", 50, 1500)
	fl("op.update.mutates-and-succeeds.ok", 30, 1000)
	fl("op.update.fails-after-mutating.error", 30, 1000)
	// service lifetimes and out-of-band directory changes
	fl("restart.ok", 200, 7000)
	fl("restart.plain", 30, 1000)
	fl("restart.unloaded_wallet_back", 40, 1300)
	fl("restart.refused_duplicate_wallet_files", 25, 800)
	fl("oob.rename", 80, 2500)
	fl("oob.copy_current", 30, 1000)
	fl("oob.copy_earlier", 8, 250)
	fl("oob.copy_without_generating_secret", 8, 250)
	fl("oob.revert", 10, 300)
	fl("oob.away", 15, 500)
	fl("oob.back", 4, 120)
	fl("oob.delete", 8, 250)
	fl("oob.stray", 40, 1300)
	fl("checked.started_wallet_equals_file", 500, 15000)
	fl("checked.write_after_out_of_band_name_change", 40, 1300)
	fl("checked.op_wrote_only_its_file", 1000, 30000)
	r.Finish("operation sequences of 20-60 steps over wallet.Service lifetimes on a private directory: about every twelfth step stops the service, applies 0-3 out-of-band changes to the directory (wallet file renamed, copied under another name with current or earlier content, reverted to an earlier content, moved to / back from a non-wallet name, deleted, stray .bak/.tmp/~/.swp/.txt files) and starts a new service, which must start unless the model knows the same wallet to be in the directory twice (then refusal is expected and one file is removed); operation, target wallet, parameters (kind, encryption, names, passwords right/wrong/missing, chains, closures that succeed / fail early / fail after mutating, duplicate seeds and names, bad parameters, two save-failure injections) are drawn from the run seed; all six clauses are evaluated after every operation and every restart against a freshly started service on the same directory; a sequence is distinct by its operation trace",
		"at a restart the started service's wallets are compared with the directory's *.wlt files modulo the file name recorded in the meta data (the statement does not say which name a renamed file carries); the consequences of the name are left to the clauses after the following operations",
		"a directory holding the same generative wallet twice (out-of-band copy) may be refused at start: the model knows the duplicate, counts the refusal and removes one of the two files; collection wallets (no fingerprint) are loaded twice; out-of-band names end in .wlt or do not end in wlt at all",
		"the generator never re-creates the seed or the file name of an unloaded wallet (the statement does not define that case); a service-generated name that happens to equal an unloaded wallet's file name is excluded likewise",
		"'share a seed' is read as 'same generating secret': same wallet type, seed and seed passphrase (or the same xpub). The same mnemonic used for a deterministic and a bip44 wallet, or for bip44 wallets with different passphrases, derives different keys and is accepted by the service; such creations are generated and counted (create.same_mnemonic_*) but not asserted",
		"explicit wallet names always end in .wlt (the API only ever passes generated names); save failures are injected only for creation (over-long name, directory in the way) because this sandbox runs as root and read-only directories do not bind; the temp file SaveBinary leaves behind in the second injection is ignored",
		"crypto types sha256-xor and scrypt-chacha20poly1305-insecure only")
}
