// Command c01 decides property C01 on the shared ledger workload (see lib/ledgerrun)
package main

import "verif/lib/ledgerrun"

func main() { ledgerrun.Main("C01") }
