// C27, forged-token leg: tokens that were never issued by the node under test.
//
// README "CSRF": a state-changing request is served only with a token obtained from this node's
// GET /api/v1/csrf. The probes here carry tokens that are well-formed in every respect a client
// can produce without the node's help - the documented layout base64url(JSON{Nonce,ExpiresAt}) "."
// base64url(HMAC-SHA256(JSON)), a nonce of the usual length, an expiry in the future - but are
// signed under keys anybody could guess. They are sent twice per configuration: to the freshly
// started node before any token was ever requested from it (start-up state), and again after the
// first GET /api/v1/csrf. In both states the request must be refused like one without a token.
//
// The forger is written from the token layout only (own JSON rendering, own base64/HMAC calls); it
// shares no code with src/api/csrf.go.
package main

import (
	"crypto/hmac"
	"crypto/sha256"
	"crypto/sha512"
	"encoding/base64"
	"fmt"
	"strings"
	"time"
)

const (
	forgedPrefix = "forged:"
	phaseFresh   = "fresh"  // nobody has requested a token from the node yet
	phaseIssued  = "issued" // the node has issued at least one token
)

// guessable signing keys; "mac=plain" entries sign without a key at all
var forgeKeys = []string{
	"empty", "zero1", "zero16", "zero32", "zero64", "zero65", "zero128", "ff64", "count64",
	"str-csrf", "str-header", "str-field", "str-coin", "str-secret",
	"own-body", "own-nonce", "own-signing-string", "node-addr", "node-creds",
	"plain-sha256", "plain-zero-sig", "seeded-random",
}

var forgeExpiries = []string{"soon", "far"}

func forgedLabel(key, expiry, phase string) string {
	return forgedPrefix + key + ":" + expiry + ":" + phase
}

// parseForged splits a token label of this leg
func parseForged(label string) (key, expiry, phase string, ok bool) {
	if !strings.HasPrefix(label, forgedPrefix) {
		return "", "", "", false
	}
	f := strings.Split(label[len(forgedPrefix):], ":")
	if len(f) != 3 {
		return "", "", "", false
	}
	return f[0], f[1], f[2], true
}

func rep(b byte, n int) []byte {
	out := make([]byte, n)
	for i := range out {
		out[i] = b
	}
	return out
}

// forgeToken renders a token in the documented layout and signs it under the named key.
// salt individualises the nonce (deterministic: no randomness is needed for a forgery).
func (n *nodeCtx) forgeToken(key, expiry, salt string) string {
	d := sha512.Sum512([]byte("c27 forged nonce|" + key + "|" + expiry + "|" + salt))
	nonce := d[:] // 64 bytes, the length of an issued nonce
	var exp string
	switch expiry {
	case "far":
		exp = "2100-01-01T00:00:00Z"
	default: // inside the documented 30 s lifetime, rendered like an issued token (RFC 3339, nanoseconds)
		exp = time.Now().Add(csrfLifetime - 5*time.Second).UTC().Format("2006-01-02T15:04:05.000000000Z")
	}
	body := []byte(fmt.Sprintf(`{"Nonce":"%s","ExpiresAt":"%s"}`, base64.StdEncoding.EncodeToString(nonce), exp))
	signing := base64.RawURLEncoding.EncodeToString(body)

	var k []byte
	var sig []byte
	switch key {
	case "empty":
		k = nil
	case "zero1":
		k = rep(0, 1)
	case "zero16":
		k = rep(0, 16)
	case "zero32":
		k = rep(0, 32)
	case "zero64":
		k = rep(0, 64)
	case "zero65": // longer than the hash block: HMAC hashes the key first
		k = rep(0, 65)
	case "zero128":
		k = rep(0, 128)
	case "ff64":
		k = rep(0xff, 64)
	case "count64":
		k = make([]byte, 64)
		for i := range k {
			k[i] = byte(i)
		}
	case "str-csrf":
		k = []byte("csrf")
	case "str-header":
		k = []byte(apifixCSRFHeader)
	case "str-field":
		k = []byte("csrf_token")
	case "str-coin":
		k = []byte("skycoin")
	case "str-secret":
		k = []byte("secret")
	case "own-body":
		k = body
	case "own-nonce":
		k = nonce
	case "own-signing-string":
		k = []byte(signing)
	case "node-addr":
		k = []byte(n.addr)
	case "node-creds":
		u, p := n.cfg.User, n.cfg.Pass
		if !n.cfg.creds() {
			u, p = "alice", "secret"
		}
		k = []byte(u + ":" + p)
	case "plain-sha256": // no key at all: the bare digest of the body
		s := sha256.Sum256(body)
		sig = s[:]
	case "plain-zero-sig": // the MAC length, all zero
		sig = rep(0, sha256.Size)
	default: // "seeded-random": some 64-byte key that is not the node's
		s := sha512.Sum512([]byte("c27 foreign key|" + salt))
		k = s[:]
	}
	if sig == nil {
		m := hmac.New(sha256.New, k)
		m.Write(body)
		sig = m.Sum(nil)
	}
	return signing + "." + base64.RawURLEncoding.EncodeToString(sig)
}

// ensureIssued makes sure the node has handed out at least one token
func (n *nodeCtx) ensureIssued() error {
	if n.issued.Load() {
		return nil
	}
	n.tokMu.Lock()
	defer n.tokMu.Unlock()
	_, err := n.fetchToken()
	return err
}

// forgedProbes lists the probes of one phase for a configuration: every key on several
// state-changing (route, method) pairs, preferably pairs where the token is the only thing
// wrong with the request, plus - in the start-up state - the classic bad tokens.
func (h *harness) forgedProbes(c *config, ci int, phase string) []probe {
	rng := h.r.Rand("forged", ci, phase)
	base := baseline(c)
	var open, other []probe // open: all other access conditions hold in this configuration
	for _, d := range h.docList {
		if d.Path == "/api/v1/csrf" {
			continue // never touches the token state of the node
		}
		for _, m := range methods {
			if !stateChanging(m) {
				continue
			}
			p := probe{Path: d.Path, Method: m, V: base, Kind: "doc"}
			if len(expect(c, h.docs, p).F) == 0 {
				open = append(open, p)
			} else if _, served := d.Methods[m]; served {
				other = append(other, p)
			}
		}
	}
	for _, path := range h.regs {
		if h.docs[path] == nil && path != "/" {
			other = append(other, probe{Path: path, Method: "POST", V: base, Kind: "undoc"})
		}
	}
	other = append(other, probe{Path: unknownPaths[0], Method: "POST", V: base, Kind: "unknown"})
	pick := func(l []probe, tok string, k int, out *[]probe) {
		for i := 0; i < k && len(l) > 0; i++ {
			p := l[rng.Intn(len(l))]
			p.V.Token = tok
			*out = append(*out, p)
		}
	}
	var out []probe
	for i, key := range forgeKeys {
		for j, e := range forgeExpiries {
			tok := forgedLabel(key, e, phase)
			if len(open) > 0 {
				pick(open, tok, 2, &out)
			} else {
				pick(other, tok, 2, &out)
			}
			if (i+j)%2 == 0 {
				pick(other, tok, 1, &out)
			}
		}
	}
	if phase == phaseFresh {
		// the start-up state under the tokens the main workload uses (those that need no token of this node)
		for _, tok := range []string{"absent", "garbage", "garbage-dot", "foreign"} {
			if len(open) > 0 {
				pick(open, tok, 5, &out)
			}
			pick(other, tok, 2, &out)
		}
	}
	return out
}

// countForged records what a probe of this leg observed
func (h *harness) countForged(n *nodeCtx, p probe, classes []string, freshNode bool) {
	r := h.r
	class := strings.Join(classes, "|")
	key, _, phase, ok := parseForged(p.V.Token)
	if !ok {
		if freshNode && n.cfg.CSRF && stateChanging(p.Method) {
			r.Count("startup.classic_bad_token_before_first_token", 1)
			r.Count("startup.classic."+p.V.Token+"."+class, 1)
		}
		return
	}
	r.Count("forged.probes", 1)
	r.Count("forged.key."+key, 1)
	r.Count("forged.class."+class, 1)
	switch {
	case phase == phaseFresh && freshNode:
		r.Count("forged.before_first_token", 1)
		if class == "CSRF" {
			r.Count("forged.before_first_token.refused_as_csrf", 1)
		}
	case phase == phaseIssued && !freshNode:
		r.Count("forged.after_first_token", 1)
		if class == "CSRF" {
			r.Count("forged.after_first_token.refused_as_csrf", 1)
		}
	default:
		r.Count("forged.phase_not_as_labelled", 1)
	}
}

func (h *harness) forgedFloors() {
	r := h.r
	// at least seven configurations with token checking run in either tier
	r.Floor("forged.before_first_token", 600)
	r.Floor("forged.after_first_token", 600)
	r.Floor("forged.before_first_token.refused_as_csrf", 300)
	r.Floor("forged.after_first_token.refused_as_csrf", 300)
	r.Floor("startup.classic_bad_token_before_first_token", 100)
	for _, k := range forgeKeys {
		r.Floor("forged.key."+k, 50)
	}
}
