// C27 — HTTP API access control is enforced on every endpoint.
//
// Black-box monitor. A real node (cmd/vnode child, lib/node) is started per configuration
// (enabled API sets, CSRF on/off, header check on/off, credentials, host whitelist) on a
// copy of a prepared data directory. The *expected* route table (path, served methods, API
// sets) is parsed from the documentation src/api/README.md; the probed set is that table
// plus every path registered in newServerMux (syntactic scan of http.go) plus unknown
// paths. Every (route, method) is called with a valid minimal request under header
// variants (CSRF token, Host, Origin, Referer, Basic auth, Content-Type). The response is
// classified by status and documented body; the model computes from the documentation the
// set F of access conditions the request fails. F empty => the handler must answer;
// F non-empty => the answer must be one of the refusals in F, never the handler.
package main

import (
	"encoding/base64"
	"encoding/json"
	"fmt"
	"os"
	"path/filepath"
	"regexp"
	"sort"
	"strings"
	"sync"
	"sync/atomic"
	"time"

	"verif/lib/apifix"
	"verif/lib/node"
	"verif/lib/vf"
)

var methods = []string{"GET", "POST", "PUT", "DELETE", "HEAD", "OPTIONS", "PATCH"}

// documented lifetime of a CSRF token (README "CSRF": "A token is only valid for 30 seconds")
const csrfLifetime = 30 * time.Second

// ---------------------------------------------------------------------------------
// configuration

type config struct {
	Name      string   `json:"name"`
	Sets      []string `json:"sets"`
	CSRF      bool     `json:"csrf"`
	HeaderChk bool     `json:"header_check"`
	User      string   `json:"user"`
	Pass      string   `json:"pass"`
	Whitelist []string `json:"whitelist"`
}

func (c *config) has(set string) bool {
	for _, s := range c.Sets {
		if s == set {
			return true
		}
	}
	return false
}

func (c *config) creds() bool { return c.User != "" || c.Pass != "" }

func (c *config) String() string {
	return fmt.Sprintf("sets=%s csrf=%v hdr=%v user=%q pass=%q wl=%v", strings.Join(c.Sets, "+"), c.CSRF, c.HeaderChk, c.User, c.Pass, c.Whitelist)
}

// variant names one header combination
type variant struct {
	Token   string `json:"token"`
	Host    string `json:"host"`
	Origin  string `json:"origin"`
	Referer string `json:"referer"`
	Auth    string `json:"auth"`
	CT      string `json:"ct"`
}

func (v variant) String() string {
	return fmt.Sprintf("token=%s host=%s origin=%s referer=%s auth=%s ct=%s", v.Token, v.Host, v.Origin, v.Referer, v.Auth, v.CT)
}

type probe struct {
	Path   string  `json:"path"`
	Method string  `json:"method"`
	V      variant `json:"variant"`
	Kind   string  `json:"kind"` // "doc", "undoc", "unknown"
}

var (
	tokenVals   = []string{"valid", "absent", "garbage", "garbage-dot", "foreign", "superseded", "tampered"}
	hostVals    = []string{"own", "localhost", "empty", "other", "noport", "otherport", "suffix", "whitelisted"}
	originVals  = []string{"absent", "same", "same-localhost", "https-same", "foreign", "malformed", "malformed-escape", "null", "userinfo-foreign", "userinfo-own", "suffix", "whitelisted", "no-scheme"}
	refererVals = []string{"absent", "same", "foreign", "malformed", "whitelisted", "userinfo-foreign"}
	authVals    = []string{"exact", "absent", "wrong-pass", "wrong-user", "resplit-left", "resplit-right", "resplit-alluser", "resplit-allpass", "empty", "swapped", "user-only", "pass-only"}
	ctVals      = []string{"json", "json-charset", "absent", "text", "form", "jsonx", "upper"}
)

const wlHost = "wallet.example.test:8443"

// ---------------------------------------------------------------------------------
// the model: which access conditions does the request fail, per the documentation

type expectation struct {
	F map[string]bool // conditions the request fails for sure
	O map[string]bool // refusals the documentation leaves open
}

func (e expectation) allowed() map[string]bool {
	a := map[string]bool{}
	for k := range e.F {
		a[k] = true
	}
	for k := range e.O {
		a[k] = true
	}
	if len(e.F) == 0 {
		a["HANDLER"] = true
	}
	return a
}

func keys(m map[string]bool) string {
	var ks []string
	for k := range m {
		ks = append(ks, k)
	}
	sort.Strings(ks)
	return strings.Join(ks, ",")
}

func stateChanging(m string) bool { return m == "POST" || m == "PUT" || m == "DELETE" }

func expect(c *config, docs map[string]*apifix.DocRoute, p probe) expectation {
	e := expectation{F: map[string]bool{}, O: map[string]bool{}}
	v := p.V
	// credentials
	if c.creds() {
		if v.Auth != "exact" {
			e.F["AUTH"] = true
		}
	} else if v.Auth != "absent" {
		// the documentation does not say what an unauthenticated node does with credentials
		e.O["AUTH"] = true
	}
	// content type (README "API Version 2": POST endpoints accept only application/json)
	if strings.HasPrefix(p.Path, "/api/v2/") && p.Method == "POST" {
		switch v.CT {
		case "json", "json-charset":
		case "upper":
			e.O["CT"] = true
		default:
			e.F["CT"] = true
		}
	}
	// Host and Origin/Referer (documented at HostCheck / OriginRefererCheck)
	if c.HeaderChk {
		switch v.Host {
		case "own", "localhost", "empty":
		case "whitelisted":
			if len(c.Whitelist) == 0 {
				e.F["HOST"] = true
			}
		default:
			e.F["HOST"] = true
		}
		chk := v.Origin
		if chk == "absent" {
			chk = v.Referer
		}
		switch chk {
		case "absent", "same", "same-localhost", "https-same":
		case "userinfo-own":
			e.O["ORIGIN"] = true
		case "whitelisted":
			if len(c.Whitelist) == 0 {
				e.F["ORIGIN"] = true
			}
		default:
			e.F["ORIGIN"] = true
		}
	}
	// CSRF (README "CSRF")
	if c.CSRF && stateChanging(p.Method) && v.Token != "valid" {
		e.F["CSRF"] = true
	}
	// method and API set (README route blocks)
	d := docs[p.Path]
	switch {
	case p.Kind == "unknown":
		e.O["NOTFOUND"] = true
		e.O["REDIRECT"] = true
		e.F["NOTFOUND"] = true
	case d == nil: // registered, but the documentation does not know the route: strictest expectation
		e.O["METHOD"] = true
		e.O["DISABLED"] = true
		e.O["NOTFOUND"] = true
		if len(c.Sets) == 0 && p.Path != "/" {
			e.F["DISABLED"] = true
		}
		if p.Path == "/" {
			e.F["NOTFOUND"] = true // the GUI is not enabled
		}
	default:
		sets, served := d.Methods[p.Method]
		if !served {
			e.F["METHOD"] = true
			// whether a disabled endpoint answers 403 or 405 to a method it does not serve is left open
			e.O["DISABLED"] = true
		} else if sets == nil {
			// the block names no API sets
			e.O["DISABLED"] = true
			if len(c.Sets) == 0 {
				e.F["DISABLED"] = true
			}
		} else {
			on := false
			for _, s := range sets {
				if s == "any" || c.has(s) {
					on = true
				}
			}
			if !on {
				e.F["DISABLED"] = true
			}
		}
	}
	return e
}

// ---------------------------------------------------------------------------------
// classification of a response by status and documented body

var reCSRFBody = regexp.MustCompile(`(?i)csrf|token|base64`)

func message(path string, r *apifix.Resp) string {
	if strings.HasPrefix(path, "/api/v2/") {
		var doc struct {
			Error *struct {
				Message string `json:"message"`
			} `json:"error"`
		}
		if json.Unmarshal(r.Body, &doc) == nil && doc.Error != nil {
			return doc.Error.Message
		}
	}
	return strings.TrimSpace(string(r.Body))
}

// classify returns the possible classes of a response (several if the body is not available)
func classify(p probe, r *apifix.Resp) []string {
	msg := message(p.Path, r)
	switch r.Status {
	case 401:
		if r.Header.Get("WWW-Authenticate") != "" {
			return []string{"AUTH"}
		}
		return []string{"HANDLER"}
	case 415:
		if strings.HasPrefix(p.Path, "/api/v2/") {
			return []string{"CT"}
		}
		return []string{"HANDLER"}
	case 405:
		return []string{"METHOD"}
	case 403:
		if p.Method == "HEAD" {
			return []string{"HOST", "ORIGIN", "CSRF", "DISABLED"}
		}
		switch {
		case strings.Contains(msg, "Invalid Host"):
			return []string{"HOST"}
		case strings.Contains(msg, "Origin or Referer"):
			return []string{"ORIGIN"}
		case strings.Contains(msg, "Endpoint is disabled"):
			return []string{"DISABLED"}
		case stateChanging(p.Method) && reCSRFBody.MatchString(msg):
			return []string{"CSRF"}
		}
		return []string{"HANDLER"}
	case 404:
		if p.Kind != "doc" {
			return []string{"NOTFOUND"}
		}
		return []string{"HANDLER"}
	case 301, 302, 307, 308:
		return []string{"REDIRECT"}
	}
	return []string{"HANDLER"}
}

// ---------------------------------------------------------------------------------
// one node under test

type nodeCtx struct {
	cfg   *config
	proc  *node.Proc
	addr  string
	port  string
	tokMu sync.Mutex // token fetch + use is one critical section per node (a new token supersedes the old)
	// issued: this harness has obtained a token from the node (false = start-up state: no token was ever requested)
	issued atomic.Bool
}

func (n *nodeCtx) authHeader(kind string) (string, bool) {
	u, p := n.cfg.User, n.cfg.Pass
	if !n.cfg.creds() {
		u, p = "alice", "secret" // what a confused client would send
	}
	cat := u + p
	enc := func(user, pass string) (string, bool) {
		return "Basic " + base64.StdEncoding.EncodeToString([]byte(user+":"+pass)), true
	}
	switch kind {
	case "absent":
		return "", false
	case "exact":
		return enc(u, p)
	case "wrong-pass":
		return enc(u, p+"x")
	case "wrong-user":
		return enc(u+"x", p)
	case "resplit-left": // boundary moved one to the left
		if len(u) == 0 {
			return enc(cat[:1], cat[1:])
		}
		return enc(u[:len(u)-1], u[len(u)-1:]+p)
	case "resplit-right":
		if len(p) == 0 {
			return enc(cat[:len(cat)-1], cat[len(cat)-1:])
		}
		return enc(u+p[:1], p[1:])
	case "resplit-alluser":
		if p == "" {
			return enc(cat[:len(cat)/2], cat[len(cat)/2:])
		}
		return enc(cat, "")
	case "resplit-allpass":
		if u == "" {
			return enc(cat[:len(cat)/2], cat[len(cat)/2:])
		}
		return enc("", cat)
	case "empty":
		return enc("", "")
	case "swapped":
		if u == p || u == "" || p == "" {
			return enc(p+"y", u)
		}
		return enc(p, u)
	case "user-only":
		if p == "" {
			return enc(u, "z")
		}
		return enc(u, "")
	case "pass-only":
		if u == "" {
			return enc("z", p)
		}
		return enc("", p)
	}
	return "", false
}

func (n *nodeCtx) hostValue(kind string) (host string, noHost bool) {
	switch kind {
	case "own":
		return "", false
	case "localhost":
		return "localhost:" + n.port, false
	case "empty":
		return "", true
	case "other":
		return "evil.example:" + n.port, false
	case "noport":
		return "127.0.0.1", false
	case "otherport":
		return "127.0.0.1:1", false
	case "suffix":
		return "127.0.0.1:" + n.port + ".evil.example", false
	case "whitelisted":
		return wlHost, false
	}
	return "", false
}

func (n *nodeCtx) originValue(kind string, referer bool) string {
	tail := ""
	if referer {
		tail = "/some/page?x=1"
	}
	switch kind {
	case "same":
		return "http://" + n.addr + tail
	case "same-localhost":
		return "http://localhost:" + n.port + tail
	case "https-same":
		return "https://" + n.addr + tail
	case "foreign":
		return "http://evil.example" + tail
	case "malformed":
		return "http://[::1" + tail
	case "malformed-escape":
		return "http://%zz" + tail
	case "null":
		return "null"
	case "userinfo-foreign":
		return "http://" + n.addr + "@evil.example" + tail
	case "userinfo-own":
		return "http://evil.example@" + n.addr + tail
	case "suffix":
		return "http://" + n.addr + ".evil.example" + tail
	case "whitelisted":
		return "http://" + wlHost + tail
	case "no-scheme":
		return n.addr
	}
	return ""
}

// fetchToken gets a token with otherwise acceptable headers; caller holds tokMu
func (n *nodeCtx) fetchToken() (string, error) {
	q := &apifix.Req{Method: "GET", Target: "/api/v1/csrf"}
	if n.cfg.creds() {
		h, _ := n.authHeader("exact")
		q.Headers = append(q.Headers, [2]string{"Authorization", h})
	}
	r := apifix.Do(n.addr, q, 60*time.Second)
	if r.Fail != "" || r.Status != 200 {
		return "", fmt.Errorf("token fetch: %s %d %s", r.Fail, r.Status, r.Body)
	}
	var doc struct {
		Token string `json:"csrf_token"`
	}
	if err := json.Unmarshal(r.Body, &doc); err != nil || doc.Token == "" {
		return "", fmt.Errorf("token fetch: body %q", r.Body)
	}
	n.issued.Store(true)
	return doc.Token, nil
}

// tamper changes the payload of a token (expiry year) and keeps the signature
func tamper(tok string) string {
	parts := strings.Split(tok, ".")
	if len(parts) != 2 {
		return tok + "x"
	}
	b, err := base64.RawURLEncoding.DecodeString(parts[0])
	if err != nil {
		return tok + "x"
	}
	s := regexp.MustCompile(`"ExpiresAt":"20`).ReplaceAllString(string(b), `"ExpiresAt":"21`)
	if s == string(b) {
		s = string(b) + " "
	}
	return base64.RawURLEncoding.EncodeToString([]byte(s)) + "." + parts[1]
}

// ---------------------------------------------------------------------------------

type harness struct {
	r       *vf.Run
	docs    map[string]*apifix.DocRoute
	docList []*apifix.DocRoute
	regs    []string
	allSets []string
	world   *apifix.World
	vnode   string
	tmp     string
	foreign *nodeCtx
	fMu     sync.Mutex
	sampled sync.Map
}

func (h *harness) spawn(cfg *config, tag string) (*nodeCtx, error) {
	dir := filepath.Join(h.tmp, tag)
	if err := os.MkdirAll(dir, 0755); err != nil {
		return nil, err
	}
	data := filepath.Join(dir, "data")
	if err := h.world.CopyTo(data); err != nil {
		return nil, err
	}
	o := h.world.NodeOptions(data)
	o.APISets = cfg.Sets
	o.NoAPISets = len(cfg.Sets) == 0
	o.DisableCSRF = !cfg.CSRF
	o.DisableHeaderCheck = !cfg.HeaderChk
	o.Username, o.Password = cfg.User, cfg.Pass
	o.HostWhitelist = cfg.Whitelist
	o.DisableNetworking = true
	p, err := node.Spawn(h.vnode, dir, o)
	if err != nil {
		return nil, err
	}
	n := &nodeCtx{cfg: cfg, proc: p, addr: p.APIAddr}
	n.port = p.APIAddr[strings.LastIndex(p.APIAddr, ":")+1:]
	return n, nil
}

// baseRequest is the valid minimal request of (path, method); for a method the route does not
// document, the minimal request of a documented method is re-issued under the other method
func (h *harness) baseRequest(g *apifix.Gen, p probe) *apifix.Req {
	if p.Kind == "unknown" || p.Path == "/" {
		q := &apifix.Req{Method: p.Method, Target: p.Path}
		if p.Method == "POST" || p.Method == "PUT" || p.Method == "PATCH" {
			q.Headers = append(q.Headers, [2]string{"Content-Type", "application/json"})
			q.Body = "{}"
		}
		return q
	}
	if e := apifix.FindEP(p.Method, p.Path); e != nil {
		return g.Minimal(e)
	}
	eps := apifix.EPsForPath(p.Path)
	if len(eps) == 0 {
		return &apifix.Req{Method: p.Method, Target: p.Path}
	}
	q := g.Minimal(eps[0])
	q.Method = p.Method
	bodyMethod := p.Method == "POST" || p.Method == "PUT" || p.Method == "PATCH"
	if i := strings.IndexByte(q.Target, '?'); i >= 0 && bodyMethod {
		q.Body = q.Target[i+1:]
		q.Target = q.Target[:i]
		q.Headers = append(q.Headers, [2]string{"Content-Type", "application/x-www-form-urlencoded"})
	} else if !bodyMethod && q.Header("Content-Type") == "application/x-www-form-urlencoded" {
		q.Target += "?" + q.Body
		q.Body = ""
		q.Headers = nil
	}
	if strings.HasPrefix(p.Path, "/api/v2/") && p.Method == "POST" && q.Header("Content-Type") == "" {
		q.Headers = append(q.Headers, [2]string{"Content-Type", "application/json"})
		if q.Body == "" {
			q.Body = "{}"
		}
	}
	return q
}

func setHeader(q *apifix.Req, name, val string) {
	for i := range q.Headers {
		if strings.EqualFold(q.Headers[i][0], name) {
			q.Headers[i][1] = val
			return
		}
	}
	q.Headers = append(q.Headers, [2]string{name, val})
}

func delHeader(q *apifix.Req, name string) {
	out := q.Headers[:0]
	for _, hd := range q.Headers {
		if !strings.EqualFold(hd[0], name) {
			out = append(out, hd)
		}
	}
	q.Headers = out
}

// run executes one probe against a node and judges it
func (h *harness) run(n *nodeCtx, g *apifix.Gen, gmu *sync.Mutex, p probe) {
	gmu.Lock()
	q := h.baseRequest(g, p)
	gmu.Unlock()
	v := p.V
	if strings.HasPrefix(p.Path, "/api/v2/") && p.Method == "POST" {
		switch v.CT {
		case "json":
			setHeader(q, "Content-Type", "application/json")
		case "json-charset":
			setHeader(q, "Content-Type", "application/json; charset=utf-8")
		case "absent":
			delHeader(q, "Content-Type")
		case "text":
			setHeader(q, "Content-Type", "text/plain")
		case "form":
			setHeader(q, "Content-Type", "application/x-www-form-urlencoded")
		case "jsonx":
			setHeader(q, "Content-Type", "application/jsonx")
		case "upper":
			setHeader(q, "Content-Type", "APPLICATION/JSON")
		}
	}
	q.Host, q.NoHost = n.hostValue(v.Host)
	if v.Origin != "absent" {
		setHeader(q, "Origin", n.originValue(v.Origin, false))
	}
	if v.Referer != "absent" {
		setHeader(q, "Referer", n.originValue(v.Referer, true))
	}
	if a, ok := n.authHeader(v.Auth); ok {
		setHeader(q, "Authorization", a)
	}
	locked := false
	lock := func() {
		if !locked {
			n.tokMu.Lock()
			locked = true
		}
	}
	defer func() {
		if locked {
			n.tokMu.Unlock()
		}
	}()
	if p.Path == "/api/v1/csrf" {
		lock() // a token request supersedes the token another worker is about to use
	}
	fkey, fexp, fphase, forged := parseForged(v.Token)
	if n.cfg.CSRF && forged {
		if fphase == phaseIssued && !n.issued.Load() { // replay of a single probe: bring the node into the recorded state
			if err := n.ensureIssued(); err != nil {
				h.r.Inconclusive(err.Error())
				return
			}
		}
		setHeader(q, apifixCSRFHeader, n.forgeToken(fkey, fexp, p.Method+" "+p.Path))
	} else if n.cfg.CSRF {
		switch v.Token {
		case "valid", "superseded", "tampered":
			lock()
			t, err := n.fetchToken()
			if err != nil {
				h.r.Inconclusive(err.Error())
				return
			}
			if v.Token == "superseded" {
				if _, err := n.fetchToken(); err != nil {
					h.r.Inconclusive(err.Error())
					return
				}
			}
			if v.Token == "tampered" {
				t = tamper(t)
			}
			setHeader(q, apifixCSRFHeader, t)
		case "foreign":
			h.fMu.Lock()
			h.foreign.tokMu.Lock()
			t, err := h.foreign.fetchToken()
			h.foreign.tokMu.Unlock()
			h.fMu.Unlock()
			if err != nil {
				h.r.Inconclusive("foreign " + err.Error())
				return
			}
			setHeader(q, apifixCSRFHeader, t)
		case "garbage":
			setHeader(q, apifixCSRFHeader, "klSgXoMOFTvEnt8KptBvHjhlFnW0OIkzyFVn4i8frDvIus9iLsFukqA9sM9Rxf3pLZHRLr82vBQxTq50vbYA8g")
		case "garbage-dot":
			setHeader(q, apifixCSRFHeader, "eyJOb25jZSI6IiIsIkV4cGlyZXNBdCI6IjIxMDAtMDEtMDFUMDA6MDA6MDBaIn0.AAAAAAAAAAAAAAAAAAAAAAAAAAAAAAAAAAAAAAAAAAA")
		}
	} else if v.Token != "absent" && v.Token != "valid" {
		setHeader(q, apifixCSRFHeader, "garbage")
	}
	freshNode := !n.issued.Load()
	resp := apifix.Do(n.addr, q, 90*time.Second)
	if resp.Fail == "" && (forged || freshNode) {
		h.countForged(n, p, classify(p, resp), freshNode)
	}
	if os.Getenv("VERIF_C27_DEBUG") != "" && (resp.Dur > 200*time.Millisecond || resp.Fail != "") {
		fmt.Fprintf(os.Stderr, "slow/fail %v %s %s %s fail=%s %s status=%d\n", resp.Dur, n.cfg.Name, p.Method, p.Path, resp.Fail, resp.Detail, resp.Status)
	}
	h.judge(n, p, q, resp)
}

const apifixCSRFHeader = "X-CSRF-Token"

func (h *harness) judge(n *nodeCtx, p probe, q *apifix.Req, resp *apifix.Resp) {
	r := h.r
	r.Eval(1)
	if resp.Fail != "" {
		r.Count("transport_failures", 1)
		r.Inconclusive(fmt.Sprintf("no complete response for %s %s (%s %s); C28 judges crashes", p.Method, p.Path, resp.Fail, resp.Detail))
		return
	}
	exp := expect(n.cfg, h.docs, p)
	allowed := exp.allowed()
	classes := classify(p, resp)
	ok := false
	for _, c := range classes {
		if allowed[c] {
			ok = true
		}
	}
	class := strings.Join(classes, "|")
	r.Count("class."+class, 1)
	r.Count("kind."+p.Kind, 1)
	if len(exp.F) == 0 {
		r.Count("expect.handler", 1)
	} else {
		r.Count("expect.refusal", 1)
		for k := range exp.F {
			r.Count("failed."+k, 1)
		}
	}
	if class == "HANDLER" {
		r.Count("handler."+p.Method+" "+p.Path, 1)
		if resp.Status >= 200 && resp.Status < 300 {
			r.Count("handler2xx."+p.Method+" "+p.Path, 1)
		}
		if p.Kind == "undoc" {
			r.Count("undocumented_route_reached_handler", 1)
		}
	}
	if class == "CSRF" {
		if strings.Contains(string(resp.Body), "invalid CSRF token") {
			r.Count("csrf403.body_as_documented", 1)
		} else {
			r.Count("csrf403.body_other_than_documented", 1)
		}
	}
	r.Distinct(fmt.Sprintf("%s|%s|%s|%s|%s", n.cfg.Name, p.Method, p.Path, keys(exp.F), class))
	key := keys(exp.F) + ">" + class
	if _, seen := h.sampled.LoadOrStore(key, true); !seen {
		r.Sample(map[string]interface{}{"config": n.cfg.String(), "request": p.Method + " " + p.Path, "variant": p.V.String(), "failed_conditions": keys(exp.F), "status": resp.Status, "class": class})
	}
	if ok {
		return
	}
	kind := "wrong-refusal"
	if class == "HANDLER" {
		kind = "access-granted"
	}
	body := string(resp.Body)
	if len(body) > 300 {
		body = body[:300]
	}
	attrs := map[string]string{
		"route": p.Path, "method": p.Method, "route_kind": p.Kind, "failed": keys(exp.F), "open": keys(exp.O), "got": class, "status": fmt.Sprint(resp.Status),
		"token": p.V.Token, "host": p.V.Host, "origin": p.V.Origin, "referer": p.V.Referer, "auth": p.V.Auth, "ct": p.V.CT,
		"config": n.cfg.String(),
	}
	if os.Getenv("VERIF_C27_DEBUG") != "" {
		fmt.Fprintf(os.Stderr, "viol %s %s %s failed=%s got=%s status=%d %s | %s | %q | %s %s\n", kind, p.Method, p.Path, keys(exp.F), class, resp.Status, p.V, n.cfg, body, q.Target, q.Body)
	}
	r.Violation(kind, attrs, map[string]interface{}{"config": n.cfg, "probe": p, "request": q, "response_status": resp.Status, "response_body": body})
}

// ---------------------------------------------------------------------------------
// workload

func baseline(c *config) variant {
	v := variant{Token: "valid", Host: "own", Origin: "absent", Referer: "absent", Auth: "absent", CT: "json"}
	if c.creds() {
		v.Auth = "exact"
	}
	return v
}

var unknownPaths = []string{"/api/v1/nonexistent", "/api/v3/health", "/api/v1/health/", "/api/v1/Health", "/api/v2/health", "/api/v1/wallet/seed/", "/api/v1//health", "/api/v1/wallet/../health",
	"/index.html", "/api/v1/health%2f", "/api/v1/wallets/", "/api/v2/wallet", "/api", "/api/v1/csrf/", "/api/v1/version.json"}

func (h *harness) probes(c *config, ci int) []probe {
	rng := h.r.Rand("probes", ci)
	quick := h.r.Quick()
	var out []probe
	base := baseline(c)
	type target struct {
		path, kind string
	}
	var targets []target
	for _, d := range h.docList {
		targets = append(targets, target{d.Path, "doc"})
	}
	for _, p := range h.regs {
		if h.docs[p] == nil {
			targets = append(targets, target{p, "undoc"})
		}
	}
	for _, p := range unknownPaths {
		targets = append(targets, target{p, "unknown"})
	}
	for _, t := range targets {
		for _, m := range methods {
			mk := func(v variant) { out = append(out, probe{Path: t.path, Method: m, V: v, Kind: t.kind}) }
			mk(base)
			// one factor at a time
			var singles []variant
			if stateChanging(m) {
				for _, x := range tokenVals[1:] {
					v := base
					v.Token = x
					singles = append(singles, v)
				}
			} else {
				v := base
				v.Token = "absent"
				singles = append(singles, v)
			}
			for _, x := range hostVals[1:] {
				v := base
				v.Host = x
				singles = append(singles, v)
			}
			for _, x := range originVals[1:] {
				v := base
				v.Origin = x
				singles = append(singles, v)
			}
			for _, x := range refererVals[1:] {
				v := base
				v.Referer = x
				singles = append(singles, v)
			}
			// Origin takes precedence over Referer
			singles = append(singles, func() variant { v := base; v.Origin, v.Referer = "same", "foreign"; return v }())
			singles = append(singles, func() variant { v := base; v.Origin, v.Referer = "foreign", "same"; return v }())
			for _, x := range authVals {
				if x == base.Auth {
					continue
				}
				v := base
				v.Auth = x
				singles = append(singles, v)
			}
			if strings.HasPrefix(t.path, "/api/v2/") && m == "POST" {
				for _, x := range ctVals[1:] {
					v := base
					v.CT = x
					singles = append(singles, v)
				}
			}
			if quick || t.kind == "unknown" {
				// a seeded sample of the single-factor variants
				rng.Shuffle(len(singles), func(i, j int) { singles[i], singles[j] = singles[j], singles[i] })
				k := 8
				if t.kind == "unknown" {
					k = 3
				}
				if len(singles) > k {
					singles = singles[:k]
				}
			}
			for _, v := range singles {
				mk(v)
			}
			// combinations of several factors
			nc := 6
			if quick {
				nc = 2
			}
			if t.kind == "unknown" {
				nc = 1
			}
			for k := 0; k < nc; k++ {
				v := variant{
					Token: tokenVals[rng.Intn(len(tokenVals))], Host: hostVals[rng.Intn(len(hostVals))], Origin: originVals[rng.Intn(len(originVals))],
					Referer: refererVals[rng.Intn(len(refererVals))], Auth: authVals[rng.Intn(len(authVals))], CT: ctVals[rng.Intn(len(ctVals))],
				}
				if rng.Intn(2) == 0 {
					v.Host = base.Host
				}
				if rng.Intn(2) == 0 {
					v.Origin = "absent"
				}
				if rng.Intn(2) == 0 {
					v.Auth = base.Auth
				}
				if rng.Intn(2) == 0 {
					v.CT = "json"
				}
				if !stateChanging(m) && v.Token != "absent" {
					v.Token = "valid"
				}
				// keep the two suspected weaknesses apart so that each is reported on its own
				if strings.HasPrefix(v.Auth, "resplit") && v.Token == "superseded" {
					v.Token = "valid"
				}
				mk(v)
			}
		}
	}
	rng.Shuffle(len(out), func(i, j int) { out[i], out[j] = out[j], out[i] })
	return out
}

func (h *harness) configs() []*config {
	r := h.r
	all := h.allSets
	var cs []*config
	add := func(sets []string, csrf, hdr bool, user, pass string, wl bool) {
		c := &config{Sets: append([]string{}, sets...), CSRF: csrf, HeaderChk: hdr, User: user, Pass: pass}
		if wl {
			c.Whitelist = []string{wlHost}
		}
		c.Name = fmt.Sprintf("c%02d", len(cs))
		cs = append(cs, c)
	}
	add(all, true, true, "", "", false)
	add(nil, false, true, "alice", "secret", false)
	add(all, true, false, "bob", "", true)
	add(all, false, true, "", "hunter2", true)
	credsRot := [][2]string{{"", ""}, {"carol", "pa:ss"}, {"", ""}, {"dave", "pw"}}
	for i, s := range all {
		cr := credsRot[i%len(credsRot)]
		add([]string{s}, i%2 == 0, i%3 != 2, cr[0], cr[1], i%4 == 1)
	}
	add(nil, true, true, "", "", false)
	rng := r.Rand("configs")
	nRand := r.Pick(3, 15)
	for i := 0; i < nRand; i++ {
		var sets []string
		for _, s := range all {
			if rng.Intn(2) == 0 {
				sets = append(sets, s)
			}
		}
		cr := [][2]string{{"", ""}, {"erin", "s3cret"}, {"", ""}, {"u", "p"}, {"frank", ""}, {"", "onlypass"}}[rng.Intn(6)]
		add(sets, rng.Intn(3) != 0, rng.Intn(4) != 0, cr[0], cr[1], rng.Intn(3) == 0)
	}
	return cs
}

var reSetBullet = regexp.MustCompile("^\\* `([A-Z_]+)` - ")

func documentedSets(readme string) ([]string, error) {
	b, err := os.ReadFile(readme)
	if err != nil {
		return nil, err
	}
	var out []string
	in := false
	for _, l := range strings.Split(string(b), "\n") {
		if strings.HasPrefix(l, "## ") {
			in = strings.TrimSpace(l) == "## API Sets"
			continue
		}
		if in {
			if m := reSetBullet.FindStringSubmatch(l); m != nil {
				out = append(out, m[1])
			}
		}
	}
	if len(out) < 3 {
		return nil, fmt.Errorf("README: API set list not found")
	}
	return out, nil
}

func (h *harness) runConfig(ci int, c *config) {
	n, err := h.spawn(c, c.Name)
	if err != nil {
		h.r.Inconclusive(fmt.Sprintf("node for %s: %v", c.Name, err))
		return
	}
	defer func() {
		n.proc.Stop(20 * time.Second)
		if strings.Contains(string(n.proc.Stderr()), "http: panic serving") {
			h.r.Count("panics_in_server_log", 1)
		}
		os.RemoveAll(n.proc.Dir)
	}()
	g := apifix.NewGen(h.world, h.r.Rand("gen", ci))
	var gmu sync.Mutex
	if os.Getenv("VERIF_C27_DEBUG") != "" && os.Getenv("VERIF_C27_ONLY") != "" {
		q := &apifix.Req{Method: "GET", Target: "/api/v1/wallets"}
		if a, ok := n.authHeader("exact"); ok && c.creds() {
			q.Headers = append(q.Headers, [2]string{"Authorization", a})
		}
		rr := apifix.Do(n.addr, q, 30*time.Second)
		fmt.Fprintf(os.Stderr, "wallets at start: %d %s\n", rr.Status, regexp.MustCompile(`"filename": "[^"]*"`).FindAllString(string(rr.Body), -1))
		defer func() {
			rr := apifix.Do(n.addr, q, 30*time.Second)
			fmt.Fprintf(os.Stderr, "wallets at end: %d %s\n", rr.Status, regexp.MustCompile(`"filename": "[^"]*"`).FindAllString(string(rr.Body), -1))
		}()
	}
	if c.CSRF {
		// forged-token leg: first against the node nobody has asked for a token yet, then after its first token
		fresh := h.forgedProbes(c, ci, phaseFresh)
		vf.Parallel(len(fresh), 3, func(i int) { h.run(n, g, &gmu, fresh[i]) })
		if err := n.ensureIssued(); err != nil {
			h.r.Inconclusive(err.Error())
			return
		}
		after := h.forgedProbes(c, ci, phaseIssued)
		vf.Parallel(len(after), 3, func(i int) { h.run(n, g, &gmu, after[i]) })
		h.r.Count("configurations.forged_token_leg", 1)
	}
	ps := h.probes(c, ci)
	vf.Parallel(len(ps), 3, func(i int) { h.run(n, g, &gmu, ps[i]) })
	h.r.Count("configurations", 1)
	h.r.Count("configurations.csrf_"+fmt.Sprint(c.CSRF), 1)
	h.r.Count("configurations.header_check_"+fmt.Sprint(c.HeaderChk), 1)
	if c.creds() {
		h.r.Count("configurations.with_credentials", 1)
	}
	if len(c.Whitelist) > 0 {
		h.r.Count("configurations.with_whitelist", 1)
	}
}

// expiredLeg holds a token past its documented lifetime on a node where no other token is requested
func (h *harness) expiredLeg(done chan struct{}) {
	defer close(done)
	c := &config{Name: "expired", Sets: h.allSets, CSRF: true, HeaderChk: true}
	n, err := h.spawn(c, "expired")
	if err != nil {
		h.r.Inconclusive("expired-token node: " + err.Error())
		return
	}
	defer func() { n.proc.Stop(20 * time.Second); os.RemoveAll(n.proc.Dir) }()
	tok, err := n.fetchToken()
	if err != nil {
		h.r.Inconclusive(err.Error())
		return
	}
	// the token works while fresh
	g := apifix.NewGen(h.world, h.r.Rand("gen-expired"))
	try := func(path, method, label string) {
		p := probe{Path: path, Method: method, Kind: "doc", V: variant{Token: label, Host: "own", Origin: "absent", Referer: "absent", Auth: "absent", CT: "json"}}
		q := h.baseRequest(g, p)
		setHeader(q, apifixCSRFHeader, tok)
		resp := apifix.Do(n.addr, q, 90*time.Second)
		h.judge(n, p, q, resp)
	}
	try("/api/v2/address/verify", "POST", "valid")
	time.Sleep(csrfLifetime + 2*time.Second) // watchdog-free: the documented lifetime is the only clock involved
	for _, t := range [][2]string{{"/api/v2/address/verify", "POST"}, {"/api/v1/wallet/update", "POST"}, {"/api/v2/data", "DELETE"}, {"/api/v2/data", "POST"}, {"/api/v1/balance", "POST"}, {"/api/v1/injectTransaction", "POST"}, {"/api/v1/health", "PUT"}} {
		try(t[0], t[1], "expired")
		h.r.Count("expired_token_probes", 1)
	}
}

func main() {
	r := vf.Start("C27", "exploration")
	repo := vf.RepoDir()
	readme := filepath.Join(repo, "src/api/README.md")
	docList, err := apifix.ParseDocs(readme)
	if err != nil {
		fmt.Fprintln(os.Stderr, err)
		os.Exit(3)
	}
	regs, err := apifix.ScanRegistered(filepath.Join(repo, "src/api/http.go"))
	if err != nil {
		fmt.Fprintln(os.Stderr, err)
		os.Exit(3)
	}
	allSets, err := documentedSets(readme)
	if err != nil {
		fmt.Fprintln(os.Stderr, err)
		os.Exit(3)
	}
	h := &harness{r: r, docs: map[string]*apifix.DocRoute{}, docList: docList, regs: regs, allSets: allSets}
	for _, d := range docList {
		h.docs[d.Path] = d
	}
	h.vnode = filepath.Join(os.Getenv("VERIF_BIN"), "vnodeapi")
	if _, err := os.Stat(h.vnode); err != nil {
		fmt.Fprintln(os.Stderr, "vnode binary not found (run through ./check):", err)
		os.Exit(3)
	}
	h.tmp = vf.TempDir("c27")
	defer os.RemoveAll(h.tmp)
	w, err := apifix.BuildWorld(apifix.WorldConfig{Tag: "c27", Seed: r.SubSeed("world"), Blocks: 12, Wallets: true, Pool: true})
	if err != nil {
		os.RemoveAll(h.tmp)
		r.Inconclusive("world: " + err.Error())
		r.Finish("n/a")
	}
	h.world = w
	cleanup := func() { w.Remove(); os.RemoveAll(h.tmp) }

	if p := r.ReplayPath(); p != "" {
		h.replay(p)
		cleanup()
		return
	}

	fcfg := &config{Name: "foreign", Sets: allSets, CSRF: true, HeaderChk: true}
	h.foreign, err = h.spawn(fcfg, "foreign")
	if err != nil {
		cleanup()
		r.Inconclusive("foreign node: " + err.Error())
		r.Finish("n/a")
	}
	expiredDone := make(chan struct{})
	// runs next to the other probes in both tiers: a token is held for its documented lifetime
	// (30 s) plus a margin and must then be refused; waiting longer only makes it older
	go h.expiredLeg(expiredDone)

	cs := h.configs()
	if only := os.Getenv("VERIF_C27_ONLY"); only != "" { // debugging aid: run a single configuration (floors are then missed)
		var sel []*config
		for _, c := range cs {
			if c.Name == only {
				sel = append(sel, c)
			}
		}
		cs = sel
	}
	vf.Parallel(len(cs), r.Pick(5, 7), func(i int) { h.runConfig(i, cs[i]) })
	<-expiredDone
	h.foreign.proc.Stop(20 * time.Second)

	// coverage: how many documented (route, method) pairs reached their handler, and with a 2xx answer
	reached, reached2xx, total := 0, 0, 0
	for _, d := range docList {
		for m := range d.Methods {
			total++
			if r.Get("handler."+m+" "+d.Path) > 0 {
				reached++
			}
			if r.Get("handler2xx."+m+" "+d.Path) > 0 {
				reached2xx++
			}
		}
	}
	r.Count("documented_route_methods", int64(total))
	r.Count("documented_route_methods_reaching_handler", int64(reached))
	r.Count("documented_route_methods_answering_2xx", int64(reached2xx))
	r.Count("documented_routes", int64(len(docList)))
	r.Count("registered_routes_scanned", int64(len(regs)))
	undoc := []string{}
	for _, p := range regs {
		if h.docs[p] == nil {
			undoc = append(undoc, p)
		}
	}
	r.Count("registered_routes_unknown_to_documentation", int64(len(undoc)))
	r.Extra("routes_unknown_to_documentation", undoc)
	r.Extra("documented_api_sets", allSets)

	r.Floor("configurations", int64(r.Pick(15, 27)))
	r.Floor("documented_route_methods_reaching_handler", int64(total))
	r.Floor("documented_route_methods_answering_2xx", int64(total-8))
	r.Floor("expect.handler", 2000)
	r.Floor("expect.refusal", 30000)
	for _, k := range []string{"AUTH", "CT", "HOST", "ORIGIN", "CSRF", "DISABLED", "METHOD"} {
		min := int64(300)
		if k == "CT" {
			min = 60 // only POST to the nine /api/v2 paths can fail this condition
		}
		r.Floor("class."+k, min/3)
		r.Floor("failed."+k, min)
	}
	r.Floor("class.HANDLER", 1000)
	r.Floor("expired_token_probes", 5)
	h.forgedFloors()
	cleanup()
	r.Finish("per configuration (API sets, CSRF, header check, credentials, whitelist; fixed list + seeded random subsets) every documented route, every registered route and unknown paths x 7 methods x header variants (one factor at a time around an all-good baseline, plus seeded multi-factor combinations); non-trivial = distinct (configuration, route, method, failed-condition set, response class)",
		"expected route table (methods, API sets), the CSRF rules and the content-type rule come from src/api/README.md; Host/Origin/Referer rules from the doc comments of HostCheck/OriginRefererCheck; credentials from README 'Authentication'",
		"cases the documentation leaves open are accepted either way: credentials sent to a node without credentials, Content-Type in upper case, userinfo in an Origin whose host part is the node, 403-vs-405 for an unserved method on a disabled endpoint, API sets of routes whose block names none (only 'nothing enabled' must refuse them)",
		"HEAD responses carry no body: a 403 to HEAD is accepted if any 403-class condition fails",
		"nodes listen on 127.0.0.1 (the Host rule for non-localhost interfaces is not exercised)")
}

// replay re-issues the probe of a replay file against a node in the recorded configuration
func (h *harness) replay(path string) {
	b, err := os.ReadFile(path)
	var doc struct {
		Witness struct {
			Config config `json:"config"`
			Probe  probe  `json:"probe"`
		} `json:"witness"`
	}
	if err == nil {
		err = json.Unmarshal(b, &doc)
	}
	if err != nil {
		fmt.Fprintln(os.Stderr, "replay:", err)
		os.Exit(3)
	}
	fcfg := &config{Name: "foreign", Sets: h.allSets, CSRF: true, HeaderChk: true}
	h.foreign, err = h.spawn(fcfg, "foreign")
	if err != nil {
		fmt.Fprintln(os.Stderr, "replay:", err)
		os.Exit(3)
	}
	c := doc.Witness.Config
	n, err := h.spawn(&c, "replay")
	if err != nil {
		fmt.Fprintln(os.Stderr, "replay:", err)
		os.Exit(3)
	}
	g := apifix.NewGen(h.world, h.r.Rand("gen-replay"))
	var gmu sync.Mutex
	h.run(n, g, &gmu, doc.Witness.Probe)
	n.proc.Stop(20 * time.Second)
	h.foreign.proc.Stop(20 * time.Second)
	v := h.r.Violations()
	h.world.Remove()
	os.RemoveAll(h.tmp)
	if v > 0 {
		fmt.Println("REPLAY property=C27 reproduced=true")
		os.Exit(1)
	}
	fmt.Println("REPLAY property=C27 reproduced=false")
	os.Exit(0)
}
