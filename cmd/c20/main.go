// C20 — wallet and key-value files survive a crash during a save (fault enumeration).
//
// For every save kind (wallet service create / new-addresses / scan / label / encrypt / decrypt /
// recover; kvstorage add / overwrite / remove) the child `vsave op` performs ONE save under the
// strace recorder on a directory that already holds other wallets / keys. lib/fstrace turns the
// log into the ordered list of file-system mutations; every prefix of that list, plus cuts of each
// data write, is materialised as an on-disk state (ordered-write crash model) and handed to a
// fresh `vsave load` process that runs the real start-up path (wallet.NewService /
// kvstorage.NewManager) and reports what it loaded.
//
// Oracle, straight from the statement: the start-up must succeed; the file that was being saved
// must load as its complete previous content or its complete new content (create: absent or
// complete); every other wallet / storage must load exactly as before; nothing may be moved aside
// as corrupt or disappear. "Previous" and "new" content are what the same start-up path reports on
// the intact directory before and after the completed save.
package main

import (
	"encoding/hex"
	"encoding/json"
	"fmt"
	"io/ioutil"
	"math/rand"
	"os"
	"os/exec"
	"path/filepath"
	"reflect"
	"regexp"
	"sort"
	"strings"
	"sync"
	"time"

	"verif/lib/fstrace"
	"verif/lib/vf"
)

// ---- spec / report types shared with cmd/vsave (JSON) -------------------------------------------

type walletSpec struct {
	Name     string `json:"name"`
	Type     string `json:"type"`
	Entropy  string `json:"entropy"`
	Label    string `json:"label"`
	Entries  int    `json:"entries"`
	Encrypt  bool   `json:"encrypt"`
	Crypto   string `json:"crypto"`
	Password string `json:"password"`
}

type spec struct {
	Family      string            `json:"family"`
	Kind        string            `json:"kind"`
	Dir         string            `json:"dir"`
	Target      walletSpec        `json:"target"`
	Others      []walletSpec      `json:"others"`
	N           int               `json:"n"`
	ScanHit     int               `json:"scan_hit"`
	NewLabel    string            `json:"new_label"`
	NewPassword string            `json:"new_password"`
	Keys        map[string]string `json:"keys"`
	OtherKeys   map[string]string `json:"other_keys"`
	Key         string            `json:"key"`
	Value       string            `json:"value"`
}

type walletReport struct {
	Digest    string `json:"digest"`
	Label     string `json:"label"`
	Type      string `json:"type"`
	Encrypted bool   `json:"encrypted"`
	Crypto    string `json:"crypto"`
	Entries   int    `json:"entries"`
	First     string `json:"first"`
	Last      string `json:"last"`
}

type loadReport struct {
	Started bool                         `json:"started"`
	Error   string                       `json:"error"`
	Wallets map[string]walletReport      `json:"wallets"`
	KV      map[string]map[string]string `json:"kv"`
	Files   []string                     `json:"files"`
}

type opResult struct {
	OK    bool   `json:"ok"`
	Error string `json:"error"`
}

const (
	cryptoXor    = "sha256-xor"
	cryptoScrypt = "scrypt-chacha20poly1305-insecure"
	kvTarget     = "client.json"
	kvOther      = "txid.json"
)

var walletKinds = []string{"create", "newaddr", "scan", "label", "encrypt", "decrypt", "recover"}
var kvKinds = []string{"kvadd", "kvoverwrite", "kvremove"}

// ---- case generation ----------------------------------------------------------------------------

func hexEntropy(rng *rand.Rand) string {
	b := make([]byte, 16)
	rng.Read(b)
	return hex.EncodeToString(b)
}

func word(rng *rand.Rand, n int) string {
	const al = "abcdefghijklmnopqrstuvwxyz0123456789 -_"
	b := make([]byte, n)
	for i := range b {
		b[i] = al[rng.Intn(len(al))]
	}
	return strings.TrimSpace("w" + string(b))
}

// typesFor lists the wallet types a save kind applies to
func typesFor(kind string) []string {
	switch kind {
	case "create", "label":
		return []string{"deterministic", "bip44", "collection", "xpub"}
	case "newaddr", "scan":
		return []string{"deterministic", "bip44", "xpub"}
	case "encrypt", "decrypt":
		return []string{"deterministic", "bip44", "collection"}
	case "recover":
		return []string{"deterministic", "bip44"}
	}
	return nil
}

func others(rng *rand.Rand, big bool) []walletSpec {
	types := []string{"deterministic", "bip44", "collection", "xpub"}
	rng.Shuffle(len(types), func(i, j int) { types[i], types[j] = types[j], types[i] })
	out := []walletSpec{}
	for i := 0; i < 2; i++ {
		w := walletSpec{
			Name:    fmt.Sprintf("other%d_%s.wlt", i+1, word(rng, 4)),
			Type:    types[i],
			Entropy: hexEntropy(rng),
			Label:   word(rng, 8),
			Entries: 1 + rng.Intn(4),
			Crypto:  cryptoXor,
		}
		w.Name = strings.Replace(w.Name, " ", "", -1)
		if big {
			w.Entries += rng.Intn(20)
		}
		if w.Type != "xpub" && rng.Intn(2) == 0 {
			w.Encrypt = true
			w.Password = word(rng, 6)
		}
		out = append(out, w)
	}
	return out
}

// walletCase builds the spec of one wallet-service save
func walletCase(rng *rand.Rand, kind, typ string, big bool) spec {
	s := spec{Family: "wallet", Kind: kind, Others: others(rng, big)}
	t := walletSpec{
		Name:    "target_" + strings.Replace(word(rng, 5), " ", "", -1) + ".wlt",
		Type:    typ,
		Entropy: hexEntropy(rng),
		Label:   word(rng, 10),
		Entries: 1 + rng.Intn(5),
		Crypto:  []string{cryptoXor, cryptoScrypt}[rng.Intn(2)],
	}
	if big {
		// several pages of file content
		t.Entries = 40 + rng.Intn(160)
	}
	// names sort before / between / after the other wallets so that load order varies
	switch rng.Intn(3) {
	case 0:
		t.Name = "a" + t.Name
	case 1:
		t.Name = "z" + t.Name
	}
	encryptable := typ != "xpub"
	switch kind {
	case "create":
		if encryptable && rng.Intn(2) == 0 {
			t.Encrypt, t.Password = true, word(rng, 7)
		}
	case "newaddr", "scan":
		// deterministic wallets need the password to extend; bip44 extends without it
		if encryptable && rng.Intn(2) == 0 {
			t.Encrypt, t.Password = true, word(rng, 7)
		}
		s.N = 1 + rng.Intn(4)
		if big {
			s.N += rng.Intn(30)
		}
		if kind == "scan" {
			s.N += 2
			s.ScanHit = 1 + rng.Intn(s.N)
		}
	case "label":
		if encryptable && rng.Intn(2) == 0 {
			t.Encrypt, t.Password = true, word(rng, 7)
		}
		s.NewLabel = word(rng, 1+rng.Intn(30))
		if s.NewLabel == t.Label {
			s.NewLabel += "x"
		}
	case "encrypt":
		t.Password = word(rng, 7) // password to encrypt with
	case "decrypt":
		t.Encrypt, t.Password = true, word(rng, 7)
	case "recover":
		t.Encrypt, t.Password = true, word(rng, 7)
		if rng.Intn(2) == 0 {
			s.NewPassword = word(rng, 9)
		}
	}
	s.Target = t
	return s
}

func kvCase(rng *rand.Rand, kind string, big bool) spec {
	s := spec{Family: "kv", Kind: kind, Keys: map[string]string{}, OtherKeys: map[string]string{}}
	nk := 2 + rng.Intn(4)
	if big {
		nk = 30 + rng.Intn(120)
	}
	names := []string{}
	for i := 0; i < nk; i++ {
		k := fmt.Sprintf("key%02d-%s", i, word(rng, 4))
		names = append(names, k)
		s.Keys[k] = word(rng, 3+rng.Intn(60))
	}
	for i := 0; i < 1+rng.Intn(3); i++ {
		s.OtherKeys[hexEntropy(rng)+hexEntropy(rng)] = "note " + word(rng, 10)
	}
	switch kind {
	case "kvadd":
		s.Key, s.Value = "newkey-"+word(rng, 5), word(rng, 1+rng.Intn(80))
	case "kvoverwrite":
		s.Key = names[rng.Intn(len(names))]
		s.Value = word(rng, 1+rng.Intn(80))
		if s.Value == s.Keys[s.Key] {
			s.Value += "!"
		}
	case "kvremove":
		s.Key = names[rng.Intn(len(names))]
	}
	return s
}

type runCase struct {
	idx   int
	spec  spec
	class string // kind or kind/type
	big   bool
}

func buildCases(r *vf.Run) []runCase {
	cases := []runCase{}
	add := func(s spec, class string, big bool) {
		cases = append(cases, runCase{idx: len(cases), spec: s, class: class, big: big})
	}
	rounds := r.Pick(2, 10)
	for round := 0; round < rounds; round++ {
		big := round >= 1 // thorough: later rounds use multi-page files
		for _, k := range walletKinds {
			for _, typ := range typesFor(k) {
				rng := r.Rand("wallet", k, typ, round)
				add(walletCase(rng, k, typ, big), k+"/"+typ, big)
			}
		}
		for _, k := range kvKinds {
			for v := 0; v < 2; v++ {
				rng := r.Rand("kv", k, round, v)
				add(kvCase(rng, k, big), k, big)
			}
		}
	}
	return cases
}

// ---- running children ---------------------------------------------------------------------------

var vsaveBin string

func runCmd(timeout time.Duration, outPath string, name string, args ...string) (exit int, timedOut bool, err error) {
	cmd := exec.Command(name, args...)
	of, err := os.Create(outPath)
	if err != nil {
		return -1, false, err
	}
	defer of.Close()
	cmd.Stdout, cmd.Stderr = of, of
	cmd.Env = append(os.Environ(), "GOMAXPROCS=2")
	if err := cmd.Start(); err != nil {
		return -1, false, err
	}
	done := make(chan error, 1)
	go func() { done <- cmd.Wait() }()
	select {
	case err = <-done:
	case <-time.After(timeout):
		_ = cmd.Process.Kill()
		<-done
		return -1, true, nil
	}
	if err != nil {
		if ee, ok := err.(*exec.ExitError); ok {
			return ee.ExitCode(), false, nil
		}
		return -1, false, err
	}
	return 0, false, nil
}

func tail(path string, n int) string {
	b, _ := ioutil.ReadFile(path)
	if len(b) > n {
		b = b[len(b)-n:]
	}
	return string(b)
}

// loadState starts a fresh process on a materialised state
func loadState(family string, st *fstrace.State, scratch string) (*loadReport, string) {
	dir := filepath.Join(scratch, "data")
	defer os.RemoveAll(scratch)
	if err := st.Materialise(dir); err != nil {
		return nil, "materialise: " + err.Error()
	}
	rp := filepath.Join(scratch, "report.json")
	out := filepath.Join(scratch, "out.txt")
	exit, to, err := runCmd(120*time.Second, out, vsaveBin, "load", family, dir, rp)
	if err != nil {
		return nil, "exec: " + err.Error()
	}
	if to {
		return nil, "timeout"
	}
	b, rerr := ioutil.ReadFile(rp)
	if exit != 0 || rerr != nil {
		// the start-up path died (panic / fatal): that is a failed start, reported with its signature
		head, frame := vf.CrashSignature([]byte(tail(out, 1<<16)))
		if head == "" {
			head = fmt.Sprintf("exit %d without report: %s", exit, tail(out, 300))
		}
		return &loadReport{Started: false, Error: "CRASH " + head + " @ " + frame}, ""
	}
	var rep loadReport
	if err := json.Unmarshal(b, &rep); err != nil {
		return nil, "report: " + err.Error()
	}
	return &rep, ""
}

// ---- per-kind statistics ------------------------------------------------------------------------

type kindStat struct {
	Runs        int `json:"runs"`
	Ops         int `json:"mutating_operations_recorded"`
	States      int `json:"crash_states_enumerated"`
	Executed    int `json:"distinct_states_restarted"`
	TruncWrite  int `json:"states_at_truncation_or_data_write"`
	Old         int `json:"outcome_old"`
	New         int `json:"outcome_new"`
	Absent      int `json:"outcome_absent"`
	NoStart     int `json:"outcome_no_start"`
	Neither     int `json:"outcome_neither"`
	OtherBroken int `json:"outcome_other_file_changed"`
}

var (
	statMu sync.Mutex
	stats  = map[string]*kindStat{}
	opSeqs = map[string]map[string]int{} // kind -> operation-sequence signature -> runs
)

func stat(kind string, f func(*kindStat)) {
	statMu.Lock()
	s := stats[kind]
	if s == nil {
		s = &kindStat{}
		stats[kind] = s
	}
	f(s)
	statMu.Unlock()
}

// ---- the check ----------------------------------------------------------------------------------

var hexTail = regexp.MustCompile(`\.tmp\.[0-9a-f]{8}$`)

// role names a path relative to the file being saved: target, tmp (target's temp copy), or other
func role(path, target string) string {
	switch {
	case path == target:
		return "target"
	case strings.HasPrefix(path, target+".") && (hexTail.MatchString(path) || strings.Contains(path[len(target):], "tmp") || strings.Contains(path[len(target):], "bak")):
		return "tmp"
	}
	return "other"
}

// point describes a crash point structurally (no run-specific names), e.g.
// "after open-trunc-probe target", "cut write target", "after unlink tmp"
func point(c fstrace.Crash, ops []fstrace.Op, target string) string {
	if c.Op == nil {
		return "initial"
	}
	o := *c.Op
	d := o.Kind.String()
	switch o.Kind {
	case fstrace.KOpen:
		switch {
		case o.Trunc && o.Creat:
			d = "open-creat-trunc"
		case o.Trunc:
			d = "open-trunc"
		default:
			d = "open-creat"
		}
		// an open that is closed again without any write is a probe, not a save
		for _, n := range ops {
			if n.Index > o.Index && n.Open == o.Open {
				if n.Kind == fstrace.KClose {
					d += "-probe"
				}
				break
			}
		}
	case fstrace.KRename:
		return fmt.Sprintf("after rename %s->%s", role(o.Path, target), role(o.Path2, target))
	}
	pre := "after "
	if c.Cut >= 0 {
		pre = "cut "
	}
	return pre + d + " " + role(o.Path, target)
}

var numRe = regexp.MustCompile(`[0-9a-f]{6,}|\d+`)

// errClass strips run-specific parts of an error text
func errClass(e, dir string) string {
	e = strings.Replace(e, dir, "<dir>", -1)
	e = regexp.MustCompile(`(/[^ :"]+)+`).ReplaceAllString(e, "<path>")
	e = regexp.MustCompile(`"[^"]*\.wlt[^"]*"`).ReplaceAllString(e, "<wallet>")
	e = numRe.ReplaceAllString(e, "N")
	if len(e) > 160 {
		e = e[:160]
	}
	return e
}

func targetFile(s spec) string {
	if s.Family == "kv" {
		return kvTarget
	}
	return s.Target.Name
}

func stdAndPageCuts(rng *rand.Rand, thorough bool) func(int) []int {
	return func(n int) []int {
		set := map[int]bool{}
		for _, k := range fstrace.StdCuts(n) {
			set[k] = true
		}
		if thorough {
			for k := 4096; k < n; k += 4096 {
				set[k] = true
			}
			for i := 0; i < 3 && n > 2; i++ {
				set[1+rng.Intn(n-1)] = true
			}
		}
		out := []int{}
		for k := range set {
			out = append(out, k)
		}
		sort.Ints(out)
		return out
	}
}

// loadJob is one crash state waiting for its restart
type loadJob struct {
	c       runCase
	cs      fstrace.Crash
	pt      string
	mid     []fstrace.Op
	oldRep  *loadReport
	newRep  *loadReport
	dir     string
	scratch string
	done    *sync.WaitGroup
}

func doLoad(r *vf.Run, j loadJob) {
	defer j.done.Done()
	kind := j.c.spec.Kind
	rep, herr := loadState(j.c.spec.Family, j.cs.State, j.scratch)
	if herr != "" {
		if herr == "timeout" {
			r.Count("harness.load_timeouts", 1)
			r.Inconclusive(fmt.Sprintf("run %d (%s) state %q: start-up did not finish in 120 s", j.c.idx, j.c.class, j.pt))
		} else {
			r.Count("harness.failed_loads", 1)
			r.Inconclusive(fmt.Sprintf("run %d (%s) state %q: %s", j.c.idx, j.c.class, j.pt, herr))
		}
		return
	}
	r.Eval(1)
	r.Count("states.restarted", 1)
	r.Distinct(fmt.Sprintf("%d:%s", j.c.idx, j.cs.State.Digest()))
	stat(kind, func(s *kindStat) { s.Executed++ })
	judge(r, j.c, j.cs, j.pt, j.mid, rep, j.oldRep, j.newRep, j.dir)
}

func runOne(r *vf.Run, base string, c runCase, jobs chan<- loadJob) {
	kind := c.spec.Kind
	scratch := filepath.Join(base, fmt.Sprintf("run%04d", c.idx))
	if err := os.MkdirAll(scratch, 0700); err != nil {
		r.Inconclusive("mkdir: " + err.Error())
		return
	}
	defer os.RemoveAll(scratch)
	dir := filepath.Join(scratch, "live")
	c.spec.Dir = dir
	sb, _ := json.Marshal(c.spec)
	specPath := filepath.Join(scratch, "spec.json")
	_ = ioutil.WriteFile(specPath, sb, 0600)
	harness := func(why string) {
		r.Count("harness.failed_runs", 1)
		r.Inconclusive(fmt.Sprintf("run %d (%s): %s", c.idx, c.class, why))
	}

	// 1. pre-state
	if exit, to, err := runCmd(300*time.Second, filepath.Join(scratch, "prep.out"), vsaveBin, "prep", specPath); exit != 0 || to || err != nil {
		harness(fmt.Sprintf("prep failed exit=%d timeout=%v err=%v: %s", exit, to, err, tail(filepath.Join(scratch, "prep.out"), 300)))
		return
	}
	pre, err := fstrace.Snapshot(dir)
	if err != nil {
		harness("snapshot: " + err.Error())
		return
	}

	// 2. the save, recorded
	logPath := filepath.Join(scratch, "strace.log")
	resPath := filepath.Join(scratch, "result.json")
	args := append(fstrace.Args(logPath), vsaveBin, "op", specPath, resPath)
	if exit, to, err := runCmd(300*time.Second, filepath.Join(scratch, "op.out"), fstrace.StracePath, args...); exit != 0 || to || err != nil {
		harness(fmt.Sprintf("recorded save failed exit=%d timeout=%v err=%v: %s", exit, to, err, tail(filepath.Join(scratch, "op.out"), 300)))
		return
	}
	var res opResult
	if b, err := ioutil.ReadFile(resPath); err != nil || json.Unmarshal(b, &res) != nil {
		harness("no result from vsave op")
		return
	}
	if !res.OK {
		harness("save operation returned an error: " + res.Error)
		return
	}

	// 3. the trace
	tr, err := fstrace.ParseFile(logPath, dir)
	if err != nil {
		harness("parse: " + err.Error())
		return
	}
	if len(tr.Warnings) > 0 {
		harness("trace not representable: " + tr.Warnings[0])
		return
	}
	before, mid, after, ok := tr.Split("begin", "end")
	if !ok {
		harness("markers missing in trace")
		return
	}
	if n := len(fstrace.FilterMutating(before)) + len(fstrace.FilterMutating(after)); n > 0 {
		// start-up / shutdown of the recording child changed the directory: not part of the save
		r.Count("ops.outside_save_window", int64(n))
	}
	start := fstrace.Replay(pre, before)
	tid := 0
	for _, o := range mid {
		if tid == 0 {
			tid = o.TID
		}
		if o.TID != tid {
			harness("operations of the save come from more than one thread")
			return
		}
	}
	muts := fstrace.FilterMutating(mid)
	final := fstrace.Replay(start, mid)
	finalAll := fstrace.Replay(final, after)
	if len(finalAll.Notes) > 0 {
		harness("replay inconsistent with recording: " + finalAll.Notes[0])
		return
	}
	if d := finalAll.DiffDir(dir); d != "" {
		harness("replayed final state differs from the real directory: " + d)
		return
	}
	r.Count("model.final_state_equals_disk", 1)

	// 4. reference loads: intact previous and intact new directory
	family := c.spec.Family
	oldRep, herr := loadState(family, start, filepath.Join(scratch, "ref-old"))
	if herr != "" || !oldRep.Started {
		harness(fmt.Sprintf("intact pre-state does not load: %s %+v", herr, oldRep))
		return
	}
	newRep, herr := loadState(family, final, filepath.Join(scratch, "ref-new"))
	if herr != "" {
		harness("final state load: " + herr)
		return
	}
	target := targetFile(c.spec)
	if newRep.Started {
		if why := effective(c.spec, oldRep, newRep); why != "" {
			harness("the save had no observable effect: " + why)
			return
		}
		r.Count("saves.effective", 1)
	}

	// 5. operation-sequence signature (which save protocol was observed)
	sig := []string{}
	for _, o := range muts {
		sig = append(sig, strings.TrimPrefix(point(fstrace.Crash{After: 1, Cut: -1, Op: &o}, mid, target), "after "))
	}
	sigs := strings.Join(sig, "; ")
	statMu.Lock()
	if opSeqs[kind] == nil {
		opSeqs[kind] = map[string]int{}
	}
	opSeqs[kind][sigs]++
	statMu.Unlock()
	stat(kind, func(s *kindStat) { s.Runs++; s.Ops += len(muts) })
	r.Count("runs."+kind, 1)
	r.Count("ops.recorded", int64(len(muts)))

	// 6. every crash state
	seen := map[string]bool{}
	n := 0
	var pending sync.WaitGroup
	cutRng := r.Rand("cuts", c.idx)
	fstrace.Enumerate(start, mid, stdAndPageCuts(cutRng, !r.Quick()), func(cs fstrace.Crash) bool {
		n++
		pt := point(cs, mid, target)
		stat(kind, func(s *kindStat) {
			s.States++
			if cs.Op != nil && (cs.Op.Kind == fstrace.KWrite || cs.Op.Kind == fstrace.KTruncate || (cs.Op.Kind == fstrace.KOpen && (cs.Op.Trunc || cs.Op.Creat))) {
				s.TruncWrite++
			}
		})
		r.Count("states.enumerated", 1)
		r.Count("states."+kind, 1)
		dg := cs.State.Digest()
		if seen[dg] {
			r.Count("states.identical_to_earlier_state", 1)
			return true
		}
		seen[dg] = true
		pending.Add(1)
		jobs <- loadJob{c: c, cs: cs, pt: pt, mid: mid, oldRep: oldRep, newRep: newRep, dir: dir,
			scratch: filepath.Join(scratch, fmt.Sprintf("s%05d", n)), done: &pending}
		return true
	})
	pending.Wait() // the scratch directory of this run is removed on return
}

// effective checks that the completed save changed what start-up loads, in the intended way
func effective(s spec, oldRep, newRep *loadReport) string {
	if s.Family == "kv" {
		o, n := oldRep.KV["client"], newRep.KV["client"]
		switch s.Kind {
		case "kvadd":
			if _, had := o[s.Key]; had || n[s.Key] != s.Value || len(n) != len(o)+1 {
				return "key not added"
			}
		case "kvoverwrite":
			if _, had := o[s.Key]; !had || n[s.Key] != s.Value || len(n) != len(o) || o[s.Key] == s.Value {
				return "key not overwritten"
			}
		case "kvremove":
			if _, has := n[s.Key]; has || len(n) != len(o)-1 {
				return "key not removed"
			}
		}
		return ""
	}
	o, had := oldRep.Wallets[s.Target.Name]
	n, has := newRep.Wallets[s.Target.Name]
	if !has {
		return "target wallet not loaded after the save"
	}
	if s.Kind == "create" {
		if had {
			return "wallet existed before create"
		}
		return ""
	}
	if !had {
		return "target wallet missing before the save"
	}
	if o.Digest == n.Digest {
		return "same content before and after"
	}
	switch s.Kind {
	case "newaddr":
		if n.Entries != o.Entries+s.N {
			return fmt.Sprintf("entries %d -> %d, expected +%d", o.Entries, n.Entries, s.N)
		}
	case "scan":
		// bip44 wallets scan the external and the change chain
		if n.Entries != o.Entries+s.ScanHit && !(s.Target.Type == "bip44" && n.Entries == o.Entries+2*s.ScanHit) {
			return fmt.Sprintf("entries %d -> %d, expected +%d", o.Entries, n.Entries, s.ScanHit)
		}
	case "label":
		if n.Label != s.NewLabel {
			return "label not updated"
		}
	case "encrypt":
		if o.Encrypted || !n.Encrypted {
			return "not encrypted"
		}
	case "decrypt":
		if !o.Encrypted || n.Encrypted {
			return "not decrypted"
		}
	case "recover":
		if n.Encrypted != (s.NewPassword != "") || n.Entries != o.Entries || n.First != o.First || n.Last != o.Last {
			return "recovered wallet differs in addresses / encryption state"
		}
	}
	return ""
}

func judge(r *vf.Run, c runCase, cs fstrace.Crash, pt string, mid []fstrace.Op, rep, oldRep, newRep *loadReport, dir string) {
	s := c.spec
	kind := s.Kind
	target := targetFile(s)
	attrs := map[string]string{"save": kind, "family": s.Family, "at": pt}
	if s.Family == "wallet" {
		attrs["wallet_type"] = s.Target.Type
	}
	witness := func(extra map[string]interface{}) map[string]interface{} {
		w := map[string]interface{}{
			"run": c.idx, "class": c.class, "spec": s, "crash_state": cs.Label(), "after_operations": cs.After, "cut_bytes": cs.Cut,
			"files_in_state": cs.State.Names(), "loaded": rep,
		}
		ops := []string{}
		for _, o := range fstrace.FilterMutating(mid) {
			ops = append(ops, o.String())
		}
		w["recorded_mutations"] = ops
		if b, ok := cs.State.Read(target); ok {
			w["target_file_bytes_in_state"] = len(b)
		} else {
			w["target_file_bytes_in_state"] = "absent"
		}
		for k, v := range extra {
			w[k] = v
		}
		return w
	}
	if !rep.Started {
		attrs["error"] = errClass(rep.Error, dir)
		stat(kind, func(k *kindStat) { k.NoStart++ })
		r.Count("outcome.no_start", 1)
		r.Count("outcome.no_start."+kind, 1)
		r.Violation("no-start", attrs, witness(map[string]interface{}{"error": rep.Error}))
		return
	}

	// nothing moved aside, nothing lost
	oldFiles := map[string]bool{}
	for _, f := range oldRep.Files {
		oldFiles[f] = true
	}
	nowFiles := map[string]bool{}
	for _, f := range rep.Files {
		nowFiles[f] = true
		if strings.Contains(f, ".corrupt") && !oldFiles[f] {
			a := copyAttrs(attrs)
			a["file"] = role(strings.SplitN(f, ".corrupt", 2)[0], target)
			r.Count("outcome.moved_aside", 1)
			r.Violation("moved-aside-as-corrupt", a, witness(map[string]interface{}{"file": f}))
		}
	}
	for f := range oldFiles {
		if !nowFiles[f] {
			a := copyAttrs(attrs)
			a["file"] = role(f, target)
			r.Count("outcome.file_disappeared", 1)
			r.Violation("file-disappeared", a, witness(map[string]interface{}{"file": f}))
		}
	}

	if s.Family == "kv" {
		got := rep.KV["client"]
		switch {
		case reflect.DeepEqual(got, oldRep.KV["client"]):
			stat(kind, func(k *kindStat) { k.Old++ })
			r.Count("outcome.old", 1)
		case newRep.Started && reflect.DeepEqual(got, newRep.KV["client"]):
			stat(kind, func(k *kindStat) { k.New++ })
			r.Count("outcome.new", 1)
		default:
			a := copyAttrs(attrs)
			a["observed"] = "other content"
			if len(got) == 0 {
				a["observed"] = "empty storage"
			}
			stat(kind, func(k *kindStat) { k.Neither++ })
			r.Count("outcome.neither_old_nor_new", 1)
			r.Violation("neither-old-nor-new", a, witness(nil))
		}
		if !reflect.DeepEqual(rep.KV["txid"], oldRep.KV["txid"]) {
			stat(kind, func(k *kindStat) { k.OtherBroken++ })
			r.Count("outcome.other_file_changed", 1)
			r.Violation("other-file-changed", attrs, witness(map[string]interface{}{"file": kvOther}))
		}
		return
	}

	got, has := rep.Wallets[target]
	o, had := oldRep.Wallets[target]
	nw, hasNew := newRep.Wallets[target]
	switch {
	case !has && !had:
		stat(kind, func(k *kindStat) { k.Absent++ })
		r.Count("outcome.absent", 1)
	case has && had && got == o:
		stat(kind, func(k *kindStat) { k.Old++ })
		r.Count("outcome.old", 1)
	case has && newRep.Started && hasNew && got == nw:
		stat(kind, func(k *kindStat) { k.New++ })
		r.Count("outcome.new", 1)
	default:
		a := copyAttrs(attrs)
		if !has {
			a["observed"] = "wallet absent"
		} else {
			a["observed"] = "other content"
		}
		stat(kind, func(k *kindStat) { k.Neither++ })
		r.Count("outcome.neither_old_nor_new", 1)
		r.Violation("neither-old-nor-new", a, witness(map[string]interface{}{"old": o, "new": nw}))
	}
	for name, ow := range oldRep.Wallets {
		if name == target {
			continue
		}
		if gw, ok := rep.Wallets[name]; !ok || gw != ow {
			stat(kind, func(k *kindStat) { k.OtherBroken++ })
			r.Count("outcome.other_file_changed", 1)
			r.Violation("other-file-changed", attrs, witness(map[string]interface{}{"file": name}))
		}
	}
	for name := range rep.Wallets {
		if _, ok := oldRep.Wallets[name]; !ok && name != target {
			r.Count("outcome.unexpected_wallet", 1)
			r.Violation("unexpected-wallet-loaded", attrs, witness(map[string]interface{}{"file": name}))
		}
	}
}

func copyAttrs(a map[string]string) map[string]string {
	o := map[string]string{}
	for k, v := range a {
		o[k] = v
	}
	return o
}

func main() {
	r := vf.Start("C20", "fault_enumeration")
	vsaveBin = filepath.Join(os.Getenv("VERIF_BIN"), "vsave")
	if os.Getenv("VERIF_BIN") == "" {
		vsaveBin = filepath.Join(vf.Root(), "bin", "vsave")
	}
	if _, err := os.Stat(vsaveBin); err != nil {
		fmt.Fprintf(os.Stderr, "c20: child binary missing: %v (run through ./check C20)\n", err)
		os.Exit(3)
	}
	if _, err := os.Stat(fstrace.StracePath); err != nil {
		r.Inconclusive("strace recorder not available: " + err.Error())
		r.Finish("no recorder")
	}

	cases := buildCases(r)
	only := -1
	if p := r.ReplayPath(); p != "" {
		// replay: re-run the recorded run the witness came from (same seed/tier => same case list)
		var doc struct {
			Seed    int64  `json:"seed"`
			Tier    string `json:"tier"`
			Witness struct {
				Run int `json:"run"`
			} `json:"witness"`
		}
		b, err := ioutil.ReadFile(p)
		if err != nil || json.Unmarshal(b, &doc) != nil {
			fmt.Fprintf(os.Stderr, "c20: cannot read replay file %s\n", p)
			os.Exit(3)
		}
		if doc.Seed != r.Seed || doc.Tier != r.Tier {
			fmt.Fprintf(os.Stderr, "c20: replay needs VERIF_SEED=%d --tier %s\n", doc.Seed, doc.Tier)
			os.Exit(3)
		}
		only = doc.Witness.Run
	}

	base := vf.TempDir("c20")
	defer os.RemoveAll(base)
	jobs := make(chan loadJob, 64)
	var loaders sync.WaitGroup
	for w := 0; w < 16; w++ {
		loaders.Add(1)
		go func() {
			defer loaders.Done()
			for j := range jobs {
				doLoad(r, j)
			}
		}()
	}
	// recorders: run the saves and enumerate their crash states; loaders restart on each state
	vf.Parallel(len(cases), 8, func(i int) {
		if only >= 0 && i != only {
			return
		}
		runOne(r, base, cases[i], jobs)
	})
	close(jobs)
	loaders.Wait()
	os.RemoveAll(base)

	// evidence
	kinds := append(append([]string{}, walletKinds...), kvKinds...)
	r.Extra("save_kinds", kinds)
	r.Extra("per_kind", stats)
	r.Extra("exhaustive", true)
	r.Extra("exhaustive_over", "every prefix of the recorded mutating operations of each run, and each data write cut at 0/1/half/len-1 bytes (thorough: also every 4096-byte boundary and 3 seeded positions)")
	seqs := map[string][]string{}
	for k, m := range opSeqs {
		for s, n := range m {
			seqs[k] = append(seqs[k], fmt.Sprintf("%dx: %s", n, s))
		}
		sort.Strings(seqs[k])
	}
	r.Extra("operation_sequences_observed", seqs)
	for _, k := range kinds {
		if s := stats[k]; s != nil && s.Runs > 0 {
			r.Sample(map[string]interface{}{"save": k, "runs": s.Runs, "mutating_ops": s.Ops, "crash_states": s.States, "restarted": s.Executed,
				"old": s.Old, "new": s.New, "absent": s.Absent, "no_start": s.NoStart, "neither": s.Neither, "sequence": seqs[k]})
		}
	}
	if only < 0 {
		for _, k := range kinds {
			// every save kind was recorded and produced at least one state at a truncation / creation / data write
			r.Floor("runs."+k, 1)
			tw := 0
			if s := stats[k]; s != nil {
				tw = s.TruncWrite
			}
			r.Count("states_at_trunc_or_write."+k, int64(tw))
			r.Floor("states_at_trunc_or_write."+k, 2)
		}
		r.Floor("states.enumerated", int64(r.Pick(350, 4000)))
		r.Floor("states.restarted", int64(r.Pick(300, 3500)))
		r.Floor("saves.effective", int64(len(cases)))
		r.Floor("model.final_state_equals_disk", int64(len(cases)))
	}
	r.Finish("each case is one recorded save (kind x wallet type x seeded contents) and one crash point of it (prefix of the recorded file-system mutations, optionally with the next data write cut); a state counts as distinct when its on-disk bytes differ from every earlier state of the same run; the restart runs the real wallet.NewService / kvstorage.NewManager in a fresh process",
		"ordered-write crash model: operations reach the disk in issue order, only the last data write may be partial; no reordering, no torn sectors, directory operations atomic",
		"previous/new content are defined as what the same start-up path loads from the intact directory before / after the completed save",
		"the save's system calls are issued by one thread (runtime.LockOSThread) and strace -f -y records them completely (payloads up to 16 MiB)")
}
