package main

// Node leg of C13: Visor.WalletSignTransaction on a real visor (bolt file, genesis, two blocks made
// by the harness) with a real wallet.Service. The wallets' addresses and some harness keys own
// unspent outputs on that chain, so the transactions submitted for signing are fully valid and
// spendable, which is what the visor requires before it signs. The chain is never advanced while
// cases run: cases are independent and run in parallel.
//
// The oracle is evalCase (main.go): the same clauses as for wallet.SignTransaction, plus "the node
// accepts exactly what the statement allows": a valid unsigned or partially signed transaction
// with a usable wallet (unencrypted, or encrypted with its password) must be signed; a fully signed
// one, a watch-only wallet, an encrypted wallet without (or with a wrong) password, an unknown
// wallet id and a wallet lacking a requested key must be refused.

import (
	"fmt"
	"math"
	"math/big"
	"math/rand"
	"os"
	"path/filepath"
	"sort"

	"github.com/skycoin/skycoin/src/cipher"
	"github.com/skycoin/skycoin/src/cipher/crypto"
	"github.com/skycoin/skycoin/src/coin"
	"github.com/skycoin/skycoin/src/params"
	"github.com/skycoin/skycoin/src/visor"
	"github.com/skycoin/skycoin/src/visor/dbutil"
	"github.com/skycoin/skycoin/src/wallet"

	"verif/lib/fix"
	"verif/lib/ledger"
	"verif/lib/vf"
	"verif/lib/wfix"
)

const (
	wNDist    = 4
	wNForeign = 6
	coinUnit  = 1000 // droplets: the node only handles three decimal places
)

type world struct {
	idx      int
	dir      string
	db       *dbutil.DB
	v        *visor.Visor
	ws       *wallet.Service
	chain    *fix.Chain
	g        *group // fixtures (node wallets), foreign owners, reference key cache
	unspent  map[cipher.Address][]coin.UxOut
	headTime uint64
	headSeq  uint64
	byAddr   map[cipher.Address]owner // every owner whose secret the harness knows
}

func (w *world) describe() map[string]interface{} {
	ws := []string{}
	for _, f := range w.g.fixtures {
		ws = append(ws, fmt.Sprintf("%s id=%s addresses=%d", f.name, f.id, len(f.owned)))
	}
	return map[string]interface{}{"world": w.idx, "head_seq": w.headSeq, "head_time": w.headTime, "wallets": ws,
		"note": "rebuilt from (VERIF_SEED, world index): chain tag, wallet seeds and the distribution block are functions of the seed"}
}

func (w *world) close() {
	if w.db != nil {
		w.db.Close()
	}
	os.RemoveAll(w.dir)
}

// buildWorld assembles visor + wallet service and the chain state; any failure here is a harness failure
func buildWorld(r *vf.Run, wi int) (w *world, err error) {
	defer func() {
		if e := recover(); e != nil {
			err = fmt.Errorf("%v", e)
			if w != nil {
				w.close()
			}
			w = nil
		}
	}()
	rng := r.Rand("node-world", wi)
	w = &world{idx: wi, dir: vf.TempDir("c13"), unspent: map[cipher.Address][]coin.UxOut{}, byAddr: map[cipher.Address]owner{}}
	w.chain = fix.NewChain(fmt.Sprintf("c13-%d-%d", r.Seed, wi), 100e12, wNDist+wNForeign+1, wNDist, wNDist)

	db, err := visor.OpenDB(filepath.Join(w.dir, "data.db"), false)
	must(err)
	w.db = db
	wc := wallet.NewConfig()
	wc.WalletDir = filepath.Join(w.dir, "wallets")
	wc.EnableWalletAPI = true
	wc.CryptoType = crypto.CryptoTypeSha256Xor
	w.ws, err = wallet.NewService(wc)
	must(err)
	w.v, err = visor.New(w.chain.Config(true, true), db, w.ws)
	must(err)
	must(w.v.Init())

	// wallets ------------------------------------------------------------------------
	g := &group{cache: wfix.NewRefPubCache()}
	w.g = g
	made := map[string]wallet.Options{}
	create := func(id string, o wallet.Options) {
		o.Label = id
		_, err := w.ws.CreateWallet(id, o)
		must(err)
		made[id] = o
	}
	nk := func() []cipher.SecKey {
		ks := make([]cipher.SecKey, 3+rng.Intn(3))
		for i := range ks {
			ks[i] = wfix.SecKey(rng)
		}
		return ks
	}
	pass := func() string { return []string{"", "pass " + wfix.RandToken(rng, 6)}[rng.Intn(2)] }
	create("det.wlt", wallet.Options{Type: wallet.WalletTypeDeterministic, Seed: wfix.SeedString(rng), GenerateN: uint64(3 + rng.Intn(3))})
	create("b44.wlt", wallet.Options{Type: wallet.WalletTypeBip44, Seed: wfix.Mnemonic(rng), SeedPassphrase: pass(), GenerateN: uint64(2 + rng.Intn(3))})
	create("col.wlt", wallet.Options{Type: wallet.WalletTypeCollection, CollectionPrivateKeys: nk()})
	create("b44x.wlt", wallet.Options{Type: wallet.WalletTypeBip44, Seed: wfix.Mnemonic(rng), GenerateN: 4})
	create("det-enc.wlt", wallet.Options{Type: wallet.WalletTypeDeterministic, Seed: wfix.SeedString(rng), GenerateN: uint64(2 + rng.Intn(3))})
	create("b44-enc.wlt", wallet.Options{Type: wallet.WalletTypeBip44, Seed: wfix.Mnemonic(rng), SeedPassphrase: pass(), GenerateN: uint64(2 + rng.Intn(2))})
	create("col-enc.wlt", wallet.Options{Type: wallet.WalletTypeCollection, CollectionPrivateKeys: nk()})
	for _, id := range []string{"b44.wlt", "b44-enc.wlt"} {
		_, err := w.ws.NewAddresses(id, nil, wallet.OptionGenerateN(uint64(1+rng.Intn(2))), wallet.OptionChange())
		must(err)
	}
	get := func(id string) wallet.Wallet {
		x, err := w.ws.GetWallet(id)
		must(err)
		return x
	}
	// the xpub wallet watches the external chain of b44x: its addresses' secrets exist, but not in it
	b44x := get("b44x.wlt")
	create("xp.wlt", wallet.Options{Type: wallet.WalletTypeXPub, XPub: xpubOf(b44x), GenerateN: 4})
	xpOwned := ownersOf(get("xp.wlt"))
	{
		secs := map[cipher.Address]owner{}
		for _, o := range ownersOf(b44x) {
			secs[o.addr] = o
		}
		for i := range xpOwned {
			full, ok := secs[xpOwned[i].addr]
			if !ok {
				panic("xpub wallet address is not an address of the bip44 wallet it was made from")
			}
			xpOwned[i] = full // the harness signs for these as a "foreign" owner
		}
	}
	add := func(name, id, why string, canSign bool, owned []owner, pw string) {
		g.fixtures = append(g.fixtures, fixture{name: name, w: get(id), owned: owned, canSign: canSign, why: why, id: id, password: []byte(pw)})
	}
	add("deterministic", "det.wlt", "", true, ownersOf(get("det.wlt")), "")
	add("bip44", "b44.wlt", "", true, ownersOf(get("b44.wlt")), "")
	add("collection", "col.wlt", "", true, ownersOf(get("col.wlt")), "")
	add("xpub", "xp.wlt", "xpub", false, xpOwned, "")
	// encrypt three wallets inside the service (cheap crypto types), then let them generate more addresses
	for i, id := range []string{"det-enc.wlt", "b44-enc.wlt", "col-enc.wlt"} {
		owned := ownersOf(get(id))
		ct := crypto.CryptoTypeSha256Xor
		if (i+wi)%3 == 1 {
			ct = crypto.CryptoTypeScryptChacha20poly1305Insecure
		}
		must(w.ws.Update(id, func(x wallet.Wallet) error { x.SetCryptoType(ct); return nil }))
		pw := "pw-" + wfix.RandToken(rng, 8)
		_, err := w.ws.EncryptWallet(id, []byte(pw))
		must(err)
		if !get(id).IsEncrypted() {
			panic("wallet " + id + " is not encrypted after EncryptWallet")
		}
		// the encrypted wallet goes on handing out addresses the way the API does it: bip44 without the
		// password (external and change chain), the others inside GuardUpdate with the password; their
		// secrets are not in the encrypted blob (bip44) until the wallet is next unlocked
		created := map[cipher.Address]bool{}
		for _, o := range owned {
			created[o.addr] = true
		}
		opts := made[id]
		script := []string{"create", "encrypt(" + string(ct) + ")"}
		how := "guarded"
		switch opts.Type {
		case wallet.WalletTypeBip44:
			how = "locked"
			k1, k2 := 1+rng.Intn(2), 1+rng.Intn(2)
			_, err = w.ws.NewAddresses(id, nil, wallet.OptionGenerateN(uint64(k1)), wallet.OptionChange())
			must(err)
			_, err = w.ws.NewAddresses(id, nil, wallet.OptionGenerateN(uint64(k2)))
			must(err)
			script = append(script, fmt.Sprintf("generate-change(%d)@locked", k1), fmt.Sprintf("generate(%d)@locked", k2))
		case wallet.WalletTypeDeterministic:
			k := 1 + rng.Intn(2)
			_, err = w.ws.NewAddresses(id, []byte(pw), wallet.OptionGenerateN(uint64(k)))
			must(err)
			script = append(script, fmt.Sprintf("generate(%d)@guard-update", k))
		case wallet.WalletTypeCollection:
			ks := nk()[:2]
			_, err = w.ws.NewAddresses(id, []byte(pw), wallet.OptionCollectionPrivateKeys(ks))
			must(err)
			opts.CollectionPrivateKeys = append(append([]cipher.SecKey{}, opts.CollectionPrivateKeys...), ks...)
			script = append(script, "add-keys(2)@guard-update")
		}
		locked := get(id)
		secs := twinSecrets(locked, opts.Seed, opts.SeedPassphrase, opts.CollectionPrivateKeys, nil)
		fes, err := wfix.AllEntries(locked)
		must(err)
		if len(fes) <= len(owned) {
			panic("wallet " + id + " has no more addresses after NewAddresses")
		}
		owned = nil
		birth := map[cipher.Address]string{}
		for _, fe := range fes {
			a := fe.E.SkycoinAddress()
			owned = append(owned, owner{addr: a, pub: fe.E.Public, sec: secs[a.String()]})
			b := []string{"ext.", "chg."}[fe.Chain&1]
			if created[a] {
				b += "created"
			} else {
				b += how
			}
			birth[a] = b
		}
		name := []string{"deterministic-enc", "bip44-enc", "collection-enc"}[i]
		g.fixtures = append(g.fixtures, fixture{name: name, w: locked, owned: owned, canSign: true, why: "encrypted", id: id, password: []byte(pw), crypto: string(ct),
			script: script, birth: birth})
	}
	for _, k := range w.chain.Keys[wNDist : wNDist+wNForeign] {
		g.foreign = append(g.foreign, owner{addr: k.Addr, sec: k.Sec, pub: k.Pub})
	}
	for _, f := range g.fixtures {
		for _, o := range f.owned {
			if o.sec == (cipher.SecKey{}) {
				panic("harness: no secret for an address of " + f.name)
			}
			w.byAddr[o.addr] = o
		}
	}
	for _, o := range g.foreign {
		w.byAddr[o.addr] = o
	}

	// chain --------------------------------------------------------------------------
	gb, err := w.v.GetSignedBlockBySeq(0)
	must(err)
	if gb == nil || len(gb.Body.Transactions) != 1 {
		panic("no genesis block")
	}
	gouts := ledger.OutputsOf(&gb.Body.Transactions[0], gb.Head.Time, gb.Head.BkSeq)
	if len(gouts) != 1 {
		panic("genesis block does not have exactly one output")
	}
	gen := gouts[0]
	genHours, cls := ledger.Accrued(gen, gb.Head.Time)
	if cls != ledger.AccrualOK || !genHours.IsUint64() {
		panic("genesis hours out of range")
	}
	availH := remAfterBurn(genHours.Uint64())
	type ok struct {
		a    cipher.Address
		c, h uint64
	}
	seen := map[ok]bool{}
	var outs []fix.Out
	var usedC, usedH uint64
	give := func(a cipher.Address, k int) {
		for i := 0; i < k; i++ {
			c := coinUnit * uint64(1+rng.Intn(50000))
			h := uint64(10 + rng.Intn(100000))
			for seen[ok{a, c, h}] {
				c += coinUnit
			}
			seen[ok{a, c, h}] = true
			outs = append(outs, fix.Out{Addr: a, Coins: c, Hours: h})
			usedC += c
			usedH += h
		}
	}
	for _, f := range g.fixtures {
		for _, o := range f.owned {
			give(o.addr, 3)
		}
	}
	for _, o := range g.foreign {
		give(o.addr, 8)
	}
	bank := w.chain.Keys[wNDist+wNForeign]
	if usedC+coinUnit > gen.Body.Coins || usedH+1 > availH {
		panic(fmt.Sprintf("genesis output too small: need %d coins %d hours, have %d / %d", usedC, usedH, gen.Body.Coins, availH))
	}
	outs = append(outs, fix.Out{Addr: bank.Addr, Coins: gen.Body.Coins - usedC, Hours: availH - usedH})
	dist := w.chain.MakeTxn([]coin.UxOut{gen}, outs)
	_, _, _, err = w.v.InjectUserTransaction(dist)
	must(err)
	b1, err := w.v.VerifCreateAndExecuteBlock(gb.Head.Time + 10)
	must(err)
	if len(b1.Body.Transactions) != 1 {
		panic("distribution block does not hold the distribution transaction")
	}
	created := ledger.OutputsOf(&b1.Body.Transactions[0], b1.Head.Time, b1.Head.BkSeq)
	// a second block some time later, so that the outputs have aged (hours accrue); it spends only the bank's output
	var bankUx coin.UxOut
	for _, ux := range created {
		if ux.Body.Address == bank.Addr {
			bankUx = ux
		}
	}
	age := []uint64{1, 3600, 86400 * 3, 86400 * 400}[rng.Intn(4)]
	t2 := b1.Head.Time + age
	bh, cls := ledger.Accrued(bankUx, b1.Head.Time) // the pool admits against the current head
	if cls != ledger.AccrualOK {
		panic("bank hours out of range")
	}
	tick := w.chain.MakeTxn([]coin.UxOut{bankUx}, []fix.Out{{Addr: bank.Addr, Coins: bankUx.Body.Coins, Hours: remAfterBurn(bh.Uint64()) / 2}})
	_, _, _, err = w.v.InjectUserTransaction(tick)
	must(err)
	b2, err := w.v.VerifCreateAndExecuteBlock(t2)
	must(err)
	if len(b2.Body.Transactions) != 1 {
		panic("second block does not hold the tick transaction")
	}
	w.headTime, w.headSeq = b2.Head.Time, b2.Head.BkSeq
	for _, ux := range created {
		if ux.Body.Address == bank.Addr {
			continue
		}
		w.unspent[ux.Body.Address] = append(w.unspent[ux.Body.Address], ux)
	}
	for a := range w.unspent {
		s := w.unspent[a]
		sort.Slice(s, func(i, j int) bool {
			return s[i].Body.Coins < s[j].Body.Coins || (s[i].Body.Coins == s[j].Body.Coins && s[i].Body.Hours < s[j].Body.Hours)
		})
	}
	// harness self-check: the node knows every output the harness will spend, exactly as the harness computed it
	for a, s := range w.unspent {
		hs := []cipher.SHA256{}
		for _, ux := range s {
			hs = append(hs, ux.Hash())
		}
		got, err := w.v.GetUnspentOutputs(hs)
		if err != nil || len(got) != len(s) {
			panic(fmt.Sprintf("harness: outputs of %s are not unspent on the node: %v", a, err))
		}
		for i := range got {
			if got[i] != s[i] {
				panic(fmt.Sprintf("harness: output %s differs from the node's", hs[i].Hex()))
			}
		}
	}
	return w, nil
}

func remAfterBurn(h uint64) uint64 {
	b := uint64(params.UserVerifyTxn.BurnFactor)
	f := h / b
	if h%b != 0 {
		f++
	}
	return h - f
}

// ---------------------------------------------------------------------------------
// transactions on the world's outputs

// pickInputs draws n distinct unspent outputs, each owned by fx (own) or by someone else
func (w *world) pickInputs(rng *rand.Rand, fx *fixture, ownFlags []bool, others []owner) (ux []coin.UxOut, ownedBy []bool, keys []owner) {
	used := map[cipher.SHA256]bool{}
	isOwn := map[cipher.Address]bool{}
	for _, o := range fx.owned {
		isOwn[o.addr] = true
	}
	draw := func(pool []owner) (coin.UxOut, owner, bool) {
		for tries := 0; tries < 40; tries++ {
			o := pool[rng.Intn(len(pool))]
			s := w.unspent[o.addr]
			if len(s) == 0 {
				continue
			}
			u := s[rng.Intn(len(s))]
			if used[u.Hash()] {
				continue
			}
			used[u.Hash()] = true
			return u, o, true
		}
		return coin.UxOut{}, owner{}, false
	}
	for _, own := range ownFlags {
		var u coin.UxOut
		var o owner
		ok := false
		if own {
			u, o, ok = draw(fx.owned)
		}
		if !ok {
			u, o, ok = draw(others)
			if !ok {
				continue
			}
		}
		ux = append(ux, u)
		ownedBy = append(ownedBy, isOwn[o.addr])
		keys = append(keys, w.byAddr[o.addr])
	}
	return
}

// buildTxn makes a valid unsigned transaction (all-null signature array) spending ux
func (w *world) buildTxn(rng *rand.Rand, ux []coin.UxOut) *coin.Transaction {
	txn := &coin.Transaction{}
	var coins uint64
	hours := new(big.Int)
	for _, u := range ux {
		txn.In = append(txn.In, u.Hash())
		coins += u.Body.Coins
		h, cls := ledger.Accrued(u, w.headTime)
		if cls != ledger.AccrualOK {
			panic("harness: accrual out of range")
		}
		hours.Add(hours, h)
	}
	if !hours.IsUint64() {
		panic("harness: hours out of range")
	}
	rem := remAfterBurn(hours.Uint64())
	units := coins / coinUnit
	m := 1 + rng.Intn(3)
	if uint64(m) > units {
		m = int(units)
	}
	dests := rng.Perm(len(w.g.foreign))
	leftU, leftH := units, rem
	if rng.Intn(3) == 0 {
		leftH = rem / 2 // burn more than required
	}
	for i := 0; i < m; i++ {
		cu, h := leftU, leftH
		if i < m-1 {
			cu = 1 + uint64(rng.Int63n(int64(leftU-uint64(m-1-i))))
			h = uint64(rng.Int63n(int64(leftH + 1)))
		}
		leftU -= cu
		leftH -= h
		a := w.g.foreign[dests[i%len(dests)]].addr
		if rng.Intn(4) == 0 {
			a = w.byAddr[ux[rng.Intn(len(ux))].Body.Address].addr // back to a spender (change)
			for _, o := range txn.Out {
				if o.Address == a {
					a = w.g.foreign[dests[i%len(dests)]].addr
				}
			}
		}
		txn.Out = append(txn.Out, coin.TransactionOutput{Address: a, Coins: cu * coinUnit, Hours: h})
	}
	txn.Sigs = make([]cipher.Sig, len(txn.In))
	must(txn.UpdateHeader())
	return txn
}

func (w *world) presign(txn *coin.Transaction, i int, o owner) {
	h := cipher.AddSHA256(txn.InnerHash, txn.In[i])
	txn.Sigs[i] = cipher.MustSignHash(h, o.sec)
}

// othersFor: owners other than fx's: harness keys and the addresses of the other wallets
func (w *world) othersFor(fx *fixture) []owner {
	out := append([]owner{}, w.g.foreign...)
	for i := range w.g.fixtures {
		f := &w.g.fixtures[i]
		if f.id == fx.id {
			continue
		}
		out = append(out, f.owned...)
	}
	return out
}

// setPassword chooses how the wallet is addressed: correct / missing / wrong password
func setPassword(rng *rand.Rand, c *tcase, wantUsable bool) {
	fx := c.fx
	c.wltID = fx.id
	if fx.why == "encrypted" {
		x := rng.Intn(100)
		switch {
		case wantUsable || x < 70:
			c.pw, c.pwClass = append([]byte(nil), fx.password...), "correct"
		case x < 88:
			c.pw, c.pwClass = nil, "none"
			if rng.Intn(2) == 0 {
				c.pw = []byte{}
			}
		default:
			c.pw, c.pwClass = append(append([]byte(nil), fx.password...), 'x'), "wrong"
			if rng.Intn(2) == 0 {
				c.pw = []byte("pw-" + wfix.RandToken(rng, 8))
			}
		}
		return
	}
	c.pwClass = "none"
	if !wantUsable && rng.Intn(100) < 3 {
		c.pw, c.pwClass = []byte("unneeded"), "on-unencrypted"
	}
}

// genNodeCase: one call. Same classes as the function-level generator, on really spendable transactions.
func genNodeCase(rng *rand.Rand, w *world) *tcase {
	g := w.g
	c := &tcase{node: w}
	switch x := rng.Intn(100); {
	case x < 20:
		c.fx = &g.fixtures[0]
	case x < 42:
		c.fx = &g.fixtures[1]
	case x < 60:
		c.fx = &g.fixtures[2]
	case x < 68:
		c.fx = &g.fixtures[3]
	default:
		c.fx = &g.fixtures[4+rng.Intn(3)]
	}
	if c.fx.crypto == string(crypto.CryptoTypeScryptChacha20poly1305Insecure) && rng.Intn(3) != 0 {
		c.fx = &g.fixtures[rng.Intn(3)] // the scrypt wallet costs 32 MiB and some ten ms per call: fewer of those
	}
	setPassword(rng, c, false)
	if rng.Intn(100) < 3 {
		c.noWallet = true
		c.wltID = "nope-" + wfix.RandToken(rng, 5) + ".wlt"
	}
	n := 1 + rng.Intn(6)
	profile := rng.Intn(100) // <55 all owned, <90 mixed, else none owned ("wrong wallet")
	flags := make([]bool, n)
	for i := range flags {
		flags[i] = profile < 55 || (profile < 90 && rng.Intn(3) != 0)
	}
	c.ux, c.ownedBy, c.keys = w.pickInputs(rng, c.fx, flags, w.othersFor(c.fx))
	n = len(c.ux)
	if n == 0 {
		panic("harness: no inputs available")
	}
	txn := w.buildTxn(rng, c.ux)

	switch x := rng.Intn(100); {
	case x < 3:
		c.sc = sigEmpty
	case x < 45:
		c.sc = sigAllNull
	case x < 90:
		c.sc = sigPartial
	default:
		c.sc = sigFull
	}
	if n == 1 && c.sc == sigPartial {
		c.sc = sigAllNull
	}
	presign := func(i int) {
		if rng.Intn(12) == 0 {
			copy(txn.Sigs[i][:], wfix.RandBytes(rng, 65))
			txn.Sigs[i][0] |= 1
			c.garbage = true
			return
		}
		w.presign(txn, i, c.keys[i])
	}
	switch c.sc {
	case sigEmpty:
		txn.Sigs = nil
	case sigPartial:
		// pre-sign the inputs of other owners first (a multi-party transaction reaching this wallet), then random ones
		order := rng.Perm(n)
		if rng.Intn(2) == 0 {
			sort.SliceStable(order, func(a, b int) bool { return !c.ownedBy[order[a]] && c.ownedBy[order[b]] })
		}
		k := 1 + rng.Intn(n-1)
		if rng.Intn(2) == 0 {
			// exactly the inputs the wallet cannot sign
			cnt := 0
			for _, o := range c.ownedBy {
				if !o {
					cnt++
				}
			}
			if cnt >= 1 && cnt < n {
				k = cnt
				sort.SliceStable(order, func(a, b int) bool { return !c.ownedBy[order[a]] && c.ownedBy[order[b]] })
			}
		}
		for _, i := range order[:k] {
			presign(i)
		}
	case sigFull:
		for i := 0; i < n; i++ {
			presign(i)
		}
	}
	must(txn.UpdateHeader())
	c.txn = txn
	chooseIndexes(rng, c)
	return c
}

// chooseIndexes draws the index list class for c.txn (the classes of the function-level generator)
func chooseIndexes(rng *rand.Rand, c *tcase) {
	txn := c.txn
	n := len(txn.In)
	var nulls, signed []int
	for i := 0; i < n; i++ {
		if c.sc == sigEmpty || txn.Sigs[i].Null() {
			nulls = append(nulls, i)
		} else {
			signed = append(signed, i)
		}
	}
	subset := func() []int {
		if len(nulls) == 0 {
			return nil
		}
		k := 1 + rng.Intn(len(nulls))
		out := []int{}
		for _, j := range rng.Perm(len(nulls))[:k] {
			out = append(out, nulls[j])
		}
		return out
	}
	ownedNulls := func() []int {
		out := []int{}
		for _, i := range nulls {
			if c.ownedBy[i] {
				out = append(out, i)
			}
		}
		rng.Shuffle(len(out), func(a, b int) { out[a], out[b] = out[b], out[a] })
		return out
	}
	switch x := rng.Intn(100); {
	case x < 30:
		c.ic = idxNone
	case x < 45:
		c.ic = idxSubset
		c.idx = subset()
	case x < 60:
		// the wallet's own unsigned inputs, or some of them
		c.ic = idxSubset
		c.idx = ownedNulls()
		if len(c.idx) > 1 && rng.Intn(2) == 0 {
			c.idx = c.idx[:1+rng.Intn(len(c.idx)-1)]
		}
	case x < 72:
		c.ic = idxAllNull
		for _, j := range rng.Perm(len(nulls)) {
			c.idx = append(c.idx, nulls[j])
		}
	case x < 78:
		c.ic = idxDup
		c.idx = subset()
		if len(c.idx) > 0 {
			c.idx = append(c.idx, c.idx[rng.Intn(len(c.idx))])
			rng.Shuffle(len(c.idx), func(a, b int) { c.idx[a], c.idx[b] = c.idx[b], c.idx[a] })
		}
	case x < 86:
		c.ic = idxRange
		c.idx = ownedNulls()
		bad := []int{-1, n, n + 5, math.MaxInt32, math.MinInt32, -n}[rng.Intn(6)]
		if len(c.idx) >= n {
			c.idx = c.idx[:n-1]
		}
		c.idx = append(c.idx, bad)
		rng.Shuffle(len(c.idx), func(a, b int) { c.idx[a], c.idx[b] = c.idx[b], c.idx[a] })
	case x < 91:
		c.ic = idxLong
		for len(c.idx) <= n {
			c.idx = append(c.idx, rng.Intn(n))
		}
	default:
		c.ic = idxSigned
		c.idx = ownedNulls()
		if len(signed) > 0 {
			c.idx = append(c.idx, signed[rng.Intn(len(signed))])
			rng.Shuffle(len(c.idx), func(a, b int) { c.idx[a], c.idx[b] = c.idx[b], c.idx[a] })
		} else {
			c.ic = idxSubset
		}
	}
	if len(c.idx) == 0 {
		c.idx = nil
		c.ic = idxNone
	}
}

// ---------------------------------------------------------------------------------
// multi-step sequences

func sigClassOf(t *coin.Transaction) sigClass {
	nulls := 0
	for _, s := range t.Sigs {
		if s.Null() {
			nulls++
		}
	}
	switch {
	case len(t.Sigs) == 0:
		return sigEmpty
	case nulls == len(t.Sigs):
		return sigAllNull
	case nulls == 0:
		return sigFull
	}
	return sigPartial
}

func nullIndexes(t *coin.Transaction) []int {
	out := []int{}
	for i, s := range t.Sigs {
		if s.Null() {
			out = append(out, i)
		}
	}
	return out
}

func usable(g *group, rng *rand.Rand) *fixture {
	for {
		f := &g.fixtures[rng.Intn(len(g.fixtures))]
		if f.why == "xpub" {
			continue
		}
		if f.crypto == string(crypto.CryptoTypeScryptChacha20poly1305Insecure) && rng.Intn(4) != 0 {
			continue
		}
		return f
	}
}

// runSequence: an unsigned transaction is signed in several calls — a subset first, then the
// partially signed result is resubmitted (naming the remaining indexes, or none) until complete;
// finally the complete transaction is submitted once more and must be refused.
func runSequence(r *vf.Run, w *world, si int) {
	rng := r.Rand("node-seq", w.idx, si)
	g := w.g
	fxA := usable(g, rng)
	fxB := fxA
	twoWallets := rng.Intn(3) == 0
	if twoWallets {
		for fxB.id == fxA.id {
			fxB = usable(g, rng)
		}
	}
	n := 2 + rng.Intn(5)
	flags := make([]bool, n)
	for i := range flags {
		flags[i] = true
	}
	var ux []coin.UxOut
	var keys []owner
	if twoWallets {
		k := 1 + rng.Intn(n-1)
		ua, _, ka := w.pickInputs(rng, fxA, flags[:k], fxA.owned)
		ub, _, kb := w.pickInputs(rng, fxB, flags[k:], fxB.owned)
		ux, keys = append(ua, ub...), append(ka, kb...)
		perm := rng.Perm(len(ux))
		ux2, keys2 := make([]coin.UxOut, len(ux)), make([]owner, len(ux))
		for i, j := range perm {
			ux2[i], keys2[i] = ux[j], keys[j]
		}
		ux, keys = ux2, keys2
	} else {
		ux, _, keys = w.pickInputs(rng, fxA, flags, fxA.owned)
	}
	if len(ux) < 2 {
		return
	}
	n = len(ux)
	cur := w.buildTxn(rng, ux)
	ownedBy := func(fx *fixture) []bool {
		m := map[cipher.Address]bool{}
		for _, o := range fx.owned {
			m[o.addr] = true
		}
		out := make([]bool, n)
		for i, u := range ux {
			out[i] = m[u.Body.Address]
		}
		return out
	}
	kind := "one-wallet"
	if twoWallets {
		kind = "two-wallets"
	}
	r.Count("node.seq.started."+kind, 1)

	step := 0
	call := func(fx *fixture, idx []int, ic idxClass, label string) *coin.Transaction {
		step++
		c := &tcase{node: w, fx: fx, txn: deepCopyTxn(cur), ux: ux, keys: keys, ownedBy: ownedBy(fx), sc: sigClassOf(cur), ic: ic, idx: idx,
			seq: fmt.Sprintf("%s/%d:%s", kind, step, label)}
		setPassword(rng, c, true)
		return evalCase(r, g, c, 1000+w.idx, si)
	}
	ownNulls := func(fx *fixture) []int {
		ob := ownedBy(fx)
		out := []int{}
		for _, i := range nullIndexes(cur) {
			if ob[i] {
				out = append(out, i)
			}
		}
		rng.Shuffle(len(out), func(a, b int) { out[a], out[b] = out[b], out[a] })
		return out
	}

	// step 1: wallet A signs some (one wallet: a proper subset; two wallets: all or some of its own) of its inputs, named
	first := ownNulls(fxA)
	if !twoWallets || (len(first) > 1 && rng.Intn(2) == 0) {
		first = first[:1+rng.Intn(len(first)-1)]
	}
	res := call(fxA, first, idxSubset, "subset")
	if res == nil {
		return
	}
	if sigClassOf(res) != sigPartial {
		return // already reported by the oracle (exactly the requested positions are signed)
	}
	cur = res
	r.Count("node.seq.partial_result_resubmitted", 1)

	// following steps: until nothing is left
	for guard := 0; guard < 8; guard++ {
		left := nullIndexes(cur)
		if len(left) == 0 {
			break
		}
		// who can go on: a wallet owning unsigned inputs
		fx := fxA
		if len(ownNulls(fxA)) == 0 || (twoWallets && len(ownNulls(fxB)) > 0 && rng.Intn(2) == 0) {
			fx = fxB
		}
		mine := ownNulls(fx)
		allMine := len(mine) == len(left)
		switch x := rng.Intn(100); {
		case allMine && x < 45:
			// no indexes: "all unsigned inputs"
			res = call(fx, nil, idxNone, "rest-unnamed")
			if res != nil && sigClassOf(res) == sigFull {
				r.Count("node.seq.completed_without_indexes", 1)
			}
		case x < 80 || len(mine) == 1:
			res = call(fx, mine, idxAllNull, "rest-named")
			if res != nil && sigClassOf(res) == sigFull {
				r.Count("node.seq.completed_with_indexes", 1)
			}
		default:
			res = call(fx, mine[:1+rng.Intn(len(mine)-1)], idxSubset, "subset-again")
		}
		if res == nil {
			return
		}
		cur = res
	}
	if sigClassOf(cur) != sigFull {
		return
	}
	r.Count("node.seq.completed."+kind, 1)
	// every signature of the completed transaction against its owner, once more as a whole: the
	// harness's own statement of "fully signed and spendable"
	for i := range cur.In {
		c := &tcase{ux: ux, keys: keys}
		if why := verifySig(g, cur, c, i); why != "" {
			r.Violation("completed-transaction-bad-signature", map[string]string{"leg": "node", "index": fmt.Sprint(i), "why": why, "sequence": kind},
				map[string]interface{}{"world": w.describe(), "sequence": si, "txn": txnHex(cur)})
			return
		}
	}
	// the complete transaction once more: nothing left to sign, the node must refuse
	switch rng.Intn(3) {
	case 0:
		call(fxA, nil, idxNone, "complete-again")
	case 1:
		call(fxB, []int{rng.Intn(n)}, idxSigned, "complete-again-named")
	}
}

// ---------------------------------------------------------------------------------

func nodeLeg(r *vf.Run) {
	nWorlds := r.Pick(2, 8)
	perWorld := r.Pick(700, 6000)
	seqPerWorld := r.Pick(150, 1500)
	for wi := 0; wi < nWorlds; wi++ {
		w, err := buildWorld(r, wi)
		if err != nil {
			r.Inconclusive("node leg: cannot build world: " + err.Error())
			return
		}
		r.Count("node.worlds", 1)
		const chunk = 25
		vf.Parallel((perWorld+chunk-1)/chunk, 16, func(ch int) {
			for ci := ch * chunk; ci < (ch+1)*chunk && ci < perWorld; ci++ {
				rng := r.Rand("node-case", wi, ci)
				c := genNodeCase(rng, w)
				evalCase(r, w.g, c, 1000+wi, ci)
			}
		})
		vf.Parallel(seqPerWorld, 16, func(si int) {
			runSequence(r, w, si)
		})
		w.close()
	}
}
