// C13 — Wallet signing signs exactly the requested inputs.
//
// Function-level monitor on wallet.SignTransaction. For wallets of every kind (deterministic,
// bip44 with external+change entries, collection with harness keys, xpub watch-only, and locked
// variants) transactions with 1..8 inputs are built where each input is owned by the wallet or
// by a foreign key; the signature array is empty / all-null / partially pre-signed (valid or
// garbage) / fully signed; the index list is empty, a subset, exactly the unsigned set, has a
// duplicate, is out of range, over-long, or points at an already signed input.
//
// Oracle (from the statement, never from the code under test):
//   - the input transaction is bit-identical to its pre-call deep copy, always;
//   - failure => an error and no result;
//   - success => In/Out/InnerHash equal the original's, every pre-existing signature unchanged,
//     exactly the requested (or all previously null) positions are now non-null, every new
//     signature verifies — textbook ECDSA in lib/refsecp (verify + recover) — against the address
//     of the output it spends (the node's own verifier must agree as well);
//   - must fail: watch-only, locked, a requested input whose key the wallet lacks, an index out
//     of range, an index pointing at an already signed input;
//   - must succeed: usable wallet, distinct in-range indexes on unsigned owned inputs.
//     Cases the statement leaves open (duplicates, empty signature array, nothing to sign) are
//     checked conditionally only.
//
// Life-cycle leg (lifecycle.go): the same cases and oracle on wallets with a history (encrypted at
// creation or later, addresses generated on either chain while plain / encrypted without password /
// inside GuardUpdate, scanned, saved and loaded, cloned, decrypted) that sign directly, inside
// GuardView with the password, or on the copy returned by Unlock.
//
// Node leg (nodeleg.go): the same oracle on Visor.WalletSignTransaction of a real visor with a real
// wallet service, on a chain where the wallets' addresses own unspent outputs; single calls and
// multi-step sequences (sign a subset, resubmit the partially signed result).
package main

import (
	"bytes"
	"crypto/sha256"
	"fmt"
	"math"
	"math/rand"
	"os"
	"reflect"
	"sort"
	"strings"
	"time"

	"github.com/skycoin/skycoin/src/cipher"
	"github.com/skycoin/skycoin/src/cipher/crypto"
	"github.com/skycoin/skycoin/src/coin"
	"github.com/skycoin/skycoin/src/wallet"
	_ "github.com/skycoin/skycoin/src/wallet/bip44wallet"
	_ "github.com/skycoin/skycoin/src/wallet/collection"
	_ "github.com/skycoin/skycoin/src/wallet/deterministic"
	_ "github.com/skycoin/skycoin/src/wallet/xpubwallet"

	"verif/lib/refsecp"
	"verif/lib/vf"
	"verif/lib/wfix"
)

const groupSize = 50

type owner struct {
	addr cipher.Address
	sec  cipher.SecKey // zero for watch-only entries
	pub  cipher.PubKey
}

type fixture struct {
	name    string
	w       wallet.Wallet
	owned   []owner // addresses the wallet holds (with the secret if the harness knows it)
	canSign bool
	why     string // "", "xpub", "encrypted"

	// node leg: the wallet inside the node's wallet service
	id       string
	password []byte
	crypto   string

	// wallets with a history (lifecycle.go; node leg: addresses added after encryption)
	life   bool                      // function-level life-cycle leg
	state  string                    // final state and how the signing call reaches the secrets
	script []string                  // the operations the wallet went through, in order
	birth  map[cipher.Address]string // "<chain>.<wallet state the address was generated in>"
	// sign == nil: wallet.SignTransaction(w, ...)
	sign func(txn *coin.Transaction, idx []int, ux []coin.UxOut) (*coin.Transaction, error)
}

type group struct {
	fixtures []fixture
	foreign  []owner
	cache    *wfix.RefPubCache
}

func must(err error) {
	if err != nil {
		panic(err)
	}
}

func ownersOf(w wallet.Wallet) []owner {
	fes, err := wfix.AllEntries(w)
	must(err)
	out := make([]owner, len(fes))
	for i, fe := range fes {
		out[i] = owner{addr: fe.E.SkycoinAddress(), sec: fe.E.Secret, pub: fe.E.Public}
	}
	return out
}

// buildGroup makes one set of wallets; ownership is read from the unlocked wallet's entries
// (derivation correctness is C17's subject, not this check's)
func buildGroup(rng *rand.Rand) *group {
	g := &group{cache: wfix.NewRefPubCache()}

	det, err := wallet.NewWallet("det.wlt", "det", wfix.SeedString(rng), wallet.Options{
		Type: wallet.WalletTypeDeterministic, GenerateN: uint64(2 + rng.Intn(6))})
	must(err)
	b44, err := wallet.NewWallet("b44.wlt", "b44", wfix.Mnemonic(rng), wallet.Options{
		Type: wallet.WalletTypeBip44, GenerateN: uint64(1 + rng.Intn(4)), SeedPassphrase: []string{"", "pass " + wfix.RandToken(rng, 6)}[rng.Intn(2)]})
	must(err)
	_, err = b44.GenerateAddresses(wallet.OptionGenerateN(uint64(1+rng.Intn(3))), wallet.OptionChange())
	must(err)
	nk := 2 + rng.Intn(5)
	keys := make([]cipher.SecKey, nk)
	for i := range keys {
		keys[i] = wfix.SecKey(rng)
	}
	col, err := wallet.NewWallet("col.wlt", "col", "", wallet.Options{
		Type: wallet.WalletTypeCollection, CollectionPrivateKeys: keys})
	must(err)

	// xpub wallet over another bip44 account's external chain (addresses known, no secrets)
	b44x, err := wallet.NewWallet("b44x.wlt", "b44x", wfix.Mnemonic(rng), wallet.Options{Type: wallet.WalletTypeBip44, GenerateN: 4})
	must(err)
	xpubStr := xpubOf(b44x)
	xp, err := wallet.NewWallet("xp.wlt", "xp", "", wallet.Options{Type: wallet.WalletTypeXPub, XPub: xpubStr, GenerateN: 4})
	must(err)
	// the secrets of the xpub wallet's addresses exist (in b44x) but are not in the xpub wallet
	xo := ownersOf(xp)

	g.fixtures = []fixture{
		{name: "deterministic", w: det, owned: ownersOf(det), canSign: true},
		{name: "bip44", w: b44, owned: ownersOf(b44), canSign: true},
		{name: "collection", w: col, owned: ownersOf(col), canSign: true},
		{name: "xpub", w: xp, owned: xo, why: "xpub"},
	}
	for _, f := range g.fixtures[:3] {
		lw := f.w.Clone()
		lw.SetCryptoType(crypto.CryptoTypeSha256Xor)
		must(lw.Lock([]byte("pw-" + wfix.RandToken(rng, 6))))
		g.fixtures = append(g.fixtures, fixture{name: f.name + "-locked", w: lw, owned: f.owned, why: "encrypted"})
	}
	for i := 0; i < 6; i++ {
		s := wfix.SecKey(rng)
		p := g.cache.Pub(s)
		pk, err := cipher.NewPubKey(p)
		must(err)
		g.foreign = append(g.foreign, owner{addr: cipher.AddressFromPubKey(pk), sec: s, pub: pk})
	}
	return g
}

func xpubOf(b44 wallet.Wallet) string {
	data, err := b44.Serialize()
	must(err)
	// first "public_key" of the first account is the external chain's xpub
	const key = `"public_key": "`
	i := bytes.Index(data, []byte(key))
	if i < 0 {
		panic("no public_key in bip44 serialisation")
	}
	rest := data[i+len(key):]
	j := bytes.IndexByte(rest, '"')
	return string(rest[:j])
}

type sigClass int

const (
	sigEmpty sigClass = iota
	sigAllNull
	sigPartial
	sigFull
)

type idxClass int

const (
	idxNone idxClass = iota
	idxSubset
	idxAllNull
	idxDup
	idxRange
	idxLong
	idxSigned
)

var idxNames = []string{"none", "subset", "allnull", "dup", "range", "long", "signed"}
var sigNames = []string{"empty", "allnull", "partial", "full"}

type tcase struct {
	fx      *fixture
	txn     *coin.Transaction
	ux      []coin.UxOut
	idx     []int
	ownedBy []bool  // input i is owned by the wallet
	keys    []owner // owner of input i (secret known to the harness)
	sc      sigClass
	ic      idxClass

	// node leg only
	node     *world // nil: function-level leg (wallet.SignTransaction)
	wltID    string
	pw       []byte
	pwClass  string // "", "correct", "none", "wrong", "on-unencrypted"
	noWallet bool   // wltID names no wallet of the service
	garbage  bool   // a pre-existing signature is not a valid one
	seq      string // position in a multi-step sequence
}

func (c *tcase) pfx() string {
	if c.node != nil {
		return "node."
	}
	if c.fx != nil && c.fx.life {
		return "life."
	}
	return ""
}

func randSHA(rng *rand.Rand) cipher.SHA256 {
	var h cipher.SHA256
	copy(h[:], wfix.RandBytes(rng, 32))
	return h
}

func genCase(rng *rand.Rand, g *group) *tcase {
	c := &tcase{}
	// wallet kind: signing-capable ones dominate; xpub and locked are failure classes
	switch x := rng.Intn(100); {
	case x < 28:
		c.fx = &g.fixtures[0]
	case x < 56:
		c.fx = &g.fixtures[1]
	case x < 82:
		c.fx = &g.fixtures[2]
	case x < 88:
		c.fx = &g.fixtures[3]
	default:
		c.fx = &g.fixtures[4+rng.Intn(3)]
	}
	n := 1 + rng.Intn(8)
	profile := rng.Intn(100) // <55 all owned, <88 mixed, else all foreign
	txn := &coin.Transaction{}
	for i := 0; i < n; i++ {
		own := profile < 55 || (profile < 88 && rng.Intn(3) != 0)
		var o owner
		if own {
			o = c.fx.owned[rng.Intn(len(c.fx.owned))]
		} else {
			o = g.foreign[rng.Intn(len(g.foreign))]
		}
		ux := coin.UxOut{
			Head: coin.UxHead{Time: uint64(rng.Int63()), BkSeq: uint64(rng.Intn(1 << 20))},
			Body: coin.UxBody{SrcTransaction: randSHA(rng), Address: o.addr, Coins: uint64(1+rng.Intn(1000)) * 1e6, Hours: uint64(rng.Intn(1 << 30))},
		}
		c.ux = append(c.ux, ux)
		c.ownedBy = append(c.ownedBy, own)
		c.keys = append(c.keys, o)
		txn.In = append(txn.In, ux.Hash())
	}
	for i, m := 0, 1+rng.Intn(4); i < m; i++ {
		o := g.foreign[rng.Intn(len(g.foreign))]
		txn.Out = append(txn.Out, coin.TransactionOutput{Address: o.addr, Coins: uint64(1+rng.Intn(1000)) * 1e6, Hours: uint64(rng.Intn(1 << 20))})
	}
	// signature array
	switch x := rng.Intn(100); {
	case x < 6:
		c.sc = sigEmpty
	case x < 48:
		c.sc = sigAllNull
	case x < 92:
		c.sc = sigPartial
	default:
		c.sc = sigFull
	}
	if n == 1 && c.sc == sigPartial {
		c.sc = sigAllNull
	}
	if c.sc != sigEmpty {
		txn.Sigs = make([]cipher.Sig, n)
	}
	must(txn.UpdateHeader())
	presign := func(i int) {
		// valid (made by the input's real owner, when the harness has the key) or garbage
		h := cipher.AddSHA256(txn.InnerHash, txn.In[i])
		if c.keys[i].sec != (cipher.SecKey{}) && rng.Intn(3) != 0 {
			txn.Sigs[i] = cipher.MustSignHash(h, c.keys[i].sec)
		} else {
			copy(txn.Sigs[i][:], wfix.RandBytes(rng, 65))
			txn.Sigs[i][0] |= 1 // never null
		}
	}
	switch c.sc {
	case sigPartial:
		k := 1 + rng.Intn(n-1) // 1..n-1 pre-signed
		for _, i := range rng.Perm(n)[:k] {
			presign(i)
		}
	case sigFull:
		for i := 0; i < n; i++ {
			presign(i)
		}
	}
	must(txn.UpdateHeader())
	c.txn = txn

	var nulls, signed []int
	for i := 0; i < n; i++ {
		if c.sc == sigEmpty || txn.Sigs[i].Null() {
			nulls = append(nulls, i)
		} else {
			signed = append(signed, i)
		}
	}
	subset := func() []int {
		if len(nulls) == 0 {
			return nil
		}
		k := 1 + rng.Intn(len(nulls))
		out := []int{}
		for _, j := range rng.Perm(len(nulls))[:k] {
			out = append(out, nulls[j])
		}
		return out
	}
	switch x := rng.Intn(100); {
	case x < 30:
		c.ic = idxNone
	case x < 55:
		c.ic = idxSubset
		c.idx = subset()
	case x < 70:
		c.ic = idxAllNull
		for _, j := range rng.Perm(len(nulls)) {
			c.idx = append(c.idx, nulls[j])
		}
	case x < 77:
		c.ic = idxDup
		c.idx = subset()
		if len(c.idx) > 0 {
			c.idx = append(c.idx, c.idx[rng.Intn(len(c.idx))])
			rng.Shuffle(len(c.idx), func(a, b int) { c.idx[a], c.idx[b] = c.idx[b], c.idx[a] })
		}
	case x < 85:
		c.ic = idxRange
		c.idx = subset()
		bad := []int{-1, n, n + 5, math.MaxInt32, math.MinInt32, -n}[rng.Intn(6)]
		if len(c.idx) >= n { // keep the list short enough that the range error is the reason
			c.idx = c.idx[:n-1]
		}
		c.idx = append(c.idx, bad)
		rng.Shuffle(len(c.idx), func(a, b int) { c.idx[a], c.idx[b] = c.idx[b], c.idx[a] })
	case x < 91:
		c.ic = idxLong
		for len(c.idx) <= n {
			c.idx = append(c.idx, rng.Intn(n))
		}
	default:
		c.ic = idxSigned
		c.idx = subset()
		if len(signed) > 0 {
			c.idx = append(c.idx, signed[rng.Intn(len(signed))])
			rng.Shuffle(len(c.idx), func(a, b int) { c.idx[a], c.idx[b] = c.idx[b], c.idx[a] })
		} else {
			c.ic = idxSubset
		}
	}
	if len(c.idx) == 0 {
		c.idx = nil
		if c.ic != idxNone {
			c.ic = idxNone
		}
	}
	return c
}

// baseName is the wallet kind of a fixture name ("bip44-locked", "bip44-enc" -> "bip44")
func baseName(name string) string {
	return strings.TrimSuffix(strings.TrimSuffix(name, "-locked"), "-enc")
}

func deepCopyTxn(t *coin.Transaction) *coin.Transaction {
	c := *t
	c.Sigs = append([]cipher.Sig(nil), t.Sigs...)
	c.In = append([]cipher.SHA256(nil), t.In...)
	c.Out = append([]coin.TransactionOutput(nil), t.Out...)
	return &c
}

func sameTxn(a, b *coin.Transaction) bool {
	if a.Length != b.Length || a.Type != b.Type || a.InnerHash != b.InnerHash ||
		len(a.Sigs) != len(b.Sigs) || len(a.In) != len(b.In) || len(a.Out) != len(b.Out) {
		return false
	}
	if (a.Sigs == nil) != (b.Sigs == nil) {
		return false
	}
	for i := range a.Sigs {
		if a.Sigs[i] != b.Sigs[i] {
			return false
		}
	}
	for i := range a.In {
		if a.In[i] != b.In[i] {
			return false
		}
	}
	for i := range a.Out {
		if a.Out[i] != b.Out[i] {
			return false
		}
	}
	return true
}

func txnHex(t *coin.Transaction) string {
	if t == nil {
		return ""
	}
	b, err := t.Serialize()
	if err != nil {
		return "unserialisable: " + err.Error()
	}
	return vf.Hex(b)
}

func main() {
	wfix.Quiet()
	r := vf.Start("C13", "exploration")
	n := r.Pick(6000, 200000)
	groups := (n + groupSize - 1) / groupSize

	t0 := time.Now()
	vf.Parallel(groups, 16, func(gi int) {
		grng := r.Rand("group", gi)
		g := buildGroup(grng)
		for ci := 0; ci < groupSize && gi*groupSize+ci < n; ci++ {
			rng := r.Rand("case", gi, ci)
			c := genCase(rng, g)
			evalCase(r, g, c, gi, ci)
		}
	})

	t1 := time.Now() // development timing only (printed on request, decides nothing)
	lifecycleLeg(r)
	t2 := time.Now()
	nodeLeg(r)
	if os.Getenv("C13_TIMING") != "" {
		fmt.Fprintf(os.Stderr, "function leg %v, life-cycle leg %v, node leg %v\n", t1.Sub(t0), t2.Sub(t1), time.Since(t2))
	}

	for _, k := range []string{"must_fail.xpub", "must_fail.encrypted", "must_fail.missing_key", "must_fail.index_out_of_range",
		"must_fail.index_already_signed", "open.duplicate_index", "open.empty_sig_array", "open.nothing_to_sign"} {
		r.Floor(k, int64(r.Pick(50, 500)))
	}
	r.Floor("ok.partial_to_full", int64(r.Pick(200, 2000)))
	r.Floor("ok.stays_partial", int64(r.Pick(100, 1000)))
	r.Floor("ok.unsigned_to_full", int64(r.Pick(100, 1000)))
	r.Floor("signatures.verified_refsecp", int64(r.Pick(2000, 50000)))
	for _, k := range []string{"wallet.deterministic", "wallet.bip44", "wallet.collection"} {
		r.Floor("ok."+k, int64(r.Pick(100, 1000)))
	}
	r.Floor("ok.bip44_change_chain_input", int64(r.Pick(20, 200)))
	// life-cycle leg: every wallet kind signed after a history, in every way of reaching the secrets, and inputs
	// owned by addresses of every (chain, wallet state at generation) class were signed and verified
	for k, q := range map[string]int{
		"life.groups": 40, "life.signatures.verified_refsecp": 600,
		"life.ok.wallet.deterministic": 60, "life.ok.wallet.bip44": 60, "life.ok.wallet.collection": 60,
		"life.ok.state.plain": 40, "life.ok.state.decrypted": 10, "life.ok.state.encrypted/guard-view": 60, "life.ok.state.encrypted/unlocked-copy": 20,
		"life.must_fail.encrypted": 40, "life.must_fail.xpub": 25, "life.must_fail.missing_key": 80,
		"life.history.with.save+load": 60, "life.history.with.lock": 25, "life.history.with.view": 10, "life.history.with.decrypt": 5,
		"life.history.with.generate-change@locked": 4, "life.history.with.scan@locked": 1,
		"life.signed.bip44.chg.locked": 12, "life.signed.bip44.ext.locked": 6, "life.signed.bip44.chg.plain": 12, "life.signed.bip44.chg.created": 12,
		"life.signed.deterministic.ext.guarded": 25, "life.signed.collection.ext.guarded": 25,
	} {
		r.Floor(k, int64(r.Pick(q, 12*q)))
	}
	// node leg: inputs owned by addresses the encrypted wallets generated after encryption
	for k, q := range map[string]int{"node.signed.bip44.chg.locked": 8, "node.signed.bip44.ext.locked": 8, "node.signed.bip44.chg.created": 25,
		"node.signed.deterministic.ext.guarded": 15, "node.signed.collection.ext.guarded": 30} {
		r.Floor(k, int64(r.Pick(q, 6*q)))
	}
	// node leg
	for k, q := range map[string]int{
		"node.accepted.partially_signed": 250, "node.accepted.unsigned": 250,
		"node.must_fail.fully_signed": 120, "node.must_fail.xpub": 40, "node.must_fail.encrypted": 20, "node.must_fail.encrypted_wrong_password": 12,
		"node.must_fail.missing_key": 80, "node.must_fail.no_such_wallet": 15, "node.must_fail.index_out_of_range": 30, "node.must_fail.index_already_signed": 20,
		"node.ok.encrypted_with_password": 150, "node.ok.partial_to_full": 200, "node.ok.stays_partial": 200, "node.ok.unsigned_to_full": 100,
		"node.ok.wallet.deterministic": 150, "node.ok.wallet.bip44": 150, "node.ok.wallet.collection": 150, "node.ok.bip44_change_chain_input": 80,
		"node.seq.partial_result_resubmitted": 200, "node.seq.completed_with_indexes": 60, "node.seq.completed_without_indexes": 60,
		"node.seq.completed.one-wallet": 80, "node.seq.completed.two-wallets": 40, "node.signatures.verified_refsecp": 1200,
	} {
		r.Floor(k, int64(r.Pick(q, 6*q)))
	}
	r.Finish("per case a wallet kind (deterministic / bip44 ext+change / collection / xpub / locked variants), 1..8 inputs each owned by the wallet or by a foreign key, a signature array (empty, all-null, partially pre-signed with valid or garbage signatures, full) and an index list (none, subset, exactly the unsigned set, duplicate, out of range, over-long, pointing at a signed input) are drawn from the seed; a case is distinct by (wallet kind, ownership bitmap, pre-signed bitmap, index list)",
		"life-cycle leg: the same cases and oracle on wallets that have a history before they sign: created plain or encrypted, then a seeded sequence of lock / decrypt / GuardView / generate addresses (bip44: external or change chain; on a plain wallet, on an encrypted wallet without the password, or inside GuardUpdate) / scan ahead / add keys (collection) / serialise+load / clone; the wallet then signs directly, inside GuardView with its password, or on the copy returned by Unlock, and the encrypted wallet without password must refuse; counters life.signed.<kind>.<chain>.<state at generation> say which addresses owned the verified inputs",
		"node leg: Visor.WalletSignTransaction of a real visor + wallet service on a harness-made chain (genesis, a distribution block giving every wallet address and six harness keys unspent outputs, one later block); wallets deterministic / bip44 (external+change) / collection / xpub and three encrypted ones (sha256-xor, scrypt-chacha20poly1305-insecure; each generated further addresses through Service.NewAddresses after it was encrypted: bip44 on both chains without the password, the others with it) addressed with the right / no / a wrong password; transactions are fully valid and spendable (exact coins, burn paid, 0.001 grid), unsigned, partially pre-signed by the real owners, or fully signed; sequences sign a named subset first and resubmit the partially signed result (remaining indexes named, or none; one wallet or two wallets in turn) until complete, then submit the complete transaction again",
		"node leg: the node must sign every such transaction that is not fully signed when the wallet is usable and owns the requested (or all unsigned) inputs, and must refuse fully signed transactions, watch-only wallets, encrypted wallets without the right password, unknown wallet ids and requests for inputs whose key the wallet lacks; an invalid signature already on the transaction, a password given for an unencrypted wallet, an empty signature array and duplicate indexes are left open (conditional clauses only), since the node validates the transaction before signing",
		"entry ownership is read from the wallet under test (derivation correctness is C17): address and public key from the wallet as it is when it signs, the secret key (needed only to pre-sign validly) from the unencrypted wallet or, for wallets that grew while encrypted, from a never-encrypted wallet of the same seed; signature validity is decided by lib/refsecp (verify and recover), addresses by cipher.AddressFromPubKey",
		"index lists with duplicates, an empty signature array, and 'nothing left to sign' are not defined by the statement: only the conditional clauses are checked there",
		"transactions whose signature array length differs from the input count are not generated (Visor rejects them before the wallet is reached)")
}

func evalCase(r *vf.Run, g *group, c *tcase, gi, ci int) (result *coin.Transaction) {
	r.Eval(1)
	pfx := c.pfx()
	n := len(c.txn.In)
	pre := deepCopyTxn(c.txn)
	idxIn := append([]int(nil), c.idx...)

	var res *coin.Transaction
	var err error
	panicked, pmsg, pframe := vf.Recover(func() {
		if c.node != nil {
			res, _, err = c.node.v.WalletSignTransaction(c.wltID, c.pw, c.txn, idxIn)
		} else if c.fx.sign != nil {
			res, err = c.fx.sign(c.txn, idxIn, c.ux)
		} else {
			res, err = wallet.SignTransaction(c.fx.w, c.txn, idxIn, c.ux)
		}
	})

	// model -----------------------------------------------------------------------
	wasNull := make([]bool, n)
	anyNull := false
	for i := 0; i < n; i++ {
		wasNull[i] = c.sc == sigEmpty || pre.Sigs[i].Null()
		anyNull = anyNull || wasNull[i]
	}
	req := map[int]bool{}
	outOfRange, dup, hitsSigned := false, false, false
	if len(c.idx) == 0 {
		for i := 0; i < n; i++ {
			if wasNull[i] {
				req[i] = true
			}
		}
	} else {
		for _, i := range c.idx {
			if i < 0 || i >= n {
				outOfRange = true
				continue
			}
			if req[i] {
				dup = true
			}
			req[i] = true
			if !wasNull[i] {
				hitsSigned = true
			}
		}
	}
	missingKey := false
	for i := range req {
		if !c.ownedBy[i] {
			missingKey = true
		}
	}
	mustFail, reason := false, ""
	switch {
	case c.noWallet:
		mustFail, reason = true, "no_such_wallet"
	case c.fx.why == "xpub":
		mustFail, reason = true, "xpub"
	case c.fx.why == "encrypted" && c.pwClass == "wrong":
		mustFail, reason = true, "encrypted_wrong_password"
	case c.fx.why == "encrypted" && c.pwClass != "correct":
		mustFail, reason = true, "encrypted"
	case c.node != nil && !anyNull:
		// the node refuses transactions that are already fully signed
		mustFail, reason = true, "fully_signed"
	case outOfRange:
		mustFail, reason = true, "index_out_of_range"
	case hitsSigned:
		mustFail, reason = true, "index_already_signed"
	case missingKey:
		mustFail, reason = true, "missing_key"
	}
	open, openWhy := false, ""
	if !mustFail {
		switch {
		case c.garbage && c.node != nil:
			// the node verifies the transaction before signing: an invalid signature already on it is its business
			open, openWhy = true, "invalid_presignature"
		case c.pwClass == "on-unencrypted":
			open, openWhy = true, "password_on_unencrypted"
		case c.sc == sigEmpty:
			open, openWhy = true, "empty_sig_array"
		case len(req) == 0:
			open, openWhy = true, "nothing_to_sign"
		case dup:
			open, openWhy = true, "duplicate_index"
		}
	}
	mustSucceed := !mustFail && !open

	own := make([]byte, n)
	sg := make([]byte, n)
	for i := 0; i < n; i++ {
		own[i], sg[i] = '0', '0'
		if c.ownedBy[i] {
			own[i] = '1'
		}
		if !wasNull[i] {
			sg[i] = '1'
		}
	}
	desc := fmt.Sprintf("%s own=%s sigs=%s/%s idx=%v/%s", c.fx.name, own, sigNames[c.sc], sg, c.idx, idxNames[c.ic])
	leg := "function"
	if c.fx.life {
		leg = "lifecycle"
		desc = "life " + desc + " state=" + c.fx.state
	}
	if c.node != nil {
		leg = "node"
		desc = "node " + desc + " pw=" + c.pwClass
		if c.seq != "" {
			desc += " seq=" + c.seq
		}
		if c.noWallet {
			desc += " unknown-wallet-id"
		}
	}
	r.Distinct(desc)
	attrs := func(extra ...string) map[string]string {
		m := map[string]string{"leg": leg, "wallet": c.fx.name, "sig_class": sigNames[c.sc], "idx_class": idxNames[c.ic], "case": desc}
		if c.node != nil {
			m["password"] = c.pwClass
			m["step"] = c.seq
		}
		for i := 0; i+1 < len(extra); i += 2 {
			m[extra[i]] = extra[i+1]
		}
		return m
	}
	witness := func() map[string]interface{} {
		ux := []string{}
		for _, u := range c.ux {
			ux = append(ux, fmt.Sprintf("%s addr=%s coins=%d hours=%d src=%s", u.Hash().Hex(), u.Body.Address, u.Body.Coins, u.Body.Hours, u.Body.SrcTransaction.Hex()))
		}
		ws, _ := c.fx.w.Serialize()
		m := map[string]interface{}{"group": gi, "case": ci, "desc": desc, "txn_before": txnHex(pre), "txn_after_call": txnHex(c.txn),
			"result": txnHex(res), "sign_indexes": c.idx, "uxouts": ux, "wallet": string(ws)}
		if err != nil {
			m["error"] = err.Error()
		}
		if len(c.fx.script) > 0 {
			m["wallet_history"] = c.fx.script
			m["wallet_state"] = c.fx.state
		}
		if c.node != nil {
			m["leg"] = "node: Visor.WalletSignTransaction(" + c.wltID + ")"
			m["password_class"] = c.pwClass
			m["step"] = c.seq
			m["world"] = c.node.describe()
		}
		return m
	}

	r.Count(pfx+"wallet."+c.fx.name, 1)

	if panicked {
		r.Violation("panic", attrs("frame", pframe, "msg", pmsg), witness())
		return
	}
	// clause: the input transaction object is untouched, whatever the outcome
	if !sameTxn(pre, c.txn) {
		r.Violation("input-transaction-mutated", attrs(), witness())
	}
	if !reflect.DeepEqual(idxIn, c.idx) && len(c.idx) > 0 {
		// (the index list is the caller's too; reported separately, same clause family)
		r.Violation("input-index-list-mutated", attrs(), witness())
	}

	if err != nil {
		if res != nil {
			r.Violation("result-returned-with-error", attrs("error", err.Error()), witness())
		}
		switch {
		case mustFail:
			r.Count(pfx+"must_fail."+reason, 1)
		case open:
			r.Count(pfx+"open."+openWhy, 1)
			r.Count(pfx+"open."+openWhy+".error", 1)
		default:
			r.Violation("unexpected-failure", attrs("error", err.Error()), witness())
		}
		return
	}
	// success ---------------------------------------------------------------------
	if res == nil {
		r.Violation("no-result-without-error", attrs(), witness())
		return
	}
	if mustFail {
		r.Count(pfx+"must_fail."+reason, 1)
		r.Violation("unexpected-success", attrs("expected_failure", reason), witness())
		// fall through: the clauses below say what exactly went wrong
	} else if open {
		r.Count(pfx+"open."+openWhy, 1)
		r.Count(pfx+"open."+openWhy+".success", 1)
	}
	bad := false
	if len(res.In) != n || !reflect.DeepEqual(res.In, pre.In) {
		r.Violation("inputs-changed", attrs(), witness())
		bad = true
	}
	if !reflect.DeepEqual(res.Out, pre.Out) {
		r.Violation("outputs-changed", attrs(), witness())
		bad = true
	}
	if res.InnerHash != pre.InnerHash {
		r.Violation("inner-hash-changed", attrs(), witness())
		bad = true
	}
	if len(res.Sigs) != n {
		r.Violation("signature-array-length", attrs("len", fmt.Sprint(len(res.Sigs))), witness())
		return
	}
	if bad {
		return
	}
	newSigs := 0
	for i := 0; i < n; i++ {
		switch {
		case !wasNull[i]:
			if res.Sigs[i] != pre.Sigs[i] {
				r.Violation("existing-signature-overwritten", attrs("index", fmt.Sprint(i)), witness())
				bad = true
			}
		case req[i]:
			if res.Sigs[i].Null() {
				r.Violation("requested-input-not-signed", attrs("index", fmt.Sprint(i)), witness())
				bad = true
				continue
			}
			newSigs++
			if why := verifySig(g, res, c, i); why != "" {
				r.Violation("bad-signature", attrs("index", fmt.Sprint(i), "why", why), witness())
				bad = true
			} else {
				r.Count(pfx+"signatures.verified_refsecp", 1)
				if b, ok := c.fx.birth[c.ux[i].Body.Address]; ok {
					// which kind of address (chain, wallet state it was generated in) owned the signed input
					r.Count(pfx+"signed."+baseName(c.fx.name)+"."+b, 1)
				}
			}
		default:
			if !res.Sigs[i].Null() {
				r.Violation("unrequested-input-signed", attrs("index", fmt.Sprint(i)), witness())
				bad = true
			}
		}
	}
	if bad {
		return
	}
	result = res
	if !mustSucceed {
		return
	}
	full := true
	for i := 0; i < n; i++ {
		if res.Sigs[i].Null() {
			full = false
		}
	}
	base := baseName(c.fx.name)
	if c.fx.life {
		r.Count("life.ok.state."+c.fx.state, 1)
	}
	if c.node != nil {
		if c.sc == sigPartial {
			r.Count("node.accepted.partially_signed", 1)
		} else {
			r.Count("node.accepted.unsigned", 1)
		}
		if c.fx.why == "encrypted" {
			r.Count("node.ok.encrypted_with_password", 1)
		}
	}
	r.Count(pfx+"ok.wallet."+base, 1)
	switch {
	case full && c.sc == sigPartial:
		r.Count(pfx+"ok.partial_to_full", 1)
	case full:
		r.Count(pfx+"ok.unsigned_to_full", 1)
	default:
		r.Count(pfx+"ok.stays_partial", 1)
	}
	if base == "bip44" {
		// an input owned by a change-chain entry was signed
		ext, _ := c.fx.w.GetEntries(wallet.OptionExternal())
		for i := range req {
			if !ext.Has(c.ux[i].Body.Address) {
				r.Count(pfx+"ok.bip44_change_chain_input", 1)
				break
			}
		}
	}
	if newSigs > 0 {
		idx := []int{}
		for i := range req {
			idx = append(idx, i)
		}
		sort.Ints(idx)
		r.Sample(map[string]interface{}{"leg": leg, "step": c.seq, "wallet": c.fx.name, "inputs": n, "owned": string(own), "presigned": string(sg), "sign_indexes": c.idx, "newly_signed": idx, "fully_signed_after": full})
	}
	return
}

// verifySig checks signature i of res against the address of the output it spends
func verifySig(g *group, res *coin.Transaction, c *tcase, i int) string {
	// message: SHA256(inner hash || hash of the spent output), computed here
	buf := append(append([]byte{}, res.InnerHash[:]...), res.In[i][:]...)
	h := sha256.Sum256(buf)
	sig := res.Sigs[i]
	s, err := refsecp.ParseSig(sig[:])
	if err != nil {
		return "unparsable signature"
	}
	addr := c.ux[i].Body.Address
	// (1) textbook verification under the owner's public key (owner = holder of the address)
	o := c.keys[i]
	if o.sec != (cipher.SecKey{}) {
		ref := g.cache.Pub(o.sec)
		if ref == nil || !bytes.Equal(ref, o.pub[:]) {
			return "fixture: owner key inconsistent"
		}
	}
	if cipher.AddressFromPubKey(o.pub) != addr {
		return "fixture: owner address inconsistent"
	}
	q, err := refsecp.Decompress(o.pub[:])
	if err != nil {
		return "fixture: owner public key invalid"
	}
	if !refsecp.Verify(h[:], s.R, s.S, q) {
		return "ECDSA verification under the owning key fails (reference)"
	}
	// (2) the public key recovered from the signature hashes to the spent output's address
	rq, ok := refsecp.Recover(h[:], s.R, s.S, s.RecID)
	if !ok {
		return "public key recovery fails (reference)"
	}
	rpk, err := cipher.NewPubKey(refsecp.Compress(rq))
	if err != nil {
		return "recovered key rejected: " + err.Error()
	}
	if cipher.AddressFromPubKey(rpk) != addr {
		return "recovered public key does not hash to the spent output's address"
	}
	// (3) the node's own verifier agrees
	if err := cipher.VerifyAddressSignedHash(addr, sig, cipher.SHA256(h)); err != nil {
		return "node verifier rejects: " + err.Error()
	}
	return ""
}
