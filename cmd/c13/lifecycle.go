package main

// Life-cycle leg of C13: the wallets of the function-level leg are made in one call and sign at
// once. Here every wallet has a history before it signs — the statement quantifies over "all
// wallets", and a wallet is what its history made of it. Per group one wallet of every kind
// (deterministic, bip44, collection, xpub) is created (plain, or encrypted at creation) and then
// taken through a seeded sequence of the operations a wallet service performs on it:
//
//	lock (encrypt with a password) / decrypt (Unlock, keep the decrypted copy) / view (GuardView:
//	unlock and throw away) / generate addresses — on the external or the change chain (bip44), on a
//	plain wallet, on an encrypted wallet without the password (bip44 only, as Service.NewAddresses
//	and PeekChangeAddress do), or inside GuardUpdate with the password — / scan ahead with a
//	scripted activity oracle (same three ways) / add private keys (collection) / serialise and load
//	again / clone.
//
// After the history the wallet signs: directly when it ended unencrypted, otherwise with the
// password inside wallet.GuardView (what Visor.WalletSignTransaction does) or on the copy returned
// by one Unlock. The encrypted wallet itself (no password) is the must-fail variant. Transactions,
// signature arrays, index lists and the oracle are those of the function-level leg (genCase,
// evalCase): in particular every produced signature must verify, by lib/refsecp, against the
// address of the output it spends — whatever chain that address is on and whatever state the wallet
// was in when it handed the address out.
//
// Ownership: addresses and public keys are read from the wallet after its history (an encrypted
// wallet shows both); the matching secret keys, needed only to pre-sign inputs validly, come from
// a twin wallet of the same seed that was never encrypted.

import (
	"fmt"
	"math/rand"
	"sort"
	"strings"

	"github.com/skycoin/skycoin/src/cipher"
	"github.com/skycoin/skycoin/src/cipher/crypto"
	"github.com/skycoin/skycoin/src/coin"
	"github.com/skycoin/skycoin/src/wallet"

	"verif/lib/vf"
	"verif/lib/wfix"
)

type lcWallet struct {
	typ     string
	w       wallet.Wallet
	enc     bool
	everEnc bool
	pw      []byte
	seed    string
	pass    string
	keys    []cipher.SecKey   // collection: every key ever added
	xsrc    wallet.Wallet     // xpub: the bip44 wallet whose external chain is watched
	birth   map[string]string // address -> wallet state it was generated in
	script  []string
}

func (s *lcWallet) addrs() map[string]bool {
	fes, err := wfix.AllEntries(s.w)
	must(err)
	out := map[string]bool{}
	for _, fe := range fes {
		out[fe.E.Address.String()] = true
	}
	return out
}

// step runs one operation and labels the addresses it added with the state they were generated in
func (s *lcWallet) step(desc, mode string, f func()) {
	var before map[string]bool
	if mode != "" {
		before = s.addrs()
	}
	f()
	s.script = append(s.script, desc)
	if mode != "" {
		for a := range s.addrs() {
			if !before[a] {
				s.birth[a] = mode
			}
		}
	}
}

func lcPassword(rng *rand.Rand) []byte { return []byte("pw-" + wfix.RandToken(rng, 7)) }

func newLifeWallet(rng *rand.Rand, typ string) *lcWallet {
	s := &lcWallet{typ: typ, birth: map[string]string{}}
	opts := wallet.Options{Type: typ, GenerateN: uint64(1 + rng.Intn(3))}
	switch typ {
	case wallet.WalletTypeDeterministic:
		s.seed = wfix.SeedString(rng)
	case wallet.WalletTypeBip44:
		s.seed = wfix.Mnemonic(rng)
		s.pass = []string{"", "pass " + wfix.RandToken(rng, 6)}[rng.Intn(2)]
		opts.SeedPassphrase = s.pass
	case wallet.WalletTypeCollection:
		for i, n := 0, 1+rng.Intn(3); i < n; i++ {
			s.keys = append(s.keys, wfix.SecKey(rng))
		}
		opts.CollectionPrivateKeys = append([]cipher.SecKey(nil), s.keys...)
		opts.GenerateN = 0
	case wallet.WalletTypeXPub:
		src, err := wallet.NewWallet("lcx.wlt", "lcx", wfix.Mnemonic(rng), wallet.Options{Type: wallet.WalletTypeBip44, GenerateN: 1})
		must(err)
		s.xsrc = src
		opts.XPub = xpubOf(src)
	}
	how := "create"
	if typ != wallet.WalletTypeXPub && rng.Intn(4) == 0 {
		s.pw = lcPassword(rng)
		opts.Encrypt, opts.Password, opts.CryptoType = true, append([]byte(nil), s.pw...), crypto.CryptoTypeSha256Xor
		s.enc, s.everEnc = true, true
		how = "create-encrypted"
	}
	var err error
	s.w, err = wallet.NewWallet("lc-"+typ+".wlt", "lc", s.seed, opts)
	must(err)
	if s.w.IsEncrypted() != s.enc {
		panic("life-cycle: wallet encryption state after creation is not the requested one")
	}
	s.script = append(s.script, fmt.Sprintf("%s(n=%d)", how, len(s.addrs())))
	for a := range s.addrs() {
		s.birth[a] = "created"
	}
	return s
}

// generate: new addresses (or keys) in the way the wallet's state and kind allow
func (s *lcWallet) generate(rng *rand.Rand) {
	k := 1 + rng.Intn(2)
	opts := []wallet.Option{wallet.OptionGenerateN(uint64(k))}
	what := fmt.Sprintf("generate(%d)", k)
	switch s.typ {
	case wallet.WalletTypeBip44:
		if rng.Intn(5) < 3 {
			opts = append(opts, wallet.OptionChange())
			what = fmt.Sprintf("generate-change(%d)", k)
		} else if rng.Intn(2) == 0 {
			opts = append(opts, wallet.OptionExternal())
			what = fmt.Sprintf("generate-external(%d)", k)
		}
	case wallet.WalletTypeCollection:
		ks := []cipher.SecKey{}
		for i := 0; i < k; i++ {
			ks = append(ks, wfix.SecKey(rng))
		}
		s.keys = append(s.keys, ks...)
		opts = []wallet.Option{wallet.OptionCollectionPrivateKeys(ks)}
		what = fmt.Sprintf("add-keys(%d)", k)
	}
	gen := func(w wallet.Wallet) error {
		a, err := w.GenerateAddresses(opts...)
		if err == nil && len(a) != k {
			err = fmt.Errorf("%d addresses generated, %d requested", len(a), k)
		}
		return err
	}
	s.apply(rng, what, gen)
}

// scan: ScanAddresses with a scripted activity answer that keeps at least one new address per call
func (s *lcWallet) scan(rng *rand.Rand) {
	n := 2 + rng.Intn(2)
	tf := &wfix.StubTF{}
	for i := 0; i < 2; i++ { // bip44 asks once per chain
		p := make([]bool, n)
		p[rng.Intn(n)] = true
		tf.Patterns = append(tf.Patterns, p)
	}
	s.apply(rng, fmt.Sprintf("scan(%d)", n), func(w wallet.Wallet) error {
		_, err := w.ScanAddresses(uint64(n), tf)
		return err
	})
}

// apply runs an address-adding operation: directly on a plain wallet; on an encrypted wallet either
// without the password (bip44 and xpub need no secrets to derive addresses) or inside GuardUpdate
func (s *lcWallet) apply(rng *rand.Rand, what string, f func(w wallet.Wallet) error) {
	switch {
	case !s.enc:
		s.step(what, "plain", func() { must(f(s.w)) })
	case s.typ == wallet.WalletTypeBip44 && rng.Intn(3) != 0:
		s.step(what+"@locked", "locked", func() { must(f(s.w)) })
	default:
		s.step(what+"@guard-update", "guarded", func() { must(wallet.GuardUpdate(s.w, s.pw, f)) })
	}
}

func (s *lcWallet) lock(rng *rand.Rand) {
	s.pw = lcPassword(rng)
	s.step("lock", "", func() {
		s.w.SetCryptoType(crypto.CryptoTypeSha256Xor)
		must(s.w.Lock(append([]byte(nil), s.pw...)))
	})
	s.enc, s.everEnc = true, true
}

func (s *lcWallet) reload() {
	s.step("save+load", "", func() {
		data, err := s.w.Serialize()
		must(err)
		w, err := wfix.LoadBytes(s.typ, data)
		must(err)
		s.w = w
	})
}

// history draws and runs the operations
func (s *lcWallet) history(rng *rand.Rand) {
	for i, n := 0, 3+rng.Intn(5); i < n; i++ {
		x := rng.Intn(100)
		if s.typ == wallet.WalletTypeXPub {
			switch {
			case x < 50:
				s.generate(rng)
			case x < 80:
				s.reload()
			default:
				s.step("clone", "", func() { s.w = s.w.Clone() })
			}
			continue
		}
		switch {
		case x < 40:
			s.generate(rng)
		case x < 48 && s.typ != wallet.WalletTypeCollection:
			s.scan(rng)
		case x < 66:
			if !s.enc {
				s.lock(rng)
			} else if rng.Intn(3) == 0 {
				s.step("decrypt", "", func() {
					u, err := s.w.Unlock(append([]byte(nil), s.pw...))
					must(err)
					s.w = u
				})
				s.enc = false
			} else {
				s.step("view", "", func() {
					must(wallet.GuardView(s.w, append([]byte(nil), s.pw...), func(wallet.Wallet) error { return nil }))
				})
			}
		case x < 88:
			s.reload()
		default:
			s.step("clone", "", func() { s.w = s.w.Clone() })
		}
	}
	if s.w.IsEncrypted() != s.enc {
		panic("life-cycle: wallet encryption state differs from the history's")
	}
}

// twinSecrets: address -> secret key, from a wallet of the same seed that was never encrypted
func (s *lcWallet) twinSecrets() map[string]cipher.SecKey {
	return twinSecrets(s.w, s.seed, s.pass, s.keys, s.xsrc)
}

// twinSecrets makes a never-encrypted wallet of w's kind from the same seed (collection: keys; xpub:
// the bip44 wallet it watches) with as many addresses per chain as w has, and returns its secrets by address
func twinSecrets(w wallet.Wallet, seed, pass string, keys []cipher.SecKey, xsrc wallet.Wallet) map[string]cipher.SecKey {
	fes, err := wfix.AllEntries(w)
	must(err)
	cnt := map[uint32]int{}
	for _, fe := range fes {
		cnt[fe.Chain]++
	}
	var tw wallet.Wallet
	switch typ := w.Type(); typ {
	case wallet.WalletTypeDeterministic:
		tw, err = wallet.NewWallet("tw.wlt", "tw", seed, wallet.Options{Type: typ, GenerateN: uint64(cnt[0])})
		must(err)
	case wallet.WalletTypeBip44:
		tw, err = wallet.NewWallet("tw.wlt", "tw", seed, wallet.Options{Type: typ, SeedPassphrase: pass, GenerateN: uint64(cnt[0])})
		must(err)
		if have, err := tw.EntriesLen(wallet.OptionChange()); err == nil && cnt[1] > have {
			_, err = tw.GenerateAddresses(wallet.OptionGenerateN(uint64(cnt[1]-have)), wallet.OptionChange())
			must(err)
		}
	case wallet.WalletTypeCollection:
		tw, err = wallet.NewWallet("tw.wlt", "tw", "", wallet.Options{Type: typ, CollectionPrivateKeys: keys})
		must(err)
	case wallet.WalletTypeXPub:
		tw = xsrc.Clone()
		if have, err := tw.EntriesLen(wallet.OptionExternal()); err == nil && cnt[0] > have {
			_, err = tw.GenerateAddresses(wallet.OptionGenerateN(uint64(cnt[0]-have)), wallet.OptionExternal())
			must(err)
		}
	}
	tes, err := wfix.AllEntries(tw)
	must(err)
	out := map[string]cipher.SecKey{}
	for _, fe := range tes {
		out[fe.E.Address.String()] = fe.E.Secret
	}
	return out
}

// fixtures: the usable wallet (with the way it reaches its secrets) and its must-fail encrypted variant
func (s *lcWallet) fixtures(rng *rand.Rand, name string) (usable, locked fixture) {
	secs := s.twinSecrets()
	fes, err := wfix.AllEntries(s.w)
	must(err)
	birth := map[cipher.Address]string{}
	var owned []owner
	for _, fe := range fes {
		a := fe.E.SkycoinAddress()
		owned = append(owned, owner{addr: a, pub: fe.E.Public, sec: secs[a.String()]})
		chain := "ext"
		if fe.Chain == 1 {
			chain = "chg"
		}
		birth[a] = chain + "." + s.birth[a.String()]
	}
	usable = fixture{name: name, w: s.w, owned: owned, canSign: true, life: true, script: s.script, birth: birth}
	locked = fixture{name: name + "-locked", owned: owned, why: "encrypted", life: true, script: s.script, state: "encrypted/no-password"}
	pw := append([]byte(nil), s.pw...)
	switch {
	case s.typ == wallet.WalletTypeXPub:
		usable.canSign, usable.why, usable.state = false, "xpub", "watch-only"
	case !s.enc:
		usable.state = "plain"
		if s.everEnc {
			usable.state = "decrypted"
		}
		lw := s.w.Clone()
		lw.SetCryptoType(crypto.CryptoTypeSha256Xor)
		must(lw.Lock(lcPassword(rng)))
		locked.w = lw
		locked.script = append(append([]string{}, s.script...), "clone+lock")
	case rng.Intn(3) != 0:
		// the password goes with every call: unlock, sign, throw the unlocked copy away
		usable.state = "encrypted/guard-view"
		w := s.w
		usable.sign = func(txn *coin.Transaction, idx []int, ux []coin.UxOut) (res *coin.Transaction, err error) {
			err = wallet.GuardView(w, append([]byte(nil), pw...), func(u wallet.Wallet) error {
				var e error
				res, e = wallet.SignTransaction(u, txn, idx, ux)
				return e
			})
			if err != nil {
				res = nil
			}
			return
		}
		locked.w = s.w.Clone()
	default:
		// unlocked once; the decrypted copy signs everything
		usable.state = "encrypted/unlocked-copy"
		locked.w = s.w.Clone()
		u, err := s.w.Unlock(pw)
		must(err)
		usable.w = u
	}
	return
}

// buildLifeGroup: same layout as buildGroup (genCase picks fixtures by position)
func buildLifeGroup(rng *rand.Rand) (g *group, scripts [][]string) {
	g = &group{cache: wfix.NewRefPubCache()}
	var lockedFx []fixture
	for _, typ := range []string{wallet.WalletTypeDeterministic, wallet.WalletTypeBip44, wallet.WalletTypeCollection, wallet.WalletTypeXPub} {
		s := newLifeWallet(rng, typ)
		s.history(rng)
		u, l := s.fixtures(rng, typ)
		g.fixtures = append(g.fixtures, u)
		if typ != wallet.WalletTypeXPub {
			lockedFx = append(lockedFx, l)
		}
		scripts = append(scripts, s.script)
	}
	g.fixtures = append(g.fixtures, lockedFx...)
	for i := 0; i < 6; i++ {
		sk := wfix.SecKey(rng)
		pk, err := cipher.NewPubKey(g.cache.Pub(sk))
		must(err)
		g.foreign = append(g.foreign, owner{addr: cipher.AddressFromPubKey(pk), sec: sk, pub: pk})
	}
	return
}

func lifecycleLeg(r *vf.Run) {
	const perGroup = 30
	groups := r.Pick(48, 1200)
	vf.Parallel(groups, 16, func(gi int) {
		var g *group
		var scripts [][]string
		panicked, msg, frame := vf.Recover(func() { g, scripts = buildLifeGroup(r.Rand("life-group", gi)) })
		if panicked {
			// an operation of the history failed: nothing to judge here (wallet operations are other properties' subject)
			r.Inconclusive(fmt.Sprintf("life-cycle leg: wallet history %d could not be run: %s (%s)", gi, msg, frame))
			return
		}
		r.Count("life.groups", 1)
		for _, sc := range scripts {
			// histories containing each operation (operation name without its count, with the state it ran in)
			seen := map[string]bool{}
			for _, op := range sc {
				name := strings.SplitN(op, "(", 2)[0]
				if i := strings.Index(op, "@"); i >= 0 {
					name += op[i:]
				}
				seen[name] = true
			}
			ops := []string{}
			for op := range seen {
				ops = append(ops, op)
			}
			sort.Strings(ops)
			for _, op := range ops {
				r.Count("life.history.with."+op, 1)
			}
		}
		for ci := 0; ci < perGroup; ci++ {
			c := genCase(r.Rand("life-case", gi, ci), g)
			evalCase(r, g, c, 5000+gi, ci)
		}
	})
}
