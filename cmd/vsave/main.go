// vsave is the child of check C20 (wallet and key-value files survive a crash during a save).
//
//	vsave prep <spec.json>                  build the pre-state directory described by the spec
//	vsave op   <spec.json> <result.json>    perform exactly one save operation (run under strace)
//	vsave load <wallet|kv> <dir> <report.json>   fresh-process start-up on a (crash) state; report what was loaded
//
// It only drives the product API (wallet.Service, kvstorage.Manager); all judging is done by cmd/c20.
package main

import (
	"crypto/sha256"
	"encoding/hex"
	"encoding/json"
	"fmt"
	"io/ioutil"
	"os"
	"runtime"
	"sort"

	"github.com/skycoin/skycoin/src/cipher"
	"github.com/skycoin/skycoin/src/cipher/bip32"
	"github.com/skycoin/skycoin/src/cipher/bip39"
	"github.com/skycoin/skycoin/src/cipher/bip44"
	"github.com/skycoin/skycoin/src/cipher/crypto"
	"github.com/skycoin/skycoin/src/kvstorage"
	"github.com/skycoin/skycoin/src/util/logging"
	"github.com/skycoin/skycoin/src/wallet"
	_ "github.com/skycoin/skycoin/src/wallet/bip44wallet"
	_ "github.com/skycoin/skycoin/src/wallet/collection"
	_ "github.com/skycoin/skycoin/src/wallet/deterministic"
	_ "github.com/skycoin/skycoin/src/wallet/xpubwallet"

	"verif/lib/fstrace"
)

// WalletSpec describes one wallet of the pre-state
type WalletSpec struct {
	Name     string `json:"name"`
	Type     string `json:"type"`    // deterministic | bip44 | collection | xpub
	Entropy  string `json:"entropy"` // hex, 16 bytes: seed material (mnemonic for bip44/xpub, hex string for deterministic, key material for collection)
	Label    string `json:"label"`
	Entries  int    `json:"entries"`
	Encrypt  bool   `json:"encrypt"`
	Crypto   string `json:"crypto"`
	Password string `json:"password"`
}

// Spec describes one recorded run
type Spec struct {
	Family string `json:"family"` // wallet | kv
	Kind   string `json:"kind"`   // create newaddr scan label encrypt decrypt recover | kvadd kvoverwrite kvremove
	Dir    string `json:"dir"`

	Target      WalletSpec   `json:"target"`       // the wallet being saved (for create: the wallet to create)
	Others      []WalletSpec `json:"others"`       // wallets that must stay untouched
	N           int          `json:"n"`            // addresses to generate / scan window
	ScanHit     int          `json:"scan_hit"`     // 1-based index inside the scan window that shows activity
	NewLabel    string       `json:"new_label"`    //
	NewPassword string       `json:"new_password"` // recover: password of the recovered wallet ("" = unencrypted)

	Keys      map[string]string `json:"keys"`       // client storage before the operation
	OtherKeys map[string]string `json:"other_keys"` // txid storage (must stay untouched)
	Key       string            `json:"key"`
	Value     string            `json:"value"`
}

func die(f string, a ...interface{}) {
	fmt.Fprintf(os.Stderr, "vsave: "+f+"\n", a...)
	os.Exit(3)
}

func readSpec(p string) Spec {
	b, err := ioutil.ReadFile(p)
	if err != nil {
		die("%v", err)
	}
	var s Spec
	if err := json.Unmarshal(b, &s); err != nil {
		die("spec: %v", err)
	}
	return s
}

func writeJSON(p string, v interface{}) {
	b, err := json.MarshalIndent(v, "", " ")
	if err != nil {
		die("marshal: %v", err)
	}
	// the report goes outside the directory under observation
	if err := ioutil.WriteFile(p, b, 0600); err != nil {
		die("%v", err)
	}
}

func main() {
	logging.Disable()
	if len(os.Args) < 2 {
		die("usage: vsave prep|op|load ...")
	}
	switch os.Args[1] {
	case "prep":
		if len(os.Args) != 3 {
			die("usage: vsave prep spec.json")
		}
		prep(readSpec(os.Args[2]))
	case "op":
		if len(os.Args) != 4 {
			die("usage: vsave op spec.json result.json")
		}
		op(readSpec(os.Args[2]), os.Args[3])
	case "load":
		if len(os.Args) != 5 {
			die("usage: vsave load wallet|kv dir report.json")
		}
		load(os.Args[2], os.Args[3], os.Args[4])
	default:
		die("unknown mode %q", os.Args[1])
	}
}

// ---------------------------------------------------------------------------------------------

func walletConfig(dir string) wallet.Config {
	bc := bip44.CoinTypeSkycoin
	return wallet.Config{
		WalletDir:       dir,
		CryptoType:      crypto.CryptoTypeSha256Xor,
		EnableWalletAPI: true,
		EnableSeedAPI:   true,
		Bip44Coin:       &bc,
	}
}

func kvConfig(dir string) kvstorage.Config {
	return kvstorage.Config{
		StorageDir:       dir,
		EnabledStorages:  []kvstorage.Type{kvstorage.TypeGeneral, kvstorage.TypeTxIDNotes},
		EnableStorageAPI: true,
	}
}

func entropy(w WalletSpec) []byte {
	b, err := hex.DecodeString(w.Entropy)
	if err != nil || len(b) != 16 {
		die("wallet %s: entropy must be 16 hex bytes", w.Name)
	}
	return b
}

// seedOf returns the seed string of a wallet spec
func seedOf(w WalletSpec) string {
	switch w.Type {
	case wallet.WalletTypeBip44, wallet.WalletTypeXPub:
		m, err := bip39.NewMnemonic(entropy(w))
		if err != nil {
			die("mnemonic: %v", err)
		}
		return m
	}
	return "seed-" + w.Entropy
}

func options(w WalletSpec) wallet.Options {
	o := wallet.Options{
		Type:       w.Type,
		Label:      w.Label,
		Seed:       seedOf(w),
		Encrypt:    w.Encrypt,
		CryptoType: crypto.CryptoType(w.Crypto),
		GenerateN:  uint64(w.Entries),
	}
	if w.Encrypt {
		o.Password = []byte(w.Password)
	}
	switch w.Type {
	case wallet.WalletTypeCollection:
		o.Seed = ""
		o.GenerateN = 0
		n := w.Entries
		if n < 1 {
			n = 1
		}
		seed := entropy(w)
		for i := 0; i < n; i++ {
			var sec cipher.SecKey
			var err error
			seed, sec, err = nextKey(seed)
			if err != nil {
				die("collection key: %v", err)
			}
			o.CollectionPrivateKeys = append(o.CollectionPrivateKeys, sec)
		}
	case wallet.WalletTypeXPub:
		o.Seed = ""
		seed, err := bip39.NewSeed(seedOf(w), "")
		if err != nil {
			die("bip39 seed: %v", err)
		}
		k, err := bip32.NewPrivateKeyFromPath(seed, "m/44'/8000'/0'/0")
		if err != nil {
			die("bip32: %v", err)
		}
		o.XPub = k.PublicKey().String()
		o.Encrypt = false
		o.Password = nil
	}
	return o
}

func nextKey(seed []byte) ([]byte, cipher.SecKey, error) {
	next, _, sec, err := cipher.DeterministicKeyPairIterator(seed)
	return next, sec, err
}

func createWallet(serv *wallet.Service, w WalletSpec) {
	if _, err := serv.CreateWallet(w.Name, options(w)); err != nil {
		die("prep: create %s: %v", w.Name, err)
	}
}

func prep(s Spec) {
	if err := os.MkdirAll(s.Dir, 0700); err != nil {
		die("%v", err)
	}
	switch s.Family {
	case "wallet":
		serv, err := wallet.NewService(walletConfig(s.Dir))
		if err != nil {
			die("prep: NewService: %v", err)
		}
		for _, o := range s.Others {
			createWallet(serv, o)
		}
		if s.Kind != "create" {
			createWallet(serv, s.Target)
		}
	case "kv":
		m, err := kvstorage.NewManager(kvConfig(s.Dir))
		if err != nil {
			die("prep: NewManager: %v", err)
		}
		for _, k := range sortedKeys(s.Keys) {
			if err := m.AddStorageValue(kvstorage.TypeGeneral, k, s.Keys[k]); err != nil {
				die("prep: add: %v", err)
			}
		}
		for _, k := range sortedKeys(s.OtherKeys) {
			if err := m.AddStorageValue(kvstorage.TypeTxIDNotes, k, s.OtherKeys[k]); err != nil {
				die("prep: add: %v", err)
			}
		}
	default:
		die("unknown family %q", s.Family)
	}
}

func sortedKeys(m map[string]string) []string {
	ks := make([]string, 0, len(m))
	for k := range m {
		ks = append(ks, k)
	}
	sort.Strings(ks)
	return ks
}

// ---------------------------------------------------------------------------------------------

// OpResult is what "vsave op" reports
type OpResult struct {
	OK    bool   `json:"ok"`
	Error string `json:"error,omitempty"`
}

// hitFinder reports activity on the hit-th address of each scanned batch
type hitFinder struct{ hit int }

func (h hitFinder) AddressesActivity(addrs []cipher.Addresser) ([]bool, error) {
	out := make([]bool, len(addrs))
	if h.hit >= 1 && h.hit <= len(addrs) {
		out[h.hit-1] = true
	}
	return out, nil
}

func op(s Spec, resultPath string) {
	// all system calls of the operation come from this thread, in program order
	runtime.LockOSThread()
	var opErr error
	switch s.Family {
	case "wallet":
		serv, err := wallet.NewService(walletConfig(s.Dir))
		if err != nil {
			die("op: NewService: %v", err)
		}
		t := s.Target
		var pw []byte
		if t.Encrypt {
			pw = []byte(t.Password)
		}
		fstrace.Mark("begin")
		switch s.Kind {
		case "create":
			_, opErr = serv.CreateWallet(t.Name, options(t))
		case "newaddr":
			if t.Type == wallet.WalletTypeBip44 || t.Type == wallet.WalletTypeXPub {
				pw = nil
			}
			_, opErr = serv.NewAddresses(t.Name, pw, wallet.OptionGenerateN(uint64(s.N)))
		case "scan":
			if t.Type == wallet.WalletTypeBip44 || t.Type == wallet.WalletTypeXPub {
				pw = nil
			}
			_, opErr = serv.ScanAddresses(t.Name, pw, uint64(s.N), hitFinder{s.ScanHit})
		case "label":
			opErr = serv.UpdateWalletLabel(t.Name, s.NewLabel)
		case "encrypt":
			_, opErr = serv.EncryptWallet(t.Name, []byte(t.Password))
		case "decrypt":
			_, opErr = serv.DecryptWallet(t.Name, []byte(t.Password))
		case "recover":
			var npw []byte
			if s.NewPassword != "" {
				npw = []byte(s.NewPassword)
			}
			_, opErr = serv.RecoverWallet(t.Name, seedOf(t), "", npw)
		default:
			die("unknown wallet save kind %q", s.Kind)
		}
		fstrace.Mark("end")
	case "kv":
		m, err := kvstorage.NewManager(kvConfig(s.Dir))
		if err != nil {
			die("op: NewManager: %v", err)
		}
		fstrace.Mark("begin")
		switch s.Kind {
		case "kvadd", "kvoverwrite":
			opErr = m.AddStorageValue(kvstorage.TypeGeneral, s.Key, s.Value)
		case "kvremove":
			opErr = m.RemoveStorageValue(kvstorage.TypeGeneral, s.Key)
		default:
			die("unknown kv save kind %q", s.Kind)
		}
		fstrace.Mark("end")
	default:
		die("unknown family %q", s.Family)
	}
	res := OpResult{OK: opErr == nil}
	if opErr != nil {
		res.Error = opErr.Error()
	}
	writeJSON(resultPath, res)
}

// ---------------------------------------------------------------------------------------------

// WalletReport is what the service holds for one wallet after start-up
type WalletReport struct {
	Digest    string `json:"digest"` // sha256 of the wallet's own serialisation as loaded
	Label     string `json:"label"`
	Type      string `json:"type"`
	Encrypted bool   `json:"encrypted"`
	Crypto    string `json:"crypto"`
	Entries   int    `json:"entries"`
	First     string `json:"first"` // first address
	Last      string `json:"last"`  // last address
}

// LoadReport is what "vsave load" reports
type LoadReport struct {
	Started bool                         `json:"started"`
	Error   string                       `json:"error,omitempty"`
	Wallets map[string]WalletReport      `json:"wallets,omitempty"`
	KV      map[string]map[string]string `json:"kv,omitempty"`
	Files   []string                     `json:"files"` // directory listing after start-up
}

func load(family, dir, reportPath string) {
	rep := LoadReport{}
	switch family {
	case "wallet":
		serv, err := wallet.NewService(walletConfig(dir))
		if err != nil {
			rep.Error = err.Error()
			break
		}
		wlts, err := serv.GetWallets()
		if err != nil {
			rep.Error = "GetWallets: " + err.Error()
			break
		}
		rep.Started = true
		rep.Wallets = map[string]WalletReport{}
		for name, w := range wlts {
			rep.Wallets[name] = describe(w)
		}
	case "kv":
		m, err := kvstorage.NewManager(kvConfig(dir))
		if err != nil {
			rep.Error = err.Error()
			break
		}
		rep.Started = true
		rep.KV = map[string]map[string]string{}
		for _, t := range []kvstorage.Type{kvstorage.TypeGeneral, kvstorage.TypeTxIDNotes} {
			vals, err := m.GetAllStorageValues(t)
			if err != nil {
				rep.Started = false
				rep.Error = fmt.Sprintf("GetAllStorageValues(%s): %v", t, err)
				break
			}
			rep.KV[string(t)] = vals
		}
	default:
		die("unknown family %q", family)
	}
	ents, err := ioutil.ReadDir(dir)
	if err != nil {
		die("readdir: %v", err)
	}
	for _, e := range ents {
		rep.Files = append(rep.Files, e.Name())
	}
	sort.Strings(rep.Files)
	writeJSON(reportPath, rep)
}

func describe(w wallet.Wallet) WalletReport {
	r := WalletReport{
		Label:     w.Label(),
		Type:      w.Type(),
		Encrypted: w.IsEncrypted(),
		Crypto:    string(w.CryptoType()),
	}
	b, err := w.Serialize()
	if err != nil {
		r.Digest = "serialize-error: " + err.Error()
	} else {
		h := sha256.Sum256(b)
		r.Digest = hex.EncodeToString(h[:])
	}
	var addrs []cipher.Addresser
	if w.Type() == wallet.WalletTypeBip44 {
		for _, o := range []wallet.Option{wallet.OptionExternal(), wallet.OptionChange()} {
			a, err := w.GetAddresses(o)
			if err == nil {
				addrs = append(addrs, a...)
			}
		}
	} else {
		addrs, _ = w.GetAddresses()
	}
	r.Entries = len(addrs)
	if len(addrs) > 0 {
		r.First = addrs[0].String()
		r.Last = addrs[len(addrs)-1].String()
	}
	return r
}
