// vpool is the child process of check C32: it runs rounds of concurrent stress against one
// real gnet.ConnectionPool under the race detector (this binary is built with -race) with
// seeded schedule noise at the verifPoint hooks, decides the trace spec / shutdown / leak
// monitors for each round and appends one JSON line per round to -out. Race reports go to
// the GORACE log_path set by the parent (c32), which parses and attributes them.
//
// Rules this file obeys so that it neither hides nor fabricates races:
//   - pool.Config is never touched after NewConnectionPool;
//   - the event clock / logs used from pool goroutines (callbacks, handlers, schedule
//     points) are lib/sched's race-detector-invisible ones, worker op logs are goroutine
//     local and only merged after the worker was joined;
//   - Connection copies returned by the pool are only asked for ID / Addr().
package main

import (
	"crypto/sha256"
	"encoding/hex"
	"encoding/json"
	"errors"
	"flag"
	"fmt"
	"io"
	"math/rand"
	"net"
	"os"
	"runtime"
	"sort"
	"strings"
	"sync"
	"time"

	"github.com/skycoin/skycoin/src/daemon/gnet"
	"github.com/skycoin/skycoin/src/daemon/strand"

	"verif/lib/poolmsg"
	"verif/lib/sched"
)

var (
	flagSeed      = flag.Int64("seed", 1, "run seed")
	flagFirst     = flag.Int("first", 0, "first round index")
	flagCount     = flag.Int("count", 1, "number of rounds")
	flagSlot      = flag.Int("slot", 0, "port slot of this child")
	flagOut       = flag.String("out", "", "result file (JSON lines)")
	flagWatch     = flag.Duration("watchdog", 120*time.Second, "per-round watchdog (only collects a goroutine dump)")
	flagShutWatch = flag.Duration("shutwatch", 30*time.Second, "watchdog for the phase in which only Shutdown/Run are awaited")
	flagNoise     = flag.Bool("noise", true, "schedule noise at verif points")
	flagEOFMax    = flag.Duration("eofwait", 10*time.Second, "how long a peer waits to see its socket closed after Shutdown returned")
)

// Viol is one refuting observation of a round
type Viol struct {
	Kind   string            `json:"kind"`
	Attrs  map[string]string `json:"attrs"`
	Detail string            `json:"detail"`
}

// Hang is what the watchdog collected
type Hang struct {
	Awaited string   `json:"awaited"`
	Witness bool     `json:"witness"`
	View    []string `json:"view"`
	Dump    string   `json:"dump"`
}

// RoundResult is one line of the -out file
type RoundResult struct {
	Round            int              `json:"round"`
	Mode             string           `json:"mode"`
	Workers          int              `json:"workers"`
	ListenFailed     bool             `json:"listen_failed,omitempty"`
	Ops              map[string]int64 `json:"ops"`
	Callbacks        map[string]int64 `json:"callbacks"`
	Reasons          map[string]int64 `json:"reasons"`
	Received         int64            `json:"received"`
	SendResults      int64            `json:"send_results"`
	Violations       []Viol           `json:"violations,omitempty"`
	Hang             *Hang            `json:"hang,omitempty"`
	OrderHash        string           `json:"order_hash"`
	ShutdownSig      string           `json:"shutdown_sig"`
	Points           [8]int64         `json:"points"`
	NoiseActs        [3]int64         `json:"noise_acts"`
	ShutdownUs       int64            `json:"shutdown_us"`
	Sizes            [5]int           `json:"sizes"`
	PeerSockets      int              `json:"peer_sockets"`
	PeerClosed       int              `json:"peer_closed"`
	PeerUnattributed int              `json:"peer_unattributed,omitempty"`
	LogDropped       int64            `json:"log_dropped,omitempty"`
	LateEvents       int64            `json:"late_events,omitempty"`
	Note             string           `json:"note,omitempty"`
}

var out *os.File

func emit(rr *RoundResult) {
	b, err := json.Marshal(rr)
	if err != nil {
		fmt.Fprintf(os.Stderr, "marshal: %v\n", err)
		os.Exit(3)
	}
	out.Write(append(b, '\n')) //nolint:errcheck
	out.Sync()                 //nolint:errcheck
}

func main() {
	flag.Parse()
	if *flagOut == "" {
		fmt.Fprintln(os.Stderr, "vpool: -out required")
		os.Exit(3)
	}
	var err error
	out, err = os.OpenFile(*flagOut, os.O_CREATE|os.O_WRONLY|os.O_APPEND, 0644)
	if err != nil {
		fmt.Fprintln(os.Stderr, err)
		os.Exit(3)
	}
	poolmsg.QuietLogs()
	poolmsg.Register()

	var done []*roundState
	for i := 0; i < *flagCount; i++ {
		idx := *flagFirst + i
		rs := newRound(idx)
		finished := make(chan struct{})
		go func() {
			rs.run()
			close(finished)
		}()
		select {
		case <-finished:
			emit(rs.res)
			done = append(done, rs)
		case <-watch(rs, finished):
			// the round goroutine is still alive and owns rs.res: report on a fresh record
			hr := &RoundResult{Round: rs.idx, Mode: rs.mode, Workers: rs.nWorkers, Note: "watchdog",
				Ops: map[string]int64{}, Callbacks: map[string]int64{}, Reasons: map[string]int64{}}
			hr.Hang = collectHang(rs)
			emit(hr)
			// a hung pool cannot be torn down; the parent restarts the remaining rounds
			os.Exit(0)
		}
	}
	// callbacks that arrived after a round was evaluated are necessarily after its Shutdown returned
	time.Sleep(20 * time.Millisecond)
	for _, rs := range done {
		if n := rs.cb.Count(); n > rs.cbEvaluated {
			evs, _ := rs.cb.Events()
			late := &RoundResult{Round: rs.idx, Mode: rs.res.Mode, Note: "late", LateEvents: n - rs.cbEvaluated,
				Ops: map[string]int64{}, Callbacks: map[string]int64{}, Reasons: map[string]int64{}}
			for _, e := range evs {
				if e.Seq > rs.shutdownEnd && strings.HasPrefix(e.Kind, "cb.") && !rs.lateSeen[e.Seq] {
					late.Violations = append(late.Violations, Viol{"callback-after-shutdown",
						map[string]string{"callback": e.Kind}, fmt.Sprintf("%s id=%d addr=%s info=%s seq=%d > shutdownReturned=%d", e.Kind, e.ID, e.Addr, e.Info, e.Seq, rs.shutdownEnd)})
				}
			}
			emit(late)
		}
	}
}

// watch fires when the round made no progress for too long: *flagWatch overall, or
// *flagShutWatch once only Shutdown/Run are still awaited (typical: milliseconds). It only
// triggers the collection of goroutine dumps.
func watch(rs *roundState, finished chan struct{}) <-chan struct{} {
	fire := make(chan struct{})
	go func() {
		start := time.Now()
		var inShutdown time.Time
		for {
			select {
			case <-finished:
				return
			case <-time.After(500 * time.Millisecond):
			}
			ph := sched.Load(&rs.phase)
			if ph == 2 || ph == 3 {
				if inShutdown.IsZero() {
					inShutdown = time.Now()
				}
				if time.Since(inShutdown) > *flagShutWatch {
					close(fire)
					return
				}
			}
			if time.Since(start) > *flagWatch {
				close(fire)
				return
			}
		}
	}()
	return fire
}

// ---------------------------------------------------------------------------------

type opRec struct {
	kind    string
	outcome string
	start   int64
	end     int64
	detail  string
}

type roundState struct {
	idx      int
	mode     string
	nWorkers int
	iters    int
	rng      *rand.Rand
	res      *RoundResult
	pool     *gnet.ConnectionPool
	cb       *sched.Log
	noise    *sched.Noise

	poolAddr string
	deadAddr string
	peers    []*peer

	sockMu  sync.Mutex
	sockets []*sock
	hwg     sync.WaitGroup // harness goroutines (peer accept loops, socket readers/writers)

	received    int64
	sendResults int64

	phase         int64 // 0 setup 1 workers 2 wait-shutdown 3 wait-run 4 post
	shutdownStart int64
	shutdownEnd   int64
	runEnd        int64
	cbEvaluated   int64
	lateSeen      map[int64]bool

	shutdownOnce sync.Once
	shutdownDone chan struct{}
	runDone      chan struct{}
	runErr       error
	shutT0       time.Time
	shutDur      time.Duration
}

// sink is the pool's message state
type sink struct{ rs *roundState }

//go:norace
func (s sink) OnMessage(connID uint64, addr string, m interface{}) error {
	sched.Xadd(&s.rs.received, 1)
	return nil
}

func subSeed(seed int64, labels ...interface{}) int64 {
	h := sha256.Sum256([]byte(fmt.Sprint(append([]interface{}{seed, "C32"}, labels...)...)))
	var x uint64
	for i := 0; i < 8; i++ {
		x = x<<8 | uint64(h[i])
	}
	return int64(x >> 1)
}

func newRound(idx int) *roundState {
	rs := &roundState{
		idx:          idx,
		rng:          rand.New(rand.NewSource(subSeed(*flagSeed, "round", idx))),
		cb:           sched.NewLog(1 << 16),
		shutdownDone: make(chan struct{}),
		runDone:      make(chan struct{}),
		lateSeen:     map[int64]bool{},
	}
	rs.res = &RoundResult{Round: idx, Ops: map[string]int64{}, Callbacks: map[string]int64{}, Reasons: map[string]int64{}}
	modes := []string{"mid", "mid", "mid", "mid", "mid", "mid", "early", "late", "startup", "mid"}
	rs.mode = modes[rs.rng.Intn(len(modes))]
	rs.nWorkers = 8 + rs.rng.Intn(25)
	rs.iters = 15 + rs.rng.Intn(40)
	rs.res.Mode = rs.mode
	rs.res.Workers = rs.nWorkers
	return rs
}

// a harness-side TCP socket whose other end belongs to the pool
type sock struct {
	c          net.Conn
	local      string
	dialed     int64 // Tick() after the connection was established (0: accepted by a harness peer)
	harnessEnd int64 // set (Xadd) when the harness itself closed it
	readerDone chan struct{}
	endErr     error
}

type peer struct {
	ln   net.Listener
	addr string
}

func (rs *roundState) track(c net.Conn) *sock {
	s := &sock{c: c, local: c.LocalAddr().String(), readerDone: make(chan struct{})}
	rs.sockMu.Lock()
	rs.sockets = append(rs.sockets, s)
	rs.sockMu.Unlock()
	return s
}

// behave drives one harness-side socket: a reader that drains until the socket ends and
// a scripted writer chosen by policy
func (rs *roundState) behave(s *sock, policy int, rng *rand.Rand) {
	rs.hwg.Add(1)
	go func() {
		defer rs.hwg.Done()
		defer close(s.readerDone)
		buf := make([]byte, 4096)
		for {
			_, err := s.c.Read(buf)
			if err != nil {
				s.endErr = err
				return
			}
		}
	}()
	script, closeAfter := peerScript(policy, rng)
	rs.hwg.Add(1)
	go func() {
		defer rs.hwg.Done()
		for _, chunk := range script {
			s.c.SetWriteDeadline(time.Now().Add(2 * time.Second)) //nolint:errcheck
			if _, err := s.c.Write(chunk); err != nil {
				return
			}
			if len(script) > 1 {
				runtime.Gosched()
			}
		}
		if closeAfter {
			sched.Xadd(&s.harnessEnd, 1)
			s.c.Close() //nolint:errcheck
		}
	}()
}

func validFrames(rng *rand.Rand, n int) [][]byte {
	var out [][]byte
	for i := 0; i < n; i++ {
		switch rng.Intn(4) {
		case 0:
			out = append(out, poolmsg.Frame(poolmsg.IDPing, nil))
		case 1:
			var f poolmsg.Fixed
			f.A, f.B = rng.Uint64(), rng.Uint32()
			out = append(out, poolmsg.Frame(poolmsg.IDFixed, poolmsg.EncFixed(f)))
		case 2:
			d := make([]byte, rng.Intn(1500))
			rng.Read(d)
			out = append(out, poolmsg.Frame(poolmsg.IDBlob, poolmsg.EncBlob(poolmsg.Blob{Seq: uint32(i), Data: d})))
		default:
			l := poolmsg.List{Tag: uint8(i)}
			for k := rng.Intn(20); k > 0; k-- {
				l.Items = append(l.Items, poolmsg.Item{IP: rng.Uint32(), Port: uint16(rng.Intn(65536))})
			}
			out = append(out, poolmsg.Frame(poolmsg.IDList, poolmsg.EncList(l)))
		}
	}
	return out
}

// peerScript returns the chunks a harness socket writes and whether it closes afterwards
func peerScript(policy int, rng *rand.Rand) (chunks [][]byte, closeAfter bool) {
	switch policy % 8 {
	case 0: // silent sink
		return nil, false
	case 1: // talks: valid frames, some glued together, stays
		fr := validFrames(rng, 2+rng.Intn(10))
		var cur []byte
		for _, f := range fr {
			cur = append(cur, f...)
			if rng.Intn(3) == 0 {
				chunks = append(chunks, cur)
				cur = nil
			}
		}
		if cur != nil {
			chunks = append(chunks, cur)
		}
		return chunks, false
	case 2: // valid frames, then a message whose handler returns an error
		chunks = validFrames(rng, rng.Intn(4))
		chunks = append(chunks, poolmsg.Frame(poolmsg.IDFail, poolmsg.EncFail(poolmsg.Fail{Code: 7})))
		chunks = append(chunks, validFrames(rng, rng.Intn(3))...)
		return chunks, false
	case 3: // garbage
		switch rng.Intn(3) {
		case 0:
			return [][]byte{poolmsg.RawFrame(uint32(rng.Intn(4)), []byte{1, 2, 3, 4, 5})}, false
		case 1:
			return [][]byte{poolmsg.RawFrame(0xFFFFFFFF, []byte{9})}, false
		default:
			return [][]byte{poolmsg.Frame("NOPE", []byte{1, 2, 3})}, false
		}
	case 4: // half-written frame, then close
		f := validFrames(rng, 1+rng.Intn(3))
		var all []byte
		for _, x := range f {
			all = append(all, x...)
		}
		cut := 1 + rng.Intn(len(all)-1)
		return [][]byte{all[:cut]}, true
	case 5: // close at once
		return nil, true
	case 6: // half-written frame, stays
		f := poolmsg.Frame(poolmsg.IDBlob, poolmsg.EncBlob(poolmsg.Blob{Seq: 1, Data: make([]byte, 600)}))
		return [][]byte{f[:4+rng.Intn(300)]}, false
	default: // valid frames then close
		return validFrames(rng, 1+rng.Intn(6)), true
	}
}

func (rs *roundState) startPeer(i int) error {
	ln, err := net.Listen("tcp", "127.0.0.1:0")
	if err != nil {
		return err
	}
	p := &peer{ln: ln, addr: ln.Addr().String()}
	rs.peers = append(rs.peers, p)
	prng := rand.New(rand.NewSource(subSeed(*flagSeed, "peer", rs.idx, i)))
	rs.hwg.Add(1)
	go func() {
		defer rs.hwg.Done()
		for {
			c, err := ln.Accept()
			if err != nil {
				return
			}
			s := rs.track(c)
			pol := prng.Intn(8)
			if prng.Intn(3) == 0 {
				pol = 1 // bias towards talkative peers
			}
			rs.behave(s, pol, rand.New(rand.NewSource(prng.Int63())))
		}
	}()
	return nil
}

// pickPort: rounds that can run at the same time (in different children) have different
// indexes, so they get different ports; below the ephemeral range so that no outgoing
// connection can occupy one
func pickPort(slot, idx, try int) int {
	_ = slot
	return 21000 + (idx*3+try*1001)%10000
}

// ---------------------------------------------------------------------------------

func (rs *roundState) callShutdown() {
	rs.shutdownOnce.Do(func() {
		go func() {
			rs.shutT0 = time.Now()
			sched.Xadd(&rs.shutdownStart, sched.Tick())
			rs.pool.Shutdown()
			sched.Xadd(&rs.shutdownEnd, sched.Tick())
			rs.shutDur = time.Since(rs.shutT0)
			close(rs.shutdownDone)
		}()
	})
}

func (rs *roundState) run() {
	rng := rs.rng
	res := rs.res
	mode, nWorkers, iters := rs.mode, rs.nWorkers, rs.iters

	nPeers := 2 + rng.Intn(2)
	for i := 0; i < nPeers; i++ {
		if err := rs.startPeer(i); err != nil {
			res.Note = "peer listen: " + err.Error()
			res.ListenFailed = true
			return
		}
	}
	// an address nobody listens on
	if l, err := net.Listen("tcp", "127.0.0.1:0"); err == nil {
		rs.deadAddr = l.Addr().String()
		l.Close() //nolint:errcheck
	} else {
		rs.deadAddr = "127.0.0.1:1"
	}

	rs.noise = sched.NewNoise(subSeed(*flagSeed, "noise", rs.idx), 1<<15)
	if *flagNoise {
		gnet.VerifSetPoint(rs.noise.Point)
		strand.VerifSetPoint(rs.noise.Point)
	}

	var port int
	for try := 0; ; try++ {
		port = pickPort(*flagSlot, rs.idx, try)
		if l, err := net.Listen("tcp", fmt.Sprintf("127.0.0.1:%d", port)); err == nil {
			l.Close() //nolint:errcheck
			break
		}
		if try > 20 {
			res.ListenFailed = true
			res.Note = "no free port"
			return
		}
	}
	rs.poolAddr = fmt.Sprintf("127.0.0.1:%d", port)

	cfg := gnet.NewConfig()
	cfg.Address = "127.0.0.1"
	cfg.Port = uint16(port)
	cfg.MaxOutgoingConnections = []int{2, 3, 8}[rng.Intn(3)]
	cfg.MaxIncomingConnections = []int{2, 6, 24}[rng.Intn(3)]
	cfg.MaxConnections = cfg.MaxOutgoingConnections + cfg.MaxIncomingConnections
	cfg.MaxDefaultPeerOutgoingConnections = 1
	cfg.DefaultConnections = []string{rs.peers[0].addr}
	cfg.ConnectionWriteQueueSize = []int{1, 2, 16}[rng.Intn(3)]
	cfg.SendResultsSize = []int{1, 8, 256}[rng.Intn(3)]
	cfg.DialTimeout = time.Second
	cfg.ReadTimeout = 3 * time.Second
	cfg.WriteTimeout = 2 * time.Second
	cfg.MaxIncomingMessageLength = 16 * 1024
	cfg.MaxOutgoingMessageLength = 16 * 1024
	cfg.ConnectCallback = func(addr string, id uint64, solicited bool) {
		rs.cb.Add("cb.connect", id, addr, "", 0)
	}
	cfg.DisconnectCallback = func(addr string, id uint64, reason gnet.DisconnectReason) {
		rs.cb.Add("cb.disconnect", id, addr, reasonClass(reason), 0)
	}
	cfg.ConnectFailureCallback = func(addr string, solicited bool, err error) {
		rs.cb.Add("cb.connfail", 0, addr, errClass(err), 0)
	}
	pool, err := gnet.NewConnectionPool(cfg, sink{rs})
	if err != nil {
		res.Note = "NewConnectionPool: " + err.Error()
		res.ListenFailed = true
		return
	}
	rs.pool = pool

	go func() {
		rs.runErr = pool.Run()
		sched.Xadd(&rs.runEnd, sched.Tick())
		close(rs.runDone)
	}()

	switch mode {
	case "startup":
		// Shutdown while Run is still starting
		for i := rng.Intn(400); i > 0; i-- {
			if i%16 == 0 {
				runtime.Gosched()
			}
		}
		rs.callShutdown()
	default:
		// wait until the pool listens (setup, not an oracle)
		ok := false
		for i := 0; i < 2500; i++ {
			select {
			case <-rs.runDone:
				res.ListenFailed = true
				res.Note = fmt.Sprintf("Run returned early: %v", rs.runErr)
				i = 1 << 30
			default:
			}
			if res.ListenFailed {
				break
			}
			c, err := net.DialTimeout("tcp", rs.poolAddr, 200*time.Millisecond)
			if err == nil {
				s := rs.track(c)
				rs.behave(s, 5, rng)
				ok = true
				break
			}
			time.Sleep(2 * time.Millisecond)
		}
		if !ok {
			if !res.ListenFailed {
				res.ListenFailed = true
				res.Note = "pool never listened"
			}
			rs.callShutdown()
			<-rs.shutdownDone
			rs.teardown()
			return
		}
	}
	if mode == "early" {
		rs.callShutdown()
	}

	// drain SendResults like the daemon does
	stopDrain := make(chan struct{})
	drainDone := make(chan struct{})
	go func() {
		defer close(drainDone)
		for {
			select {
			case <-stopDrain:
				return
			case <-pool.SendResults:
				rs.sendResults++
			}
		}
	}()

	// workers
	sched.Xadd(&rs.phase, 1)
	shutWorker, shutIter := rng.Intn(nWorkers), iters/3+rng.Intn(iters-iters/3)
	logs := make([][]opRec, nWorkers)
	var wg sync.WaitGroup
	for w := 0; w < nWorkers; w++ {
		wg.Add(1)
		wrng := rand.New(rand.NewSource(subSeed(*flagSeed, "worker", rs.idx, w)))
		go func(w int, wrng *rand.Rand) {
			defer wg.Done()
			wk := &worker{rs: rs, rng: wrng, id: w}
			for _, p := range rs.peers {
				wk.known = append(wk.known, p.addr)
			}
			wk.known = append(wk.known, rs.deadAddr)
			for it := 0; it < iters; it++ {
				if mode == "mid" && w == shutWorker && it == shutIter {
					rs.callShutdown()
				}
				wk.step()
			}
			logs[w] = wk.log
		}(w, wrng)
	}
	wg.Wait()
	sched.Xadd(&rs.phase, 1)
	rs.callShutdown() // mode "late", or mid/early already done
	<-rs.shutdownDone
	sched.Xadd(&rs.phase, 1)
	<-rs.runDone
	sched.Xadd(&rs.phase, 1)
	close(stopDrain)
	<-drainDone

	res.Sizes = pool.VerifPoolSizes()
	rs.evaluate(logs)
	rs.teardown()
}

// teardown checks that the pool closed its sockets and releases harness resources
func (rs *roundState) teardown() {
	res := rs.res
	for _, p := range rs.peers {
		p.ln.Close() //nolint:errcheck
	}
	rs.sockMu.Lock()
	socks := append([]*sock(nil), rs.sockets...)
	rs.sockMu.Unlock()
	deadline := time.After(*flagEOFMax)
	timedOut := false
	for _, s := range socks {
		if sched.Load(&s.harnessEnd) != 0 {
			continue
		}
		if s.dialed != 0 && s.dialed > sched.Load(&rs.shutdownStart) {
			// dialled while the pool was already closing its listener: the port may belong to
			// somebody else by now, nothing can be asserted about the other end
			res.PeerUnattributed++
			continue
		}
		res.PeerSockets++
		if !timedOut {
			select {
			case <-s.readerDone:
			case <-deadline:
				timedOut = true
			}
		}
		select {
		case <-s.readerDone:
			res.PeerClosed++
		default:
			if rs.pool != nil && sched.Load(&rs.shutdownEnd) != 0 {
				res.Violations = append(res.Violations, Viol{"socket-open-after-shutdown", map[string]string{"peer": "harness"},
					fmt.Sprintf("harness socket %s still open %v after Shutdown returned", s.local, *flagEOFMax)})
			}
		}
	}
	for _, s := range socks {
		sched.Xadd(&s.harnessEnd, 1)
		s.c.Close() //nolint:errcheck
	}
	rs.hwg.Wait()
	hits, y, sp, sl := rs.noise.Stats()
	res.Points = hits
	res.NoiseActs = [3]int64{y, sp, sl}
	ord := rs.noise.Order()
	h := sha256.Sum256(ord)
	res.OrderHash = hex.EncodeToString(h[:8])
	for i, id := range ord {
		if id == 1 {
			end := i + 13
			if end > len(ord) {
				end = len(ord)
			}
			res.ShutdownSig = hex.EncodeToString(ord[i:end])
			break
		}
	}
	res.Received = sched.Load(&rs.received)
	res.SendResults = rs.sendResults
	res.ShutdownUs = rs.shutDur.Microseconds()
}

// ---------------------------------------------------------------------------------

type worker struct {
	rs    *roundState
	rng   *rand.Rand
	id    int
	known []string
	log   []opRec
	msgN  uint32
}

func (wk *worker) addr() string { return wk.known[wk.rng.Intn(len(wk.known))] }

func (wk *worker) learn(a string) {
	if len(wk.known) < 64 {
		wk.known = append(wk.known, a)
	} else {
		wk.known[3+wk.rng.Intn(len(wk.known)-3)] = a
	}
}

func (wk *worker) message() gnet.Message {
	wk.msgN++
	switch wk.rng.Intn(4) {
	case 0:
		return &poolmsg.Ping{}
	case 1:
		return &poolmsg.Fixed{A: uint64(wk.id), B: wk.msgN}
	case 2:
		return &poolmsg.Blob{Seq: wk.msgN, Data: make([]byte, wk.rng.Intn(3000))}
	default:
		return &poolmsg.List{Tag: uint8(wk.id), Items: make([]poolmsg.Item, wk.rng.Intn(30))}
	}
}

func (wk *worker) rec(kind string, start int64, outcome, detail string) {
	wk.log = append(wk.log, opRec{kind: kind, outcome: outcome, start: start, end: sched.Tick(), detail: detail})
}

var errUserDisconnect = errors.New("harness: worker disconnect")

func (wk *worker) step() {
	pool := wk.rs.pool
	rng := wk.rng
	switch k := rng.Intn(100); {
	case k < 14:
		a := wk.addr()
		if rng.Intn(4) == 0 {
			a = wk.rs.peers[rng.Intn(len(wk.rs.peers))].addr
		}
		t := sched.Tick()
		err := pool.Connect(a)
		wk.rec("Connect", t, classifyConnect(err), errText(err))
	case k < 24:
		a := wk.addr()
		t := sched.Tick()
		err := pool.Disconnect(a, errUserDisconnect)
		wk.rec("Disconnect", t, classifyDisconnect(err), errText(err))
	case k < 42:
		a := wk.addr()
		m := wk.message()
		t := sched.Tick()
		err := pool.SendMessage(a, m)
		wk.rec("SendMessage", t, classifySend(err), errText(err))
	case k < 52:
		var addrs []string
		for n := rng.Intn(5); n > 0; n-- {
			addrs = append(addrs, wk.addr())
		}
		m := wk.message()
		t := sched.Tick()
		ids, err := pool.BroadcastMessage(m, addrs)
		oc := classifyBroadcast(err)
		if err == nil && len(ids) == 0 {
			oc = "UNEXPECTED"
		}
		wk.rec("BroadcastMessage", t, oc, errText(err))
	case k < 60:
		t := sched.Tick()
		conns, err := pool.GetConnections()
		wk.rec("GetConnections", t, classifyQuery(err), errText(err))
		for i := range conns {
			if rng.Intn(2) == 0 {
				wk.learn(conns[i].Addr())
			}
		}
	case k < 66:
		a := wk.addr()
		t := sched.Tick()
		c, err := pool.GetConnection(a)
		oc := classifyQuery(err)
		if err == nil && c != nil && c.Addr() != a {
			oc = "UNEXPECTED"
		}
		if err == nil && c != nil {
			// GetConnection is documented to return a copy: its caller may read the copy's fields
			// at any time without synchronising with the pool
			readReturnedConnection(c)
		}
		wk.rec("GetConnection", t, oc, errText(err))
	case k < 68:
		// a plain bool: true also once the pool has shut down
		t := sched.Tick()
		_ = pool.IsMaxOutgoingDefaultConnectionsReached()
		wk.rec("IsMaxOutgoingDefaultConnectionsReached", t, "ok", "")
	case k < 72:
		t := sched.Tick()
		n, err := pool.Size()
		oc := classifyQuery(err)
		if err == nil && n < 0 {
			oc = "UNEXPECTED"
		}
		wk.rec("Size", t, oc, errText(err))
	case k < 77:
		t := sched.Tick()
		err := pool.SendPings(time.Duration(rng.Intn(3))*time.Millisecond, &poolmsg.Ping{})
		wk.rec("SendPings", t, classifySend(err), errText(err))
	case k < 81:
		t := sched.Tick()
		stale, err := pool.GetStaleConnections(time.Duration(rng.Intn(3)) * time.Millisecond)
		wk.rec("GetStaleConnections", t, classifyQuery(err), errText(err))
		for _, a := range stale {
			if rng.Intn(3) == 0 {
				wk.learn(a)
			}
		}
	case k < 84:
		t := sched.Tick()
		a, err := pool.ListeningAddress()
		oc := "ok"
		if err != nil {
			oc = "not-listening"
			if err.Error() != "Not listening, call StartListen first" {
				oc = "UNEXPECTED"
			}
		} else if a == nil {
			// (the address is not dereferenced: without synchronisation in ListeningAddress that
			// would be a harness-side read of memory written by Run)
			oc = "UNEXPECTED"
		}
		wk.rec("ListeningAddress", t, oc, errText(err))
	case k < 96:
		// a remote peer dials the pool and follows a script
		t := sched.Tick()
		c, err := net.DialTimeout("tcp", wk.rs.poolAddr, time.Second)
		if err != nil {
			wk.rec("peer.dial", t, "refused", "")
			return
		}
		s := wk.rs.track(c)
		s.dialed = sched.Tick()
		wk.learn(s.local)
		wk.rs.behave(s, rng.Intn(8), rand.New(rand.NewSource(rng.Int63())))
		wk.rec("peer.dial", t, "ok", "")
	default:
		// remote side closes one of its sockets
		t := sched.Tick()
		wk.rs.sockMu.Lock()
		var s *sock
		if n := len(wk.rs.sockets); n > 0 {
			s = wk.rs.sockets[rng.Intn(n)]
		}
		wk.rs.sockMu.Unlock()
		if s != nil {
			sched.Xadd(&s.harnessEnd, 1)
			s.c.Close() //nolint:errcheck
		}
		wk.rec("peer.close", t, "ok", "")
	}
}

func errText(err error) string {
	if err == nil {
		return ""
	}
	return err.Error()
}

func isClosed(err error) bool { return err == gnet.ErrConnectionPoolClosed }

func classifyConnect(err error) string {
	switch {
	case err == nil:
		return "ok"
	case isClosed(err):
		return "pool-closed"
	case err == gnet.ErrConnectionExists:
		return "exists"
	case err == gnet.ErrMaxOutgoingConnectionsReached:
		return "max-outgoing"
	case err == gnet.ErrMaxOutgoingDefaultConnectionsReached:
		return "max-default"
	}
	if _, ok := err.(*net.OpError); ok {
		return "dial-error"
	}
	return "UNEXPECTED"
}

func classifyDisconnect(err error) string {
	switch {
	case err == nil:
		return "ok"
	case isClosed(err):
		return "pool-closed"
	case err.Error() == "Disconnect: connection does not exist":
		return "not-connected"
	}
	return "UNEXPECTED"
}

func classifySend(err error) string {
	switch {
	case err == nil:
		return "ok"
	case isClosed(err):
		return "pool-closed"
	case err == gnet.ErrWriteQueueFull:
		return "queue-full"
	case strings.HasPrefix(err.Error(), "Tried to send ") && strings.HasSuffix(err.Error(), "but we are not connected"):
		return "not-connected"
	}
	return "UNEXPECTED"
}

func classifyBroadcast(err error) string {
	switch {
	case err == nil:
		return "ok"
	case isClosed(err):
		return "pool-closed"
	case err == gnet.ErrNoAddresses:
		return "no-addresses"
	case err == gnet.ErrPoolEmpty:
		return "pool-empty"
	case err == gnet.ErrNoMatchingConnections:
		return "no-matching"
	case err == gnet.ErrNoReachableConnections:
		return "none-reachable"
	}
	return "UNEXPECTED"
}

func classifyQuery(err error) string {
	switch {
	case err == nil:
		return "ok"
	case isClosed(err):
		return "pool-closed"
	}
	return "UNEXPECTED"
}

func reasonClass(r gnet.DisconnectReason) string {
	switch r {
	case nil:
		return "nil"
	case errUserDisconnect:
		return "user"
	case poolmsg.ErrHandlerFail:
		return "handler-error"
	case gnet.ErrDisconnectInvalidMessageLength:
		return "invalid-length"
	case gnet.ErrDisconnectMalformedMessage:
		return "malformed"
	case gnet.ErrDisconnectUnknownMessage:
		return "unknown-id"
	case gnet.ErrDisconnectMessageDecodeUnderflow:
		return "underflow"
	case gnet.ErrDisconnectTruncatedMessageID:
		return "truncated-id"
	case gnet.ErrDisconnectShutdown:
		return "shutdown"
	case gnet.ErrDisconnectSetReadDeadlineFailed:
		return "set-deadline"
	case gnet.ErrConnectionPoolClosed:
		return "pool-closed"
	}
	switch r.(type) {
	case *gnet.ReadError:
		return "read-error"
	case *gnet.WriteError:
		return "write-error"
	}
	if r.Error() == "readLoop msgChan is closed or full" {
		return "recv-queue-full"
	}
	return "other:" + r.Error()
}

func errClass(err error) string {
	switch {
	case err == nil:
		return "nil"
	case isClosed(err):
		return "pool-closed"
	case err == gnet.ErrConnectionExists:
		return "exists"
	case err == gnet.ErrMaxIncomingConnectionsReached:
		return "max-incoming"
	case err == gnet.ErrMaxOutgoingConnectionsReached:
		return "max-outgoing"
	case err == gnet.ErrMaxOutgoingDefaultConnectionsReached:
		return "max-default"
	}
	return "other:" + err.Error()
}

// ---------------------------------------------------------------------------------

// evaluate decides the trace spec for the round
func (rs *roundState) evaluate(logs [][]opRec) {
	res := rs.res
	shutStart, shutEnd := sched.Load(&rs.shutdownStart), sched.Load(&rs.shutdownEnd)
	add := func(kind string, attrs map[string]string, detail string) {
		if len(res.Violations) < 20 {
			res.Violations = append(res.Violations, Viol{kind, attrs, detail})
		}
	}
	for _, l := range logs {
		for _, o := range l {
			phase := "before"
			if o.start > shutEnd {
				phase = "after"
			} else if o.end > shutStart {
				phase = "during"
			}
			res.Ops[o.kind+":"+o.outcome]++
			res.Ops["phase:"+phase]++
			if o.outcome == "UNEXPECTED" {
				add("unexpected-result", map[string]string{"op": o.kind}, fmt.Sprintf("%s returned %q (phase %s)", o.kind, o.detail, phase))
			}
			if o.outcome == "pool-closed" && o.end < shutStart {
				add("pool-closed-before-shutdown", map[string]string{"op": o.kind},
					fmt.Sprintf("%s returned ErrConnectionPoolClosed at seq %d, Shutdown was only called at seq %d", o.kind, o.end, shutStart))
			}
		}
	}
	evs, dropped := rs.cb.Events()
	rs.cbEvaluated = rs.cb.Count()
	res.LogDropped = dropped
	sort.Slice(evs, func(i, j int) bool { return evs[i].Seq < evs[j].Seq })
	type st struct{ connect, disconnect int64 }
	ids := map[uint64]*st{}
	for _, e := range evs {
		res.Callbacks[e.Kind]++
		if e.Seq > shutEnd {
			rs.lateSeen[e.Seq] = true
			add("callback-after-shutdown", map[string]string{"callback": e.Kind},
				fmt.Sprintf("%s id=%d addr=%s info=%s at seq %d, Shutdown had returned at seq %d", e.Kind, e.ID, e.Addr, e.Info, e.Seq, shutEnd))
		}
		switch e.Kind {
		case "cb.connect":
			s := ids[e.ID]
			if s == nil {
				s = &st{}
				ids[e.ID] = s
			}
			if s.connect != 0 {
				add("duplicate-connect-callback", map[string]string{"callback": e.Kind}, fmt.Sprintf("id %d addr %s: connect callback at seq %d and %d", e.ID, e.Addr, s.connect, e.Seq))
			}
			s.connect = e.Seq
		case "cb.disconnect":
			res.Reasons[e.Info]++
			s := ids[e.ID]
			if s == nil {
				s = &st{}
				ids[e.ID] = s
			}
			if s.connect == 0 {
				add("disconnect-before-connect", map[string]string{"callback": e.Kind}, fmt.Sprintf("id %d addr %s: disconnect callback at seq %d without earlier connect callback", e.ID, e.Addr, e.Seq))
			}
			if s.disconnect != 0 {
				add("duplicate-disconnect-callback", map[string]string{"callback": e.Kind}, fmt.Sprintf("id %d addr %s: disconnect callback at seq %d and %d", e.ID, e.Addr, s.disconnect, e.Seq))
			}
			s.disconnect = e.Seq
		case "cb.connfail":
			res.Reasons["connfail:"+e.Info]++
		}
	}
	names := []string{"pool", "addresses", "defaultOutgoing", "outgoing", "incoming"}
	for i, n := range res.Sizes {
		if n != 0 {
			add("registered-after-shutdown", map[string]string{"map": names[i]}, fmt.Sprintf("after Shutdown and Run returned, map %s still has %d entries (sizes %v)", names[i], n, res.Sizes))
		}
	}
	if rs.runErr != nil {
		res.Note += fmt.Sprintf(" run error: %v", rs.runErr)
	}
}

// ---------------------------------------------------------------------------------

var subsystem = []string{"github.com/skycoin/skycoin/src/daemon/gnet", "github.com/skycoin/skycoin/src/daemon/strand"}

func dumpAll() string {
	buf := make([]byte, 8<<20)
	n := runtime.Stack(buf, true)
	return string(buf[:n])
}

// collectHang takes goroutine dumps and looks for the logical deadlock witness: every
// goroutine of the pool blocked on a channel / WaitGroup / accept, identically in two dumps
// taken further apart than every configured pool timeout
func collectHang(rs *roundState) *Hang {
	h := &Hang{}
	switch sched.Load(&rs.phase) {
	case 0:
		h.Awaited = "setup"
	case 1:
		h.Awaited = "api-call"
	case 2:
		h.Awaited = "Shutdown"
	case 3:
		h.Awaited = "Run"
	default:
		h.Awaited = "harness-teardown"
	}
	for attempt := 0; attempt < 3; attempt++ {
		d1 := dumpAll()
		v1, b1 := sched.SubsystemView(sched.ParseDump(d1), subsystem)
		time.Sleep(4 * time.Second)
		d2 := dumpAll()
		v2, b2 := sched.SubsystemView(sched.ParseDump(d2), subsystem)
		h.Dump = d2
		h.View = v2
		if b1 && b2 && len(v1) > 0 && strings.Join(v1, "\n") == strings.Join(v2, "\n") && h.Awaited != "harness-teardown" && h.Awaited != "setup" {
			h.Witness = true
			break
		}
	}
	if len(h.Dump) > 200000 {
		h.Dump = h.Dump[:200000] + "\n...truncated"
	}
	return h
}

var _ = io.EOF

// readReturnedConnection reads the plain fields of a connection value handed out by the pool,
// as any caller does. Under the race detector a report naming this function means the value
// aliases state the pool keeps writing (cmd/c32 attributes such a report to the pool).
//
//go:noinline
func readReturnedConnection(c *gnet.Connection) (x int64) {
	x = c.LastSent.UnixNano() ^ c.LastReceived.UnixNano()
	x += int64(c.ID)
	if c.Solicited {
		x++
	}
	return x
}
