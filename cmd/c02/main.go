// Command c02 decides property C02 on the shared ledger workload (see lib/ledgerrun)
package main

import "verif/lib/ledgerrun"

func main() { ledgerrun.Main("C02") }
