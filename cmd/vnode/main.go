// Command vnode runs one real skycoin node on loopback as a child process (see lib/node)
package main

import "verif/lib/node"

func main() { node.ChildMain() }
