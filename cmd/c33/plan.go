package main

// One plan: a fresh follower daemon (vnode child), 1-3 wire peers, a seeded delivery schedule
// of the publisher's blocks (any order, duplicates, loss, splitting into GIVB messages) with
// forged siblings interleaved, then a closing phase in which a peer answers the follower's
// block requests from what it holds. The oracle is the small model below plus reference
// signature checks; nothing is computed by calling skycoin.

import (
	"bytes"
	"encoding/hex"
	"encoding/json"
	"fmt"
	"io/ioutil"
	"math/rand"
	"net/http"
	"os"
	"path/filepath"
	"sort"
	"strings"
	"sync"
	"sync/atomic"
	"time"

	"github.com/skycoin/skycoin/src/cipher/encoder"
	"github.com/skycoin/skycoin/src/coin"

	"verif/lib/ledger"
	"verif/lib/node"
	"verif/lib/vf"
	"verif/lib/wire"
)

const watchdog = 30 * time.Second

// item is one block inside a GIVB message
type item struct {
	Seq     uint64
	Genuine bool
	Class   string // forged class, "" for genuine
	Block   coin.SignedBlock
}

// predict applies the delivery rule to one message: blocks the node already has are skipped,
// the others are taken in message order, the message stops at the first block that does not
// extend the chain (forged, gap, or not the next block). "Already has" can be read as "at the
// time the message arrived" (running=false) or "by now" (running=true); the two readings differ
// only when a message repeats a block it has itself just delivered.
func predict(head uint64, items []item, running bool) uint64 {
	h := head
	for _, it := range items {
		ref := head
		if running {
			ref = h
		}
		if it.Seq <= ref {
			continue
		}
		if it.Genuine && it.Seq == h+1 {
			h++
			continue
		}
		break
	}
	return h
}

func admissible(head uint64, msgs ...[]item) map[uint64]bool {
	out := map[uint64]bool{}
	var rec func(h uint64, rest [][]item)
	rec = func(h uint64, rest [][]item) {
		if len(rest) == 0 {
			out[h] = true
			return
		}
		rec(predict(h, rest[0], false), rest[1:])
		rec(predict(h, rest[0], true), rest[1:])
	}
	if len(msgs) == 1 {
		rec(head, msgs)
	} else {
		// two messages processed concurrently: either order
		rec(head, [][]item{msgs[0], msgs[1]})
		rec(head, [][]item{msgs[1], msgs[0]})
	}
	return out
}

type planRun struct {
	r     *vf.Run
	id    string
	rng   *rand.Rand
	rc    *refChain
	n     uint64
	proc  *node.Proc
	peers []*wire.Peer
	obs   *wire.Peer
	head  uint64 // model head (= last observed, checked against the admissible set)
	have  map[uint64]bool
	log   []string
	race  bool
	cfg   nodeConfig

	lastUsed map[*wire.Peer]time.Time // keep-alive bookkeeping only (the node drops a connection it has not heard from for 30 s)

	gapDropped   map[uint64]bool
	gapFilled    bool
	forgedSent   bool
	forgedAtHead map[string]bool
	failed       bool
}

func (p *planRun) logf(f string, a ...interface{}) {
	if len(p.log) < 400 {
		p.log = append(p.log, fmt.Sprintf(f, a...))
	}
}

func (p *planRun) viol(kind string, attrs map[string]string, extra map[string]interface{}) {
	p.failed = true
	if attrs == nil {
		attrs = map[string]string{}
	}
	attrs["plan"] = p.id
	attrs["config"] = p.cfg.Name
	if p.race {
		attrs["build"] = "race"
	}
	w := map[string]interface{}{"plan": p.id, "node_config": p.cfg, "chain_tag": p.rc.Tag, "blocks": len(p.rc.Blocks) - 1, "held_by_peer": keys(p.have), "log": p.log}
	for k, v := range extra {
		w[k] = v
	}
	p.r.Violation(kind, attrs, w)
}

func keys(m map[uint64]bool) []uint64 {
	var out []uint64
	for k := range m {
		out = append(out, k)
	}
	sort.Slice(out, func(i, j int) bool { return out[i] < out[j] })
	return out
}

func describe(items []item) string {
	var s []string
	for _, it := range items {
		if it.Genuine {
			s = append(s, fmt.Sprint("b", it.Seq))
		} else {
			s = append(s, fmt.Sprintf("forged[%s]@%d", it.Class, it.Seq))
		}
	}
	return strings.Join(s, " ")
}

// frameFor returns the bytes to write for one GIVB message followed by the barrier PING. The
// receiver cuts its input every 1024 bytes; a known framing defect (C22: complete messages in
// front of an incomplete one are dropped when 5..7 bytes of the next frame are present) would
// lose the GIVB if the PING straddled such a cut, so an ignorable PONG is put in front to shift
// the alignment in that case.
func frameFor(items []item) []byte {
	bs := make([]coin.SignedBlock, len(items))
	for i, it := range items {
		bs[i] = it.Block
	}
	f := wire.Frame("GIVB", wire.GiveBlocksBody(bs))
	out := f
	if m := len(f) % 1024; m >= 1017 && m <= 1019 {
		out = append(wire.Frame("PONG", nil), f...)
		atomic.AddInt64(&shiftedBursts, 1)
	}
	return append(out, wire.Frame("PING", nil)...)
}

var shiftedBursts int64

func getJSON(url string, v interface{}) error {
	resp, err := http.Get(url)
	if err != nil {
		return err
	}
	defer resp.Body.Close()
	b, _ := ioutil.ReadAll(resp.Body)
	if resp.StatusCode != 200 {
		return fmt.Errorf("%s: %d %s", url, resp.StatusCode, bytes.TrimSpace(b))
	}
	return json.Unmarshal(b, v)
}

type apiHeader struct {
	Seq      uint64 `json:"seq"`
	Hash     string `json:"block_hash"`
	PrevHash string `json:"previous_block_hash"`
}

// observe reads the follower's chain through the API and through the wire and checks it against
// the publisher's chain. Returns the head sequence.
func (p *planRun) observe(after string) (uint64, bool) {
	var meta struct {
		Head apiHeader `json:"head"`
	}
	if err := getJSON("http://"+p.proc.APIAddr+"/api/v1/blockchain/metadata", &meta); err != nil {
		p.r.Inconclusive("API metadata: " + err.Error())
		p.failed = true
		return 0, false
	}
	head := meta.Head.Seq
	if head > p.n {
		p.viol("chain-longer-than-publisher-chain", map[string]string{"after": after, "head": fmt.Sprint(head)}, nil)
		return head, false
	}
	// API block list
	var bl struct {
		Blocks []struct {
			Header apiHeader `json:"header"`
		} `json:"blocks"`
	}
	if err := getJSON(fmt.Sprintf("http://%s/api/v1/blocks?start=0&end=%d", p.proc.APIAddr, head+3), &bl); err != nil {
		p.r.Inconclusive("API blocks: " + err.Error())
		p.failed = true
		return head, false
	}
	if uint64(len(bl.Blocks)) != head+1 {
		p.viol("api-chain-length-differs-from-head", map[string]string{"after": after, "head": fmt.Sprint(head), "listed": fmt.Sprint(len(bl.Blocks))}, nil)
		return head, false
	}
	for i, b := range bl.Blocks {
		want := ledger.HeaderHash(p.rc.Blocks[i].Head)
		if b.Header.Seq != uint64(i) || b.Header.Hash != hex.EncodeToString(want[:]) {
			p.viol("holds-block-not-in-publisher-chain", map[string]string{"after": after, "via": "api", "seq": fmt.Sprint(i), "forged_sent": fmt.Sprint(p.forgedSent)},
				map[string]interface{}{"api_hash": b.Header.Hash, "publisher_hash": hex.EncodeToString(want[:])})
			return head, false
		}
	}
	if meta.Head.Hash != bl.Blocks[head].Header.Hash {
		p.viol("api-head-differs-from-last-listed-block", map[string]string{"after": after}, nil)
		return head, false
	}
	// the stored signed blocks, as the follower serves them to a peer
	from := len(p.obs.Recv)
	if err := p.obs.SendRaw(append(wire.Frame("GETB", wire.U64Body(0, 20)), wire.Frame("PING", nil)...)); err != nil {
		p.r.Inconclusive("observer peer write: " + err.Error())
		p.failed = true
		return head, false
	}
	pi, ok := p.obs.WaitFor("PONG", from, watchdog)
	if !ok {
		p.r.Inconclusive("watchdog: observer barrier")
		p.failed = true
		return head, false
	}
	var served []coin.SignedBlock
	for i := from; i < pi; i++ {
		if p.obs.Recv[i].ID == "GIVB" {
			bs, err := wire.ParseGiveBlocks(p.obs.Recv[i].Body)
			if err != nil {
				p.viol("served-blocks-undecodable", map[string]string{"after": after, "err": err.Error()}, nil)
				return head, false
			}
			served = bs
		}
	}
	if uint64(len(served)) != head {
		p.viol("served-chain-length-differs-from-head", map[string]string{"after": after, "head": fmt.Sprint(head), "served": fmt.Sprint(len(served))}, nil)
		return head, false
	}
	for i, sb := range served {
		seq := uint64(i + 1)
		hh := ledger.HeaderHash(sb.Head)
		sigOK := ledger.VerifyBlockSig(p.rc.Chain.Publisher.Pub, sb.Sig, hh)
		p.r.Count("stored-blocks.signature-checked", 1)
		p.r.Count("cfg."+p.cfg.Name+".stored-blocks.signature-checked", 1)
		if !sigOK {
			p.viol("holds-block-not-signed-by-publisher", map[string]string{"after": after, "seq": fmt.Sprint(seq)}, map[string]interface{}{"block": hex.EncodeToString(encoder.Serialize(sb))})
			return head, false
		}
		if !bytes.Equal(encoder.Serialize(sb), encoder.Serialize(p.rc.Blocks[seq])) {
			p.viol("holds-block-not-in-publisher-chain", map[string]string{"after": after, "via": "wire", "seq": fmt.Sprint(seq), "signature_valid": fmt.Sprint(sigOK), "forged_sent": fmt.Sprint(p.forgedSent)},
				map[string]interface{}{"block": hex.EncodeToString(encoder.Serialize(sb))})
			return head, false
		}
	}
	return head, true
}

// lastRequests returns LastBlock of the last GETB and MaxBkSeq of the last ANNB received at or
// after index from
func lastRequests(pr *wire.Peer, from int) (getb, annb int64) {
	getb, annb = -1, -1
	for i := from; i < len(pr.Recv); i++ {
		switch pr.Recv[i].ID {
		case "GETB":
			if l, _, ok := wire.ParseGetBlocks(pr.Recv[i].Body); ok {
				getb = int64(l)
			}
		case "ANNB":
			if len(pr.Recv[i].Body) == 8 {
				annb = int64(leU64(pr.Recv[i].Body))
			}
		}
	}
	return
}

func leU64(b []byte) uint64 {
	var v uint64
	for i := 7; i >= 0; i-- {
		v = v<<8 | uint64(b[i])
	}
	return v
}

// deliver sends one message (or two concurrently from two peers), waits for the barriers and
// checks everything the property says about the step
func (p *planRun) deliver(phase string, senders []int, msgs [][]item) bool {
	// keep-alive: the node's connection pool closes a connection after 30 s without input, so a
	// peer that has been silent for a while sends a PING (this decides nothing)
	for _, pr := range p.peers {
		if time.Since(p.lastUsed[pr]) > 5*time.Second {
			if !pr.Barrier(watchdog) {
				p.r.Inconclusive("keep-alive barrier failed (idle peer connection closed by the node's read timeout?)")
				p.failed = true
				return false
			}
			p.lastUsed[pr] = time.Now()
		}
	}
	for _, s := range senders {
		p.lastUsed[p.peers[s]] = time.Now()
	}
	before := p.head
	adm := admissible(before, msgs...)
	froms := make([]int, len(senders))
	for i, s := range senders {
		froms[i] = len(p.peers[s].Recv)
	}
	desc := ""
	for i := range msgs {
		desc += fmt.Sprintf("peer%d:[%s] ", senders[i], describe(msgs[i]))
	}
	p.logf("%s head=%d %s", phase, before, desc)
	// bookkeeping of what the plan exercised (from the model's point of view)
	for _, m := range msgs {
		h := before
		stopped := false
		for _, it := range m {
			p.r.Count("blocks.sent", 1)
			if !it.Genuine {
				p.forgedSent = true
			}
			switch {
			case stopped:
				p.r.Count("blocks.sent.after-the-message-stopped", 1)
			case it.Seq <= h:
				p.r.Count("blocks.sent.already-held", 1)
			case !it.Genuine && it.Seq == h+1:
				p.r.Count("forged.offered-as-next-block."+it.Class, 1)
				p.r.Count("cfg."+p.cfg.Name+".forged.offered-as-next-block."+it.Class, 1)
				p.forgedAtHead[it.Class] = true
				stopped = true
			case !it.Genuine:
				p.r.Count("forged.offered-above-a-gap."+it.Class, 1)
				stopped = true
			case it.Seq == h+1:
				h++
			default:
				p.r.Count("blocks.sent.above-a-gap", 1)
				p.gapDropped[it.Seq] = true
				stopped = true
			}
		}
	}
	var wg sync.WaitGroup
	errs := make([]error, len(senders))
	for i := range senders {
		wg.Add(1)
		go func(i int) {
			defer wg.Done()
			errs[i] = p.peers[senders[i]].SendRaw(frameFor(msgs[i]))
		}(i)
	}
	wg.Wait()
	for i, s := range senders {
		if errs[i] != nil {
			p.viol("peer-connection-lost", map[string]string{"phase": phase, "err": errs[i].Error()}, nil)
			return false
		}
		if _, ok := p.peers[s].WaitFor("PONG", froms[i], watchdog); !ok {
			if p.peers[s].EOF && time.Since(p.lastUsed[p.peers[s]]) < 20*time.Second {
				p.viol("peer-connection-lost", map[string]string{"phase": phase, "err": "EOF before PONG"}, nil)
			} else if p.peers[s].EOF {
				p.r.Inconclusive("peer connection closed after a long stall (the node's 30 s read timeout cannot be excluded)")
				p.failed = true
			} else {
				p.r.Inconclusive("watchdog: no PONG after GIVB")
				p.failed = true
			}
			return false
		}
	}
	if len(senders) > 1 {
		// both messages are processed now; one more barrier each so that every broadcast caused by
		// the other peer's message is in front of a PONG
		for _, s := range senders {
			if !p.peers[s].Barrier(watchdog) {
				p.r.Inconclusive("watchdog: second barrier")
				p.failed = true
				return false
			}
		}
	}
	p.r.Count("messages.delivered", int64(len(msgs)))
	p.r.Eval(1)
	head, ok := p.observe(phase + ": " + desc)
	if !ok {
		return false
	}
	if !adm[head] {
		var want []string
		for h := range adm {
			want = append(want, fmt.Sprint(h))
		}
		sort.Strings(want)
		kind := "head-differs-from-delivery-rule"
		p.viol(kind, map[string]string{"phase": phase, "head_before": fmt.Sprint(before), "head_after": fmt.Sprint(head), "model": strings.Join(want, "|"), "message": strings.TrimSpace(desc)}, nil)
		return false
	}
	if len(adm) > 1 {
		p.r.Count("steps.rule-readings-differ", 1)
	}
	p.head = head
	p.r.Distinct(fmt.Sprintf("%s:%d>%d:%s", p.cfg.Name, before, head, shape(msgs)))
	if head > before {
		p.r.Count("steps.head-advanced", 1)
		p.r.Count("blocks.accepted", int64(head-before))
		p.r.Count("cfg."+p.cfg.Name+".blocks.accepted", int64(head-before))
		for s := range p.gapDropped {
			if s <= head {
				p.gapFilled = true
			}
		}
		for i, s := range senders {
			g, a := lastRequests(p.peers[s], froms[i])
			if g != int64(head) {
				p.viol("block-request-does-not-follow-head", map[string]string{"phase": phase, "head": fmt.Sprint(head), "getb_last_block": fmt.Sprint(g)}, nil)
				return false
			}
			if a != int64(head) {
				p.viol("announcement-does-not-follow-head", map[string]string{"phase": phase, "head": fmt.Sprint(head), "annb": fmt.Sprint(a)}, nil)
				return false
			}
			p.r.Count("requests.getb-equals-new-head", 1)
			p.r.Count("cfg."+p.cfg.Name+".requests.getb-equals-new-head", 1)
		}
	} else {
		p.r.Count("steps.head-unchanged", 1)
	}
	return true
}

// announceProbe: a peer announces that it holds blocks up to head+ahead (ahead >= 1). Whatever
// the distance, a node that is behind asks for the blocks above its head ("keeps requesting
// blocks above its head"): a GETB naming the node's head must follow.
func (p *planRun) announceProbe(s int, ahead uint64) {
	pr := p.peers[s]
	from := len(pr.Recv)
	p.lastUsed[pr] = time.Now()
	p.logf("announce head=%d peer%d announces %d", p.head, s, p.head+ahead)
	if err := pr.Send("ANNB", wire.U64Body(p.head+ahead)); err != nil || !pr.Barrier(watchdog) {
		p.r.Inconclusive("announce probe: peer write or barrier failed")
		p.failed = true
		return
	}
	g, _ := lastRequests(pr, from)
	p.r.Count("announce.probes", 1)
	p.r.Count(fmt.Sprintf("announce.probes.ahead-%d", ahead), 1)
	if g != int64(p.head) {
		p.viol("no-block-request-after-announcement", map[string]string{"head": fmt.Sprint(p.head), "announced": fmt.Sprint(p.head + ahead), "ahead": fmt.Sprint(ahead), "getb_last_block": fmt.Sprint(g)}, nil)
		p.failed = true
		return
	}
	p.r.Count("announce.request-follows-head", 1)
}

func shape(msgs [][]item) string {
	var s []string
	for _, m := range msgs {
		x := ""
		for _, it := range m {
			if it.Genuine {
				x += fmt.Sprint(it.Seq, ",")
			} else {
				x += "F" + it.Class[:1] + fmt.Sprint(it.Seq, ",")
			}
		}
		s = append(s, x)
	}
	return strings.Join(s, "/")
}

func (p *planRun) genuine(seq uint64) item {
	return item{Seq: seq, Genuine: true, Block: p.rc.Blocks[seq]}
}

func (p *planRun) forgedItem(seq uint64) item {
	classes := p.cfg.classes()
	class := classes[p.rng.Intn(len(classes))]
	return item{Seq: seq, Class: class, Block: p.rc.forge(p.rng, int(seq), class)}
}

// randomMessage draws 1..5 blocks
func (p *planRun) randomMessage(forgeRate int) []item {
	held := keys(p.have)
	var m []item
	k := 1 + p.rng.Intn(5)
	switch p.rng.Intn(4) {
	case 0:
		// ascending run starting near the head (blocks the peer lost are missing from the run)
		start := p.head + uint64(p.rng.Intn(3))
		if start == 0 {
			start = 1
		}
		if p.rng.Intn(3) == 0 && p.head > 1 {
			start = 1 + uint64(p.rng.Intn(int(p.head)))
		}
		for s := start; s <= p.n && len(m) < k; s++ {
			if p.have[s] {
				m = append(m, p.genuine(s))
			}
		}
	case 1:
		// random blocks, random order
		for i := 0; i < k && len(held) > 0; i++ {
			m = append(m, p.genuine(held[p.rng.Intn(len(held))]))
		}
	default:
		// the next blocks, possibly shuffled or with a repeated block
		for s := p.head + 1; s <= p.n && len(m) < k; s++ {
			if p.have[s] {
				m = append(m, p.genuine(s))
			}
		}
		if len(m) > 1 && p.rng.Intn(3) == 0 {
			p.rng.Shuffle(len(m), func(i, j int) { m[i], m[j] = m[j], m[i] })
		}
		if len(m) > 0 && len(m) < 5 && p.rng.Intn(4) == 0 {
			d := m[p.rng.Intn(len(m))]
			pos := p.rng.Intn(len(m) + 1)
			m = append(m[:pos], append([]item{d}, m[pos:]...)...)
		}
	}
	// forged siblings interleaved
	if p.rng.Intn(100) < forgeRate && len(m) < 5 {
		// position by position: what would be the next block there?
		pos := p.rng.Intn(len(m) + 1)
		h := p.head
		for _, it := range m[:pos] {
			if it.Genuine && it.Seq == h+1 {
				h++
			}
		}
		seq := h + 1
		if p.rng.Intn(5) == 0 {
			seq = 1 + uint64(p.rng.Intn(int(p.n)))
		}
		if seq > p.n {
			seq = p.n
		}
		f := p.forgedItem(seq)
		m = append(m[:pos], append([]item{f}, m[pos:]...)...)
	}
	if len(m) == 0 {
		if len(held) > 0 {
			m = append(m, p.genuine(held[p.rng.Intn(len(held))]))
		} else {
			m = append(m, p.forgedItem(1))
		}
	}
	return m
}

func gapFree(have map[uint64]bool) uint64 {
	var k uint64
	for have[k+1] {
		k++
	}
	return k
}

// runPlan executes one plan against a fresh follower
// runPlanRetry repeats a plan once if it could not even be set up (node start, introduction):
// a start-up watchdog on a loaded machine says nothing about the property
func runPlanRetry(r *vf.Run, bin, dir string, idx int, race bool) []byte {
	why := ""
	for attempt := 0; attempt < 2; attempt++ {
		_ = os.RemoveAll(dir)
		_ = os.MkdirAll(dir, 0755)
		stderr, setupErr := runPlan(r, bin, dir, idx, race)
		if setupErr == "" {
			return stderr
		}
		why = setupErr
		r.Count("plans.setup-repeated", 1)
	}
	r.Inconclusive("plan could not be set up twice: " + why)
	return nil
}

func runPlan(r *vf.Run, bin, dir string, idx int, race bool) (stderr []byte, setupErr string) {
	label := "plan"
	if race {
		label = "race-plan"
	}
	rng := r.Rand(label, idx)
	cfg := configOf(idx)
	p := &planRun{r: r, id: fmt.Sprintf("seed%d-%s%d", r.Seed, label, idx), rng: rng, race: race, cfg: cfg,
		have: map[uint64]bool{}, lastUsed: map[*wire.Peer]time.Time{}, gapDropped: map[uint64]bool{}, forgedAtHead: map[string]bool{}}
	n := 4 + rng.Intn(9) // 4..12
	tag := fmt.Sprintf("c33-%d-%s-%d", r.Seed, label, idx)
	rc, err := buildChain(rng, tag, dir, n)
	if err != nil {
		return nil, "reference chain: " + err.Error()
	}
	p.rc, p.n = rc, uint64(n)
	// loss: what the peers hold
	lossy := rng.Intn(3) == 0
	for s := uint64(1); s <= p.n; s++ {
		if !lossy || rng.Intn(6) != 0 {
			p.have[s] = true
		}
	}
	forgeRate := forgingRate(idx)

	opts := node.Options{DataDir: filepath.Join(dir, "follower"), ChainTag: tag, Volume: volume,
		GenesisSig: hex.EncodeToString(rc.Chain.GenesisSig[:]), Publisher: cfg.Publisher, Arbitrating: cfg.Arbitrating, DisableCSRF: true}
	proc, err := node.Spawn(bin, filepath.Join(dir, "child"), opts)
	if err != nil {
		return nil, "follower did not start: " + err.Error()
	}
	p.proc = proc
	defer func() {
		for _, pr := range p.peers {
			pr.Close()
		}
		if p.obs != nil {
			p.obs.Close()
		}
		alive := proc.Alive()
		proc.Stop(30 * time.Second)
		stderr = proc.Stderr()
		headline, frame := vf.CrashSignature(stderr)
		// a process that is gone without any crash report on stderr and that was ended by a
		// signal from outside (SIGKILL: the kernel's out-of-memory killer on a loaded machine)
		// says nothing about the node
		state := ""
		if !alive && proc.Cmd.ProcessState != nil {
			state = proc.Cmd.ProcessState.String()
		}
		if !alive && headline == "" && (strings.Contains(state, "killed") || strings.Contains(state, "terminated") || state == "exit status 0") {
			p.r.Count("follower.ended-by-signal", 1)
			p.r.Inconclusive("follower process of " + p.id + " ended without a crash report: " + state)
		} else {
			if !race && (!alive || headline != "") {
				p.viol("follower-crash", map[string]string{"headline": headline, "frame": frame, "state": state}, nil)
			}
			if race && !alive {
				p.viol("follower-crash", map[string]string{"headline": headline, "frame": frame, "state": state}, nil)
			}
		}
	}()

	np := 1 + rng.Intn(3)
	for i := 0; i <= np; i++ {
		pr, err := wire.Dial(proc.PeerAddr)
		if err != nil {
			setupErr = "dial: " + err.Error()
			return
		}
		if i == np {
			p.obs = pr
		} else {
			p.peers = append(p.peers, pr)
		}
		p.lastUsed[pr] = time.Now()
		if !pr.Introduce(rc.Chain.Publisher.Pub, uint32(1000+i), watchdog) || !pr.Barrier(watchdog) {
			setupErr = "peer could not introduce itself"
			return
		}
		// the follower asks a new peer for blocks above its head right away
		if g, _ := lastRequests(pr, 0); g != 0 {
			p.viol("block-request-does-not-follow-head", map[string]string{"phase": "introduction", "head": "0", "getb_last_block": fmt.Sprint(g)}, nil)
			return
		}
		r.Count("requests.getb-after-introduction", 1)
	}
	if h, ok := p.observe("start"); !ok || h != 0 {
		if ok {
			p.viol("fresh-follower-not-at-genesis", map[string]string{"head": fmt.Sprint(h)}, nil)
		}
		return
	}

	// --- chaos phase
	steps := 5 + rng.Intn(12)
	// plans with forging offer, deliberately, a forged sibling exactly where the next block is
	// expected: once at the very start and once later, classes cycling over the plans
	forgeAt := map[int]string{}
	if forgeRate > 0 {
		fidx := forgingOrdinal(idx) // index among the forging plans of this configuration
		classes := cfg.classes()
		forgeAt[0] = classes[fidx%len(classes)]
		forgeAt[1+rng.Intn(steps-1)] = classes[(fidx+4)%len(classes)]
	}
	for s := 0; s < steps && !p.failed; s++ {
		if rng.Intn(4) == 0 {
			p.announceProbe(rng.Intn(np), []uint64{1, 1, 2, 3, 50}[rng.Intn(5)])
			if p.failed {
				break
			}
		}
		if class, ok := forgeAt[s]; ok && p.head < p.n {
			seq := p.head + 1
			m := []item{{Seq: seq, Class: class, Block: p.rc.forge(p.rng, int(seq), class)}}
			if p.have[seq] && rng.Intn(2) == 0 {
				m = append(m, p.genuine(seq)) // behind a failed block: must not be taken
			}
			p.deliver("chaos", []int{rng.Intn(np)}, [][]item{m})
			continue
		}
		if np >= 2 && rng.Intn(6) == 0 {
			a := rng.Intn(np)
			b := (a + 1 + rng.Intn(np-1)) % np
			r.Count("steps.two-peers-concurrently", 1)
			p.deliver("chaos", []int{a, b}, [][]item{p.randomMessage(forgeRate), p.randomMessage(forgeRate)})
		} else {
			p.deliver("chaos", []int{rng.Intn(np)}, [][]item{p.randomMessage(forgeRate)})
		}
	}
	if !p.failed {
		p.announceProbe(rng.Intn(np), 1)
	}
	// --- closing phase: a peer answers the follower's requests from what it holds, in order
	for !p.failed {
		var m []item
		k := 1 + rng.Intn(5)
		for s := p.head + 1; s <= p.n && len(m) < k; s++ {
			if p.have[s] {
				m = append(m, p.genuine(s))
			}
		}
		if len(m) == 0 {
			break
		}
		before := p.head
		if !p.deliver("closing", []int{rng.Intn(np)}, [][]item{m}) {
			break
		}
		if p.head == before {
			break
		}
	}
	if p.failed {
		return
	}
	want := gapFree(p.have)
	if p.head != want {
		p.viol("final-chain-is-not-the-longest-gap-free-prefix", map[string]string{"head": fmt.Sprint(p.head), "longest_gap_free_prefix": fmt.Sprint(want)}, nil)
		return
	}
	r.Count("plans.completed", 1)
	r.Count("cfg."+cfg.Name+".plans.completed", 1)
	if p.forgedSent {
		r.Count("cfg."+cfg.Name+".plans.with-forged-blocks", 1)
	}
	if want < p.n {
		r.Count("cfg."+cfg.Name+".plans.final-prefix-shorter-than-chain", 1)
	}
	r.Count(fmt.Sprintf("plans.peers-%d", np), 1)
	if want < p.n {
		r.Count("plans.final-prefix-shorter-than-chain", 1)
	} else {
		r.Count("plans.final-whole-chain", 1)
	}
	if p.gapFilled {
		r.Count("plans.gap-later-filled", 1)
	}
	if p.forgedSent {
		r.Count("plans.with-forged-blocks", 1)
	}
	if len(p.forgedAtHead) > 0 {
		r.Count("plans.with-forged-next-block", 1)
	}
	if lossy {
		r.Count("plans.with-loss", 1)
	}
	samplePlan(r, p)
	return
}

var sampleMu sync.Mutex
var sampled int

func samplePlan(r *vf.Run, p *planRun) {
	sampleMu.Lock()
	defer sampleMu.Unlock()
	if sampled >= 3 || !p.forgedSent || !p.gapFilled {
		return
	}
	sampled++
	l := p.log
	if len(l) > 12 {
		l = l[:12]
	}
	r.Sample(map[string]interface{}{"plan": p.id, "node_config": p.cfg.Name, "chain_length": p.n, "held_by_peers": keys(p.have), "peers": len(p.peers), "final_head": p.head, "first_steps": l})
}
