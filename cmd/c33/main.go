// C33 — Nodes syncing from peers converge on the publisher's chain.
//
// A real publisher visor (in-process, lib/fix) creates a reference chain b1..bn (n <= 12). A real
// follower daemon (vnode child, fresh database, configured with the publisher's genesis
// signature; the configuration of this receiving node cycles with the plan index over follower,
// block publisher (publisher key, arbitrating — what a restored or standby publisher catching up
// from peers runs with), block publisher without arbitration, arbitrating follower)
// is fed over TCP by 1-3 raw peers (lib/wire) with those blocks in any order, with
// duplicates, loss, splitting into GIVB messages, two peers sending at the same time, and forged
// siblings (foreign-signed, unsigned, transplanted signature, publisher-signed invalid content,
// wrong parent). After every message (PING/PONG barrier) the follower's chain is read through
// the HTTP API and through the wire (GETB) and compared with a model of the delivery rule and
// with the publisher's chain; every stored signature is checked with the reference secp256k1;
// block requests and announcements must follow the head. A second leg replays plans against a
// -race build of the node and counts data-race reports in the sync code.
package main

import (
	"fmt"
	"os"
	"path/filepath"
	"regexp"
	"strings"
	"sync/atomic"

	"verif/lib/fix"
	"verif/lib/vf"
)

func main() {
	r := vf.Start("C33", "exploration")
	fix.Quiet()
	bin := filepath.Join(os.Getenv("VERIF_BIN"), "vnode")
	raceBin := filepath.Join(os.Getenv("VERIF_BIN"), "vnode-race")
	if _, err := os.Stat(bin); err != nil {
		r.Inconclusive("vnode binary missing: " + err.Error())
		r.Finish("no plan was run")
	}
	// scratch space: memory-backed if available (dozens of small bolt files with a sync per commit)
	root, err := os.MkdirTemp("/dev/shm", "verif-c33-")
	if err != nil {
		root = vf.TempDir("c33")
	}
	defer os.RemoveAll(root)

	plans := r.Pick(64, 2000)
	vf.Parallel(plans, 12, func(i int) {
		if r.Violations() > 10 {
			return
		}
		dir := filepath.Join(root, fmt.Sprintf("p%d", i))
		runPlanRetry(r, bin, dir, i, false)
		_ = os.RemoveAll(dir)
	})

	// --- race leg
	if _, err := os.Stat(raceBin); err == nil {
		racePlans := r.Pick(6, 100)
		vf.Parallel(racePlans, 6, func(i int) {
			if r.Violations() > 10 {
				return
			}
			dir := filepath.Join(root, fmt.Sprintf("r%d", i))
			stderr := runPlanRetry(r, raceBin, dir, i, true)
			countRaces(r, stderr, i)
			r.Count("race.plans", 1)
			_ = os.RemoveAll(dir)
		})
		r.Floor("announce.request-follows-head", 40)
		r.Floor("announce.probes.ahead-1", 15)
		r.Floor("race.plans", int64(racePlans))
	} else {
		r.Inconclusive("vnode-race binary missing")
	}

	r.Floor("plans.completed", int64(plans*9/10))
	r.Floor("plans.gap-later-filled", int64(r.Pick(10, 250)))
	r.Floor("plans.with-forged-blocks", int64(r.Pick(10, 250)))
	r.Floor("plans.with-forged-next-block", int64(r.Pick(10, 250)))
	r.Floor("plans.with-loss", int64(r.Pick(5, 150)))
	r.Floor("plans.final-prefix-shorter-than-chain", int64(r.Pick(3, 50)))
	r.Floor("steps.two-peers-concurrently", int64(r.Pick(10, 250)))
	r.Floor("blocks.sent.already-held", int64(r.Pick(30, 500)))
	r.Floor("blocks.sent.above-a-gap", int64(r.Pick(30, 500)))
	r.Floor("requests.getb-equals-new-head", int64(r.Pick(100, 2000)))
	r.Floor("stored-blocks.signature-checked", int64(r.Pick(1000, 20000)))
	for _, c := range forgedClasses {
		r.Floor("forged.offered-as-next-block."+c, int64(r.Pick(2, 50)))
	}
	// every configuration of the receiving node: plans, forged next blocks of every class it is
	// offered, accepted blocks, block requests following the head, stored signatures checked
	for ci, c := range nodeConfigs {
		np, nf := plansOf(ci, plans)
		pre := "cfg." + c.Name + "."
		r.Floor(pre+"plans.completed", int64(np*3/4))
		r.Floor(pre+"plans.with-forged-blocks", int64(nf*3/4))
		r.Floor(pre+"plans.final-prefix-shorter-than-chain", int64(r.Pick(0, 20)))
		r.Floor(pre+"blocks.accepted", int64(np*2))
		r.Floor(pre+"requests.getb-equals-new-head", int64(np))
		r.Floor(pre+"stored-blocks.signature-checked", int64(np*10))
		for _, cl := range c.classes() {
			// the first delivery of every forging plan is a forged next block, classes cycling
			fl := nf / len(c.classes()) * 3 / 4
			if fl < 1 {
				fl = 1
			}
			r.Floor(pre+"forged.offered-as-next-block."+cl, int64(fl))
		}
	}
	os.RemoveAll(root)
	r.Count("bursts.shifted-around-read-cut", atomic.LoadInt64(&shiftedBursts))
	r.Finish("per plan: a fresh receiving node whose configuration is a function of the plan index (follower / block publisher with the publisher key and arbitrating / block publisher not arbitrating / arbitrating follower; every configuration meets every forging rate within 16 consecutive plans and is offered every forged class as the next block), a fresh publisher chain of 4..12 blocks (1-2 transactions each), a peer holding all blocks or a lossy subset, 5..16 seeded GIVB messages of 1..5 blocks (ascending runs, random picks, shuffled and repeated blocks, forged siblings placed where the next block is expected) from 1..3 peers, one step in six sent by two peers at the same time, then a closing phase answering the follower's block requests in order; an evaluation is one delivery step with all its checks; distinct = distinct (head before, head after, message shape)",
		"per-message prediction: blocks at or below the head are skipped, the rest are taken in message order, the message stops at the first block that does not extend the chain; where a message repeats a block it has just delivered, both readings of 'already held' (head when the message arrived / head by now) are admitted; for two concurrent messages both processing orders are admitted",
		"'longest gap-free prefix it was given' is judged at the end of the closing phase, in which a peer has offered, in order and in response to the follower's requests, every block the peers hold; during the chaos phase blocks above a gap are dropped by design and only the per-message rule is judged",
		"a forged block is one that differs from the publisher's block of that height (foreign key, no signature, signature of another block, or publisher-signed with created coins / wrong unspent hash / wrong body hash / time not after the parent / wrong parent); the publisher never signs two valid blocks of one height here",
		"the oracle is the same for every configuration of the receiving node (the statement does not mention the configuration); an arbitrating node by design drops an invalid transaction from a publisher-signed block with a valid header instead of refusing the block, so the publisher-signed class content:coins-created is not offered to arbitrating configurations; a node with the publisher configuration signs its own genesis block (same header), blocks 1.. are compared byte for byte, signature included",
		"stored signatures are verified with lib/ledger.VerifyBlockSig (reference secp256k1) over the harness's own header hash",
		"barrier: the follower's PONG proves all earlier messages of that connection were processed (one FIFO event loop); 30 s watchdogs only yield inconclusive",
		"GIVB+PING bursts whose PING would straddle the receiver's 1024-byte read cut with 5..7 bytes are shifted by an ignorable PONG frame (message loss at such cuts is a C22 framing defect, not a sync defect)",
		"race leg: a data-race report counts when both stacks have their innermost skycoin frame in src/daemon (not gnet/pex/strand), src/visor or src/coin non-test code; other reports are only counted")
}

var raceFrameRe = regexp.MustCompile(`^\s+(github\.com/skycoin/skycoin/src/[^\s(]+)\(`)

// countRaces parses the race detector's reports in a node's stderr
func countRaces(r *vf.Run, stderr []byte, idx int) {
	text := string(stderr)
	reports := strings.Split(text, "WARNING: DATA RACE")
	for _, rep := range reports[1:] {
		if i := strings.Index(rep, "=================="); i >= 0 {
			rep = rep[:i]
		}
		r.Count("race.reports", 1)
		// the two access stacks are the first two paragraphs; "Goroutine N created at" follow
		paras := strings.Split(rep, "\n\n")
		var inner []string
		for _, para := range paras {
			first := strings.TrimSpace(strings.SplitN(strings.TrimLeft(para, "\n"), "\n", 2)[0])
			if !(strings.HasPrefix(first, "Read at") || strings.HasPrefix(first, "Write at") || strings.HasPrefix(first, "Previous") || strings.HasPrefix(first, "Atomic")) {
				continue
			}
			frame := ""
			lines := strings.Split(para, "\n")
			for li, l := range lines {
				m := raceFrameRe.FindStringSubmatch(l)
				if m == nil {
					continue
				}
				file := ""
				if li+1 < len(lines) {
					file = lines[li+1]
				}
				if strings.Contains(file, "_test.go") || strings.Contains(file, "verif_") {
					continue
				}
				frame = strings.TrimPrefix(m[1], "github.com/skycoin/skycoin/src/")
				break
			}
			inner = append(inner, frame)
		}
		if len(inner) < 2 || inner[0] == "" || inner[1] == "" {
			r.Count("race.reports.not-both-in-product-code", 1)
			continue
		}
		mine := func(f string) bool {
			if strings.HasPrefix(f, "daemon/gnet") || strings.HasPrefix(f, "daemon/pex") || strings.HasPrefix(f, "daemon/strand") {
				return false
			}
			return strings.HasPrefix(f, "daemon.") || strings.HasPrefix(f, "daemon/") || strings.HasPrefix(f, "visor") || strings.HasPrefix(f, "coin")
		}
		if mine(inner[0]) && mine(inner[1]) {
			r.Violation("data-race", map[string]string{"frame_a": inner[0], "frame_b": inner[1], "build": "race"}, map[string]interface{}{"plan": idx, "report": rep})
		} else {
			r.Count("race.reports.other-packages", 1)
			r.Count("race.other."+inner[0]+"~"+inner[1], 1)
		}
	}
}
