package main

// Configuration of the receiving node. The property quantifies over nodes that receive blocks
// from peers, whatever they are configured to be: an ordinary follower, a node with the block
// publisher configuration (IsBlockPublisher + the publisher's secret key — a restored or standby
// publisher catching up from peers; the real node sets Arbitrating together with it), and the two
// remaining combinations of the two switches. The configuration is a function of the plan index,
// so that every configuration meets every forging rate within 16 consecutive plans.

type nodeConfig struct {
	Name        string
	Publisher   bool // visor.Config.IsBlockPublisher, BlockchainSeckey set
	Arbitrating bool // visor.Config.Arbitrating
}

var nodeConfigs = []nodeConfig{
	{"follower", false, false},
	{"publisher+arbitrating", true, true},
	{"publisher", true, false},
	{"follower+arbitrating", false, true},
}

func configIndex(idx int) int {
	return (idx + idx/4) % len(nodeConfigs)
}

func configOf(idx int) nodeConfig {
	return nodeConfigs[configIndex(idx)]
}

// forgingRate: plans 0, 4, 8, ... only meet forged blocks by accident
func forgingRate(idx int) int {
	return []int{0, 25, 25, 50}[idx%4]
}

// forgingOrdinal is the index of plan idx among the forging plans of its configuration (the
// deliberate forgeries cycle over the classes with it, so that every configuration is offered
// every class as the next block)
func forgingOrdinal(idx int) int {
	c := configIndex(idx)
	k := 0
	for i := 0; i < idx; i++ {
		if configIndex(i) == c && forgingRate(i) > 0 {
			k++
		}
	}
	return k
}

// plansOf counts the plans (and the forging plans) with configuration c among the first n
func plansOf(c, n int) (plans, forging int) {
	for i := 0; i < n; i++ {
		if configIndex(i) == c {
			plans++
			if forgingRate(i) > 0 {
				forging++
			}
		}
	}
	return
}

// classesFor lists the forged classes a node of this configuration is offered. An arbitrating
// node does not refuse a publisher-signed block whose header is in order and which contains an
// invalid transaction: by design it drops the transaction and keeps the rest, so that class says
// nothing about it (the block does carry the publisher's signature) and is left out there.
func (c nodeConfig) classes() []string {
	if !c.Arbitrating {
		return forgedClasses
	}
	var out []string
	for _, cl := range forgedClasses {
		if cl != "content:coins-created" {
			out = append(out, cl)
		}
	}
	return out
}
