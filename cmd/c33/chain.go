package main

// Reference chain (publisher visor, in-process) and forged siblings. This file only produces
// inputs; the oracle is in plan.go.

import (
	"fmt"
	"math/rand"
	"path/filepath"

	"github.com/skycoin/skycoin/src/cipher"
	"github.com/skycoin/skycoin/src/coin"

	"verif/lib/fix"
)

type refChain struct {
	Chain  *fix.Chain
	Blocks []coin.SignedBlock // index = seq; [0] is the genesis block
	Inputs [][][]coin.UxOut   // per block, per transaction: the outputs it spends
	Tag    string
	Volume uint64
}

const volume = 100e12

// buildChain lets a real publisher visor create n blocks on a fresh database
func buildChain(rng *rand.Rand, tag, dir string, n int) (*refChain, error) {
	chain := fix.NewChain(tag, volume, 7, 4, 2)
	pn, err := chain.Open(filepath.Join(dir, "pub.db"), true, true)
	if err != nil {
		return nil, fmt.Errorf("open publisher: %v", err)
	}
	defer pn.Close()
	g, err := pn.V.GetSignedBlockBySeq(0)
	if err != nil || g == nil {
		return nil, fmt.Errorf("no genesis block: %v", err)
	}
	rc := &refChain{Chain: chain, Blocks: []coin.SignedBlock{*g}, Inputs: [][][]coin.UxOut{nil}, Tag: tag, Volume: volume}
	spendable := []coin.UxOut(coin.CreateUnspents(g.Head, g.Body.Transactions[0]))
	users := chain.Keys[chain.NDist:]
	when := g.Head.Time
	for seq := 1; seq <= n; seq++ {
		nt := 1
		if len(spendable) >= 3 && rng.Intn(3) == 0 {
			nt = 2
		}
		var ins [][]coin.UxOut
		for t := 0; t < nt; t++ {
			k := rng.Intn(len(spendable))
			ux := spendable[k]
			spendable = append(spendable[:k], spendable[k+1:]...)
			var outs []fix.Out
			hours := ux.Body.Hours / 4
			if ux.Body.Coins >= 4e6 && rng.Intn(4) != 0 {
				a := (ux.Body.Coins / 2 / 1e6) * 1e6
				u1 := rng.Intn(len(users))
				u2 := (u1 + 1 + rng.Intn(len(users)-1)) % len(users) // distinct owners: identical outputs are not allowed
				outs = append(outs, fix.Out{Addr: users[u1].Addr, Coins: a, Hours: hours})
				outs = append(outs, fix.Out{Addr: users[u2].Addr, Coins: ux.Body.Coins - a, Hours: hours})
			} else {
				outs = append(outs, fix.Out{Addr: users[rng.Intn(len(users))].Addr, Coins: ux.Body.Coins, Hours: hours})
			}
			txn := chain.MakeTxn([]coin.UxOut{ux}, outs)
			if _, soft, err := pn.V.InjectForeignTransaction(txn); err != nil || soft != nil {
				return nil, fmt.Errorf("publisher refused harness transaction at seq %d: %v %v", seq, err, soft)
			}
			ins = append(ins, []coin.UxOut{ux})
		}
		when += 10 + uint64(rng.Intn(600))
		sb, err := pn.V.VerifCreateAndExecuteBlock(when)
		if err != nil {
			return nil, fmt.Errorf("publisher created no block at seq %d: %v", seq, err)
		}
		if sb.Head.BkSeq != uint64(seq) || len(sb.Body.Transactions) != nt {
			return nil, fmt.Errorf("publisher block seq %d has seq %d with %d/%d transactions", seq, sb.Head.BkSeq, len(sb.Body.Transactions), nt)
		}
		// inputs in the block's transaction order
		ordered := make([][]coin.UxOut, len(sb.Body.Transactions))
		for i, t := range sb.Body.Transactions {
			for _, in := range ins {
				if in[0].Hash() == t.In[0] {
					ordered[i] = in
				}
			}
			spendable = append(spendable, coin.CreateUnspents(sb.Head, t)...)
		}
		rc.Blocks = append(rc.Blocks, sb)
		rc.Inputs = append(rc.Inputs, ordered)
	}
	return rc, nil
}

var forgedClasses = []string{"foreign-signed", "unsigned", "transplanted-signature", "content:coins-created", "content:bad-uxhash", "content:bad-bodyhash", "content:time-not-after-parent", "wrong-parent:grandparent", "wrong-parent:random"}

func cloneBlock(b coin.Block) coin.Block {
	nb := b
	nb.Body.Transactions = make(coin.Transactions, len(b.Body.Transactions))
	for i, t := range b.Body.Transactions {
		nt := t
		nt.Sigs = append([]cipher.Sig(nil), t.Sigs...)
		nt.In = append([]cipher.SHA256(nil), t.In...)
		nt.Out = append([]coin.TransactionOutput(nil), t.Out...)
		nb.Body.Transactions[i] = nt
	}
	return nb
}

// forge makes a forged sibling of block seq (seq >= 1)
func (rc *refChain) forge(rng *rand.Rand, seq int, class string) coin.SignedBlock {
	orig := rc.Blocks[seq]
	b := cloneBlock(orig.Block)
	switch class {
	case "foreign-signed":
		k := fix.KeyFromSeed(fmt.Sprintf("foreign-%s-%d", rc.Tag, rng.Intn(4)))
		return coin.SignedBlock{Block: b, Sig: cipher.MustSignHash(b.HashHeader(), k.Sec)}
	case "unsigned":
		return coin.SignedBlock{Block: b}
	case "transplanted-signature":
		return coin.SignedBlock{Block: b, Sig: rc.Blocks[seq-1].Sig}
	case "content:coins-created":
		t := &b.Body.Transactions[0]
		t.Out[0].Coins += 1e6
		rc.Chain.Resign(t, rc.Inputs[seq][0])
		b.Head.BodyHash = b.Body.Hash()
	case "content:bad-uxhash":
		b.Head.UxHash[rng.Intn(32)] ^= 1 << uint(rng.Intn(8))
	case "content:bad-bodyhash":
		b.Head.BodyHash[rng.Intn(32)] ^= 1 << uint(rng.Intn(8))
	case "content:time-not-after-parent":
		b.Head.Time = rc.Blocks[seq-1].Head.Time
	case "wrong-parent:grandparent":
		if seq >= 2 {
			b.Head.PrevHash = rc.Blocks[seq-2].HashHeader()
		} else {
			b.Head.PrevHash = cipher.SHA256{}
		}
	case "wrong-parent:random":
		rng.Read(b.Head.PrevHash[:])
	default:
		panic("unknown forged class " + class)
	}
	return rc.Chain.SignBlock(b)
}
