package main

// Reference model of the wire protocol, written from the property statement and the
// documentation of the encoding (little-endian integers, uint32 element counts, `maxlen`
// limits, frame = uint32 length of id+body, 4-byte id, body). It never calls skycoin code.
//
// refParse decides, for ANY byte stream, which messages a receiver must deliver and how
// the connection must end.

import (
	"encoding/binary"

	"verif/lib/poolmsg"
)

// outcome classes of a stream
const (
	outClean       = "clean"          // ends on a frame boundary, all frames valid: connection stays open
	outIncomplete  = "incomplete"     // ends inside a frame (or inside a length prefix): connection stays open
	outBadLength   = "invalid-length" // length prefix < 4 or > max
	outUnknownID   = "unknown-id"
	outMalformed   = "malformed"     // body does not decode
	outUnderflow   = "underflow"     // body decodes but leaves trailing bytes
	outHandlerErr  = "handler-error" // a well-formed message whose handler returns an error (gnet.Handler: "the connection will be disconnected")
	minFrameLength = 4
)

type refMsg struct {
	ID   string
	Body []byte
}

type refResult struct {
	Delivered      []refMsg // messages before the first error
	Outcome        string   // first error in stream order, or clean / incomplete
	BadFrame       int      // index of the frame with the first error (-1 if none)
	LaterBadLength bool     // a bad length prefix follows a body-class error (the reader may see it first)
	Frames         int      // complete frames in the stream (up to a bad length prefix)
	// frame boundaries: offset of each frame start, for cut classification
	Starts []int
}

// bodyVerdict decides a frame body against the registered message shapes
func bodyVerdict(id string, body []byte) string {
	need := func(n int) string {
		switch {
		case len(body) < n:
			return outMalformed
		case len(body) > n:
			return outUnderflow
		}
		return ""
	}
	switch id {
	case poolmsg.IDPing:
		return need(0)
	case poolmsg.IDFixed:
		return need(47)
	case poolmsg.IDFail:
		return need(4)
	case poolmsg.IDPanc:
		if len(body) > 0 && body[0] == 0xFF {
			return outMalformed // decoder panics; the dispatcher must turn that into an error
		}
		return need(1)
	case poolmsg.IDBlob:
		if len(body) < 8 {
			return outMalformed
		}
		n := binary.LittleEndian.Uint32(body[4:8])
		if n > poolmsg.BlobMax || uint64(n) > uint64(len(body)-8) {
			return outMalformed
		}
		return need(8 + int(n))
	case poolmsg.IDList:
		if len(body) < 5 {
			return outMalformed
		}
		n := binary.LittleEndian.Uint32(body[1:5])
		if n > poolmsg.ListMax || uint64(n)*6 > uint64(len(body)-5) {
			return outMalformed
		}
		return need(5 + 6*int(n))
	}
	return outUnknownID
}

func idString(b []byte) string {
	// registered ids are 4 printable characters; anything else is unknown anyway
	return string(b[:4])
}

func refParse(stream []byte, maxLen int) refResult {
	res := refResult{BadFrame: -1, Outcome: outClean}
	off := 0
	failed := false
	for {
		if off == len(stream) {
			return res
		}
		if len(stream)-off < 4 {
			if !failed {
				res.Outcome = outIncomplete
			}
			return res
		}
		l := binary.LittleEndian.Uint32(stream[off : off+4])
		if l < minFrameLength || uint64(l) > uint64(maxLen) {
			// NOTE: a receiver can only judge a prefix once it has it; the harness never ends a
			// stream exactly at a bad prefix (at least one byte always follows)
			if failed {
				res.LaterBadLength = true
			} else {
				res.Outcome = outBadLength
				res.BadFrame = res.Frames
			}
			return res
		}
		if uint64(len(stream)-off-4) < uint64(l) {
			if !failed {
				res.Outcome = outIncomplete
			}
			return res
		}
		res.Starts = append(res.Starts, off)
		frame := stream[off+4 : off+4+int(l)]
		off += 4 + int(l)
		idx := res.Frames
		res.Frames++
		if failed {
			continue
		}
		id := idString(frame)
		if v := bodyVerdict(id, frame[4:]); v != "" {
			failed = true
			res.Outcome = v
			res.BadFrame = idx
			continue
		}
		res.Delivered = append(res.Delivered, refMsg{ID: id, Body: append([]byte(nil), frame[4:]...)})
		if id == poolmsg.IDFail {
			// delivered to its handler, which refuses it: the connection ends here
			failed = true
			res.Outcome = outHandlerErr
			res.BadFrame = idx
		}
	}
}
