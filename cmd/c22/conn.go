package main

import (
	"errors"
	"fmt"
	"io"
	"net"
	"sync"
	"time"

	"verif/lib/poolmsg"
)

// delivery is one scripted connection: the chunks its Read returns, what the handlers and
// callbacks observed, and the synchronisation between the pool's goroutines and the
// harness. Everything is guarded by mu (this check is about framing, not about races).
type delivery struct {
	mu   sync.Mutex
	cond *sync.Cond

	addr   fakeAddr
	chunks [][]byte
	need   []int // need[i]: messages that must have been recorded before chunk i is released
	next   int
	rest   []byte
	reads  int

	idle        bool // Read was called again after the final chunk: every byte has been consumed
	eofReleased bool
	closed      bool // the pool closed the connection
	closeCalls  int

	got            []refMsg
	expect         []refMsg // for paced deliveries: what must arrive, to stop pacing on the first loss
	mismatch       bool
	connectCB      int
	disconnectCB   int
	reason         error
	openAtDiscon   bool // the disconnect callback came before the harness released EOF
	handlerAfterDC int  // messages handled after the disconnect callback
	returned       bool // handleConnection returned
	retErr         error
	timedOut       bool
}

type fakeAddr string

func (a fakeAddr) Network() string { return "tcp" }
func (a fakeAddr) String() string  { return string(a) }

var errScriptClosed = errors.New("use of closed scripted connection")

func newDelivery(addr string, chunks [][]byte, need []int) *delivery {
	d := &delivery{addr: fakeAddr(addr), chunks: chunks, need: need}
	d.cond = sync.NewCond(&d.mu)
	return d
}

// Read returns exactly the next scripted chunk (split only if the caller's buffer is smaller)
func (d *delivery) Read(p []byte) (int, error) {
	d.mu.Lock()
	defer d.mu.Unlock()
	d.reads++
	for {
		if d.closed {
			return 0, errScriptClosed
		}
		if len(d.rest) > 0 {
			n := copy(p, d.rest)
			d.rest = d.rest[n:]
			return n, nil
		}
		if d.next < len(d.chunks) {
			if d.need != nil && !d.mismatch && len(d.got) < d.need[d.next] {
				// logical pacing: the receive queue holds 32 messages, wait for the recorder
				d.cond.Wait()
				continue
			}
			d.rest = d.chunks[d.next]
			d.next++
			continue
		}
		if !d.idle {
			d.idle = true
			d.cond.Broadcast()
		}
		if d.eofReleased {
			return 0, io.EOF
		}
		d.cond.Wait()
	}
}

func (d *delivery) Write(p []byte) (int, error) {
	d.mu.Lock()
	defer d.mu.Unlock()
	if d.closed {
		return 0, errScriptClosed
	}
	return len(p), nil
}

func (d *delivery) Close() error {
	d.mu.Lock()
	defer d.mu.Unlock()
	d.closeCalls++
	d.closed = true
	d.cond.Broadcast()
	return nil
}

func (d *delivery) LocalAddr() net.Addr                { return fakeAddr("10.9.9.9:9") }
func (d *delivery) RemoteAddr() net.Addr               { return d.addr }
func (d *delivery) SetDeadline(t time.Time) error      { return nil }
func (d *delivery) SetReadDeadline(t time.Time) error  { return nil }
func (d *delivery) SetWriteDeadline(t time.Time) error { return nil }

// record is called from the message handlers
func (d *delivery) record(m interface{}) {
	var rm refMsg
	switch v := m.(type) {
	case *poolmsg.Ping:
		rm = refMsg{poolmsg.IDPing, nil}
	case *poolmsg.Fixed:
		rm = refMsg{poolmsg.IDFixed, poolmsg.EncFixed(*v)}
	case *poolmsg.Blob:
		rm = refMsg{poolmsg.IDBlob, poolmsg.EncBlob(*v)}
	case *poolmsg.List:
		rm = refMsg{poolmsg.IDList, poolmsg.EncList(*v)}
	case *poolmsg.Fail:
		rm = refMsg{poolmsg.IDFail, poolmsg.EncFail(*v)}
	case *poolmsg.Panc:
		rm = refMsg{poolmsg.IDPanc, []byte{v.X}}
	default:
		rm = refMsg{fmt.Sprintf("%T", m), nil}
	}
	d.mu.Lock()
	if d.expect != nil && !d.mismatch {
		if i := len(d.got); i >= len(d.expect) || d.expect[i].ID != rm.ID || !bytesEqual(d.expect[i].Body, rm.Body) {
			d.mismatch = true // a message was lost or altered: waiting for the recorder would never end
		}
	}
	d.got = append(d.got, rm)
	if d.disconnectCB > 0 {
		d.handlerAfterDC++
	}
	d.cond.Broadcast()
	d.mu.Unlock()
}

func bytesEqual(a, b []byte) bool {
	if len(a) != len(b) {
		return false
	}
	for i := range a {
		if a[i] != b[i] {
			return false
		}
	}
	return true
}
