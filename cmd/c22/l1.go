package main

// L1 leg of C22: framing with exact chunk control. A real gnet.ConnectionPool (offline: no
// listener, strand running) gets scripted net.Conns attached through the verif hook
// VerifHandleConnection; the reference model in ref.go says what must be delivered and how
// the connection must end. Runs inside a child process (a panic in a pool goroutine kills
// the process; the parent turns that into a violation).

import (
	"bytes"
	"encoding/binary"
	"encoding/hex"
	"encoding/json"
	"fmt"
	"io"
	"io/ioutil"
	"math/rand"
	"os"
	"path/filepath"
	"runtime"
	"sort"
	"strings"
	"sync"
	"time"

	"github.com/skycoin/skycoin/src/daemon/gnet"

	"verif/lib/poolmsg"
	"verif/lib/vf"
)

const (
	maxIncoming  = 8300 // MaxIncomingMessageLength of the pools under test
	recvQueue    = 32   // capacity of the per-connection receive queue (documented burst limit)
	caseWatchdog = 30 * time.Second
)

type l1Violation struct {
	Kind    string            `json:"kind"`
	Attrs   map[string]string `json:"attrs"`
	Witness interface{}       `json:"witness"`
}

type l1Report struct {
	Counts       map[string]int64            `json:"counts"`
	Distinct     []string                    `json:"distinct"`
	Hostile      map[string]map[string]int64 `json:"hostile"`
	Violations   []l1Violation               `json:"violations"`
	Inconclusive []string                    `json:"inconclusive"`
	Samples      []interface{}               `json:"samples"`
}

type agg struct {
	mu       sync.Mutex
	rep      l1Report
	distinct map[string]bool
	chunkSet map[[12]byte]struct{}
}

func newAgg() *agg {
	return &agg{rep: l1Report{Counts: map[string]int64{}, Hostile: map[string]map[string]int64{}}, distinct: map[string]bool{}, chunkSet: map[[12]byte]struct{}{}}
}

func (a *agg) count(k string, n int64) {
	a.mu.Lock()
	a.rep.Counts[k] += n
	a.mu.Unlock()
}

func (a *agg) class(k string) {
	a.mu.Lock()
	a.distinct[k] = true
	a.mu.Unlock()
}

func (a *agg) violation(kind string, attrs map[string]string, w interface{}) {
	a.mu.Lock()
	a.rep.Counts["violations."+kind]++
	if len(a.rep.Violations) < 12 {
		a.rep.Violations = append(a.rep.Violations, l1Violation{kind, attrs, w})
	}
	a.mu.Unlock()
}

// ---------------------------------------------------------------------------------

type l1Worker struct {
	id    int
	pool  *gnet.ConnectionPool
	a     *agg
	curMu sync.Mutex
	cur   *delivery
	nconn int
	dir   string
	stuck bool

	lastStream []byte
	curFile    *os.File
	curLen     int
}

func (w *l1Worker) current(addr string) *delivery {
	w.curMu.Lock()
	defer w.curMu.Unlock()
	if w.cur != nil && string(w.cur.addr) == addr {
		return w.cur
	}
	return nil
}

// OnMessage implements poolmsg.Sink (the pool's message state)
func (w *l1Worker) OnMessage(connID uint64, addr string, m interface{}) error {
	if d := w.current(addr); d != nil {
		d.record(m)
	} else {
		w.a.count("stray.message", 1)
	}
	return nil
}

func newL1Worker(id int, a *agg, dir string) *l1Worker {
	w := &l1Worker{id: id, a: a, dir: dir}
	cfg := gnet.NewConfig()
	cfg.MaxIncomingMessageLength = maxIncoming
	cfg.ReadTimeout = 0
	cfg.ConnectCallback = func(addr string, id uint64, solicited bool) {
		if d := w.current(addr); d != nil {
			d.mu.Lock()
			d.connectCB++
			d.mu.Unlock()
		}
	}
	cfg.DisconnectCallback = func(addr string, id uint64, reason gnet.DisconnectReason) {
		if d := w.current(addr); d != nil {
			d.mu.Lock()
			d.disconnectCB++
			if d.disconnectCB == 1 {
				d.reason = reason
				d.openAtDiscon = !d.eofReleased
			}
			d.cond.Broadcast()
			d.mu.Unlock()
		}
	}
	pool, err := gnet.NewConnectionPool(cfg, w)
	if err != nil {
		panic(err)
	}
	w.pool = pool
	go pool.RunOffline() //nolint:errcheck
	return w
}

type caseInfo struct {
	Leg      string `json:"leg"`   // "valid" / "hostile" / "garbage" / "long"
	Class    string `json:"class"` // chunking kind or hostile class
	Stream   []byte `json:"-"`
	Chunks   [][]byte
	Paced    bool
	Expect   refResult
	WantKind string // for hostile cases: the outcome the generator intended (cross-check of the model)
}

func chunkSizes(ch [][]byte) []int {
	out := make([]int, len(ch))
	for i, c := range ch {
		out[i] = len(c)
	}
	return out
}

func (c *caseInfo) witness(d *delivery) map[string]interface{} {
	sizes := chunkSizes(c.Chunks)
	if len(sizes) > 64 {
		sizes = append(sizes[:64], -1)
	}
	st := c.Stream
	trunc := false
	if len(st) > 3000 {
		st = st[:3000]
		trunc = true
	}
	got := []string{}
	for i, m := range d.got {
		if i >= 16 {
			got = append(got, "...")
			break
		}
		b := m.Body
		if len(b) > 24 {
			b = b[:24]
		}
		got = append(got, fmt.Sprintf("%s:%d:%s", m.ID, len(m.Body), hex.EncodeToString(b)))
	}
	reason := "<none>"
	if d.reason != nil {
		reason = d.reason.Error()
	}
	return map[string]interface{}{
		"leg": c.Leg, "class": c.Class, "stream_hex": hex.EncodeToString(st), "stream_len": len(c.Stream), "stream_truncated": trunc,
		"chunk_sizes": sizes, "expected_outcome": c.Expect.Outcome, "expected_messages": len(c.Expect.Delivered),
		"delivered": got, "delivered_count": len(d.got), "disconnect_callbacks": d.disconnectCB, "disconnect_reason": reason,
		"disconnected_before_eof": d.openAtDiscon, "reads": d.reads,
	}
}

// paceNeeds computes, for each chunk, how many messages must have been consumed by the
// handler before the chunk may be released so that at most recvQueue messages are pending
func paceNeeds(stream []byte, starts []int, chunks [][]byte) []int {
	ends := make([]int, len(starts))
	for i, s := range starts {
		ends[i] = s + 4 + int(binary.LittleEndian.Uint32(stream[s:s+4]))
	}
	need := make([]int, len(chunks))
	off, k := 0, 0
	for i, c := range chunks {
		off += len(c)
		for k < len(ends) && ends[k] <= off {
			k++
		}
		if n := k - recvQueue; n > 0 {
			need[i] = n
		}
	}
	return need
}

func reasonName(r error) string {
	switch r {
	case nil:
		return "<none>"
	case gnet.ErrDisconnectInvalidMessageLength:
		return outBadLength
	case gnet.ErrDisconnectUnknownMessage:
		return outUnknownID
	case gnet.ErrDisconnectMalformedMessage:
		return outMalformed
	case gnet.ErrDisconnectMessageDecodeUnderflow:
		return outUnderflow
	case gnet.ErrDisconnectTruncatedMessageID:
		return "truncated-id"
	case poolmsg.ErrHandlerFail:
		return "handler-error"
	}
	if re, ok := r.(*gnet.ReadError); ok {
		if re.Err == io.EOF {
			return "read-eof"
		}
		return "read-error"
	}
	return "other:" + r.Error()
}

func sameMsgs(a, b []refMsg) bool {
	if len(a) != len(b) {
		return false
	}
	for i := range a {
		if a[i].ID != b[i].ID || !bytes.Equal(a[i].Body, b[i].Body) {
			return false
		}
	}
	return true
}

func isPrefix(got, want []refMsg) bool {
	return len(got) <= len(want) && sameMsgs(got, want[:len(got)])
}

// run delivers one case and decides it
func (w *l1Worker) run(c *caseInfo) {
	a := w.a
	w.nconn++
	addr := fmt.Sprintf("10.%d.%d.%d:%d", 1+w.id, (w.nconn>>16)&255, (w.nconn>>8)&255, 1024+(w.nconn&255))
	var need []int
	if c.Paced {
		need = paceNeeds(c.Stream, c.Expect.Starts, c.Chunks)
	}
	d := newDelivery(addr, c.Chunks, need)
	if c.Paced {
		d.expect = c.Expect.Delivered
	}
	w.curMu.Lock()
	w.cur = d
	w.curMu.Unlock()
	// the input is on disk before it reaches the pool: the stream when it changes, the chunking always
	if len(c.Stream) > 0 && (len(w.lastStream) != len(c.Stream) || &w.lastStream[0] != &c.Stream[0]) {
		w.lastStream = c.Stream
		_ = ioutil.WriteFile(filepath.Join(w.dir, fmt.Sprintf("cur-%d-stream.json", w.id)), mustJSON(map[string]interface{}{
			"leg": c.Leg, "stream_hex": hex.EncodeToString(c.Stream)}), 0644)
	}
	if w.curFile == nil {
		w.curFile, _ = os.Create(filepath.Join(w.dir, fmt.Sprintf("cur-%d-chunks.json", w.id)))
	}
	if w.curFile != nil {
		sizes := chunkSizes(c.Chunks)
		if len(sizes) > 200 {
			sizes = append(sizes[:200], -1)
		}
		line := mustJSON(map[string]interface{}{"leg": c.Leg, "class": c.Class, "chunk_sizes": sizes})
		for len(line) < w.curLen {
			line = append(line, ' ') // overwrite the previous, longer record completely
		}
		w.curLen = len(line)
		_, _ = w.curFile.WriteAt(line, 0)
	}

	solicited := w.nconn%3 == 0
	go func() {
		err := w.pool.VerifHandleConnection(d, solicited)
		d.mu.Lock()
		d.returned = true
		d.retErr = err
		d.cond.Broadcast()
		d.mu.Unlock()
	}()
	timer := time.AfterFunc(caseWatchdog, func() {
		d.mu.Lock()
		d.timedOut = true
		d.cond.Broadcast()
		d.mu.Unlock()
	})
	exp := c.Expect
	bodyClass := exp.Outcome == outUnknownID || exp.Outcome == outMalformed || exp.Outcome == outUnderflow || exp.Outcome == outHandlerErr
	stillOpenAtIdle := false
	d.mu.Lock()
	for !d.returned && !d.timedOut {
		if d.idle && !d.eofReleased {
			// every byte has been read and decoded by the pool's read loop
			release := true
			if bodyClass && len(d.got) <= len(exp.Delivered) {
				// the rejection comes from the handler goroutine; it must arrive before the
				// valid frame that follows the bad one is delivered
				release = false
			}
			if release {
				stillOpenAtIdle = !d.closed && d.disconnectCB == 0
				d.eofReleased = true
				d.cond.Broadcast()
			}
		}
		d.cond.Wait()
	}
	timedOut := d.timedOut
	d.mu.Unlock()
	timer.Stop()
	if timedOut {
		buf := make([]byte, 4<<20)
		n := runtime.Stack(buf, true)
		_ = ioutil.WriteFile(filepath.Join(vf.Root(), "replays", fmt.Sprintf("C22-stuck-worker%d.txt", w.id)), buf[:n], 0644)
		a.mu.Lock()
		a.rep.Inconclusive = append(a.rep.Inconclusive, fmt.Sprintf("delivery stuck for %v (leg %s class %s, expected %s, %d/%d messages delivered); goroutine dump in replays/C22-stuck-worker%d.txt",
			caseWatchdog, c.Leg, c.Class, exp.Outcome, len(d.got), len(exp.Delivered), w.id))
		a.mu.Unlock()
		w.stuck = true
		return
	}

	d.mu.Lock()
	defer d.mu.Unlock()
	a.count("deliveries", 1)
	a.count("deliveries."+c.Leg, 1)
	a.count("reads", int64(d.reads))
	a.count("messages.delivered", int64(len(d.got)))
	attrs := map[string]string{"leg": c.Leg, "class": c.Class, "expected": exp.Outcome, "observed": reasonName(d.reason)}
	if d.connectCB != 1 || d.disconnectCB != 1 {
		a.violation("callback-count", attrs, c.witness(d))
		return
	}
	switch {
	case exp.Outcome == outClean || exp.Outcome == outIncomplete:
		a.count("valid."+c.Class, 1)
		if d.openAtDiscon || !stillOpenAtIdle {
			a.violation("disconnected-valid-stream", attrs, c.witness(d))
			return
		}
		if !sameMsgs(d.got, exp.Delivered) {
			a.violation("delivery-mismatch", attrs, c.witness(d))
			return
		}
		if reasonName(d.reason) != "read-eof" {
			a.violation("wrong-reason", attrs, c.witness(d))
			return
		}
		a.count("valid.connection-open-after-delivery", 1)
	default:
		obs := reasonName(d.reason)
		a.mu.Lock()
		if a.rep.Hostile[c.Class] == nil {
			a.rep.Hostile[c.Class] = map[string]int64{}
		}
		a.rep.Hostile[c.Class][obs]++
		a.mu.Unlock()
		a.count("hostile.cases", 1)
		if !isPrefix(d.got, exp.Delivered) {
			a.violation("delivered-after-bad-frame", attrs, c.witness(d))
			return
		}
		ok := obs == exp.Outcome || (exp.LaterBadLength && obs == outBadLength)
		if !ok && exp.Outcome == outBadLength && obs == "truncated-id" && shortLength(c.Stream, exp) {
			// a length below 4 cannot hold a message id: both documented reasons say so
			ok = true
		}
		if !ok || !d.openAtDiscon {
			kind := "wrong-reason"
			if !d.openAtDiscon {
				kind = "hostile-not-rejected"
			}
			a.violation(kind, attrs, c.witness(d))
			return
		}
		a.count("hostile.rejected."+exp.Outcome, 1)
	}
}

// shortLength reports whether the stream's bad length prefix claims fewer than 4 bytes
func shortLength(stream []byte, exp refResult) bool {
	off := 0
	if n := len(exp.Starts); n > 0 {
		off = exp.Starts[n-1] + 4 + int(binary.LittleEndian.Uint32(stream[exp.Starts[n-1]:]))
	}
	return len(stream)-off >= 4 && binary.LittleEndian.Uint32(stream[off:]) < minFrameLength
}

func mustJSON(v interface{}) []byte {
	b, err := json.Marshal(v)
	if err != nil {
		return []byte("{}")
	}
	return b
}

// ---------------------------------------------------------------------------------
// generators

type genMsg struct {
	ID   string
	Body []byte
}

func (m genMsg) frame() []byte { return poolmsg.Frame(m.ID, m.Body) }

func randBytes(rng *rand.Rand, n int) []byte {
	b := make([]byte, n)
	rng.Read(b)
	return b
}

func genValid(rng *rand.Rand, big bool) genMsg {
	switch k := rng.Intn(10); {
	case k < 2:
		return genMsg{poolmsg.IDPing, nil}
	case k < 4:
		var f poolmsg.Fixed
		f.A, f.B, f.C, f.D = rng.Uint64(), rng.Uint32(), uint16(rng.Intn(65536)), uint8(rng.Intn(256))
		rng.Read(f.H[:])
		return genMsg{poolmsg.IDFixed, poolmsg.EncFixed(f)}
	case k < 7:
		var n int
		switch s := rng.Intn(8); {
		case s == 0:
			n = 0
		case s == 1:
			n = 1 + rng.Intn(4)
		case s < 5 || !big:
			n = rng.Intn(200)
		case s == 5:
			n = 1000 + rng.Intn(60) // around the 1024-byte read buffer
		case s == 6:
			n = 4070 + rng.Intn(60) // around the 4096-byte bufio buffer
		default:
			n = poolmsg.BlobMax - rng.Intn(3)
		}
		return genMsg{poolmsg.IDBlob, poolmsg.EncBlob(poolmsg.Blob{Seq: rng.Uint32(), Data: randBytes(rng, n)})}
	case k < 9:
		l := poolmsg.List{Tag: uint8(rng.Intn(256))}
		n := rng.Intn(12)
		if rng.Intn(6) == 0 {
			n = poolmsg.ListMax - rng.Intn(2)
		}
		for i := 0; i < n; i++ {
			l.Items = append(l.Items, poolmsg.Item{IP: rng.Uint32(), Port: uint16(rng.Intn(65536))})
		}
		return genMsg{poolmsg.IDList, poolmsg.EncList(l)}
	default:
		return genMsg{poolmsg.IDPanc, []byte{byte(rng.Intn(255))}}
	}
}

func concat(frames [][]byte) []byte {
	var out []byte
	for _, f := range frames {
		out = append(out, f...)
	}
	return out
}

func cutAt(stream []byte, offs []int) [][]byte {
	var out [][]byte
	prev := 0
	for _, o := range offs {
		if o <= prev || o >= len(stream) {
			continue
		}
		out = append(out, stream[prev:o])
		prev = o
	}
	return append(out, stream[prev:])
}

func randomCuts(rng *rand.Rand, n int) []int {
	var offs []int
	if n < 2 {
		return nil
	}
	switch rng.Intn(4) {
	case 0: // few cuts
		for k := 1 + rng.Intn(4); k > 0; k-- {
			offs = append(offs, 1+rng.Intn(n))
		}
	case 1: // many small chunks
		for o := 0; o < n; {
			o += 1 + rng.Intn(7)
			offs = append(offs, o)
		}
	case 2: // mixed sizes
		for o := 0; o < n; {
			if rng.Intn(3) == 0 {
				o += 1 + rng.Intn(3)
			} else {
				o += 1 + rng.Intn(1500)
			}
			offs = append(offs, o)
		}
	default: // around read-buffer sizes
		for o := 0; o < n; {
			o += []int{1023, 1024, 1025, 4095, 4096, 4097, 512, 5}[rng.Intn(8)]
			offs = append(offs, o)
		}
	}
	sort.Ints(offs)
	return offs
}

// cutClass says where a single cut falls relative to the frame layout
func cutClass(starts []int, off int) string {
	i := sort.SearchInts(starts, off+1) - 1 // frame containing byte off
	if i < 0 {
		return "body"
	}
	switch rel := off - starts[i]; {
	case rel == 0:
		return "frame-boundary"
	case rel < 4:
		return "inside-length-prefix"
	case rel == 4:
		return "prefix-id-boundary"
	case rel < 8:
		return "inside-id"
	case rel == 8:
		return "id-body-boundary"
	}
	return "body"
}

func bytewise(stream []byte) [][]byte {
	out := make([][]byte, len(stream))
	for i := range stream {
		out[i] = stream[i : i+1]
	}
	return out
}

// ---------------------------------------------------------------------------------

type hostileSpec struct {
	class string
	want  string
	bad   func(rng *rand.Rand) []byte // the bad frame's bytes
}

func u32(v uint32) []byte { return []byte{byte(v), byte(v >> 8), byte(v >> 16), byte(v >> 24)} }

func hostileSpecs() []hostileSpec {
	var hs []hostileSpec
	for n := 0; n < 4; n++ {
		n := n
		hs = append(hs, hostileSpec{fmt.Sprintf("length-%d(truncated-id)", n), outBadLength, func(rng *rand.Rand) []byte {
			return poolmsg.RawFrame(uint32(n), []byte("PING")[:n])
		}})
	}
	for _, l := range []struct {
		name string
		v    uint32
	}{{"length-max+1", maxIncoming + 1}, {"length-2^31", 1 << 31}, {"length-2^31-1", 1<<31 - 1}, {"length-2^32-1", 0xFFFFFFFF}, {"length-2^24", 1 << 24}} {
		l := l
		hs = append(hs, hostileSpec{l.name, outBadLength, func(rng *rand.Rand) []byte {
			return poolmsg.RawFrame(l.v, append([]byte("BLOB"), randBytes(rng, 1+rng.Intn(40))...))
		}})
	}
	hs = append(hs, hostileSpec{"length-random-out-of-range", outBadLength, func(rng *rand.Rand) []byte {
		return poolmsg.RawFrame(uint32(maxIncoming+1)+uint32(rng.Int63n(1<<32-maxIncoming-1)), randBytes(rng, 1+rng.Intn(40)))
	}})
	hs = append(hs, hostileSpec{"length-eq-max(body-over-maxlen)", outMalformed, func(rng *rand.Rand) []byte {
		n := maxIncoming - 12
		body := append(u32(7), u32(uint32(n))...)
		return poolmsg.Frame(poolmsg.IDBlob, append(body, randBytes(rng, n)...))
	}})
	hs = append(hs, hostileSpec{"unknown-id", outUnknownID, func(rng *rand.Rand) []byte {
		ids := []string{"NOPE", "ping", "PIN\x00", "\x00\x00\x00\x00", "BLOC", "\xff\xff\xff\xff", "INTR"}
		return poolmsg.Frame(ids[rng.Intn(len(ids))], randBytes(rng, rng.Intn(30)))
	}})
	hs = append(hs, hostileSpec{"body-short:Fixed", outMalformed, func(rng *rand.Rand) []byte {
		return poolmsg.Frame(poolmsg.IDFixed, randBytes(rng, rng.Intn(47)))
	}})
	hs = append(hs, hostileSpec{"body-short:Fail", outMalformed, func(rng *rand.Rand) []byte {
		return poolmsg.Frame(poolmsg.IDFail, randBytes(rng, rng.Intn(4)))
	}})
	hs = append(hs, hostileSpec{"body-short:Panc", outMalformed, func(rng *rand.Rand) []byte {
		return poolmsg.Frame(poolmsg.IDPanc, nil)
	}})
	hs = append(hs, hostileSpec{"body-short:Blob-count-beyond-data", outMalformed, func(rng *rand.Rand) []byte {
		have := rng.Intn(50)
		body := append(u32(1), u32(uint32(have+1+rng.Intn(100)))...)
		return poolmsg.Frame(poolmsg.IDBlob, append(body, randBytes(rng, have)...))
	}})
	hs = append(hs, hostileSpec{"body-short:Blob-header", outMalformed, func(rng *rand.Rand) []byte {
		return poolmsg.Frame(poolmsg.IDBlob, randBytes(rng, rng.Intn(8)))
	}})
	hs = append(hs, hostileSpec{"body-short:List-count-beyond-data", outMalformed, func(rng *rand.Rand) []byte {
		n := 1 + rng.Intn(20)
		body := append([]byte{3}, u32(uint32(n))...)
		return poolmsg.Frame(poolmsg.IDList, append(body, randBytes(rng, rng.Intn(6*n))...))
	}})
	hs = append(hs, hostileSpec{"count-huge:Blob", outMalformed, func(rng *rand.Rand) []byte {
		body := append(u32(1), u32([]uint32{0xFFFFFFFF, 1 << 31, poolmsg.BlobMax + 1}[rng.Intn(3)])...)
		return poolmsg.Frame(poolmsg.IDBlob, append(body, randBytes(rng, rng.Intn(64))...))
	}})
	hs = append(hs, hostileSpec{"maxlen-exceeded:List", outMalformed, func(rng *rand.Rand) []byte {
		n := poolmsg.ListMax + 1 + rng.Intn(5)
		body := append([]byte{9}, u32(uint32(n))...)
		return poolmsg.Frame(poolmsg.IDList, append(body, randBytes(rng, 6*n)...))
	}})
	hs = append(hs, hostileSpec{"maxlen-exceeded:Blob", outMalformed, func(rng *rand.Rand) []byte {
		n := poolmsg.BlobMax + 1 + rng.Intn(20)
		body := append(u32(2), u32(uint32(n))...)
		return poolmsg.Frame(poolmsg.IDBlob, append(body, randBytes(rng, n)...))
	}})
	hs = append(hs, hostileSpec{"decode-panic:Panc", outMalformed, func(rng *rand.Rand) []byte {
		return poolmsg.Frame(poolmsg.IDPanc, append([]byte{0xFF}, randBytes(rng, rng.Intn(3))...))
	}})
	hs = append(hs, hostileSpec{"handler-error:Fail", outHandlerErr, func(rng *rand.Rand) []byte {
		return poolmsg.Frame(poolmsg.IDFail, u32(rng.Uint32()))
	}})
	for _, id := range []string{poolmsg.IDPing, poolmsg.IDFixed, poolmsg.IDBlob, poolmsg.IDList, poolmsg.IDFail, poolmsg.IDPanc} {
		id := id
		hs = append(hs, hostileSpec{"trailing-bytes:" + id, outUnderflow, func(rng *rand.Rand) []byte {
			var body []byte
			switch id {
			case poolmsg.IDPing:
			case poolmsg.IDFail:
				body = u32(rng.Uint32())
			case poolmsg.IDPanc:
				body = []byte{byte(rng.Intn(255))}
			default:
				for {
					m := genValid(rng, false)
					if m.ID == id {
						body = m.Body
						break
					}
				}
			}
			return poolmsg.Frame(id, append(append([]byte(nil), body...), randBytes(rng, 1+rng.Intn(8))...))
		}})
	}
	return hs
}

// ---------------------------------------------------------------------------------

type l1Plan struct {
	sequences    int
	randomPerSeq int
	hostilePer   int
	garbage      int
	longStreams  int
	longMsgs     int
}

func runL1Child() {
	seed := int64(1)
	fmt.Sscan(os.Getenv("VERIF_SEED"), &seed) //nolint:errcheck
	tier := os.Getenv("VERIF_TIER")
	outPath := os.Getenv("C22_OUT")
	dir := filepath.Dir(outPath)
	plan := l1Plan{sequences: 48, randomPerSeq: 200, hostilePer: 40, garbage: 3000, longStreams: 16, longMsgs: 600}
	if tier == "thorough" {
		plan = l1Plan{sequences: 320, randomPerSeq: 5000, hostilePer: 400, garbage: 200000, longStreams: 160, longMsgs: 3000}
	}
	poolmsg.QuietLogs()
	poolmsg.Register()

	a := newAgg()
	const nWorkers = 16
	jobs := make(chan func(w *l1Worker), 64)
	var wg sync.WaitGroup
	workers := make([]*l1Worker, nWorkers)
	for i := 0; i < nWorkers; i++ {
		workers[i] = newL1Worker(i, a, dir)
		wg.Add(1)
		go func(w *l1Worker) {
			defer wg.Done()
			for j := range jobs {
				if !w.stuck {
					j(w)
				}
			}
		}(workers[i])
	}
	sub := func(labels ...interface{}) *rand.Rand {
		return rand.New(rand.NewSource(subSeed(seed, labels...)))
	}

	// --- leg A: valid sequences under every split, bytewise, and random chunkings
	for s := 0; s < plan.sequences; s++ {
		s := s
		jobs <- func(w *l1Worker) {
			rng := sub("seq", s)
			n := 1 + rng.Intn(12)
			big := s%6 == 5
			var frames [][]byte
			for i := 0; i < n; i++ {
				frames = append(frames, genValid(rng, big).frame())
			}
			stream := concat(frames)
			exp := refParse(stream, maxIncoming)
			if exp.Outcome != outClean || len(exp.Delivered) != n {
				panic("harness: reference model rejects a generated valid sequence")
			}
			a.count("sequences", 1)
			a.count("sequences.messages", int64(n))
			a.count("sequences.bytes", int64(len(stream)))
			mk := func(class string, chunks [][]byte) *caseInfo {
				a.chunking(s, chunks)
				return &caseInfo{Leg: "valid", Class: class, Stream: stream, Chunks: chunks, Expect: exp}
			}
			w.run(mk("single-chunk", [][]byte{stream}))
			// (a) every single offset; for long streams every offset near a frame boundary plus a stride
			for off := 1; off < len(stream) && !w.stuck; off++ {
				cc := cutClass(exp.Starts, off)
				if len(stream) > 2200 && cc == "body" && off%89 != 0 {
					continue
				}
				a.count("split2."+cc, 1)
				a.class("split2:" + cc)
				w.run(mk("split2", cutAt(stream, []int{off})))
			}
			// (b) all 1-byte chunks
			if !w.stuck {
				a.class("bytewise")
				w.run(mk("bytewise", bytewise(stream)))
			}
			// (c) random chunkings
			for k := 0; k < plan.randomPerSeq && !w.stuck; k++ {
				w.run(mk("random", cutAt(stream, randomCuts(rng, len(stream)))))
			}
			a.class("random")
		}
	}

	// --- leg B: long streams on one connection, bursts up to the receive queue, paced on the recorder
	for s := 0; s < plan.longStreams; s++ {
		s := s
		jobs <- func(w *l1Worker) {
			rng := sub("long", s)
			n := plan.longMsgs/2 + rng.Intn(plan.longMsgs)
			var frames [][]byte
			for i := 0; i < n; i++ {
				if s%2 == 0 || rng.Intn(3) > 0 {
					// tiny messages so that one read completes many of them
					if rng.Intn(2) == 0 {
						frames = append(frames, genMsg{poolmsg.IDPing, nil}.frame())
					} else {
						frames = append(frames, genMsg{poolmsg.IDPanc, []byte{byte(rng.Intn(255))}}.frame())
					}
				} else {
					frames = append(frames, genValid(rng, true).frame())
				}
			}
			stream := concat(frames)
			exp := refParse(stream, maxIncoming)
			if exp.Outcome != outClean || len(exp.Delivered) != n {
				panic("harness: reference model rejects a generated long stream")
			}
			// chunk boundaries: random sizes, but never more than recvQueue messages completed by one chunk
			var offs []int
			off, fi, maxBurst := 0, 0, 0
			for off < len(stream) {
				var want int
				switch rng.Intn(4) {
				case 0:
					want = 1 + rng.Intn(16)
				case 1:
					want = 1 + rng.Intn(600)
				default:
					want = 4096 // as much as allowed
				}
				end := off + want
				if end > len(stream) {
					end = len(stream)
				}
				// frames completed in (off, end]
				k := fi
				for k < len(exp.Starts) {
					fe := len(stream)
					if k+1 < len(exp.Starts) {
						fe = exp.Starts[k+1]
					}
					if fe > end {
						break
					}
					if k-fi+1 > recvQueue {
						end = exp.Starts[k] // cut before the 33rd completion
						break
					}
					k++
				}
				if end <= off {
					end = off + 1
				}
				done := 0
				for fi < len(exp.Starts) {
					fe := len(stream)
					if fi+1 < len(exp.Starts) {
						fe = exp.Starts[fi+1]
					}
					if fe > end {
						break
					}
					fi++
					done++
				}
				if done > maxBurst {
					maxBurst = done
				}
				off = end
				offs = append(offs, off)
			}
			chunks := cutAt(stream, offs)
			a.count("long.messages", int64(n))
			a.count("long.chunks", int64(len(chunks)))
			if maxBurst == recvQueue {
				a.count("long.bursts-of-32", 1)
			}
			a.class(fmt.Sprintf("long:burst%d", maxBurst))
			a.chunking(1<<20+s, chunks)
			w.run(&caseInfo{Leg: "long", Class: "paced-bursts", Stream: stream, Chunks: chunks, Paced: true, Expect: exp})
		}
	}

	// --- leg C: hostile frames by class
	specs := hostileSpecs()
	for si, sp := range specs {
		si, sp := si, sp
		jobs <- func(w *l1Worker) {
			rng := sub("hostile", si)
			for k := 0; k < plan.hostilePer && !w.stuck; k++ {
				var frames [][]byte
				for i := rng.Intn(4); i > 0; i-- {
					frames = append(frames, genValid(rng, false).frame())
				}
				before := len(concat(frames))
				bad := sp.bad(rng)
				frames = append(frames, bad)
				for i := 1 + rng.Intn(2); i > 0; i-- {
					frames = append(frames, genValid(rng, false).frame())
				}
				stream := concat(frames)
				exp := refParse(stream, maxIncoming)
				if exp.Outcome != sp.want {
					panic(fmt.Sprintf("harness: reference model says %s for class %s (want %s)", exp.Outcome, sp.class, sp.want))
				}
				var chunks [][]byte
				switch k % 5 {
				case 0:
					chunks = [][]byte{stream}
				case 1:
					if len(stream) <= 1200 {
						chunks = bytewise(stream)
					} else {
						chunks = cutAt(stream, randomCuts(rng, len(stream)))
					}
				case 2: // cut inside the bad frame's first 9 bytes
					chunks = cutAt(stream, []int{before + 1 + rng.Intn(min(8, len(bad)-1))})
				case 3: // bad frame alone in its chunk
					chunks = cutAt(stream, []int{before, before + len(bad)})
				default:
					chunks = cutAt(stream, randomCuts(rng, len(stream)))
				}
				a.chunking(2<<20+si*100000+k, chunks)
				a.class("hostile:" + sp.class)
				w.run(&caseInfo{Leg: "hostile", Class: sp.class, Stream: stream, Chunks: chunks, Expect: exp, WantKind: sp.want})
			}
		}
	}

	// --- leg D: garbage streams assembled from random tokens; the reference model decides each
	const garbageBatch = 250
	for b := 0; b*garbageBatch < plan.garbage; b++ {
		b := b
		jobs <- func(w *l1Worker) {
			rng := sub("garbage", b)
			for k := 0; k < garbageBatch && !w.stuck; k++ {
				stream := genGarbage(rng)
				if len(stream) == 0 {
					stream = []byte{byte(rng.Intn(256))}
				}
				exp := refParse(stream, maxIncoming)
				bodyClass := exp.Outcome == outUnknownID || exp.Outcome == outMalformed || exp.Outcome == outUnderflow || exp.Outcome == outHandlerErr
				if bodyClass && !exp.LaterBadLength {
					// make sure a valid frame follows the bad one (see run): append a sentinel and re-decide
					stream = append(stream, poolmsg.Frame(poolmsg.IDPing, nil)...)
					exp = refParse(stream, maxIncoming)
					if exp.Frames-1 <= exp.BadFrame || exp.LaterBadLength {
						if !exp.LaterBadLength {
							a.count("garbage.skipped", 1)
							continue
						}
					}
				}
				if exp.Outcome == outBadLength && exp.BadFrame == exp.Frames {
					// never end exactly at a bad prefix: a receiver needs one more byte to look at it
					off := 0
					if n := len(exp.Starts); n > 0 {
						off = exp.Starts[n-1] + 4 + int(binary.LittleEndian.Uint32(stream[exp.Starts[n-1]:]))
					}
					if len(stream)-off == 4 {
						stream = append(stream, byte(rng.Intn(256)))
						exp = refParse(stream, maxIncoming)
					}
				}
				a.count("garbage.outcome."+exp.Outcome, 1)
				a.class("garbage:" + exp.Outcome)
				var chunks [][]byte
				if k%3 == 0 {
					chunks = [][]byte{stream}
				} else {
					chunks = cutAt(stream, randomCuts(rng, len(stream)))
				}
				w.run(&caseInfo{Leg: "garbage", Class: "garbage:" + exp.Outcome, Stream: stream, Chunks: chunks, Expect: exp})
			}
		}
	}
	close(jobs)
	wg.Wait()
	for _, w := range workers {
		if !w.stuck {
			w.pool.Shutdown()
		}
	}

	a.mu.Lock()
	a.rep.Counts["chunkings.distinct"] = int64(len(a.chunkSet))
	for k := range a.distinct {
		a.rep.Distinct = append(a.rep.Distinct, k)
	}
	sort.Strings(a.rep.Distinct)
	a.rep.Samples = append(a.rep.Samples, map[string]interface{}{"what": "valid sequence of 1-12 frames cut at every offset / bytewise / randomly; hostile frame between valid frames; token garbage",
		"max_incoming": maxIncoming, "workers": nWorkers})
	b, _ := json.Marshal(a.rep)
	a.mu.Unlock()
	if err := ioutil.WriteFile(outPath, b, 0644); err != nil {
		fmt.Fprintln(os.Stderr, err)
		os.Exit(3)
	}
}

// chunking records a distinct (stream, chunking) pair
func (a *agg) chunking(streamID int, chunks [][]byte) {
	h := uint64(streamID)*0x9e3779b97f4a7c15 + 1
	for _, c := range chunks {
		h = (h ^ uint64(len(c))) * 0x100000001b3
	}
	var k [12]byte
	binary.LittleEndian.PutUint64(k[:8], h)
	binary.LittleEndian.PutUint32(k[8:], uint32(len(chunks)))
	a.mu.Lock()
	a.chunkSet[k] = struct{}{}
	a.mu.Unlock()
}

func genGarbage(rng *rand.Rand) []byte {
	var out []byte
	ids := []string{poolmsg.IDPing, poolmsg.IDFixed, poolmsg.IDBlob, poolmsg.IDList, poolmsg.IDFail, poolmsg.IDPanc, "NOPE", "PINg"}
	for n := 1 + rng.Intn(6); n > 0; n-- {
		switch k := rng.Intn(20); {
		case k < 7: // valid frame
			out = append(out, genValid(rng, false).frame()...)
		case k < 12: // known or unknown id with random body, consistent length
			out = append(out, poolmsg.Frame(ids[rng.Intn(len(ids))], randBytes(rng, rng.Intn(60)))...)
		case k < 14: // valid frame with one bit flipped somewhere after the prefix
			f := genValid(rng, false).frame()
			if len(f) > 4 {
				i := 4 + rng.Intn(len(f)-4)
				f[i] ^= 1 << uint(rng.Intn(8))
			}
			out = append(out, f...)
		case k < 16: // valid frame with a bit flipped in the length prefix
			f := genValid(rng, false).frame()
			f[rng.Intn(4)] ^= 1 << uint(rng.Intn(8))
			out = append(out, f...)
		case k < 17: // raw random bytes
			out = append(out, randBytes(rng, 1+rng.Intn(24))...)
		case k < 18: // truncated valid frame (ends the stream)
			f := genValid(rng, false).frame()
			out = append(out, f[:rng.Intn(len(f))]...)
			return out
		default: // small claimed length
			out = append(out, poolmsg.RawFrame(uint32(rng.Intn(12)), randBytes(rng, rng.Intn(12)))...)
		}
	}
	return out
}

func min(a, b int) int {
	if a < b {
		return a
	}
	return b
}

func subSeed(seed int64, labels ...interface{}) int64 {
	s := fmt.Sprint(append([]interface{}{seed, "C22"}, labels...)...)
	var x uint64 = 0xcbf29ce484222325
	for i := 0; i < len(s); i++ {
		x = (x ^ uint64(s[i])) * 0x100000001b3
	}
	x += 0x9e3779b97f4a7c15
	x = (x ^ (x >> 30)) * 0xbf58476d1ce4e5b9
	x = (x ^ (x >> 27)) * 0x94d049bb133111eb
	return int64((x ^ (x >> 31)) >> 1)
}

// ---------------------------------------------------------------------------------
// parent side

func runL1(r *vf.Run) {
	tmp := vf.TempDir("c22")
	defer os.RemoveAll(tmp)
	outPath := filepath.Join(tmp, "l1.json")
	res := vf.RunChild(tmp, "", "l1", nil, []string{"C22_OUT=" + outPath, fmt.Sprintf("VERIF_SEED=%d", r.Seed), "VERIF_TIER=" + r.Tier, "GOMEMLIMIT=6GiB"},
		time.Duration(r.Pick(8, 40))*time.Minute)
	b, err := ioutil.ReadFile(outPath)
	if err != nil {
		head, frame := vf.CrashSignature(res.Stderr)
		cur := map[string]interface{}{}
		if ms, _ := filepath.Glob(filepath.Join(tmp, "cur-*.json")); len(ms) > 0 {
			for _, m := range ms {
				if cb, err := ioutil.ReadFile(m); err == nil {
					var v interface{}
					_ = json.Unmarshal(cb, &v)
					cur[filepath.Base(m)] = v
				}
			}
		}
		if strings.HasPrefix(head, "panic: harness:") || harnessPanic(res.Stderr) {
			fmt.Fprintf(os.Stderr, "c22: harness failure in the L1 child:\n%s\n", tailStr(string(res.Stderr), 3000))
			_ = os.RemoveAll(tmp)
			os.Exit(3)
		}
		if head != "" && !res.TimedOut {
			r.Count("l1.child-crash", 1)
			r.Violation("panic", map[string]string{"leg": "L1", "headline": head, "frame": frame},
				map[string]interface{}{"stderr_tail": tailStr(string(res.Stderr), 5000), "streams_in_flight": cur})
		} else {
			r.Inconclusive(fmt.Sprintf("L1 child produced no report (exit %d, timed out %v): %s", res.ExitCode, res.TimedOut, tailStr(string(res.Stderr), 400)))
		}
		return
	}
	var rep l1Report
	if err := json.Unmarshal(b, &rep); err != nil {
		r.Inconclusive("L1 report unreadable: " + err.Error())
		return
	}
	for k, v := range rep.Counts {
		r.Count("l1."+k, v)
	}
	r.Eval(rep.Counts["deliveries"])
	for _, k := range rep.Distinct {
		r.Distinct("l1:" + k)
	}
	r.Extra("l1_hostile_class_to_disconnect_reason", rep.Hostile)
	for _, s := range rep.Samples {
		r.Sample(s)
	}
	for _, v := range rep.Violations {
		r.Violation(v.Kind, v.Attrs, v.Witness)
	}
	for _, w := range rep.Inconclusive {
		r.Inconclusive(w)
	}
	if h, _ := vf.CrashSignature(res.Stderr); h != "" {
		r.Violation("panic", map[string]string{"leg": "L1", "headline": h}, map[string]interface{}{"stderr_tail": tailStr(string(res.Stderr), 5000)})
	}

	q := int64(r.Pick(1, 8))
	r.Floor("l1.deliveries.valid", 20000*q)
	r.Floor("l1.valid.split2", 8000*q)
	r.Floor("l1.valid.bytewise", 40*q)
	r.Floor("l1.valid.random", 8000*q)
	r.Floor("l1.valid.connection-open-after-delivery", 20000*q)
	for _, c := range []string{"inside-length-prefix", "prefix-id-boundary", "inside-id", "id-body-boundary", "frame-boundary", "body"} {
		r.Floor("l1.split2."+c, 200*q)
	}
	r.Floor("l1.deliveries.long", 10*q)
	r.Floor("l1.long.bursts-of-32", 4*q)
	r.Floor("l1.deliveries.hostile", 1000*q)
	for _, o := range []string{outBadLength, outUnknownID, outMalformed, outUnderflow} {
		r.Floor("l1.hostile.rejected."+o, 30*q)
	}
	r.Floor("l1.deliveries.garbage", 2000*q)
	for _, o := range []string{outClean, outIncomplete, outBadLength, outUnknownID, outMalformed, outUnderflow} {
		r.Floor("l1.garbage.outcome."+o, 20*q)
	}
	r.Floor("l1.chunkings.distinct", 20000*q)
}

// harnessPanic reports whether the first non-runtime frame of the crashing goroutine is
// harness code (a bug in this check, not an observation about skycoin)
func harnessPanic(stderr []byte) bool {
	txt := string(stderr)
	if strings.Contains(txt, "panic: poolmsg: Panc decode panic") {
		return false // the deliberate decoder panic escaped the dispatcher's recovery
	}
	i := strings.Index(txt, "[running]:")
	if i < 0 {
		return false
	}
	for _, l := range strings.Split(txt[i:], "\n")[1:] {
		if strings.HasPrefix(l, "\t") || strings.TrimSpace(l) == "" {
			continue
		}
		switch {
		case strings.HasPrefix(l, "github.com/skycoin/skycoin/"):
			return false
		case strings.HasPrefix(l, "main.") || strings.HasPrefix(l, "verif/"):
			return true
		}
	}
	return false
}

func tailStr(s string, n int) string {
	if len(s) > n {
		return s[len(s)-n:]
	}
	return s
}
