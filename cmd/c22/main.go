// c22 decides property C22 (the wire protocol frames and parses any byte stream correctly).
//
// L1 (l1.go, ref.go, conn.go): a real ConnectionPool fed through scripted connections with
// exact control over what each Read returns, decided by an independent reference parser.
// L2 (l2.go): the real daemon over TCP — added by the orchestrator.
package main

import (
	"verif/lib/vf"
)

func main() {
	if vf.ChildMode() == "l1" {
		runL1Child()
		return
	}
	r := vf.Start("C22", "exploration")
	runL1(r)
	runL2(r)
	r.Finish("L1: seeded sequences of 1-12 well-formed frames (empty / fixed / byte-slice / struct-slice messages, bodies 0..8 KiB) delivered under every 2-chunk split, bytewise and random chunkings, long streams in bursts of up to 32 messages; hostile frames per class between valid frames; token-level garbage streams. distinct = distinct cut-position classes, hostile classes and garbage outcome classes; l1.chunkings.distinct counts distinct (stream, chunking) pairs",
		"the expected deliveries and disconnect reason come from a hand-written reference parser of the documented frame and encoding rules (cmd/c22/ref.go), not from skycoin code",
		"a stream never ends exactly on a 4-byte out-of-range length prefix: at least one more byte follows (a receiver cannot be required to judge a prefix before the first body byte arrives)",
		"bursts are limited to the 32-message receive queue by waiting on the handler-side recorder (logical pacing, no sleeps)",
		"a 30 s per-delivery watchdog only yields inconclusive")
}
