package main

import "verif/lib/vf"

// runL2 is the real-daemon leg (vnode over TCP: valid / truncated / extended / bit-flipped
// bodies of every daemon message type before and after the introduction, random streams).
// It is added by the orchestrator; until then it contributes nothing to the verdict.
func runL2(r *vf.Run) {
	_ = r
}
