package main

// L2 — the real daemon over TCP. vnode children (real node, loopback) receive, before and after a
// valid introduction, every daemon message type with bodies valid / truncated / extended /
// bit-flipped / element counts at and beyond maxlen / random, frames with bad length prefixes and
// unknown ids, and token-level garbage streams.
//
// Oracle (from the statement): the node process stays alive (exit status, stderr scanned for
// panic: / fatal error:), a fresh connection still completes introduction + PING/PONG, and a
// malformed frame (length prefix below 4 or above the configured maximum, unknown id, body that
// does not decode, trailing bytes) is answered by disconnect. Whether a frame is malformed is
// decided by a reference decoder of the documented message layouts (l2WellFormed), never by
// skycoin code. Verdicts are logical: the receiver stops processing a connection at the first
// malformed frame, so a PONG answering a PING sent after the malformed frame proves that the
// frame was not answered by disconnect; EOF proves the disconnect; watchdogs yield inconclusive.

import (
	"encoding/binary"
	"fmt"
	"math/rand"
	"net"
	"os"
	"path/filepath"
	"strings"
	"sync"
	"sync/atomic"
	"time"

	"verif/lib/node"
	"verif/lib/vf"
	"verif/lib/wire"
)

const (
	l2MaxMsg   = 64 * 1024 // configured maximum incoming message length of the nodes
	l2Watchdog = 20 * time.Second
)

var l2Types = []string{"INTR", "GETP", "GIVP", "PING", "PONG", "GETB", "GIVB", "ANNB", "GETT", "GIVT", "ANNT", "DISC"}

func l2u32(v uint32) []byte { b := make([]byte, 4); binary.LittleEndian.PutUint32(b, v); return b }
func l2u64(v uint64) []byte { b := make([]byte, 8); binary.LittleEndian.PutUint64(b, v); return b }

func l2rand(rng *rand.Rand, n int) []byte {
	b := make([]byte, n)
	rng.Read(b)
	return b
}

// ---------------------------------------------------------------------------------
// reference decoder of the documented layouts: "" = exact encoding, else the defect class

type l2cur struct {
	b   []byte
	bad bool
}

func (c *l2cur) take(n uint64) []byte {
	if c.bad || uint64(len(c.b)) < n {
		c.bad = true
		return nil
	}
	x := c.b[:n]
	c.b = c.b[n:]
	return x
}

func (c *l2cur) u32() uint32 {
	x := c.take(4)
	if x == nil {
		return 0
	}
	return binary.LittleEndian.Uint32(x)
}

// count reads an element count with its maxlen (0 = none)
func (c *l2cur) count(maxlen uint32) uint32 {
	n := c.u32()
	if maxlen != 0 && n > maxlen {
		c.bad = true
	}
	return n
}

func (c *l2cur) txn() {
	c.take(4 + 1 + 32) // Length, Type, InnerHash
	n := c.count(65535)
	c.take(65 * uint64(n)) // Sigs
	n = c.count(65535)
	c.take(32 * uint64(n)) // In
	n = c.count(65535)
	c.take(37 * uint64(n)) // Out: address 21, coins 8, hours 8
}

func l2WellFormed(id string, body []byte) string {
	c := &l2cur{b: body}
	switch id {
	case "GETP", "PING", "PONG":
	case "INTR":
		c.take(10)
		if !c.bad && len(c.b) > 0 {
			n := c.u32()
			c.take(uint64(n))
		}
	case "GIVP":
		n := c.count(512)
		c.take(6 * uint64(n))
	case "GETB":
		c.take(16)
	case "ANNB":
		c.take(8)
	case "GETT", "ANNT":
		n := c.count(256)
		c.take(32 * uint64(n))
	case "GIVB":
		n := c.count(128)
		for i := uint32(0); i < n && !c.bad; i++ {
			c.take(4 + 8 + 8 + 8 + 32 + 32 + 32) // header
			k := c.count(65535)
			for j := uint32(0); j < k && !c.bad; j++ {
				c.txn()
			}
			c.take(65) // signature
		}
	case "GIVT":
		n := c.count(256)
		for i := uint32(0); i < n && !c.bad; i++ {
			c.txn()
		}
	case "DISC":
		c.take(2)
		n := c.u32()
		c.take(uint64(n))
	default:
		return "unknown-id"
	}
	if c.bad {
		return "undecodable-body"
	}
	if len(c.b) > 0 {
		return "trailing-bytes"
	}
	return ""
}

// l2Stream classifies a byte stream: the first defect in stream order ("" if every frame is well
// formed, "incomplete" if it ends inside a frame), the offset just behind the first defective
// frame (all of the stream for a bad length prefix) and the number of well-formed PING frames in
// front of the defect
func l2Stream(s []byte) (defect string, end int, pings int) {
	off := 0
	for off < len(s) {
		rest := s[off:]
		if len(rest) < 4 {
			return "incomplete", len(s), pings
		}
		l := binary.LittleEndian.Uint32(rest)
		if l < 4 {
			if len(rest) == 4 {
				return "incomplete", len(s), pings // a receiver may wait for one more byte before judging
			}
			return "length-below-minimum", len(s), pings
		}
		if l > l2MaxMsg {
			if len(rest) == 4 {
				return "incomplete", len(s), pings
			}
			return "length-above-maximum", len(s), pings
		}
		if uint64(len(rest)-4) < uint64(l) {
			return "incomplete", len(s), pings
		}
		f := rest[4 : 4+l]
		off += 4 + int(l)
		if v := l2WellFormed(string(f[:4]), f[4:]); v != "" {
			return v, off, pings
		}
		if string(f[:4]) == "PING" {
			pings++
		}
	}
	return "", len(s), pings
}

// ---------------------------------------------------------------------------------
// generators

func l2Txn(rng *rand.Rand) []byte {
	var b []byte
	b = append(b, l2u32(uint32(rng.Intn(1000)))...)
	b = append(b, byte(rng.Intn(2)))
	b = append(b, l2rand(rng, 32)...)
	ns, ni, no := rng.Intn(3), rng.Intn(3), rng.Intn(3)
	b = append(b, l2u32(uint32(ns))...)
	b = append(b, l2rand(rng, 65*ns)...)
	b = append(b, l2u32(uint32(ni))...)
	b = append(b, l2rand(rng, 32*ni)...)
	b = append(b, l2u32(uint32(no))...)
	b = append(b, l2rand(rng, 37*no)...)
	return b
}

func l2Block(rng *rand.Rand, txns int) []byte {
	b := l2rand(rng, 124)
	b = append(b, l2u32(uint32(txns))...)
	for i := 0; i < txns; i++ {
		b = append(b, l2Txn(rng)...)
	}
	return append(b, l2rand(rng, 65)...)
}

// l2Intro returns a valid introduction body
func l2Intro(pub []byte, mirror uint32) []byte {
	b := l2u32(mirror)
	b = append(b, 0x71, 0x17) // listen port 6001
	b = append(b, l2u32(2)...)
	ua := "skycoin:0.27.0"
	extra := append([]byte(nil), pub...)
	extra = append(extra, l2u32(10)...)
	extra = append(extra, l2u32(32768)...)
	extra = append(extra, 3)
	extra = append(extra, l2u32(uint32(len(ua)))...)
	extra = append(extra, ua...)
	b = append(b, l2u32(uint32(len(extra)))...)
	return append(b, extra...)
}

// l2Valid returns a well-formed body; n < 0 picks a small random element count
func l2Valid(id string, rng *rand.Rand, pub []byte, n int) []byte {
	pick := func(small int) int {
		if n >= 0 {
			return n
		}
		return rng.Intn(small)
	}
	switch id {
	case "GETP", "PING", "PONG":
		return nil
	case "INTR":
		return l2Intro(pub, rng.Uint32()&^1) // even: never one of the harness's own (odd) mirrors
	case "GIVP":
		k := pick(5)
		b := l2u32(uint32(k))
		return append(b, l2rand(rng, 6*k)...)
	case "GETB":
		return append(l2u64(uint64(rng.Intn(4))), l2u64(uint64(rng.Intn(40)))...)
	case "ANNB":
		return l2u64(uint64(rng.Intn(50)))
	case "GETT", "ANNT":
		k := pick(5)
		b := l2u32(uint32(k))
		return append(b, l2rand(rng, 32*k)...)
	case "GIVB":
		k := pick(3)
		b := l2u32(uint32(k))
		for i := 0; i < k; i++ {
			t := rng.Intn(3)
			if n >= 0 {
				t = 0
			}
			b = append(b, l2Block(rng, t)...)
		}
		return b
	case "GIVT":
		k := pick(3)
		b := l2u32(uint32(k))
		for i := 0; i < k; i++ {
			b = append(b, l2Txn(rng)...)
		}
		return b
	case "DISC":
		k := pick(4)
		b := []byte{byte(rng.Intn(25)), 0}
		b = append(b, l2u32(uint32(k))...)
		return append(b, l2rand(rng, k)...)
	}
	panic("l2Valid: " + id)
}

var l2Maxlen = map[string]int{"GIVP": 512, "GIVB": 128, "GETT": 256, "ANNT": 256, "GIVT": 256}

var l2Classes = []string{"valid", "length-prefix-max+1-full-frame", "truncated", "extended", "bit-flipped", "count-at-maxlen", "count-beyond-maxlen", "count-huge", "random-body",
	"length-prefix-0-3", "length-prefix-max+1", "length-prefix-2^31", "length-prefix-2^32-1", "length-prefix-maximum-exactly", "unknown-id", "garbage-stream"}

type l2Case struct {
	Pre    bool // before the introduction
	Type   string
	Class  string
	Stream []byte
	Defect string // reference verdict on the stream ("" / incomplete / defect class)
	Pings  int    // well-formed PING frames in front of the defect (each may be answered by a PONG)
}

func l2Frame(id string, body []byte) []byte {
	b := l2u32(uint32(4 + len(body)))
	b = append(b, id...)
	return append(b, body...)
}

// l2Gen builds case number i
func l2Gen(i int, rng *rand.Rand, pub []byte) l2Case {
	c := l2Case{Pre: rng.Intn(3) == 0}
	c.Type = l2Types[i%len(l2Types)]
	c.Class = l2Classes[(i/len(l2Types))%len(l2Classes)]
	body := l2Valid(c.Type, rng, pub, -1)
	switch c.Class {
	case "valid":
	case "truncated":
		if len(body) == 0 {
			c.Class = "valid"
		} else {
			body = body[:rng.Intn(len(body))]
		}
	case "extended":
		body = append(body, l2rand(rng, 1+rng.Intn(16))...)
	case "bit-flipped":
		if len(body) == 0 {
			c.Class = "valid"
		} else {
			for k := 1 + rng.Intn(3); k > 0; k-- {
				body[rng.Intn(len(body))] ^= 1 << uint(rng.Intn(8))
			}
		}
	case "count-at-maxlen", "count-beyond-maxlen", "count-huge":
		m, ok := l2Maxlen[c.Type]
		if !ok {
			c.Class = "valid"
			break
		}
		switch c.Class {
		case "count-at-maxlen":
			body = l2Valid(c.Type, rng, pub, m)
		case "count-beyond-maxlen":
			body = l2Valid(c.Type, rng, pub, m+1)
		default:
			body = l2Valid(c.Type, rng, pub, 1)
			binary.LittleEndian.PutUint32(body, []uint32{0xffffffff, 0x80000000, 0x7fffffff, 65536}[rng.Intn(4)])
		}
	case "random-body":
		body = l2rand(rng, rng.Intn(80))
	}
	switch c.Class {
	case "length-prefix-0-3":
		c.Stream = append(l2u32(uint32(rng.Intn(4))), l2Frame(c.Type, body)...)
	case "length-prefix-max+1":
		c.Stream = append(l2u32(l2MaxMsg+1), c.Type...)
		c.Stream = append(c.Stream, l2rand(rng, 1+rng.Intn(40))...)
	case "length-prefix-max+1-full-frame":
		// a complete frame one byte longer than the maximum whose content would otherwise be
		// harmless: an introduction with the documented fields followed by filler inside Extra
		c.Type = "INTR"
		b := l2Intro(pub, rng.Uint32()&^1)
		fill := l2MaxMsg + 1 - 4 - len(b)
		binary.LittleEndian.PutUint32(b[10:], binary.LittleEndian.Uint32(b[10:])+uint32(fill))
		b = append(b, make([]byte, fill)...)
		c.Stream = l2Frame("INTR", b)
	case "length-prefix-2^31":
		c.Stream = append(l2u32(1<<31), c.Type...)
		c.Stream = append(c.Stream, l2rand(rng, 1+rng.Intn(40))...)
	case "length-prefix-2^32-1":
		c.Stream = append(l2u32(0xffffffff), c.Type...)
		c.Stream = append(c.Stream, l2rand(rng, 1+rng.Intn(40))...)
	case "length-prefix-maximum-exactly":
		// a frame of exactly the configured maximum, with a body that cannot be an encoding of the type
		b := make([]byte, l2MaxMsg-4)
		for k := range b {
			b[k] = 0xff
		}
		c.Stream = l2Frame(c.Type, b)
	case "unknown-id":
		id := []byte(c.Type)
		id[rng.Intn(4)] ^= byte(1 + rng.Intn(255))
		known := false
		for _, t := range l2Types {
			if t == string(id) {
				known = true
			}
		}
		if known {
			id = []byte("ZZZZ")
		}
		c.Stream = l2Frame(string(id), body)
	case "garbage-stream":
		// tokens: valid frames, broken frames, raw random bytes
		for k := 1 + rng.Intn(4); k > 0; k-- {
			t := l2Types[rng.Intn(len(l2Types))]
			if t == "DISC" || t == "INTR" || t == "PING" {
				// no DISC / INTR (they would end or re-introduce the connection) and no PING (its
				// PONG could not be told from the probe's when frames of a long stream get lost)
				t = "GETP"
			}
			switch rng.Intn(5) {
			case 0:
				c.Stream = append(c.Stream, l2rand(rng, 1+rng.Intn(24))...)
			case 1:
				b := l2Valid(t, rng, pub, -1)
				b = append(b, l2rand(rng, 1+rng.Intn(4))...)
				c.Stream = append(c.Stream, l2Frame(t, b)...)
			default:
				c.Stream = append(c.Stream, l2Frame(t, l2Valid(t, rng, pub, -1))...)
			}
		}
	default:
		c.Stream = l2Frame(c.Type, body)
	}
	var end int
	c.Defect, end, c.Pings = l2Stream(c.Stream)
	if c.Defect != "" && c.Defect != "incomplete" {
		// nothing behind the first defective frame: what follows a defect decides nothing
		c.Stream = c.Stream[:end]
	}
	return c
}

// ---------------------------------------------------------------------------------

func l2Abort(p *wire.Peer) {
	if tc, ok := p.C.(*net.TCPConn); ok {
		_ = tc.SetLinger(0)
	}
	p.Close()
}

// l2Healthy: a fresh connection completes introduction + PING/PONG
func l2Healthy(addr string, pub []byte, mirror uint32) (bool, string) {
	p, err := wire.Dial(addr)
	if err != nil {
		return false, "dial: " + err.Error()
	}
	defer l2Abort(p)
	if err := p.SendRaw(append(l2Frame("INTR", l2Intro(pub, mirror)), l2Frame("PING", nil)...)); err != nil {
		return false, "write: " + err.Error()
	}
	if _, ok := p.WaitFor("PONG", 0, l2Watchdog); !ok {
		if p.EOF {
			return false, "connection closed before PONG"
		}
		return false, "watchdog"
	}
	for _, m := range p.Recv {
		if m.ID == "INTR" {
			return true, ""
		}
	}
	return false, "no introduction from the node"
}

var l2WatchdogHits int32 // watchdogs that fired; a few of them end the leg early (inconclusive anyway)

var l2SampleMu sync.Mutex
var l2Sampled = map[string]bool{}

func runL2(r *vf.Run) {
	bin := filepath.Join(os.Getenv("VERIF_BIN"), "vnode")
	if _, err := os.Stat(bin); err != nil {
		r.Inconclusive("l2: vnode binary missing (cmd/c22/build.txt must list it): " + err.Error())
		return
	}
	total := r.Pick(5400, 100000)
	nodes := r.Pick(6, 16)
	per := total / nodes
	root := vf.TempDir("c22l2")
	defer os.RemoveAll(root)

	vf.Parallel(nodes, nodes, func(ni int) {
		rng := r.Rand("l2", ni)
		dir := filepath.Join(root, fmt.Sprintf("n%d", ni))
		opts := node.Options{DataDir: filepath.Join(dir, "data"), ChainTag: fmt.Sprintf("c22-%d-%d", r.Seed, ni), Volume: 100e12,
			Publisher: true, Arbitrating: true, DisableCSRF: true, MaxIncomingMsgLen: l2MaxMsg}
		proc, err := node.Spawn(bin, dir, opts)
		if err != nil {
			r.Inconclusive(fmt.Sprintf("l2: node %d did not start: %v", ni, err))
			return
		}
		defer proc.Kill()
		chain := opts.Chain()
		pub := chain.Publisher.Pub[:]
		mirror := uint32(1)
		nextMirror := func() uint32 { mirror += 2; return mirror }
		if ok, why := l2Healthy(proc.PeerAddr, pub, nextMirror()); !ok {
			r.Inconclusive(fmt.Sprintf("l2: node %d not serving at start: %s", ni, why))
			return
		}
		for i := 0; i < per; i++ {
			if r.Violations() > 20 || !proc.Alive() || atomic.LoadInt32(&l2WatchdogHits) > 3 {
				break
			}
			// rotate the starting point per node so that every (type, class) pair is visited early
			c := l2Gen(i+ni*7, rng, pub)
			l2Run(r, proc, c, pub, nextMirror(), ni, i)
			if i%200 == 199 {
				if ok, why := l2Healthy(proc.PeerAddr, pub, nextMirror()); !ok {
					if why == "watchdog" {
						r.Inconclusive("l2: watchdog on health check")
					} else {
						r.Violation("l2-node-not-serving", map[string]string{"leg": "l2", "why": why, "last_class": c.Class, "last_type": c.Type}, nil)
					}
					break
				}
				r.Count("l2.health-checks-passed", 1)
			}
		}
		alive := proc.Alive()
		if alive {
			if ok, why := l2Healthy(proc.PeerAddr, pub, nextMirror()); ok {
				r.Count("l2.health-checks-passed", 1)
				r.Count("l2.nodes-alive-at-end", 1)
			} else if why == "watchdog" {
				r.Inconclusive("l2: watchdog on final health check")
			} else {
				r.Violation("l2-node-not-serving", map[string]string{"leg": "l2", "why": why}, nil)
			}
		}
		stopped := proc.Stop(30 * time.Second)
		headline, frame := vf.CrashSignature(proc.Stderr())
		if !alive || headline != "" {
			e := proc.Stderr()
			if len(e) > 6000 {
				e = e[len(e)-6000:]
			}
			r.Violation("l2-node-crash", map[string]string{"leg": "l2", "headline": headline, "frame": frame}, map[string]interface{}{"stderr_tail": string(e)})
		} else if !stopped {
			r.Count("l2.nodes-killed-at-shutdown", 1)
		}
	})

	r.Floor("l2.nodes-alive-at-end", int64(nodes))
	r.Floor("l2.frames", int64(total*9/10))
	r.Floor("l2.malformed.disconnected", int64(total/3))
	for _, d := range []string{"length-below-minimum", "length-above-maximum", "unknown-id", "undecodable-body", "trailing-bytes"} {
		r.Floor("l2.defect."+d+".pre-intro.disconnected", 10)
		r.Floor("l2.defect."+d+".post-intro.disconnected", 10)
	}
	for _, t := range l2Types {
		r.Floor("l2.type."+t, int64(total/20))
	}
	for _, cl := range l2Classes {
		r.Floor("l2.class."+cl, 20)
	}
	r.Floor("l2.wellformed.post-intro.probe-answered", 50)
}

func l2Run(r *vf.Run, proc *node.Proc, c l2Case, pub []byte, mirror uint32, ni, i int) {
	r.Eval(1)
	r.Count("l2.frames", 1)
	r.Count("l2.type."+c.Type, 1)
	r.Count("l2.class."+c.Class, 1)
	phase := "post-intro"
	if c.Pre {
		phase = "pre-intro"
	}
	attrs := func(extra ...string) map[string]string {
		m := map[string]string{"leg": "l2", "phase": phase, "type": c.Type, "class": c.Class, "defect": c.Defect}
		for k := 0; k+1 < len(extra); k += 2 {
			m[extra[k]] = extra[k+1]
		}
		return m
	}
	wit := func() map[string]interface{} {
		s := c.Stream
		note := ""
		if len(s) > 2048 {
			note = fmt.Sprintf("(first 2048 of %d bytes)", len(s))
			s = s[:2048]
		}
		return map[string]interface{}{"phase": phase, "type": c.Type, "class": c.Class, "reference_verdict": c.Defect, "stream": vf.Hex(s), "note": note, "node": ni, "case": i}
	}
	p, err := wire.Dial(proc.PeerAddr)
	if err != nil {
		r.Count("l2.dial-failed", 1)
		return
	}
	defer l2Abort(p)
	intro := l2Frame("INTR", l2Intro(pub, mirror))
	ping := l2Frame("PING", nil)
	from := 0
	if !c.Pre {
		if err := p.SendRaw(append(append([]byte(nil), intro...), ping...)); err != nil {
			r.Count("l2.write-failed", 1)
			return
		}
		pi, ok := p.WaitFor("PONG", 0, l2Watchdog)
		if !ok {
			if p.EOF {
				r.Violation("l2-node-not-serving", attrs("why", "valid introduction + PING closed"), wit())
			} else {
				r.Inconclusive("l2: watchdog on introduction")
			}
			return
		}
		from = pi + 1
	}
	malformed := c.Defect != "" && c.Defect != "incomplete"
	// the stream, then the probe: (before the introduction) a valid introduction, and a PING
	probe := ping
	if c.Pre {
		probe = append(append([]byte(nil), intro...), ping...)
	}
	if c.Defect == "incomplete" {
		// the receiver legitimately waits for more bytes: nothing to judge except survival
		_ = p.SendRaw(c.Stream)
		r.Count("l2.incomplete."+phase, 1)
		r.Distinct("l2:" + phase + ":" + c.Type + ":" + c.Class + ":incomplete")
		return
	}
	if len(c.Stream)+len(probe) <= 1000 {
		// one burst, shorter than the receiver's 1024-byte read buffer: it is never cut
		_ = p.SendRaw(append(append([]byte(nil), c.Stream...), probe...)) // a write error means the node has already closed
		r.Count("l2.sent.one-burst", 1)
	} else {
		// A longer burst is cut by the receiver at read-buffer boundaries, and on the unchanged tree
		// complete frames in front of a cut frame are then dropped (decodeData; found by the L1 leg),
		// which would make a malformed frame vanish in front of the probe. So the stream goes first
		// and the probe only after the node had time to consume it; the verdict stays logical: EOF is
		// a disconnect, a PONG for the probe is not.
		_ = p.SendRaw(c.Stream)
		r.Count("l2.sent.stream-then-probe", 1)
		if !malformed || !p.WaitClosed(5*time.Second) {
			_ = p.SendRaw(probe)
		}
	}
	gotPong := false
	for n, idx := 0, from; ; {
		pi, ok := p.WaitFor("PONG", idx, l2Watchdog)
		if !ok {
			break
		}
		n, idx = n+1, pi+1
		if n > c.Pings { // more PONGs than PINGs in front of the defect: the probe was answered
			gotPong = true
			break
		}
	}
	switch {
	case gotPong && malformed:
		r.Violation("l2-malformed-frame-not-answered-by-disconnect", attrs("observed", "PONG for a PING sent after the malformed frame"), wit())
		return
	case gotPong:
		// (before the introduction a PONG can precede the close that the first message caused)
		r.Count("l2.wellformed."+phase+".probe-answered", 1)
		r.Count("l2.outcome."+c.Type+"."+phase+".probe-answered", 1)
	case p.EOF && malformed:
		r.Count("l2.malformed.disconnected", 1)
		r.Count("l2.defect."+c.Defect+"."+phase+".disconnected", 1)
		hasDisc := false
		for _, m := range p.Recv[from:] {
			if m.ID == "DISC" {
				hasDisc = true
			}
		}
		if hasDisc {
			r.Count("l2.malformed.disconnected.after-DISC-message", 1)
		}
	case p.EOF:
		r.Count("l2.wellformed."+phase+".closed-before-probe", 1)
		r.Count("l2.outcome."+c.Type+"."+phase+".closed-before-probe", 1)
	default:
		atomic.AddInt32(&l2WatchdogHits, 1)
		r.Inconclusive(fmt.Sprintf("l2: watchdog, neither PONG nor EOF (%s %s %s)", phase, c.Type, c.Class))
		return
	}
	r.Distinct("l2:" + phase + ":" + c.Type + ":" + c.Class + ":" + c.Defect)
	l2SampleMu.Lock()
	key := strings.Join([]string{phase, c.Defect}, "/")
	take := !l2Sampled[key] && len(l2Sampled) < 2 && malformed && len(c.Stream) < 200
	if take {
		l2Sampled[key] = true
	}
	l2SampleMu.Unlock()
	if take {
		r.Sample(map[string]interface{}{"leg": "l2", "phase": phase, "type": c.Type, "class": c.Class, "reference_verdict": c.Defect, "stream": vf.Hex(c.Stream), "observed": "EOF, no PONG"})
	}
}
