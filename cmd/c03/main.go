// Command c03 decides property C03 on the shared ledger workload (see lib/ledgerrun)
package main

import "verif/lib/ledgerrun"

func main() { ledgerrun.Main("C03") }
