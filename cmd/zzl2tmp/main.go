package main

import "verif/lib/vf"

func main() {
	r := vf.Start("C22", "exploration")
	r.Eval(1)
	r.Distinct("a")
	r.Distinct("b")
	runL2(r)
	r.Finish("l2 only (temporary)")
}
