package main

// Request generators. They only build inputs; they never decide a verdict.

import (
	"math/big"
	"math/rand"
	"sort"

	"github.com/skycoin/skycoin/src/cipher"
	"github.com/skycoin/skycoin/src/coin"

	"verif/lib/ledger"
)

var (
	maxI63 = new(big.Int).SetUint64(1<<63 - 1)

	// the share factors of the design plus a few more decimals
	shareFactors = []string{"0", "0.000001", "0.3333333333333333", "0.5", "1", "0.25", "0.999999", "0.1"}
)

func randAddr(rng *rand.Rand) cipher.Address {
	var a cipher.Address
	for i := range a.Key {
		a.Key[i] = byte(rng.Intn(256))
	}
	return a
}

func randHash(rng *rand.Rand) cipher.SHA256 {
	var h cipher.SHA256
	for i := range h {
		h[i] = byte(rng.Intn(256))
	}
	if h == (cipher.SHA256{}) {
		h[0] = 1
	}
	return h
}

// logUniform returns a value in [1, max] whose magnitude is roughly uniform in the exponent
func logUniform(rng *rand.Rand, max uint64) uint64 {
	if max <= 1 {
		return 1
	}
	bits := 0
	for m := max; m > 0; m >>= 1 {
		bits++
	}
	b := 1 + rng.Intn(bits)
	var v uint64
	if b >= 64 {
		v = rng.Uint64()
	} else {
		v = rng.Uint64() & (1<<uint(b) - 1)
	}
	if v == 0 {
		v = 1
	}
	if v > max {
		v = max - (v % max)
		if v == 0 {
			v = max
		}
	}
	return v
}

func pickN(rng *rand.Rand) int {
	switch x := rng.Intn(100); {
	case x < 18:
		return 1
	case x < 32:
		return 2
	case x < 70:
		return 3 + rng.Intn(6)
	default:
		return 9 + rng.Intn(32)
	}
}

// genOfferedPure makes 0..40 synthetic unspent outputs over 1..6 owners: amounts and hours
// boundary-biased, total coins and total accrued hours below 2^63, accrual never overflowing
func genOfferedPure(rng *rand.Rand) (uint64, []coin.UxOut, []cipher.Address) {
	headTime := uint64(1500000000 + rng.Int63n(50*365*86400))
	nOwners := 1 + rng.Intn(6)
	owners := make([]cipher.Address, nOwners)
	for i := range owners {
		owners[i] = randAddr(rng)
	}
	n := pickN(rng)
	if rng.Intn(200) == 0 {
		n = 0
	}
	uxs := make([]coin.UxOut, 0, n)
	sumC, sumH := new(big.Int), new(big.Int)
	genesisUsed := false
	for i := 0; i < n; i++ {
		var coins, hours, age uint64
		switch x := rng.Intn(100); {
		case x < 8:
			coins = 1
		case x < 16:
			coins = 1000
		case x < 28:
			coins = 1000000
		case x < 40:
			coins = 1 + uint64(rng.Int63n(1000000))
		case x < 70:
			coins = 1 + uint64(rng.Int63n(1000000000000))
		case x < 80 && len(uxs) > 0:
			coins = uxs[rng.Intn(len(uxs))].Body.Coins
		case x < 90:
			coins = 1000 * (1 + uint64(rng.Int63n(100000000)))
		default:
			coins = logUniform(rng, 1<<62)
		}
		switch x := rng.Intn(100); {
		case x < 32:
			hours = 0
		case x < 40:
			hours = 1
		case x < 55:
			hours = uint64(rng.Intn(20))
		case x < 75:
			hours = uint64(rng.Int63n(1000000))
		case x < 83 && len(uxs) > 0:
			hours = uxs[rng.Intn(len(uxs))].Body.Hours
		case x < 93:
			hours = uint64(rng.Int63n(1 << 40))
		default:
			hours = logUniform(rng, 1<<62)
		}
		switch x := rng.Intn(100); {
		case x < 40:
			age = 0
		case x < 55:
			age = uint64(rng.Intn(3600))
		case x < 80:
			age = uint64(rng.Int63n(30 * 86400))
		default:
			age = uint64(rng.Int63n(40 * 365 * 86400))
		}
		ux := coin.UxOut{
			Head: coin.UxHead{Time: headTime - age, BkSeq: 1 + uint64(rng.Int63n(1000000))},
			Body: coin.UxBody{SrcTransaction: randHash(rng), Address: owners[rng.Intn(nOwners)], Coins: coins, Hours: hours},
		}
		if !genesisUsed && rng.Intn(60) == 0 {
			// the genesis output: block 0, no source transaction
			genesisUsed = true
			ux.Head.BkSeq = 0
			ux.Body.SrcTransaction = cipher.SHA256{}
		}
		// stay inside the documented operating range
		fits := func() bool {
			if new(big.Int).Add(sumC, bigU(ux.Body.Coins)).Cmp(maxI63) > 0 {
				return false
			}
			a, cls := ledger.Accrued(ux, headTime)
			if cls != ledger.AccrualOK {
				return false
			}
			return new(big.Int).Add(sumH, a).Cmp(maxI63) <= 0
		}
		if !fits() {
			ux.Head.Time = headTime
			if !fits() {
				ux.Body.Hours = uint64(rng.Intn(3))
				if !fits() {
					ux.Body.Coins = 1 + uint64(rng.Intn(1000))
					if !fits() {
						continue
					}
				}
			}
		}
		a, _ := ledger.Accrued(ux, headTime)
		sumC.Add(sumC, bigU(ux.Body.Coins))
		sumH.Add(sumH, a)
		uxs = append(uxs, ux)
	}
	return headTime, uxs, owners
}

// genParams holds what the destination generator may use
type genParams struct {
	unit      uint64           // coin granularity (1 pure, 1000 at node level: the documented decimal restriction)
	extra     []cipher.Address // destination addresses other than the owners
	changeSet []cipher.Address // candidates for an explicit change address
	force     string           // sessions: take this recipe instead of drawing one ("" = draw)
	forceAuto bool             // sessions: automatic hours
}

var forcedRecipe = map[string]int{"random": 10, "exact-all": 35, "exact-top": 50, "one-left": 70, "small": 75}

func u64(b *big.Int) uint64 {
	if b.IsUint64() {
		return b.Uint64()
	}
	return ^uint64(0)
}

// genRequest fills destinations, hours mode and change address of q (whose offered set is final)
func genRequest(rng *rand.Rand, q *request, gp genParams) {
	unit := gp.unit
	if unit == 0 {
		unit = 1
	}
	owners := []cipher.Address{}
	{
		seen := map[cipher.Address]bool{}
		for _, o := range q.off {
			if !seen[o.ux.Body.Address] {
				seen[o.ux.Body.Address] = true
				owners = append(owners, o.ux.Body.Address)
			}
		}
		sort.Slice(owners, func(i, j int) bool { return addrLess(owners[i], owners[j]) })
	}
	sumC := u64(q.sumCoins())
	sumH := q.sumHours()
	burn := burnFactor()

	// change address: explicit (an owner, an extra address) or automatic
	var likelyChange cipher.Address
	if len(owners) > 0 {
		likelyChange = owners[0]
	} else {
		likelyChange = gp.extra[0]
	}
	if rng.Intn(100) < 45 {
		var c cipher.Address
		if rng.Intn(2) == 0 && len(owners) > 0 {
			c = owners[rng.Intn(len(owners))]
		} else {
			c = gp.changeSet[rng.Intn(len(gp.changeSet))]
		}
		q.change = &c
		likelyChange = c
	}

	// hours mode
	q.manual = rng.Intn(100) < 45
	if gp.forceAuto {
		q.manual = false
	}
	q.typ, q.mode = "auto", "share"
	if q.manual {
		q.typ, q.mode = "manual", ""
	} else {
		if rng.Intn(100) < 85 {
			q.share = shareFactors[rng.Intn(5)]
		} else {
			q.share = shareFactors[rng.Intn(len(shareFactors))]
		}
	}

	// the output the documented procedure takes first: most coins among those with hours
	top := -1
	for i, o := range q.off {
		if o.hours.Sign() == 0 {
			continue
		}
		if top < 0 || o.ux.Body.Coins > q.off[top].ux.Body.Coins {
			top = i
		}
	}

	// total requested coins by recipe
	var total uint64
	recipe := ""
	x := rng.Intn(100)
	if len(q.off) == 1 && x < 45 {
		x = 94 // single offered output: favour the mirror recipe
	}
	if fx, ok := forcedRecipe[gp.force]; ok {
		x = fx
	}
	switch {
	case sumC == 0:
		recipe, total = "nothing-offered", unit*(1+uint64(rng.Intn(5)))
	case x < 30:
		recipe, total = "random", logUniform(rng, sumC)
	case x < 42:
		recipe, total = "exact-all", sumC
	case x < 60 && top >= 0:
		recipe, total = "exact-top", q.off[top].ux.Body.Coins
	case x < 66:
		recipe, total = "one-short", sumC+unit
	case x < 72 && sumC > unit:
		recipe, total = "one-left", sumC-unit
	case x < 80:
		recipe, total = "small", unit*(1+uint64(rng.Intn(10)))
	case x < 84:
		recipe, total = "far-short", sumC+logUniform(rng, 1<<62)
	case x < 92 && top >= 0 && len(q.off) > 1:
		// exact cover by the first output plus all zero-hour outputs (the documented second stage)
		recipe, total = "exact-top-and-zero", q.off[top].ux.Body.Coins
		for _, o := range q.off {
			if o.hours.Sign() == 0 {
				total += o.ux.Body.Coins
			}
		}
	case top >= 0 && q.off[top].ux.Body.Coins >= 2*unit:
		recipe, total = "mirror", (q.off[top].ux.Body.Coins/2/unit)*unit
	default:
		recipe, total = "random", logUniform(rng, sumC)
	}
	if unit > 1 {
		total = total / unit * unit
		if total == 0 {
			total = unit
		}
	}
	q.recipe = recipe

	// destinations
	pool := append(append([]cipher.Address{}, owners...), gp.extra...)
	k := 1
	if recipe != "mirror" {
		switch y := rng.Intn(100); {
		case y < 30:
			k = 1
		case y < 55:
			k = 2
		default:
			k = 1 + rng.Intn(8)
		}
	}
	if uint64(k) > total/unit {
		k = int(total / unit)
	}
	if k < 1 {
		k = 1
	}
	parts := make([]uint64, k)
	units := total / unit
	if k > 1 && units%uint64(k) == 0 && rng.Intn(3) == 0 {
		for i := range parts {
			parts[i] = units / uint64(k) * unit // equal amounts
		}
	} else {
		left := units
		for i := 0; i < k-1; i++ {
			maxv := left - uint64(k-1-i)
			var v uint64
			switch rng.Intn(4) {
			case 0:
				v = 1
			case 1:
				v = logUniform(rng, maxv)
			default:
				v = 1 + uint64(rng.Int63n(int64(minU(maxv, 1<<62))))
			}
			if v > maxv {
				v = maxv
			}
			parts[i] = v * unit
			left -= v
		}
		parts[k-1] = left*unit + total%unit
	}
	q.to = make([]coin.TransactionOutput, k)
	for i := range q.to {
		a := pool[rng.Intn(len(pool))]
		if rng.Intn(100) < 25 {
			a = likelyChange
		}
		q.to[i] = coin.TransactionOutput{Address: a, Coins: parts[i]}
	}
	if recipe == "mirror" {
		q.to[0].Address = likelyChange
	}

	// manual hours
	if q.manual {
		avail := remOf(sumH, burn) // what spending everything leaves after the burn
		var want *big.Int
		switch y := rng.Intn(100); {
		case recipe == "mirror" && top >= 0:
			r := remOf(q.off[top].hours, burn)
			want = r.Rsh(r, 1)
		case y < 25:
			want = big.NewInt(0)
		case y < 45:
			want = big.NewInt(int64(rng.Intn(10)))
		case y < 70:
			if avail.Sign() > 0 {
				want = bigU(logUniform(rng, u64(avail)))
			} else {
				want = big.NewInt(0)
			}
		case y < 82:
			want = new(big.Int).Set(avail)
		case y < 90:
			want = new(big.Int).Add(avail, big.NewInt(1))
		case y < 95 && top >= 0:
			want = remOf(q.off[top].hours, burn) // exactly what the first output can give
		default:
			want = bigU(logUniform(rng, ^uint64(0)>>1))
		}
		if !want.IsUint64() {
			want = new(big.Int).SetUint64(^uint64(0))
		}
		left := want.Uint64()
		for i := 0; i < k-1; i++ {
			var v uint64
			switch rng.Intn(3) {
			case 0:
				v = 0
			case 1:
				v = left
			default:
				if left > 0 {
					v = logUniform(rng, left)
				}
			}
			q.to[i].Hours = v
			left -= v
		}
		q.to[k-1].Hours = left
	}

	// no two destinations may be identical (documented); auto mode: (address, coins) must differ
	type dk struct {
		a cipher.Address
		c uint64
		h uint64
	}
	seen := map[dk]bool{}
	for i := range q.to {
		for tries := 0; ; tries++ {
			key := dk{q.to[i].Address, q.to[i].Coins, q.to[i].Hours}
			if !seen[key] {
				seen[key] = true
				break
			}
			if tries < 8 {
				q.to[i].Address = pool[rng.Intn(len(pool))]
			} else {
				q.to[i].Address = gp.extra[(i+tries)%len(gp.extra)]
			}
		}
	}
}

// invalidate turns a valid request into one of the documented invalid forms
func invalidate(rng *rand.Rand, q *request) {
	q.valid = false
	switch rng.Intn(9) {
	case 0:
		q.invalid = "no-destinations"
		q.to = nil
	case 1:
		q.invalid = "zero-coins"
		q.to[rng.Intn(len(q.to))].Coins = 0
	case 2:
		q.invalid = "null-destination"
		q.to[rng.Intn(len(q.to))].Address = cipher.Address{}
	case 3:
		q.invalid = "duplicate-destination"
		q.to = append(q.to, q.to[rng.Intn(len(q.to))])
	case 4:
		q.invalid = "auto-with-hours"
		q.manual, q.typ, q.mode = false, "auto", "share"
		if q.share == "" {
			q.share = "0.5"
		}
		q.to[rng.Intn(len(q.to))].Hours = 1 + uint64(rng.Intn(100))
	case 5:
		q.invalid = "share-out-of-range"
		q.manual, q.typ, q.mode = false, "auto", "share"
		for i := range q.to {
			q.to[i].Hours = 0
		}
		q.share = []string{"1.000001", "-0.1", "2", "-1"}[rng.Intn(4)]
	case 6:
		q.invalid = "null-change-address"
		q.change = &cipher.Address{}
	case 7:
		q.invalid = "bad-type"
		q.typ = []string{"", "Manual", "share", "automatic"}[rng.Intn(4)]
	default:
		q.invalid = "bad-mode"
		if q.manual {
			q.mode = "share" // mode is not allowed with manual
		} else {
			q.mode = []string{"", "split", "Share"}[rng.Intn(3)]
		}
	}
}

func minU(a, b uint64) uint64 {
	if a < b {
		return a
	}
	return b
}
