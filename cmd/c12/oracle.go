package main

// The oracle for C12, written from the property statement and the public documentation
// (doc comment of transaction.Create, src/api/README.md "hours_selection"/"share_factor"):
// every sum is math/big, ids and accrued hours come from lib/ledger's own encodings.
// Nothing here calls the code under test to compute an expected value.

import (
	"bytes"
	"fmt"
	"math/big"
	"sort"
	"strings"

	"github.com/skycoin/skycoin/src/cipher"
	"github.com/skycoin/skycoin/src/coin"

	"verif/lib/ledger"
)

// offered is one output the caller owns and offers for spending
type offered struct {
	ux    coin.UxOut
	id    cipher.SHA256 // ledger.UxID (own encoding)
	hours *big.Int      // accrued at the request's head time (ledger.Accrued)
}

// request is one spend request in the oracle's terms
type request struct {
	headTime uint64
	off      []offered
	byID     map[cipher.SHA256]int

	to     []coin.TransactionOutput
	manual bool
	share  string // decimal string of the share factor (auto mode)
	change *cipher.Address

	// generator annotations
	valid   bool // false: deliberately malformed request (documented as invalid)
	invalid string
	recipe  string
	typ     string // hours selection type / mode strings as sent (normally manual|auto, share)
	mode    string
	note    map[string]interface{} // added to the witness (session context)
}

func newRequest(headTime uint64, uxs []coin.UxOut) *request {
	q := &request{headTime: headTime, byID: map[cipher.SHA256]int{}, valid: true}
	for _, ux := range uxs {
		h, _ := ledger.Accrued(ux, headTime)
		id := ledger.UxID(ux)
		q.byID[id] = len(q.off)
		q.off = append(q.off, offered{ux: ux, id: id, hours: h})
	}
	return q
}

func bigU(v uint64) *big.Int { return new(big.Int).SetUint64(v) }

func (q *request) sumCoins() *big.Int {
	t := new(big.Int)
	for _, o := range q.off {
		t.Add(t, bigU(o.ux.Body.Coins))
	}
	return t
}

func (q *request) sumHours() *big.Int {
	t := new(big.Int)
	for _, o := range q.off {
		t.Add(t, o.hours)
	}
	return t
}

func (q *request) reqCoins() *big.Int {
	t := new(big.Int)
	for _, o := range q.to {
		t.Add(t, bigU(o.Coins))
	}
	return t
}

func (q *request) reqHours() *big.Int {
	t := new(big.Int)
	for _, o := range q.to {
		t.Add(t, bigU(o.Hours))
	}
	return t
}

// feeOf is ceil(hours / burn): the required burn
func feeOf(h *big.Int, burn uint64) *big.Int {
	b := bigU(burn)
	f := new(big.Int).Add(h, new(big.Int).Sub(b, big.NewInt(1)))
	return f.Div(f, b)
}

// remOf is what is left after the required burn
func remOf(h *big.Int, burn uint64) *big.Int {
	return new(big.Int).Sub(h, feeOf(h, burn))
}

// parseShare turns a decimal string ("0.333333") into numerator / 10^k
func parseShare(s string) (num, den *big.Int, ok bool) {
	neg := strings.HasPrefix(s, "-")
	s = strings.TrimPrefix(s, "-")
	ip, fp := s, ""
	if i := strings.IndexByte(s, '.'); i >= 0 {
		ip, fp = s[:i], s[i+1:]
	}
	if ip == "" {
		ip = "0"
	}
	num, ok = new(big.Int).SetString(ip+fp, 10)
	if !ok {
		return nil, nil, false
	}
	if neg {
		num.Neg(num)
	}
	den = new(big.Int).Exp(big.NewInt(10), big.NewInt(int64(len(fp))), nil)
	return num, den, true
}

// allotted is floor(share * remaining) — README: "the remaining hours after the fee are shared
// between the destination addresses as a whole, and the change address"
func allotted(share string, rem *big.Int) *big.Int {
	num, den, ok := parseShare(share)
	if !ok {
		return nil
	}
	x := new(big.Int).Mul(num, rem)
	return x.Div(x, den) // non-negative operands: floor
}

// addrLess orders addresses by their bytes (all addresses here are version 0; key first, then version)
func addrLess(a, b cipher.Address) bool {
	if c := bytes.Compare(a.Key[:], b.Key[:]); c != 0 {
		return c < 0
	}
	return a.Version < b.Version
}

type problem struct {
	kind   string
	detail string
}

// observed are facts about a successful result, for the evidence counters
type observed struct {
	nIn, nOut      int
	haveChange     bool
	forcedExtra    bool // the inputs without the last one cover the requested coins exactly, and there is change
	shareFallback  bool // auto mode, no change output, destinations got all remaining hours although share*remaining is less
	changeEqDest   bool // the change output is identical to another output
	changeIsOwner  bool
	destIsChange   bool // a destination address equals the change address
	allSpent       bool
	burntExtra     bool // more than the required fee was burnt
	zeroHourInputs int
}

// checkSuccess evaluates a returned unsigned (signed=false) or signed transaction against the statement
func checkSuccess(q *request, t *coin.Transaction, signed bool, burn uint64) ([]problem, observed) {
	var ps []problem
	var ob observed
	add := func(kind, format string, a ...interface{}) {
		ps = append(ps, problem{kind, fmt.Sprintf(format, a...)})
	}
	ob.nIn, ob.nOut = len(t.In), len(t.Out)

	// (1) well formed (C09's independent rules) and the code's own check
	if bad := ledger.WellFormed(t, signed); len(bad) > 0 {
		add("not-well-formed", "%s", strings.Join(bad, ","))
	}
	var own error
	if signed {
		own = t.Verify()
	} else {
		own = t.VerifyUnsigned()
	}
	if own != nil {
		add("own-verify-fails", "%v", own)
	}

	// (2) spends only offered outputs, each once
	inCoins, inHours := new(big.Int), new(big.Int)
	seen := map[cipher.SHA256]bool{}
	owners := []cipher.Address{}
	inputsOK := true
	for _, in := range t.In {
		i, ok := q.byID[in]
		if !ok {
			add("spends-unoffered-output", "input %s was not offered", in.Hex())
			inputsOK = false
			continue
		}
		if seen[in] {
			add("spends-output-twice", "input %s listed twice", in.Hex())
			inputsOK = false
			continue
		}
		seen[in] = true
		inCoins.Add(inCoins, bigU(q.off[i].ux.Body.Coins))
		inHours.Add(inHours, q.off[i].hours)
		owners = append(owners, q.off[i].ux.Body.Address)
		if q.off[i].hours.Sign() == 0 {
			ob.zeroHourInputs++
		}
	}
	if len(t.In) == 0 {
		inputsOK = false
	}
	ob.allSpent = inputsOK && len(t.In) == len(q.off)
	if !inputsOK {
		return ps, ob // the remaining clauses are relative to the spent set
	}

	// (6) burn: out hours <= in hours and the difference covers ceil(in/burn)
	outHours := new(big.Int)
	for _, o := range t.Out {
		outHours.Add(outHours, bigU(o.Hours))
	}
	fee := feeOf(inHours, burn)
	burnt := new(big.Int).Sub(inHours, outHours)
	if burnt.Cmp(fee) < 0 {
		add("burn-below-required", "in hours %s out hours %s burnt %s required %s", inHours, outHours, burnt, fee)
	}
	if inHours.Sign() == 0 {
		add("burn-below-required", "no input hours, nothing burnt")
	}
	ob.burntExtra = burnt.Cmp(fee) > 0
	rem := new(big.Int).Sub(inHours, fee)

	// (3)(4) requested outputs paid exactly, the rest of the coins to the change address
	n := len(q.to)
	changeCoins := new(big.Int).Sub(inCoins, q.reqCoins())
	if changeCoins.Sign() < 0 {
		add("inputs-below-requested", "in coins %s requested %s", inCoins, q.reqCoins())
		return ps, ob
	}
	var changeAddr cipher.Address
	if q.change != nil {
		changeAddr = *q.change
	} else {
		sort.Slice(owners, func(i, j int) bool { return addrLess(owners[i], owners[j]) })
		changeAddr = owners[0]
	}
	for _, o := range q.to {
		if o.Address == changeAddr {
			ob.destIsChange = true
		}
	}
	for _, o := range q.off {
		if o.ux.Body.Address == changeAddr {
			ob.changeIsOwner = true
		}
	}

	// exact-cover-then-extra-input: documented ("another output will be chosen to create change")
	var allowedAuto []*big.Int
	if !q.manual {
		if a := allotted(q.share, rem); a != nil {
			allowedAuto = append(allowedAuto, a)
		}
	}
	if len(t.In) >= 2 {
		last := q.off[q.byID[t.In[len(t.In)-1]]]
		prefCoins := new(big.Int).Sub(inCoins, bigU(last.ux.Body.Coins))
		if prefCoins.Cmp(q.reqCoins()) == 0 && changeCoins.Sign() > 0 {
			ob.forcedExtra = true
			if !q.manual {
				prefHours := new(big.Int).Sub(inHours, last.hours)
				if a := allotted(q.share, remOf(prefHours, burn)); a != nil {
					allowedAuto = append(allowedAuto, a)
				}
			}
		}
	}

	type okey struct {
		a cipher.Address
		c uint64
		h uint64
	}
	keyOf := func(o coin.TransactionOutput) okey {
		if q.manual {
			return okey{o.Address, o.Coins, o.Hours}
		}
		return okey{o.Address, o.Coins, 0}
	}
	want := map[okey]int{}
	for _, o := range q.to {
		want[keyOf(o)]++
	}
	// matchRest: do the outputs other than index skip equal the requested multiset; returns the hours given to them
	matchRest := func(skip int) (bool, *big.Int) {
		left := map[okey]int{}
		for k, v := range want {
			left[k] = v
		}
		sum := new(big.Int)
		cnt := 0
		for j, o := range t.Out {
			if j == skip {
				continue
			}
			k := keyOf(o)
			if left[k] == 0 {
				return false, nil
			}
			left[k]--
			cnt++
			sum.Add(sum, bigU(o.Hours))
		}
		return cnt == n, sum
	}
	autoOK := func(destHours *big.Int, haveChange bool) bool {
		if q.manual {
			return true
		}
		if !haveChange {
			// documented fall-back: without a change output the share factor becomes 1.0 — the
			// destinations receive all remaining hours
			return destHours.Cmp(rem) == 0
		}
		for _, a := range allowedAuto {
			if destHours.Cmp(a) == 0 {
				return true
			}
		}
		return false
	}

	if changeCoins.Sign() == 0 {
		if len(t.Out) != n {
			add("unexpected-output-count", "no coins left over but %d outputs for %d destinations", len(t.Out), n)
			return ps, ob
		}
		ok, dh := matchRest(-1)
		if !ok {
			add("destination-not-paid-exactly", "outputs %s requested %s", outsString(t.Out), outsString(q.to))
			return ps, ob
		}
		if !autoOK(dh, false) {
			add("auto-hours-sum-wrong", "no change output: destinations got %s hours, remaining after burn %s (share %s)", dh, rem, q.share)
		}
		if !q.manual {
			if a := allotted(q.share, rem); a != nil && a.Cmp(rem) < 0 && dh.Cmp(rem) == 0 {
				ob.shareFallback = true
			}
		}
		return ps, ob
	}

	ob.haveChange = true
	if len(t.Out) != n+1 {
		add("unexpected-output-count", "%s coins left over but %d outputs for %d destinations", changeCoins, len(t.Out), n)
		return ps, ob
	}
	var cands []int
	for j := len(t.Out) - 1; j >= 0; j-- {
		o := t.Out[j]
		if o.Address == changeAddr && changeCoins.IsUint64() && o.Coins == changeCoins.Uint64() {
			cands = append(cands, j)
		}
	}
	if len(cands) == 0 {
		add("change-wrong", "expected %s coins to change address %s; outputs %s", changeCoins, changeAddr, outsString(t.Out))
		return ps, ob
	}
	for _, j := range cands {
		for k, o := range t.Out {
			if k != j && o == t.Out[j] {
				ob.changeEqDest = true
			}
		}
	}
	matched, hoursOK := false, false
	var firstDH *big.Int
	for _, j := range cands {
		ok, dh := matchRest(j)
		if !ok {
			continue
		}
		if !matched {
			firstDH = dh
		}
		matched = true
		if autoOK(dh, true) {
			hoursOK = true
			break
		}
	}
	if !matched {
		add("destination-not-paid-exactly", "outputs %s requested %s change %s to %s", outsString(t.Out), outsString(q.to), changeCoins, changeAddr)
		return ps, ob
	}
	if !hoursOK {
		as := []string{}
		for _, a := range allowedAuto {
			as = append(as, a.String())
		}
		add("auto-hours-sum-wrong", "destinations got %s hours, allotted floor(share*remaining) = %s (share %s, remaining %s)", firstDH, strings.Join(as, " or "), q.share, rem)
	}
	return ps, ob
}

func outsString(os []coin.TransactionOutput) string {
	var b strings.Builder
	for i, o := range os {
		if i > 0 {
			b.WriteByte(' ')
		}
		if i >= 12 {
			fmt.Fprintf(&b, "...(%d)", len(os))
			break
		}
		fmt.Fprintf(&b, "%s:%d:%d", o.Address.String()[:6], o.Coins, o.Hours)
	}
	return b.String()
}

// failure classes (how the code's error is named is read from the error value by the caller)
const (
	failBalance = "insufficient-balance"
	failHours   = "insufficient-hours"
	failNoFee   = "no-fee"
	failNoUx    = "no-unspents"
	failZero    = "zero-spend"
	failOther   = "other-user-error"
	failNonUser = "non-user-error"
)

// checkFailure: lack-of-funds failures are legitimate only if the offered outputs really cannot cover the request
func checkFailure(q *request, class string, burn uint64) []problem {
	var ps []problem
	sc, sh := q.sumCoins(), q.sumHours()
	rc, rh := q.reqCoins(), q.reqHours()
	remAll := remOf(sh, burn)
	coverable := sc.Cmp(rc) >= 0 && sh.Sign() > 0 && remAll.Cmp(rh) >= 0
	switch class {
	case failBalance:
		if sc.Cmp(rc) >= 0 {
			ps = append(ps, problem{"insufficient-balance-but-covered", fmt.Sprintf("offered %s coins, requested %s", sc, rc)})
		}
	case failHours:
		if remAll.Cmp(rh) >= 0 {
			ps = append(ps, problem{"insufficient-hours-but-covered", fmt.Sprintf("offered %s hours, %s remain after the burn, requested %s", sh, remAll, rh)})
		}
	case failNoFee:
		if coverable {
			ps = append(ps, problem{"no-fee-but-covered", fmt.Sprintf("offered %s hours, %s remain after the burn, requested %s", sh, remAll, rh)})
		}
	case failNoUx:
		if len(q.off) > 0 {
			ps = append(ps, problem{"no-unspents-but-offered", fmt.Sprintf("%d outputs offered", len(q.off))})
		}
	case failZero:
		if rc.Sign() > 0 {
			ps = append(ps, problem{"zero-spend-but-requested", fmt.Sprintf("requested %s", rc)})
		}
	}
	return ps
}
