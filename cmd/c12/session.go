package main

// Sessions: a caller that issues several requests in a row and, like real callers do, reuses
// objects between them — one *decimal.Decimal share factor, one change-address pointer, one
// destination array (requests are sub-slices of it), one map of offered outputs. The oracle of
// every request works on the request's private values (strings / copies made before the call),
// so a construction that reads or leaves behind something different in the shared objects shows
// up either as a wrong result of a later request or as "request-mutated".

import (
	"fmt"
	"math/big"

	"github.com/shopspring/decimal"

	"github.com/skycoin/skycoin/src/cipher"
	"github.com/skycoin/skycoin/src/coin"
	"github.com/skycoin/skycoin/src/transaction"
	"github.com/skycoin/skycoin/src/visor"

	"verif/lib/vf"
)

// callerView is a private deep copy of everything the caller hands to a construction call
type callerView struct {
	typ, mode string
	sfPtr     *decimal.Decimal
	sfCoef    *big.Int
	sfExp     int32
	chPtr     *cipher.Address
	ch        cipher.Address
	toLen     int
	toNil     bool
	to        []coin.TransactionOutput // up to the capacity: the spare part belongs to the caller too
	auxKeys   int
	auxs      map[cipher.Address][]coin.UxOut
	auxNil    map[cipher.Address]bool
	hasWP     bool
	uxOuts    []cipher.SHA256
	uxNil     bool
	addrs     []cipher.Address
	addrNil   bool
	ignore    bool
}

func snapshotCall(p transaction.Params, auxs coin.AddressUxOuts, wp *visor.CreateTransactionParams) *callerView {
	v := &callerView{typ: p.HoursSelection.Type, mode: p.HoursSelection.Mode, sfPtr: p.HoursSelection.ShareFactor, chPtr: p.ChangeAddress}
	if v.sfPtr != nil {
		v.sfCoef, v.sfExp = v.sfPtr.Coefficient(), v.sfPtr.Exponent()
	}
	if v.chPtr != nil {
		v.ch = *v.chPtr
	}
	v.toLen, v.toNil = len(p.To), p.To == nil
	v.to = append([]coin.TransactionOutput(nil), p.To[:cap(p.To)]...)
	if auxs != nil {
		v.auxKeys = len(auxs)
		v.auxs = map[cipher.Address][]coin.UxOut{}
		v.auxNil = map[cipher.Address]bool{}
		for a, s := range auxs {
			v.auxs[a] = append([]coin.UxOut(nil), s[:cap(s)]...)
			v.auxNil[a] = s == nil
		}
	}
	if wp != nil {
		v.hasWP = true
		v.uxOuts, v.uxNil = append([]cipher.SHA256(nil), wp.UxOuts[:cap(wp.UxOuts)]...), wp.UxOuts == nil
		v.addrs, v.addrNil = append([]cipher.Address(nil), wp.Addresses[:cap(wp.Addresses)]...), wp.Addresses == nil
		v.ignore = wp.IgnoreUnconfirmed
	}
	return v
}

// changed names the caller-visible fields that differ from the snapshot
func (v *callerView) changed(p transaction.Params, auxs coin.AddressUxOuts, wp *visor.CreateTransactionParams) []string {
	var out []string
	add := func(field, format string, a ...interface{}) {
		out = append(out, field+": "+fmt.Sprintf(format, a...))
	}
	if p.HoursSelection.Type != v.typ {
		add("HoursSelection.Type", "%q -> %q", v.typ, p.HoursSelection.Type)
	}
	if p.HoursSelection.Mode != v.mode {
		add("HoursSelection.Mode", "%q -> %q", v.mode, p.HoursSelection.Mode)
	}
	if p.HoursSelection.ShareFactor != v.sfPtr {
		add("HoursSelection.ShareFactor", "pointer replaced")
	}
	if v.sfPtr != nil {
		c, e := v.sfPtr.Coefficient(), v.sfPtr.Exponent()
		if c.Cmp(v.sfCoef) != 0 || e != v.sfExp {
			add("*HoursSelection.ShareFactor", "%se%d -> %se%d", v.sfCoef, v.sfExp, c, e)
		}
	}
	if p.ChangeAddress != v.chPtr {
		add("ChangeAddress", "pointer replaced")
	}
	if v.chPtr != nil && *v.chPtr != v.ch {
		add("*ChangeAddress", "%s -> %s", v.ch, *v.chPtr)
	}
	if len(p.To) != v.toLen || (p.To == nil) != v.toNil || cap(p.To) != len(v.to) {
		add("To", "length %d -> %d", v.toLen, len(p.To))
	} else {
		full := p.To[:cap(p.To)]
		for i := range full {
			if full[i] != v.to[i] {
				where := "To"
				if i >= v.toLen {
					where = "To.spare-capacity"
				}
				add(where, "element %d: %v -> %v", i, v.to[i], full[i])
				break
			}
		}
	}
	if v.auxs != nil {
		if len(auxs) != v.auxKeys {
			add("offered-outputs", "%d addresses -> %d", v.auxKeys, len(auxs))
		}
	scan:
		for a, was := range v.auxs {
			now, ok := auxs[a]
			if !ok {
				add("offered-outputs", "address %s removed", a)
				break
			}
			if cap(now) != len(was) || (now == nil) != v.auxNil[a] {
				add("offered-outputs", "slice of %s resized", a)
				break
			}
			full := now[:cap(now)]
			for i := range full {
				if full[i] != was[i] {
					add("offered-outputs", "address %s element %d: %v -> %v", a, i, was[i], full[i])
					break scan
				}
			}
		}
	}
	if v.hasWP && wp != nil {
		if wp.IgnoreUnconfirmed != v.ignore {
			add("IgnoreUnconfirmed", "%v -> %v", v.ignore, wp.IgnoreUnconfirmed)
		}
		if cap(wp.UxOuts) != len(v.uxOuts) || (wp.UxOuts == nil) != v.uxNil {
			add("UxOuts", "resized")
		} else {
			full := wp.UxOuts[:cap(wp.UxOuts)]
			for i := range full {
				if full[i] != v.uxOuts[i] {
					add("UxOuts", "element %d: %s -> %s", i, v.uxOuts[i].Hex(), full[i].Hex())
					break
				}
			}
		}
		if cap(wp.Addresses) != len(v.addrs) || (wp.Addresses == nil) != v.addrNil {
			add("Addresses", "resized")
		} else {
			full := wp.Addresses[:cap(wp.Addresses)]
			for i := range full {
				if full[i] != v.addrs[i] {
					add("Addresses", "element %d: %s -> %s", i, v.addrs[i], full[i])
					break
				}
			}
		}
	}
	return out
}

// checkUnchanged reports every caller-visible input a construction call left different
func checkUnchanged(r *vf.Run, l *local, leg, via string, idx int, q *request, v *callerView, p transaction.Params, auxs coin.AddressUxOuts, wp *visor.CreateTransactionParams, outcome string) {
	l.count(leg + ".caller-inputs-compared")
	for _, c := range v.changed(p, auxs, wp) {
		field := c
		for i := 0; i < len(c); i++ {
			if c[i] == ':' {
				field = c[:i]
				break
			}
		}
		viol(r, "request-mutated", map[string]string{"leg": leg, "via": via, "field": field, "detail": c, "recipe": q.recipe, "mode": modeKey(q), "outcome": outcome},
			q.witness(leg, idx, nil, "caller-visible input changed by the call: "+c))
	}
}

// ---------------------------------------------------------------------------------
// pure sessions

const toBackingLen = 12

type pureSession struct {
	auxs      coin.AddressUxOuts
	share     string
	sf        *decimal.Decimal
	change    *cipher.Address
	toBacking []coin.TransactionOutput
	history   []map[string]interface{}

	sfUsed, changeUsed, toUsed bool
	fallbackOnPointer          bool // an earlier request of the session made the construction fall back to 1.0 with the shared share factor
}

func sessionCase(r *vf.Run, l *local, idx int) {
	rng := r.Rand("session", idx)
	headTime, uxs, _ := genOfferedPure(rng)
	extra := make([]cipher.Address, 8)
	for i := range extra {
		extra[i] = randAddr(rng)
	}
	base := newRequest(headTime, uxs)
	s := &pureSession{auxs: base.auxs()}
	// one share factor object for the whole session; below 1 in most sessions (the fall-back needs that)
	if rng.Intn(100) < 85 {
		s.share = []string{"0", "0.000001", "0.3333333333333333", "0.5", "0.25", "0.999999", "0.1"}[rng.Intn(7)]
	} else {
		s.share = shareFactors[rng.Intn(len(shareFactors))]
	}
	d, err := decimal.NewFromString(s.share)
	if err != nil {
		panic(err)
	}
	s.sf = &d
	ca := extra[rng.Intn(len(extra))]
	if len(uxs) > 0 && rng.Intn(2) == 0 {
		ca = uxs[rng.Intn(len(uxs))].Body.Address
	}
	s.change = &ca
	s.toBacking = make([]coin.TransactionOutput, toBackingLen)
	for i := range s.toBacking {
		s.toBacking[i] = coin.TransactionOutput{Address: randAddr(rng), Coins: 1 + uint64(rng.Intn(1000)), Hours: uint64(rng.Intn(1000))}
	}

	// plan: directed sessions start with "everything, automatic hours" (no change possible: the
	// documented fall-back to 1.0) and go on with a request that leaves change
	var plan []string
	switch idx % 4 {
	case 0:
		plan = []string{"exact-all", "with-change"}
	case 1:
		plan = []string{"with-change", "exact-all", "with-change"}
	}
	for n := 2 + rng.Intn(3); len(plan) < n; {
		plan = append(plan, "")
	}
	l.count("session.sessions")

	var prevQ *request
	var prevP transaction.Params
	for step, force := range plan {
		var q *request
		var p transaction.Params
		if force == "" && prevQ != nil && prevQ.valid && rng.Intn(5) == 0 {
			// the same request object once more (a caller retrying / previewing then building)
			q = newRequest(headTime, uxs)
			q.to = append([]coin.TransactionOutput(nil), prevQ.to...)
			q.manual, q.typ, q.mode, q.share, q.change = prevQ.manual, prevQ.typ, prevQ.mode, prevQ.share, prevQ.change
			q.recipe = "repeat"
			p = prevP
			l.count("session.requests.same-params-again")
		} else {
			q = newRequest(headTime, uxs)
			gp := genParams{unit: 1, extra: extra, changeSet: []cipher.Address{*s.change}}
			switch force {
			case "exact-all":
				gp.force, gp.forceAuto = "exact-all", true
			case "with-change":
				gp.force, gp.forceAuto = []string{"random", "one-left", "small", "exact-top"}[rng.Intn(4)], true
			}
			genRequest(rng, q, gp)
			if !q.manual {
				q.share = s.share
			}
			if force == "" && rng.Intn(100) < 3 {
				invalidate(rng, q)
			}
			p = s.params(l, q)
		}
		q.note = map[string]interface{}{"session": idx, "step": step, "earlier_requests_of_this_session": append([]map[string]interface{}(nil), s.history...)}
		sharedSF := !q.manual && p.HoursSelection.ShareFactor == s.sf
		ob, ok := runPureWith(r, l, "session", idx*16+step, q, p, s.auxs)
		if ok && q.valid {
			if sharedSF && ob.haveChange && s.fallbackOnPointer {
				l.count("session.with-change-after-fallback-on-same-share-factor")
			}
			if sharedSF && ob.shareFallback {
				s.fallbackOnPointer = true
			}
		}
		h := map[string]interface{}{"step": step, "recipe": q.recipe, "mode": modeKey(q), "to": outsString(q.to), "ok": ok, "fell_back_to_1": ob.shareFallback}
		if q.change != nil {
			h["change_address"] = q.change.String()
		}
		s.history = append(s.history, h)
		prevQ, prevP = q, p
	}
}

// params builds the code's parameters from the session's shared objects wherever the request's
// values equal them
func (s *pureSession) params(l *local, q *request) transaction.Params {
	var p transaction.Params
	p.HoursSelection.Type, p.HoursSelection.Mode = q.typ, q.mode
	if !q.manual && q.share != "" {
		if q.share == s.share {
			p.HoursSelection.ShareFactor = s.sf
			if s.sfUsed {
				l.count("session.shared.share-factor-pointer-reused")
			}
			s.sfUsed = true
		} else {
			d, err := decimal.NewFromString(q.share)
			if err != nil {
				panic(err)
			}
			p.HoursSelection.ShareFactor = &d
		}
	}
	if q.change != nil {
		if *q.change == *s.change {
			p.ChangeAddress = s.change
			if s.changeUsed {
				l.count("session.shared.change-pointer-reused")
			}
			s.changeUsed = true
		} else {
			c := *q.change
			p.ChangeAddress = &c
		}
	}
	switch {
	case q.to == nil:
		p.To = nil
	case len(q.to) <= len(s.toBacking):
		// a prefix of the caller's destination array: what follows the prefix is the caller's data too
		copy(s.toBacking, q.to)
		p.To = s.toBacking[:len(q.to)]
		if s.toUsed {
			l.count("session.shared.destination-array-reused")
		}
		s.toUsed = true
	default:
		p.To = append([]coin.TransactionOutput(nil), q.to...)
	}
	return p
}
