package main

// Node leg: the offered outputs really exist on a publisher node's chain. The harness owns the
// keys (lib/fix), creates the outputs with hand-made "setup" transactions, calls the real
// construction entry points and injects what they return.

import (
	"bytes"
	"encoding/json"
	"fmt"
	"io/ioutil"
	"math/big"
	"math/rand"
	"net/http"
	"os"
	"sort"
	"strings"
	"time"

	"github.com/skycoin/skycoin/src/cipher"
	"github.com/skycoin/skycoin/src/coin"
	"github.com/skycoin/skycoin/src/transaction"
	"github.com/skycoin/skycoin/src/util/fee"
	"github.com/skycoin/skycoin/src/visor"
	"github.com/skycoin/skycoin/src/visor/blockdb"
	"github.com/skycoin/skycoin/src/wallet"
	_ "github.com/skycoin/skycoin/src/wallet/collection" // registers the collection wallet type

	"verif/lib/fix"
	"verif/lib/ledger"
	"verif/lib/node"
	"verif/lib/vf"
)

type bigInt = big.Int

var nodeVias = []string{"visor-uxouts", "visor-addrs", "api-uxouts", "api-addrs", "wallet-unsigned", "wallet-signed"}

const (
	nDist       = 4
	perScen     = 6 // owner keys reserved for one scenario
	scenPerRnd  = 8
	nOwnerKeys  = perScen * scenPerRnd
	nDestKeys   = 8
	nodeUnit    = 1000 // droplets: three decimal places
	bankOutputs = 64
	walletID    = "c12.wlt"
)

// shadow is the harness's own record of the node's unspent set (from the blocks it made)
type shadow struct {
	ux       map[cipher.SHA256]coin.UxOut
	headTime uint64
	headSeq  uint64
}

func (s *shadow) apply(b coin.SignedBlock) {
	for i := range b.Body.Transactions {
		t := &b.Body.Transactions[i]
		for _, in := range t.In {
			delete(s.ux, in)
		}
		for _, o := range ledger.OutputsOf(t, b.Head.Time, b.Head.BkSeq) {
			s.ux[ledger.UxID(o)] = o
		}
	}
	s.headTime, s.headSeq = b.Head.Time, b.Head.BkSeq
}

func sortUx(uxs []coin.UxOut) {
	sort.Slice(uxs, func(i, j int) bool {
		a, b := ledger.UxID(uxs[i]), ledger.UxID(uxs[j])
		return bytes.Compare(a[:], b[:]) < 0
	})
}

func (s *shadow) of(addrs map[cipher.Address]bool) []coin.UxOut {
	var out []coin.UxOut
	for _, ux := range s.ux {
		if addrs[ux.Body.Address] {
			out = append(out, ux)
		}
	}
	sortUx(out)
	return out
}

func (s *shadow) accrued(ux coin.UxOut) uint64 {
	a, cls := ledger.Accrued(ux, s.headTime)
	if cls != ledger.AccrualOK || !a.IsUint64() {
		fatal("harness: accrual out of range for %v", ux)
	}
	return a.Uint64()
}

type scen struct {
	idx    int
	owners []fix.Key
	outs   []fix.Out
	phase  int
	via    string
	ids    []cipher.SHA256
}

type nleg struct {
	r        *vf.Run
	l        *local
	n        *node.Node
	chain    *fix.Chain
	sh       *shadow
	bank     fix.Key
	owners   []fix.Key
	ownerSet map[cipher.Address]bool
	dests    []cipher.Address
	pending  map[cipher.SHA256]bool // outputs spent by transactions in the pool
	poolN    int
	client   *http.Client
}

func (nl *nleg) harnessFail(format string, a ...interface{}) {
	msg := fmt.Sprintf(format, a...)
	nl.r.Inconclusive("node leg harness: " + msg)
	if os.Getenv("C12_TIMING") != "" {
		fmt.Fprintln(os.Stderr, "node leg harness:", msg)
	}
	panic(harnessPanic(msg))
}

type harnessPanic string

// inject puts a harness-made transaction into the pool (it must be admitted: harness self-check)
func (nl *nleg) inject(t coin.Transaction, what string) {
	if _, _, _, err := nl.n.Visor.InjectUserTransaction(t); err != nil {
		nl.harnessFail("%s transaction rejected: %v", what, err)
	}
	for _, in := range t.In {
		nl.pending[in] = true
	}
	nl.poolN++
}

var timing = map[string]time.Duration{}

func timed(k string) func() {
	t0 := time.Now()
	return func() { timing[k] += time.Since(t0) }
}

func (nl *nleg) block(when uint64) {
	defer timed("block")()
	sb, err := nl.n.Visor.VerifCreateAndExecuteBlock(when)
	if err != nil {
		nl.harnessFail("create block at %d: %v", when, err)
	}
	nl.sh.apply(sb)
	if len(sb.Body.Transactions) != nl.poolN {
		nl.harnessFail("block %d holds %d of %d pooled transactions", sb.Head.BkSeq, len(sb.Body.Transactions), nl.poolN)
	}
	nl.pending = map[cipher.SHA256]bool{}
	nl.poolN = 0
}

// bankOuts returns the bank's confirmed outputs not yet used by a pooled transaction, most hours first
func (nl *nleg) bankOuts() []coin.UxOut {
	all := nl.sh.of(map[cipher.Address]bool{nl.bank.Addr: true})
	var out []coin.UxOut
	for _, ux := range all {
		if !nl.pending[ledger.UxID(ux)] {
			out = append(out, ux)
		}
	}
	sort.SliceStable(out, func(i, j int) bool { return nl.sh.accrued(out[i]) > nl.sh.accrued(out[j]) })
	return out
}

func remU(h uint64) uint64 {
	b := burnFactor()
	f := h / b
	if h%b != 0 {
		f++
	}
	return h - f
}

// sweep moves every confirmed output at an owner address that no pooled transaction spends back to the
// bank, so that the next scenarios using these owner keys start from a clean slate
func (nl *nleg) sweep() {
	defer timed("sweep")()
	var loose []coin.UxOut
	for id, ux := range nl.sh.ux {
		if ux.Body.Address == nl.bank.Addr || nl.pending[id] {
			continue
		}
		if !nl.ownerSet[ux.Body.Address] {
			continue // outputs at pure destination addresses disturb nothing; they stay
		}
		loose = append(loose, ux)
	}
	sortUx(loose)
	for len(loose) > 0 {
		k := len(loose)
		if k > 150 {
			k = 150
		}
		bank := nl.bankOuts()
		if len(bank) == 0 {
			nl.harnessFail("no bank output for a sweep")
		}
		in := append([]coin.UxOut{bank[len(bank)/2]}, loose[:k]...)
		loose = loose[k:]
		var c, h uint64
		for _, ux := range in {
			c += ux.Body.Coins
			h += nl.sh.accrued(ux)
		}
		nl.inject(nl.chain.MakeTxn(in, []fix.Out{{Addr: nl.bank.Addr, Coins: c, Hours: remU(h)}}), "sweep")
		nl.l.count("node.harness.sweep-txns")
	}
}

// setup creates the offered outputs of all scenarios of a round in one transaction
func (nl *nleg) setup(scs []*scen) {
	defer timed("setup")()
	var outs []fix.Out
	var needC, needH uint64
	for _, sc := range scs {
		for _, o := range sc.outs {
			outs = append(outs, o)
			needC += o.Coins
			needH += o.Hours
		}
	}
	bank := nl.bankOuts()
	var in []coin.UxOut
	var c, h uint64
	// the bank output with the fewest hours that suffices alone (a tenth of the input hours is burnt)
	for i := len(bank) - 1; i >= 0; i-- {
		if bank[i].Body.Coins >= needC+2*nodeUnit && remU(nl.sh.accrued(bank[i])) >= needH+2 {
			in, c, h = []coin.UxOut{bank[i]}, bank[i].Body.Coins, nl.sh.accrued(bank[i])
			break
		}
	}
	for _, ux := range bank {
		if c >= needC+2*nodeUnit && remU(h) >= needH+2 {
			break
		}
		in = append(in, ux)
		c += ux.Body.Coins
		h += nl.sh.accrued(ux)
	}
	if c < needC+2*nodeUnit || remU(h) < needH+2 {
		nl.harnessFail("bank too poor: have %d coins %d hours, need %d coins %d hours", c, h, needC, needH)
	}
	restC, restH := c-needC, remU(h)-needH
	if len(bank)-len(in) < bankOutputs && restC >= 4*nodeUnit {
		// keep the number of bank outputs up
		c1 := restC / 2 / nodeUnit * nodeUnit
		outs = append(outs, fix.Out{Addr: nl.bank.Addr, Coins: c1, Hours: restH / 2})
		outs = append(outs, fix.Out{Addr: nl.bank.Addr, Coins: restC - c1, Hours: restH - restH/2 + 0})
		if c1 == restC-c1 && restH/2 == restH-restH/2 {
			outs[len(outs)-1].Coins += nodeUnit
			outs[len(outs)-2].Coins -= nodeUnit
		}
	} else {
		outs = append(outs, fix.Out{Addr: nl.bank.Addr, Coins: restC, Hours: restH})
	}
	t := nl.chain.MakeTxn(in, outs)
	nl.inject(t, "setup")
}

// resolveIDs finds the ids of the outputs the setup transaction of the head block created for the scenarios
func (nl *nleg) resolveIDs(scs []*scen) {
	fresh := map[fix.Out]cipher.SHA256{}
	for id, ux := range nl.sh.ux {
		if ux.Head.BkSeq == nl.sh.headSeq {
			fresh[fix.Out{Addr: ux.Body.Address, Coins: ux.Body.Coins, Hours: ux.Body.Hours}] = id
		}
	}
	for _, sc := range scs {
		for _, o := range sc.outs {
			id, found := fresh[o]
			if !found {
				nl.harnessFail("setup output missing after block")
			}
			sc.ids = append(sc.ids, id)
		}
		sort.Slice(sc.ids, func(i, j int) bool { return bytes.Compare(sc.ids[i][:], sc.ids[j][:]) < 0 })
	}
}

func (nl *nleg) tick() {
	defer timed("tick")()
	bank := nl.bankOuts()
	if len(bank) == 0 {
		nl.harnessFail("no bank output for a tick")
	}
	ux := bank[len(bank)-1]
	nl.inject(nl.chain.MakeTxn([]coin.UxOut{ux}, []fix.Out{{Addr: nl.bank.Addr, Coins: ux.Body.Coins, Hours: remU(nl.sh.accrued(ux))}}), "tick")
}

// planScenario decides which outputs a scenario will own
func planScenario(rng *rand.Rand, idx int, keys []fix.Key) *scen {
	sc := &scen{idx: idx, via: nodeVias[idx%len(nodeVias)], phase: 1 + rng.Intn(2)}
	nOwn := 1 + rng.Intn(len(keys))
	sc.owners = keys[:nOwn]
	n := pickN(rng)
	if n > 8 && rng.Intn(2) == 0 {
		n = 1 + rng.Intn(8) // signatures dominate the node leg: fewer very large sets than in the pure leg
	}
	type ok struct {
		a cipher.Address
		c uint64
		h uint64
	}
	seen := map[ok]bool{}
	for i := 0; i < n; i++ {
		var coins, hours uint64
		switch x := rng.Intn(100); {
		case x < 12:
			coins = nodeUnit
		case x < 30:
			coins = 1000000
		case x < 65:
			coins = nodeUnit * (1 + uint64(rng.Int63n(1000000)))
		case x < 80 && len(sc.outs) > 0:
			coins = sc.outs[rng.Intn(len(sc.outs))].Coins
		case x < 95:
			coins = 2 * nodeUnit * (1 + uint64(rng.Int63n(5000)))
		default:
			coins = nodeUnit * (1 + uint64(rng.Int63n(10000000)))
		}
		if n == 1 {
			coins = (coins + 2*nodeUnit - 1) / (2 * nodeUnit) * (2 * nodeUnit) // halves stay on the 0.001 grid
		}
		switch x := rng.Intn(100); {
		case x < 28:
			hours = 0
		case x < 36:
			hours = 1
		case x < 55:
			hours = uint64(rng.Intn(20))
		case x < 75:
			hours = uint64(rng.Int63n(1000000))
		case x < 85 && len(sc.outs) > 0:
			hours = sc.outs[rng.Intn(len(sc.outs))].Hours
		default:
			hours = uint64(rng.Int63n(1000000000))
		}
		if n <= 2 && hours == 0 && rng.Intn(3) != 0 {
			hours = 2 * (1 + uint64(rng.Intn(500)))
		}
		o := fix.Out{Addr: sc.owners[rng.Intn(nOwn)].Addr, Coins: coins, Hours: hours}
		for seen[ok{o.Addr, o.Coins, o.Hours}] {
			o.Coins += nodeUnit // a transaction cannot create two identical outputs
		}
		seen[ok{o.Addr, o.Coins, o.Hours}] = true
		sc.outs = append(sc.outs, o)
	}
	return sc
}

type apiResponse struct {
	Error *struct {
		Message string `json:"message"`
		Code    int    `json:"code"`
	} `json:"error"`
	Data *struct {
		EncodedTransaction string `json:"encoded_transaction"`
	} `json:"data"`
}

func dropletString(d uint64) string {
	return fmt.Sprintf("%d.%06d", d/1000000, d%1000000)
}

// apiBody is the JSON request body of the two create-transaction endpoints
func apiBody(q *request, wp visor.CreateTransactionParams) map[string]interface{} {
	hs := map[string]interface{}{"type": q.typ}
	if q.mode != "" {
		hs["mode"] = q.mode
	}
	if !q.manual {
		hs["share_factor"] = q.share
	}
	tos := []map[string]interface{}{}
	for _, o := range q.to {
		m := map[string]interface{}{"address": o.Address.String(), "coins": dropletString(o.Coins)}
		if q.manual {
			m["hours"] = fmt.Sprint(o.Hours)
		}
		tos = append(tos, m)
	}
	body := map[string]interface{}{"hours_selection": hs, "to": tos}
	if q.change != nil {
		body["change_address"] = q.change.String()
	}
	if len(wp.UxOuts) > 0 {
		hs := []string{}
		for _, h := range wp.UxOuts {
			hs = append(hs, h.Hex())
		}
		body["unspents"] = hs
	} else if len(wp.Addresses) > 0 {
		as := []string{}
		for _, a := range wp.Addresses {
			as = append(as, a.String())
		}
		body["addresses"] = as
	}
	if wp.IgnoreUnconfirmed {
		body["ignore_unconfirmed"] = true
	}
	return body
}

// apiPost sends a JSON body and returns status and raw response
func (nl *nleg) apiPost(path string, body map[string]interface{}) (int, []byte, error) {
	b, _ := json.Marshal(body)
	req, err := http.NewRequest("POST", "http://"+nl.n.APIAddr+path, bytes.NewReader(b))
	if err != nil {
		return 0, nil, err
	}
	req.Header.Set("Content-Type", "application/json")
	resp, err := nl.client.Do(req)
	if err != nil {
		return 0, nil, err
	}
	rb, _ := ioutil.ReadAll(resp.Body)
	resp.Body.Close()
	return resp.StatusCode, rb, nil
}

func (nl *nleg) apiCreate(q *request, wp visor.CreateTransactionParams) (*coin.Transaction, int, string, error) {
	status, rb, err := nl.apiPost("/api/v2/transaction", apiBody(q, wp))
	if err != nil {
		return nil, 0, "", err
	}
	var ar apiResponse
	if err := json.Unmarshal(rb, &ar); err != nil {
		return nil, status, string(rb), fmt.Errorf("response is not JSON: %v", err)
	}
	if status == 200 && ar.Data != nil && ar.Error == nil {
		t, err := coin.DeserializeTransactionHex(ar.Data.EncodedTransaction)
		if err != nil {
			return nil, 200, "", fmt.Errorf("encoded_transaction does not decode: %v", err)
		}
		return &t, 200, "", nil
	}
	msg := ""
	if ar.Error != nil {
		msg = ar.Error.Message
	}
	return nil, status, msg, nil
}

func classifyNodeErr(err error) (string, bool) {
	class, user := classifyErr(err)
	if user {
		return class, true
	}
	switch err.(type) {
	case visor.UserError, wallet.Error, blockdb.ErrUnspentNotExist:
		return failOther, true
	}
	return failNonUser, false
}

func classifyMessage(msg string) string {
	switch msg {
	case transaction.ErrInsufficientBalance.Error():
		return failBalance
	case transaction.ErrInsufficientHours.Error(), fee.ErrTxnInsufficientCoinHours.Error():
		return failHours
	case fee.ErrTxnNoFee.Error():
		return failNoFee
	case transaction.ErrNoUnspents.Error():
		return failNoUx
	case transaction.ErrZeroSpend.Error():
		return failZero
	}
	return failOther
}

// runScenario issues one request against the scenario's outputs
func (nl *nleg) runScenario(sc *scen) {
	defer timed("scenario")()
	r, l := nl.r, nl.l
	rng := r.Rand("node-request", sc.idx)
	via := sc.via
	byAddr := strings.HasSuffix(via, "-addrs") || (strings.HasPrefix(via, "wallet") && rng.Intn(2) == 0)
	var uxs []coin.UxOut
	var wp visor.CreateTransactionParams
	if byAddr {
		as := map[cipher.Address]bool{}
		for _, o := range sc.outs {
			if !as[o.Addr] {
				as[o.Addr] = true
				wp.Addresses = append(wp.Addresses, o.Addr)
			}
		}
		uxs = nl.sh.of(as)
	} else {
		for _, id := range sc.ids {
			ux, ok := nl.sh.ux[id]
			if !ok {
				nl.harnessFail("scenario %d: created output %s is not in the shadow set", sc.idx, id.Hex())
			}
			uxs = append(uxs, ux)
			wp.UxOuts = append(wp.UxOuts, id)
		}
	}
	q := newRequest(nl.sh.headTime, uxs)
	genRequest(rng, q, genParams{unit: nodeUnit, extra: nl.dests, changeSet: nl.dests})
	p := q.params()

	// session: in half of the scenarios that go through Go calls the caller first issues another
	// request on the same outputs (checked like any other, but not sent to the node) and reuses its
	// objects for the main one: the share factor, the output / address lists
	if !strings.HasPrefix(via, "api") {
		prng := r.Rand("node-prelude", sc.idx)
		if prng.Intn(2) == 0 {
			q0 := newRequest(nl.sh.headTime, uxs)
			gp := genParams{unit: nodeUnit, extra: nl.dests, changeSet: nl.dests, forceAuto: true}
			if prng.Intn(3) != 0 {
				gp.force = "exact-all"
			}
			genRequest(prng, q0, gp)
			if !q.manual {
				q0.share = q.share
			} else if prng.Intn(3) != 0 {
				q0.share = shareFactors[1+prng.Intn(3)]
			}
			p0 := q0.params()
			shared := false
			if !q.manual && q.share == q0.share {
				p0.HoursSelection.ShareFactor = p.HoursSelection.ShareFactor
				shared = true
				l.count("node.session.share-factor-pointer-reused")
			}
			q0.note = map[string]interface{}{"session": "first request of the scenario; the main request follows with the same share factor object and output/address lists"}
			l.count("node.session.first-requests")
			ob0, ok0 := nl.request(sc, via, q0, p0, wp, false)
			if ok0 && ob0.shareFallback && shared {
				q.note = map[string]interface{}{"session": "second request of the scenario", "earlier_request": map[string]interface{}{"recipe": q0.recipe, "mode": modeKey(q0), "to": outsString(q0.to), "fell_back_to_1": true}}
				ob, ok := nl.request(sc, via, q, p, wp, true)
				if ok && ob.haveChange {
					l.count("node.session.with-change-after-fallback-on-same-share-factor")
				}
				return
			}
		}
	}
	nl.request(sc, via, q, p, wp, true)
}

// request issues one request through via and judges the answer; final: the returned transaction is
// completed with the owners' keys and handed to the node
func (nl *nleg) request(sc *scen, via string, q *request, p transaction.Params, wp visor.CreateTransactionParams, final bool) (ob observed, ok bool) {
	r, l := nl.r, nl.l
	leg := "node"
	l.evals++
	l.count("node.requests")
	l.count("node.via:" + via)
	l.count("node.requests.mode:" + modeKey(q))
	l.count("node.requests.recipe:" + q.recipe)
	if sc.phase == 1 {
		l.count("node.requests.age-zero")
	} else {
		l.count("node.requests.aged")
	}
	predicted := predictsChangeEqDest(q)
	if predicted {
		l.count("node.requests.change-would-equal-destination")
	}

	before := snapshotCall(p, nil, &wp)
	var txn *coin.Transaction
	var err error
	status, msg := 0, ""
	signed := false
	panicked, pmsg, frame := vf.Recover(func() {
		switch via {
		case "visor-uxouts", "visor-addrs":
			txn, _, err = nl.n.Visor.CreateTransaction(p, wp)
		case "wallet-unsigned":
			txn, _, err = nl.n.Visor.WalletCreateTransaction(walletID, p, wp)
		case "wallet-signed":
			signed = true
			txn, _, err = nl.n.Visor.WalletCreateTransactionSigned(walletID, nil, p, wp)
		default:
			txn, status, msg, err = nl.apiCreate(q, wp)
		}
	})
	outcome := "success"
	if panicked {
		outcome = "panic"
	} else if err != nil || txn == nil {
		outcome = "error"
	}
	checkUnchanged(r, l, leg, via, sc.idx, q, before, p, nil, &wp, outcome)
	if panicked {
		viol(r, "panic", map[string]string{"leg": leg, "via": via, "frame": frame, "msg": pmsg, "recipe": q.recipe}, q.witness(leg, sc.idx, nil, pmsg))
		return
	}
	isAPI := strings.HasPrefix(via, "api")
	if isAPI && err != nil {
		viol(r, "api-no-usable-response", map[string]string{"leg": leg, "via": via, "error": err.Error(), "status": fmt.Sprint(status)}, q.witness(leg, sc.idx, nil, err.Error()))
		return
	}
	if (isAPI && txn == nil) || (!isAPI && err != nil) {
		var class, es string
		var user bool
		if isAPI {
			es = fmt.Sprintf("%d %s", status, msg)
			user = status >= 400 && status < 500
			class = classifyMessage(msg)
			if !user {
				class = failNonUser
			}
		} else {
			es = err.Error()
			class, user = classifyNodeErr(err)
		}
		l.count("node.fail." + class)
		l.distinct[fmt.Sprintf("node|fail|%s|%s|%s|%s", via, class, q.recipe, modeKey(q))] = struct{}{}
		if !user {
			cause := "other"
			if strings.Contains(es, "Duplicate output in transaction") {
				cause = "duplicate-output"
			}
			viol(r, "non-user-level-error", map[string]string{"leg": leg, "via": via, "error": es, "recipe": q.recipe, "mode": modeKey(q), "cause": cause, "change_eq_dest": fmt.Sprint(predicted)}, q.witness(leg, sc.idx, nil, es))
		}
		report(r, leg, via, sc.idx, q, checkFailure(q, class, burnFactor()), observed{}, nil, es)
		if predicted {
			l.count("node.fail.change-would-equal-destination")
		}
		return
	}
	if txn == nil {
		viol(r, "nil-result", map[string]string{"leg": leg, "via": via}, q.witness(leg, sc.idx, nil, ""))
		return
	}
	ps, ob := checkSuccess(q, txn, signed, burnFactor())
	noteSuccess(l, leg, q, ob)
	report(r, leg, via, sc.idx, q, ps, ob, txn, "")
	ok = true
	if !final {
		return
	}

	// complete it with the owners' keys and hand it to the node
	full := *txn
	full.In = append([]cipher.SHA256(nil), txn.In...)
	full.Out = append([]coin.TransactionOutput(nil), txn.Out...)
	full.Sigs = append([]cipher.Sig(nil), txn.Sigs...)
	if !signed {
		keys := make([]cipher.SecKey, 0, len(full.In))
		for _, in := range full.In {
			i, found := q.byID[in]
			if !found {
				return // already reported: spends an output that was not offered
			}
			k, found := nl.chain.KeyFor(q.off[i].ux.Body.Address)
			if !found {
				nl.harnessFail("no key for %s", q.off[i].ux.Body.Address)
			}
			keys = append(keys, k.Sec)
		}
		if len(keys) == 0 {
			return
		}
		full.Sigs = nil
		var perr bool
		perr, _, _ = vf.Recover(func() {
			full.SignInputs(keys)
			if e := full.UpdateHeader(); e != nil {
				panic(e)
			}
		})
		if perr {
			return
		}
	}
	doneInj := timed("scenario-inject")
	_, _, _, ierr := nl.n.Visor.InjectUserTransaction(full)
	doneInj()
	timing["n-scenario-sigs"] += time.Duration(len(full.In))
	if ierr != nil {
		cause := "other"
		if strings.Contains(ierr.Error(), "Duplicate output in transaction") {
			cause = "duplicate-output"
		}
		viol(r, "created-transaction-not-admitted", map[string]string{"leg": leg, "via": via, "error": ierr.Error(), "recipe": q.recipe, "mode": modeKey(q), "cause": cause, "change_eq_dest": fmt.Sprint(ob.changeEqDest)}, q.witness(leg, sc.idx, txn, ierr.Error()))
		return
	}
	l.count("node.admitted")
	for _, in := range full.In {
		nl.pending[in] = true
	}
	nl.poolN++
	return
}

func nodeLeg(r *vf.Run, nScen, nPool int) {
	dir := vf.TempDir("c12")
	defer os.RemoveAll(dir)
	l := newLocal()
	defer l.merge(r)

	opts := node.Options{
		DataDir: dir, ChainTag: fmt.Sprintf("c12-%d", r.Seed), Volume: 100e12,
		NKeys: nDist + nOwnerKeys + nDestKeys + 1, NDist: nDist, NUnlocked: nDist,
		Publisher: true, Arbitrating: true, DisableCSRF: true, DisableNetworking: true,
		MaxBlock: 1 << 20, MaxOutgoingMsgLen: 2 << 20, MaxIncomingMsgLen: 2 << 20, WalletCrypto: "sha256-xor",
	}
	n, err := node.Start(opts)
	if err != nil {
		r.Inconclusive("node leg: cannot start node: " + err.Error())
		return
	}
	defer n.Stop()
	nl := &nleg{r: r, l: l, n: n, chain: n.Chain, sh: &shadow{ux: map[cipher.SHA256]coin.UxOut{}}, pending: map[cipher.SHA256]bool{},
		client: &http.Client{Timeout: 2 * time.Minute}}
	keys := n.Chain.Keys
	nl.owners = keys[nDist : nDist+nOwnerKeys]
	nl.ownerSet = map[cipher.Address]bool{}
	for _, k := range nl.owners {
		nl.ownerSet[k.Addr] = true
	}
	for _, k := range keys[nDist+nOwnerKeys : nDist+nOwnerKeys+nDestKeys] {
		nl.dests = append(nl.dests, k.Addr)
	}
	nl.bank = keys[len(keys)-1]

	defer func() {
		if e := recover(); e != nil {
			if _, ok := e.(harnessPanic); ok {
				return
			}
			panic(e)
		}
	}()

	// the owners' keys in a wallet of the node's wallet service
	secs := []cipher.SecKey{}
	for _, k := range nl.owners {
		secs = append(secs, k.Sec)
	}
	if _, err := n.Wallets.CreateWallet(walletID, wallet.Options{Type: wallet.WalletTypeCollection, Label: "c12", CollectionPrivateKeys: secs}); err != nil {
		nl.harnessFail("create wallet: %v", err)
	}

	g, err := n.Visor.GetSignedBlockBySeq(0)
	if err != nil || g == nil {
		nl.harnessFail("no genesis block: %v", err)
	}
	nl.sh.apply(*g)

	// genesis output -> bank outputs (distinct hours: a transaction cannot repeat an output)
	{
		var gen coin.UxOut
		for _, ux := range nl.sh.ux {
			gen = ux
		}
		h := remU(nl.sh.accrued(gen))
		per := gen.Body.Coins / bankOutputs / nodeUnit * nodeUnit
		var outs []fix.Out
		var usedC, usedH uint64
		for i := 0; i < bankOutputs; i++ {
			c, hh := per, h/bankOutputs-uint64(i)
			if i == bankOutputs-1 {
				c = gen.Body.Coins - usedC
			}
			outs = append(outs, fix.Out{Addr: nl.bank.Addr, Coins: c, Hours: hh})
			usedC += c
			usedH += hh
		}
		nl.inject(nl.chain.MakeTxn([]coin.UxOut{gen}, outs), "distribution")
		nl.block(nl.sh.headTime + 10)
	}

	deltas := []uint64{1, 59, 3600, 86400, 30 * 86400, 365 * 86400, 4 * 365 * 86400}
	done := 0
	for round := 0; done < nScen; round++ {
		rrng := r.Rand("node-round", round)
		var scs []*scen
		for s := 0; s < scenPerRnd && done+len(scs) < nScen; s++ {
			idx := done + len(scs)
			scs = append(scs, planScenario(r.Rand("node-plan", idx), idx, nl.owners[s*perScen:(s+1)*perScen]))
		}
		// block A: previous spends + sweep + setup
		nl.sweep()
		nl.setup(scs)
		nl.block(nl.sh.headTime + 1 + uint64(rrng.Intn(100)))
		nl.resolveIDs(scs)
		// phase 1: outputs of age zero
		for _, sc := range scs {
			if sc.phase == 1 {
				nl.runScenario(sc)
			}
		}
		if nl.poolN == 0 {
			nl.tick()
		}
		var d uint64
		switch x := rrng.Intn(100); {
		case x < 70:
			d = deltas[rrng.Intn(5)]
		case x < 90:
			d = 1 + uint64(rrng.Int63n(30*86400))
		default:
			d = deltas[5+rrng.Intn(2)]
		}
		nl.block(nl.sh.headTime + d)
		// phase 2: aged outputs
		for _, sc := range scs {
			if sc.phase == 2 {
				nl.runScenario(sc)
			}
		}
		done += len(scs)
		l.count("node.harness.rounds")
	}
	// confirm what is left in the pool: everything admitted must also make it into a block
	if nl.poolN > 0 {
		nl.block(nl.sh.headTime + 1)
	}
	// the same entry points against a pool that already spends some of the offered outputs
	if nPool > 0 {
		poolLeg(nl, nPool)
	}
	if os.Getenv("C12_TIMING") != "" {
		fmt.Fprintln(os.Stderr, "node leg timing:", timing)
	}
	l.count("node.harness.final-height")
	l.counts["node.harness.final-height"] = int64(nl.sh.headSeq)
}
