package main

// Pool leg of the node leg: the same construction entry points, but the node's unconfirmed pool
// already holds transactions that spend some of the outputs a request offers — among them
// conflicting ones (several pooled transactions spending the same output, injected through the
// path for transactions received from the network, which admits double spends).
//
// The documentation (src/api/README.md, "ignore_unconfirmed"; CreateTransactionParams.IgnoreUnconfirmed):
//   - false (default): "the API will return an error if any of the unspent outputs associated with the
//     wallet addresses or the wallet outputs appear as spent in a transaction in the unconfirmed pool";
//   - true: "the transaction will not use any outputs which are being spent by an unconfirmed transaction".
//
// So the outputs a request really offers are: the requested ones (explicit list / all outputs of the
// listed addresses / all outputs of the wallet) minus, with the ignoring option, those that a pooled
// transaction spends. Which outputs every pooled transaction spends is the harness's own record (it
// made and injected every one of them); the rest of the oracle is checkSuccess / checkFailure on that
// offered set.

import (
	"bytes"
	"encoding/json"
	"fmt"
	"math/rand"
	"sort"
	"strings"

	"github.com/skycoin/skycoin/src/cipher"
	"github.com/skycoin/skycoin/src/coin"
	"github.com/skycoin/skycoin/src/visor"
	"github.com/skycoin/skycoin/src/wallet"

	"verif/lib/fix"
	"verif/lib/ledger"
	"verif/lib/vf"
)

const (
	failSpendingUnconfirmed = "spending-unconfirmed"
	failNothingSpendable    = "no-spendable-outputs"
)

var (
	poolViasSel    = []string{"visor", "wallet-unsigned", "wallet-signed", "api", "api-wallet-unsigned", "api-wallet-signed"}
	poolViasWallet = []string{"wallet-unsigned", "wallet-signed", "api-wallet-unsigned", "api-wallet-signed"}
	poolSelectors  = []string{"uxouts-all", "uxouts-subset", "addrs", "wallet"}
)

// ptxn is the harness's record of one transaction it put into the pool
type ptxn struct {
	hash cipher.SHA256
	in   []cipher.SHA256
}

type pleg struct {
	*nleg
	spent map[cipher.SHA256]int // output -> number of pooled transactions spending it
	txns  []ptxn
	reqN  int
}

func slotWallet(s int) string { return fmt.Sprintf("c12pool%d.wlt", s) }

// planPoolGroup: 2-9 outputs over 1-3 owner addresses, at least one of them with hours
func planPoolGroup(rng *rand.Rand, idx int, keys []fix.Key) *scen {
	sc := &scen{idx: idx}
	nOwn := 1 + rng.Intn(3)
	sc.owners = keys[:nOwn]
	n := 2 + rng.Intn(8)
	type ok struct {
		a    cipher.Address
		c, h uint64
	}
	seen := map[ok]bool{}
	for i := 0; i < n; i++ {
		var coins, hours uint64
		switch x := rng.Intn(100); {
		case x < 10:
			coins = nodeUnit
		case x < 30:
			coins = 1000000
		case x < 50 && len(sc.outs) > 0:
			coins = sc.outs[rng.Intn(len(sc.outs))].Coins
		default:
			coins = nodeUnit * (1 + uint64(rng.Int63n(200000)))
		}
		switch x := rng.Intn(100); {
		case x < 25:
			hours = 0
		case x < 40:
			hours = 1 + uint64(rng.Intn(3))
		case x < 55 && len(sc.outs) > 0:
			hours = sc.outs[rng.Intn(len(sc.outs))].Hours
		default:
			hours = uint64(rng.Int63n(1000000))
		}
		if i == 0 && hours < 2 {
			hours = 2 + uint64(rng.Intn(1000))
		}
		o := fix.Out{Addr: sc.owners[rng.Intn(nOwn)].Addr, Coins: coins, Hours: hours}
		for seen[ok{o.Addr, o.Coins, o.Hours}] {
			o.Coins += nodeUnit
		}
		seen[ok{o.Addr, o.Coins, o.Hours}] = true
		sc.outs = append(sc.outs, o)
	}
	return sc
}

// fillPool makes and injects the pooled transactions of one group
func (pl *pleg) fillPool(rng *rand.Rand, g *scen) {
	l := pl.l
	n := len(g.ids)
	uxs := make([]coin.UxOut, n)
	for i, id := range g.ids {
		ux, ok := pl.sh.ux[id]
		if !ok {
			pl.harnessFail("pool group %d: output %s is not in the shadow set", g.idx, id.Hex())
		}
		uxs[i] = ux
	}
	var m int
	switch x := rng.Intn(100); {
	case x < 10:
		m = 0
	case x < 25:
		m = 1
	default:
		m = 2 + rng.Intn(4)
	}
	if m == 0 {
		l.count("node.pool.groups.untouched-by-pool")
	}
	var sets [][]int
	for j := 0; j < m; j++ {
		var pick []int
		kind := ""
		var spentIdx []int
		for i, id := range g.ids {
			if pl.spent[id] > 0 {
				spentIdx = append(spentIdx, i)
			}
		}
		switch x := rng.Intn(100); {
		case x >= 82 && len(sets) > 0:
			pick = append(pick, sets[rng.Intn(len(sets))]...)
			kind = "same-as-earlier"
		case x < 52 || n < 3:
			if len(spentIdx) > 0 && rng.Intn(2) == 0 {
				pick = []int{spentIdx[rng.Intn(len(spentIdx))]}
			} else {
				pick = []int{rng.Intn(n)}
			}
			kind = "one"
		case x < 76:
			k := 2 + rng.Intn(n-2)
			pick = rng.Perm(n)[:k]
			kind = "several"
		default:
			pick = rng.Perm(n)
			kind = "all"
		}
		var h, c uint64
		has := map[int]bool{}
		for _, i := range pick {
			has[i] = true
			h += pl.sh.accrued(uxs[i])
			c += uxs[i].Body.Coins
		}
		if h == 0 {
			// a transaction must burn something: add an output with hours
			for i := range uxs {
				if !has[i] && pl.sh.accrued(uxs[i]) > 0 {
					pick = append(pick, i)
					h += pl.sh.accrued(uxs[i])
					c += uxs[i].Body.Coins
					break
				}
			}
			if h == 0 {
				continue
			}
		}
		if len(pick) == n {
			kind = "all"
		} else if len(pick) > 1 && kind == "one" {
			kind = "several"
		}
		in := make([]coin.UxOut, len(pick))
		conflict := false
		for k, i := range pick {
			in[k] = uxs[i]
			if pl.spent[g.ids[i]] > 0 {
				conflict = true
			}
		}
		var t coin.Transaction
		made := false
		for try := uint64(0); try < 4 && !made; try++ {
			oh := remU(h)
			if oh >= try {
				oh -= try
			}
			outs := []fix.Out{{Addr: pl.dests[rng.Intn(len(pl.dests))], Coins: c, Hours: oh}}
			if c >= 2*nodeUnit && rng.Intn(2) == 0 {
				c1 := nodeUnit * (1 + uint64(rng.Int63n(int64(c/nodeUnit-1))))
				outs[0].Coins = c - c1
				outs = append(outs, fix.Out{Addr: pl.dests[rng.Intn(len(pl.dests))], Coins: c1, Hours: 0})
				if outs[1].Addr == outs[0].Addr && outs[1].Coins == outs[0].Coins && outs[0].Hours == 0 {
					outs = outs[:1]
					outs[0].Coins = c
				}
			}
			t = pl.chain.MakeTxn(in, outs)
			made = true
			for _, p := range pl.txns {
				if p.hash == t.Hash() {
					made = false
				}
			}
		}
		if !made {
			continue
		}
		path := "user"
		if conflict || rng.Intn(4) == 0 {
			path = "foreign"
		}
		if path == "foreign" {
			known, softErr, err := pl.n.Visor.InjectForeignTransaction(t)
			if err != nil || softErr != nil || known {
				pl.harnessFail("pool transaction not admitted through the foreign path: known=%v soft=%v err=%v", known, softErr, err)
			}
		} else {
			known, _, _, err := pl.n.Visor.InjectUserTransaction(t)
			if err != nil || known {
				pl.harnessFail("pool transaction not admitted through the user path: known=%v err=%v", known, err)
			}
		}
		rec := ptxn{hash: t.Hash()}
		for _, ux := range in {
			id := ledger.UxID(ux)
			rec.in = append(rec.in, id)
			pl.spent[id]++
			pl.pending[id] = true
		}
		pl.txns = append(pl.txns, rec)
		pl.poolN++
		sets = append(sets, pick)
		l.count("node.pool.txns")
		l.count("node.pool.txns.spends:" + kind)
		l.count("node.pool.txns.path:" + path)
		if conflict {
			l.count("node.pool.txns.conflicting-with-earlier-pool-txn")
		}
	}
}

// clearPool confirms what can be confirmed (the publisher arbitrates between the conflicting
// transactions) and drops the losers, so that the next round starts from an empty pool
func (pl *pleg) clearPool(when uint64) {
	defer timed("pool-clear")()
	if pl.poolN == 0 {
		pl.tick()
	}
	// the arbitration may leave a still valid transaction out (one that only conflicts with a loser): repeat
	confirmed := 0
	for pass := 0; ; pass++ {
		sb, err := pl.n.Visor.VerifCreateAndExecuteBlock(when + uint64(pass))
		if err != nil {
			pl.harnessFail("pool leg: create block at %d: %v", when, err)
		}
		used := map[cipher.SHA256]bool{}
		for _, t := range sb.Body.Transactions {
			for _, in := range t.In {
				if used[in] {
					pl.harnessFail("pool leg: block %d spends %s twice", sb.Head.BkSeq, in.Hex())
				}
				used[in] = true
			}
		}
		pl.sh.apply(sb)
		confirmed += len(sb.Body.Transactions)
		if _, err := pl.n.Visor.RemoveInvalidUnconfirmed(); err != nil {
			pl.harnessFail("pool leg: RemoveInvalidUnconfirmed: %v", err)
		}
		left, err := pl.n.Visor.GetAllUnconfirmedTransactions()
		if err != nil {
			pl.harnessFail("pool leg: GetAllUnconfirmedTransactions: %v", err)
		}
		if len(left) == 0 {
			break
		}
		if pass >= 8 {
			pl.harnessFail("pool leg: %d transactions left in the pool after %d clearing blocks", len(left), pass+1)
		}
		pl.l.count("node.pool.harness.extra-clearing-blocks")
	}
	pl.l.counts["node.pool.harness.confirmed-pool-txns"] += int64(confirmed)
	pl.l.counts["node.pool.harness.dropped-conflict-losers"] += int64(pl.poolN - confirmed)
	pl.pending = map[cipher.SHA256]bool{}
	pl.poolN = 0
	pl.spent = map[cipher.SHA256]int{}
	pl.txns = nil
}

func (nl *nleg) apiWalletCreate(q *request, wp visor.CreateTransactionParams, wlt string, unsigned bool) (*coin.Transaction, int, string, error) {
	body := apiBody(q, wp)
	body["wallet_id"] = wlt
	body["unsigned"] = unsigned
	status, rb, err := nl.apiPost("/api/v1/wallet/transaction", body)
	if err != nil {
		return nil, 0, "", err
	}
	if status == 200 {
		var cr struct {
			EncodedTransaction string `json:"encoded_transaction"`
		}
		if err := json.Unmarshal(rb, &cr); err != nil {
			return nil, status, string(rb), fmt.Errorf("response is not JSON: %v", err)
		}
		t, err := coin.DeserializeTransactionHex(cr.EncodedTransaction)
		if err != nil {
			return nil, 200, "", fmt.Errorf("encoded_transaction does not decode: %v", err)
		}
		return &t, 200, "", nil
	}
	// version 1 endpoints answer errors as text: "400 Bad Request - <message>"
	msg := strings.TrimSpace(string(rb))
	if i := strings.Index(msg, " - "); i >= 0 {
		msg = msg[i+3:]
	}
	return nil, status, msg, nil
}

// poolRequest issues one request and judges it. requested: what the request names (the harness's
// own view: explicit list, or the shadow set's outputs of the addresses / of the wallet)
func (pl *pleg) poolRequest(rng *rand.Rand, via, wlt, selector string, wp visor.CreateTransactionParams, requested []coin.UxOut) {
	defer timed("pool-request")()
	r, l := pl.r, pl.l
	const leg = "node.pool"
	idx := pl.reqN
	pl.reqN++
	ignore := wp.IgnoreUnconfirmed
	option := "fail"
	if ignore {
		option = "ignore"
	}

	// the oracle's offered set
	var free, taken []coin.UxOut
	several := false
	reqSet := map[cipher.SHA256]bool{}
	for _, ux := range requested {
		id := ledger.UxID(ux)
		reqSet[id] = true
		if pl.spent[id] > 0 {
			taken = append(taken, ux)
			if pl.spent[id] > 1 {
				several = true
			}
		} else {
			free = append(free, ux)
		}
	}
	offeredSet := requested
	if ignore {
		offeredSet = free
	}
	expectRefusal := (!ignore && len(taken) > 0) || (ignore && len(free) == 0)

	q := newRequest(pl.sh.headTime, offeredSet)
	gp := genParams{unit: nodeUnit, extra: pl.dests, changeSet: pl.dests}
	switch x := rng.Intn(100); {
	case x < 30:
		gp.force = "exact-all"
	case x < 42:
		gp.force = "one-left"
	}
	genRequest(rng, q, gp)
	p := q.params()

	// evidence: the pool in the order of the transaction hashes, reduced to the requested outputs
	order := append([]ptxn(nil), pl.txns...)
	sort.Slice(order, func(i, j int) bool { return bytes.Compare(order[i].hash[:], order[j].hash[:]) < 0 })
	var pattern []string
	var poolNote []map[string]interface{}
	firstSeen := map[cipher.SHA256]bool{}
	doubleSeen, lateFirst := false, false
	for _, t := range order {
		var hit []string
		for _, in := range t.in {
			if reqSet[in] {
				hit = append(hit, in.Hex())
				if firstSeen[in] {
					doubleSeen = true
				} else {
					if doubleSeen {
						lateFirst = true
					}
					firstSeen[in] = true
				}
			}
		}
		if len(hit) > 0 {
			pattern = append(pattern, fmt.Sprint(len(hit)))
			poolNote = append(poolNote, map[string]interface{}{"pool_txn": t.hash.Hex(), "spends_requested": hit})
		}
	}
	reqHex := []string{}
	for _, ux := range requested {
		reqHex = append(reqHex, ledger.UxID(ux).Hex())
	}
	q.note = map[string]interface{}{"pool_leg": map[string]interface{}{
		"unconfirmed_option": option, "selector": selector, "via": via, "wallet": wlt, "requested": reqHex,
		"pool_txns_spending_requested_outputs": poolNote, "expect_refusal": expectRefusal,
		"offered_by_the_oracle": "requested minus outputs spent in the pool (ignore option) / all requested (fail option)",
	}}

	l.evals++
	l.count(leg + ".requests")
	l.count(leg + ".requests.option:" + option)
	l.count(leg + ".requests.selector:" + selector)
	l.count(leg + ".requests.via:" + via)
	l.count(leg + ".requests.recipe:" + q.recipe)
	switch {
	case len(taken) == 0:
		l.count(leg + ".requests.spent-in-pool:none")
	case len(free) == 0:
		l.count(leg + ".requests.spent-in-pool:all")
	default:
		l.count(leg + ".requests.spent-in-pool:some")
	}
	if several {
		l.count(leg + ".requests.requested-output-spent-by-several-pool-txns")
	}
	if lateFirst {
		l.count(leg + ".requests.pool-order:double-spend-then-first-spend-of-another-output")
	}
	l.distinct[fmt.Sprintf("%s|combo|%s|%s|%s", leg, option, selector, via)] = struct{}{}
	l.distinct[fmt.Sprintf("%s|order|%s|%s|n%d|%s", leg, option, selector, len(requested), strings.Join(pattern, ","))] = struct{}{}

	before := snapshotCall(p, nil, &wp)
	var txn *coin.Transaction
	var err error
	status, msg := 0, ""
	signed := strings.HasSuffix(via, "-signed")
	isAPI := strings.HasPrefix(via, "api")
	panicked, pmsg, frame := vf.Recover(func() {
		switch via {
		case "visor":
			txn, _, err = pl.n.Visor.CreateTransaction(p, wp)
		case "wallet-unsigned":
			txn, _, err = pl.n.Visor.WalletCreateTransaction(wlt, p, wp)
		case "wallet-signed":
			txn, _, err = pl.n.Visor.WalletCreateTransactionSigned(wlt, nil, p, wp)
		case "api":
			txn, status, msg, err = pl.apiCreate(q, wp)
		case "api-wallet-unsigned":
			txn, status, msg, err = pl.apiWalletCreate(q, wp, wlt, true)
		case "api-wallet-signed":
			txn, status, msg, err = pl.apiWalletCreate(q, wp, wlt, false)
		default:
			panic("unknown via " + via)
		}
	})
	outcome := "success"
	if panicked {
		outcome = "panic"
	} else if err != nil || txn == nil {
		outcome = "error"
	}
	checkUnchanged(r, l, leg, via, idx, q, before, p, nil, &wp, outcome)
	base := map[string]string{"leg": leg, "via": via, "option": option, "selector": selector, "recipe": q.recipe, "mode": modeKey(q)}
	with := func(kv ...string) map[string]string {
		m := map[string]string{}
		for k, v := range base {
			m[k] = v
		}
		for i := 0; i+1 < len(kv); i += 2 {
			m[kv[i]] = kv[i+1]
		}
		return m
	}
	if panicked {
		viol(r, "panic", with("frame", frame, "msg", pmsg), q.witness(leg, idx, nil, pmsg))
		return
	}
	if isAPI && err != nil {
		viol(r, "api-no-usable-response", with("error", err.Error(), "status", fmt.Sprint(status)), q.witness(leg, idx, nil, err.Error()))
		return
	}
	if (isAPI && txn == nil) || (!isAPI && err != nil) {
		var class, es string
		var user bool
		if isAPI {
			es = fmt.Sprintf("%d %s", status, msg)
			user = status >= 400 && status < 500
			class = classifyMessage(msg)
			switch msg {
			case visor.ErrSpendingUnconfirmed.Error():
				class = failSpendingUnconfirmed
			case visor.ErrNoSpendableOutputs.Error():
				class = failNothingSpendable
			}
			if !user {
				class = failNonUser
			}
		} else {
			es = err.Error()
			class, user = classifyNodeErr(err)
			switch err {
			case visor.ErrSpendingUnconfirmed:
				class = failSpendingUnconfirmed
			case visor.ErrNoSpendableOutputs:
				class = failNothingSpendable
			}
		}
		l.count(leg + ".fail." + class)
		l.distinct[fmt.Sprintf("%s|fail|%s|%s|%s|%s|%v", leg, option, selector, via, class, expectRefusal)] = struct{}{}
		if !user {
			viol(r, "non-user-level-error", with("error", es, "cause", "other"), q.witness(leg, idx, nil, es))
		}
		if expectRefusal {
			if ignore {
				l.count(leg + ".refused.ignore-option-nothing-left")
			} else {
				l.count(leg + ".refused.fail-option-requested-output-spent-in-pool")
			}
			return
		}
		// a refusal because of the pool needs a pooled transaction that spends a requested output,
		// and is never the answer when the caller asked to ignore such outputs
		if class == failSpendingUnconfirmed || class == failNothingSpendable {
			viol(r, "refused-because-of-pool-without-cause", with("error", es, "spent_in_pool", fmt.Sprint(len(taken)), "free", fmt.Sprint(len(free))), q.witness(leg, idx, nil, es))
			return
		}
		report(r, leg, via, idx, q, checkFailure(q, class, burnFactor()), observed{}, nil, es)
		return
	}
	if txn == nil {
		viol(r, "nil-result", with(), q.witness(leg, idx, nil, ""))
		return
	}
	if !ignore && len(taken) > 0 {
		// documented: an error is returned if any requested output is spent by an unconfirmed transaction
		uses := 0
		for _, in := range txn.In {
			if pl.spent[in] > 0 {
				uses++
			}
		}
		viol(r, "not-refused-although-requested-output-spent-in-pool", with("spent_in_pool", fmt.Sprint(len(taken)), "result_spends_pool_spent_outputs", fmt.Sprint(uses)),
			q.witness(leg, idx, txn, ""))
		return
	}
	// success: judged against the oracle's offered set (with the ignoring option, an input that a
	// pooled transaction spends was not offered: "spends-unoffered-output")
	ps, ob := checkSuccess(q, txn, signed, burnFactor())
	for i := range ps {
		if ps[i].kind == "spends-unoffered-output" && ignore {
			for _, in := range txn.In {
				if reqSet[in] && pl.spent[in] > 0 && strings.Contains(ps[i].detail, in.Hex()) {
					ps[i].detail += fmt.Sprintf("; %s is spent by %d pooled transaction(s)", in.Hex(), pl.spent[in])
					break
				}
			}
		}
	}
	noteSuccess(l, leg, q, ob)
	if len(taken) > 0 {
		l.count(leg + ".success.ignore-option-some-requested-outputs-spent-in-pool")
	} else {
		l.count(leg + ".success.pool-does-not-touch-request")
	}
	report(r, leg, via, idx, q, ps, ob, txn, "")
}

func shuffledIDs(rng *rand.Rand, ids []cipher.SHA256) []cipher.SHA256 {
	out := append([]cipher.SHA256(nil), ids...)
	rng.Shuffle(len(out), func(i, j int) { out[i], out[j] = out[j], out[i] })
	return out
}

func (pl *pleg) uxOf(ids []cipher.SHA256) []coin.UxOut {
	out := make([]coin.UxOut, 0, len(ids))
	for _, id := range ids {
		ux, ok := pl.sh.ux[id]
		if !ok {
			pl.harnessFail("pool leg: output %s is not in the shadow set", id.Hex())
		}
		out = append(out, ux)
	}
	return out
}

// groupRequests: every unconfirmed option x selector for one group, the entry point rotating
func (pl *pleg) groupRequests(g *scen, slot int) {
	slotAddrs := map[cipher.Address]bool{}
	for _, k := range pl.owners[slot*perScen : (slot+1)*perScen] {
		slotAddrs[k.Addr] = true
	}
	for si, selector := range poolSelectors {
		reps := 1
		if selector == "uxouts-subset" {
			reps = 3 // different sub-lists of the group's outputs against the same pool
		}
		for k := 0; k < 2*reps; k++ {
			oi, rep := k%2, k/2
			ignore := oi == 1
			rng := pl.r.Rand("pool-request", g.idx, si, oi, rep)
			wp := visor.CreateTransactionParams{IgnoreUnconfirmed: ignore}
			var requested []coin.UxOut
			via := poolViasSel[(g.idx+si+3*oi+rep)%len(poolViasSel)]
			wlt := slotWallet(slot)
			if (g.idx/len(poolViasSel))%2 == 1 {
				wlt = walletID // the wallet holding every owner key
			}
			switch selector {
			case "uxouts-all":
				wp.UxOuts = shuffledIDs(rng, g.ids)
				requested = pl.uxOf(wp.UxOuts)
			case "uxouts-subset":
				ids := shuffledIDs(rng, g.ids)
				k := 1 + rng.Intn(len(ids))
				if k == len(ids) && k > 1 {
					k--
				}
				wp.UxOuts = ids[:k:k]
				requested = pl.uxOf(wp.UxOuts)
			case "addrs":
				seen := map[cipher.Address]bool{}
				for _, o := range g.outs {
					if !seen[o.Addr] {
						seen[o.Addr] = true
						wp.Addresses = append(wp.Addresses, o.Addr)
					}
				}
				rng.Shuffle(len(wp.Addresses), func(i, j int) { wp.Addresses[i], wp.Addresses[j] = wp.Addresses[j], wp.Addresses[i] })
				if len(wp.Addresses) > 1 && rng.Intn(2) == 0 {
					k := 1 + rng.Intn(len(wp.Addresses)-1)
					wp.Addresses = wp.Addresses[:k:k]
				}
				as := map[cipher.Address]bool{}
				for _, a := range wp.Addresses {
					as[a] = true
				}
				requested = pl.sh.of(as)
			case "wallet":
				via = poolViasWallet[(g.idx+oi)%len(poolViasWallet)]
				wlt = slotWallet(slot)
				requested = pl.sh.of(slotAddrs)
			}
			pl.poolRequest(rng, via, wlt, selector, wp, requested)
		}
	}
}

func poolLeg(nl *nleg, nRounds int) {
	pl := &pleg{nleg: nl, spent: map[cipher.SHA256]int{}}
	l := nl.l
	// one wallet per slot of owner keys: "the whole wallet" is then exactly one group's outputs
	for s := 0; s < scenPerRnd; s++ {
		secs := []cipher.SecKey{}
		for _, k := range nl.owners[s*perScen : (s+1)*perScen] {
			secs = append(secs, k.Sec)
		}
		if _, err := nl.n.Wallets.CreateWallet(slotWallet(s), wallet.Options{Type: wallet.WalletTypeCollection, Label: "c12 pool", CollectionPrivateKeys: secs}); err != nil {
			nl.harnessFail("create wallet: %v", err)
		}
	}
	deltas := []uint64{1, 59, 3600, 86400, 30 * 86400}
	for round := 0; round < nRounds; round++ {
		rrng := nl.r.Rand("pool-round", round)
		var gs []*scen
		for s := 0; s < scenPerRnd; s++ {
			idx := round*scenPerRnd + s
			gs = append(gs, planPoolGroup(nl.r.Rand("pool-plan", idx), idx, nl.owners[s*perScen:(s+1)*perScen]))
		}
		nl.sweep()
		nl.setup(gs)
		nl.block(nl.sh.headTime + 1 + uint64(rrng.Intn(100)))
		nl.resolveIDs(gs)
		if rrng.Intn(2) == 0 {
			// aged outputs
			nl.tick()
			nl.block(nl.sh.headTime + deltas[rrng.Intn(len(deltas))])
		}
		func() {
			defer timed("pool-fill")()
			for _, g := range gs {
				pl.fillPool(nl.r.Rand("pool-fill", g.idx), g)
				l.count("node.pool.groups")
			}
		}()
		for s, g := range gs {
			pl.groupRequests(g, s)
		}
		// the wallet holding every owner key: all groups of the round at once
		for oi, ignore := range []bool{false, true} {
			rng := nl.r.Rand("pool-request-main", round, oi)
			via := poolViasWallet[(round+2*oi)%len(poolViasWallet)]
			pl.poolRequest(rng, via, walletID, "wallet-all-groups", visor.CreateTransactionParams{IgnoreUnconfirmed: ignore}, nl.sh.of(nl.ownerSet))
		}
		pl.clearPool(nl.sh.headTime + 1 + uint64(rrng.Intn(1000)))
		l.count("node.pool.rounds")
	}
}
