// c12: spend construction is sound, complete and well formed.
//
// Monitor. Two legs:
//   - pure: transaction.Create on random offered output sets / requests (see gen.go);
//   - node: Visor.CreateTransaction, Visor.WalletCreateTransaction[Signed] and POST
//     /api/v2/transaction on a real in-process node (lib/node) whose chain really holds the
//     offered outputs; every returned transaction is completed with the owners' keys and
//     injected with InjectUserTransaction, which must admit it;
//   - node.pool (poolleg.go): the same entry points with both unconfirmed options while the pool
//     already spends some of the requested outputs (including double spends inside the pool).
//
// Oracle (oracle.go): math/big restatement of the property and of the documentation.
package main

import (
	"encoding/json"
	"fmt"
	"math/rand"
	"os"
	"sort"
	"strconv"
	"strings"
	"sync"

	"github.com/shopspring/decimal"

	"github.com/skycoin/skycoin/src/cipher"
	"github.com/skycoin/skycoin/src/coin"
	"github.com/skycoin/skycoin/src/params"
	"github.com/skycoin/skycoin/src/transaction"
	"github.com/skycoin/skycoin/src/util/fee"

	"verif/lib/fix"
	"verif/lib/vf"
)

func burnFactor() uint64 { return uint64(params.UserVerifyTxn.BurnFactor) }

// ---------------------------------------------------------------------------------
// counters collected per worker, merged at the end

type local struct {
	counts   map[string]int64
	distinct map[string]struct{}
	evals    int64
}

func newLocal() *local { return &local{counts: map[string]int64{}, distinct: map[string]struct{}{}} }

func (l *local) count(k string) { l.counts[k]++ }

var mergeMu sync.Mutex

func (l *local) merge(r *vf.Run) {
	mergeMu.Lock()
	defer mergeMu.Unlock()
	for k, v := range l.counts {
		r.Count(k, v)
	}
	for k := range l.distinct {
		r.Distinct(k)
	}
	r.Eval(l.evals)
}

// ---------------------------------------------------------------------------------
// request -> the code's parameters

func (q *request) params() transaction.Params {
	p := transaction.Params{To: append([]coin.TransactionOutput(nil), q.to...), ChangeAddress: q.change}
	p.HoursSelection.Type = q.typ
	p.HoursSelection.Mode = q.mode
	if !q.manual && q.share != "" {
		d, err := decimal.NewFromString(q.share)
		if err != nil {
			panic(err)
		}
		p.HoursSelection.ShareFactor = &d
	}
	return p
}

func (q *request) auxs() coin.AddressUxOuts {
	m := coin.AddressUxOuts{}
	for _, o := range q.off {
		m[o.ux.Body.Address] = append(m[o.ux.Body.Address], o.ux)
	}
	return m
}

// witness is what goes into a replay file
func (q *request) witness(leg string, idx int, t *coin.Transaction, errStr string) map[string]interface{} {
	offs := []map[string]interface{}{}
	for _, o := range q.off {
		offs = append(offs, map[string]interface{}{
			"id": o.id.Hex(), "address": o.ux.Body.Address.String(), "coins": o.ux.Body.Coins, "hours": o.ux.Body.Hours,
			"time": o.ux.Head.Time, "bkseq": o.ux.Head.BkSeq, "src": o.ux.Body.SrcTransaction.Hex(), "accrued": o.hours.String(),
		})
	}
	tos := []map[string]interface{}{}
	for _, o := range q.to {
		tos = append(tos, map[string]interface{}{"address": o.Address.String(), "coins": o.Coins, "hours": o.Hours})
	}
	w := map[string]interface{}{
		"leg": leg, "index": idx, "head_time": q.headTime, "offered": offs, "to": tos,
		"type": q.typ, "mode": q.mode, "share_factor": q.share, "recipe": q.recipe, "valid": q.valid, "invalid": q.invalid,
	}
	if q.change != nil {
		w["change_address"] = q.change.String()
	}
	if errStr != "" {
		w["error"] = errStr
	}
	for k, v := range q.note {
		w[k] = v
	}
	if t != nil {
		ins := []string{}
		for _, in := range t.In {
			ins = append(ins, in.Hex())
		}
		outs := []map[string]interface{}{}
		for _, o := range t.Out {
			outs = append(outs, map[string]interface{}{"address": o.Address.String(), "coins": o.Coins, "hours": o.Hours})
		}
		w["result"] = map[string]interface{}{"in": ins, "out": outs, "sigs": len(t.Sigs)}
	}
	return w
}

// classifyErr names the failure and says whether the error value is user-level at the
// transaction package's level: transaction.Error, or one of the two fee sentinels the API
// documents as bad requests
func classifyErr(err error) (class string, user bool) {
	switch err {
	case transaction.ErrInsufficientBalance:
		return failBalance, true
	case transaction.ErrInsufficientHours, fee.ErrTxnInsufficientCoinHours:
		return failHours, true
	case fee.ErrTxnNoFee:
		return failNoFee, true
	case transaction.ErrNoUnspents:
		return failNoUx, true
	case transaction.ErrZeroSpend:
		return failZero, true
	}
	if _, ok := err.(transaction.Error); ok {
		return failOther, true
	}
	return failNonUser, false
}

func modeKey(q *request) string {
	if q.manual {
		return "manual"
	}
	return "auto:" + q.share
}

// report turns oracle problems into violations
func report(r *vf.Run, leg, via string, idx int, q *request, ps []problem, ob observed, t *coin.Transaction, errStr string) {
	for _, p := range ps {
		attrs := map[string]string{
			"leg": leg, "via": via, "detail": p.detail, "recipe": q.recipe, "mode": modeKey(q),
			"change_eq_dest": fmt.Sprint(ob.changeEqDest),
		}
		if errStr != "" {
			attrs["error"] = errStr
		}
		viol(r, p.kind, attrs, q.witness(leg, idx, t, errStr))
	}
}

// viol reports a violation and counts it by kind and by whether it is the change == destination case
func viol(r *vf.Run, kind string, attrs map[string]string, witness interface{}) {
	tag := ""
	if attrs["change_eq_dest"] == "true" || attrs["cause"] == "duplicate-output" {
		tag = ":change-equals-destination"
	}
	r.Count("violations."+kind+tag, 1)
	r.Violation(kind, attrs, witness)
}

// noteSuccess records the evidence counters of a successful construction
func noteSuccess(l *local, leg string, q *request, ob observed) {
	l.count(leg + ".success")
	l.count(leg + ".success.mode:" + modeKey(q))
	if ob.haveChange {
		l.count(leg + ".success.with-change")
		if q.change != nil {
			l.count(leg + ".success.change-explicit")
		} else {
			l.count(leg + ".success.change-automatic")
		}
	} else {
		l.count(leg + ".success.no-change")
	}
	if ob.forcedExtra {
		l.count(leg + ".success.forced-extra-input")
	}
	if ob.shareFallback {
		l.count(leg + ".success.share-fallback-to-1")
	}
	if ob.changeEqDest {
		l.count(leg + ".success.change-equals-destination")
	}
	if ob.destIsChange {
		l.count(leg + ".success.destination-is-change-address")
	}
	if ob.allSpent {
		l.count(leg + ".success.all-offered-spent")
	}
	if ob.burntExtra {
		l.count(leg + ".success.burnt-more-than-required")
	}
	if ob.zeroHourInputs > 0 {
		l.count(leg + ".success.spends-zero-hour-output")
	}
	eq := false
	for i := range q.to {
		for j := 0; j < i; j++ {
			if q.to[i].Coins == q.to[j].Coins {
				eq = true
			}
		}
	}
	if eq {
		l.count(leg + ".success.equal-amount-destinations")
	}
	l.distinct[fmt.Sprintf("%s|ok|%s|%s|in%d|out%d|to%d|c%v|x%v|f%v|d%v|a%v", leg, q.recipe, modeKey(q), bucket(ob.nIn), ob.nOut, len(q.to), ob.haveChange, ob.forcedExtra, ob.shareFallback, ob.destIsChange, ob.allSpent)] = struct{}{}
}

func bucket(n int) int {
	switch {
	case n <= 3:
		return n
	case n <= 8:
		return 8
	case n <= 16:
		return 16
	default:
		return 40
	}
}

// predictsChangeEqDest: with exactly one offered output the spent set is known without
// running anything, so the oracle can tell from the request alone that the change output
// would be identical to a destination
func predictsChangeEqDest(q *request) bool {
	if len(q.off) != 1 || !q.valid {
		return false
	}
	o := q.off[0]
	burn := burnFactor()
	if o.hours.Sign() == 0 {
		return false
	}
	cc := new(bigInt).Sub(bigU(o.ux.Body.Coins), q.reqCoins())
	if cc.Sign() <= 0 {
		return false
	}
	rem := remOf(o.hours, burn)
	var ch *bigInt
	if q.manual {
		ch = new(bigInt).Sub(rem, q.reqHours())
	} else {
		a := allotted(q.share, rem)
		if a == nil {
			return false
		}
		if len(q.to) != 1 {
			return false // the split among several destinations is not part of the statement
		}
		ch = new(bigInt).Sub(rem, a)
		// the single destination gets the whole allotted amount
		ca := o.ux.Body.Address
		if q.change != nil {
			ca = *q.change
		}
		return q.to[0].Address == ca && bigU(q.to[0].Coins).Cmp(cc) == 0 && a.Cmp(ch) == 0
	}
	if ch.Sign() < 0 {
		return false
	}
	ca := o.ux.Body.Address
	if q.change != nil {
		ca = *q.change
	}
	for _, d := range q.to {
		if d.Address == ca && bigU(d.Coins).Cmp(cc) == 0 && bigU(d.Hours).Cmp(ch) == 0 {
			return true
		}
	}
	return false
}

// ---------------------------------------------------------------------------------
// pure leg

func pureCase(r *vf.Run, l *local, idx int) {
	rng := r.Rand("pure", idx)
	headTime, uxs, _ := genOfferedPure(rng)
	q := newRequest(headTime, uxs)
	extra := make([]cipher.Address, 8)
	for i := range extra {
		extra[i] = randAddr(rng)
	}
	genRequest(rng, q, genParams{unit: 1, extra: extra, changeSet: extra})
	if rng.Intn(100) < 5 {
		invalidate(rng, q)
	}
	runPure(r, l, "pure", idx, q)
}

func runPure(r *vf.Run, l *local, leg string, idx int, q *request) {
	runPureWith(r, l, leg, idx, q, q.params(), q.auxs())
}

// runPureWith calls transaction.Create with the caller's objects p / auxs (which a session shares
// between requests) and judges the answer by q, the oracle's private statement of the request
func runPureWith(r *vf.Run, l *local, leg string, idx int, q *request, p transaction.Params, auxs coin.AddressUxOuts) (ob observed, ok bool) {
	l.evals++
	l.count(leg + ".requests")
	if !q.valid {
		l.count(leg + ".requests.invalid:" + q.invalid)
	} else {
		l.count(leg + ".requests.mode:" + modeKey(q))
		l.count(leg + ".requests.recipe:" + q.recipe)
	}
	predicted := predictsChangeEqDest(q)
	if predicted {
		l.count(leg + ".requests.change-would-equal-destination")
	}
	before := snapshotCall(p, auxs, nil)
	var txn *coin.Transaction
	var err error
	panicked, msg, frame := vf.Recover(func() {
		txn, _, err = transaction.Create(p, auxs, q.headTime)
	})
	outcome := "success"
	if panicked {
		outcome = "panic"
	} else if err != nil {
		outcome = "error"
	}
	checkUnchanged(r, l, leg, "transaction.Create", idx, q, before, p, auxs, nil, outcome)
	if panicked {
		viol(r, "panic", map[string]string{"leg": leg, "via": "transaction.Create", "frame": frame, "msg": msg, "recipe": q.recipe}, q.witness(leg, idx, nil, msg))
		return
	}
	if err != nil {
		class, user := classifyErr(err)
		l.count(leg + ".fail." + class)
		l.distinct[fmt.Sprintf("%s|fail|%s|%s|%s|%v", leg, class, q.recipe, modeKey(q), q.valid)] = struct{}{}
		if !user {
			viol(r, "non-user-level-error", map[string]string{"leg": leg, "via": "transaction.Create", "error": err.Error(), "recipe": q.recipe, "mode": modeKey(q), "change_eq_dest": fmt.Sprint(predicted)}, q.witness(leg, idx, nil, err.Error()))
		}
		if q.valid {
			report(r, leg, "transaction.Create", idx, q, checkFailure(q, class, burnFactor()), observed{}, nil, err.Error())
			if predicted {
				l.count(leg + ".fail.change-would-equal-destination")
			}
		}
		return
	}
	if txn == nil {
		viol(r, "nil-result", map[string]string{"leg": leg, "via": "transaction.Create"}, q.witness(leg, idx, nil, ""))
		return
	}
	if !q.valid {
		// a documented-invalid request: the statement says nothing; only well-formedness of whatever comes back
		l.count(leg + ".invalid-request-accepted")
		return
	}
	ps, ob := checkSuccess(q, txn, false, burnFactor())
	noteSuccess(l, leg, q, ob)
	report(r, leg, "transaction.Create", idx, q, ps, ob, txn, "")
	return ob, true
}

// directed cases: small hand-written requests, among them the minimal change == destination one
func directedCases() []*request {
	mk := func(coins, hours []uint64, sameOwner bool) (*request, []cipher.Address) {
		owners := []cipher.Address{}
		uxs := []coin.UxOut{}
		for i := range coins {
			var a cipher.Address
			a.Key[0] = byte(10 + i)
			if sameOwner {
				a.Key[0] = 10
			}
			owners = append(owners, a)
			var src cipher.SHA256
			src[0] = byte(1 + i)
			uxs = append(uxs, coin.UxOut{Head: coin.UxHead{Time: 1600000000, BkSeq: 5}, Body: coin.UxBody{SrcTransaction: src, Address: a, Coins: coins[i], Hours: hours[i]}})
		}
		return newRequest(1600000000, uxs), owners
	}
	var dest cipher.Address
	dest.Key[0] = 200
	var out []*request

	// D5 minimal, manual: one output of 2 coins / 20 hours; pay 1 coin / 9 hours to the owner itself
	q, ow := mk([]uint64{2000000}, []uint64{20}, true)
	q.manual, q.typ, q.recipe = true, "manual", "directed-mirror-manual"
	q.to = []coin.TransactionOutput{{Address: ow[0], Coins: 1000000, Hours: 9}}
	out = append(out, q)

	// D5 minimal, auto share 0.5
	q, ow = mk([]uint64{2000000}, []uint64{20}, true)
	q.typ, q.mode, q.share, q.recipe = "auto", "share", "0.5", "directed-mirror-auto"
	q.to = []coin.TransactionOutput{{Address: ow[0], Coins: 1000000}}
	out = append(out, q)

	// exact cover, second output available: the extra input is forced
	q, _ = mk([]uint64{5000000, 1000000}, []uint64{100, 2}, false)
	q.typ, q.mode, q.share, q.recipe = "auto", "share", "0.5", "directed-forced-extra"
	q.to = []coin.TransactionOutput{{Address: dest, Coins: 5000000}}
	out = append(out, q)

	// exact cover, nothing else: fall back to share 1.0
	q, _ = mk([]uint64{5000000}, []uint64{100}, false)
	q.typ, q.mode, q.share, q.recipe = "auto", "share", "0.5", "directed-share-fallback"
	q.to = []coin.TransactionOutput{{Address: dest, Coins: 5000000}}
	out = append(out, q)

	// balance suffices exactly
	q, _ = mk([]uint64{3, 4}, []uint64{10, 0}, false)
	q.manual, q.typ, q.recipe = true, "manual", "directed-exact-balance"
	q.to = []coin.TransactionOutput{{Address: dest, Coins: 7, Hours: 9}}
	out = append(out, q)

	// one droplet short
	q, _ = mk([]uint64{3, 4}, []uint64{10, 0}, false)
	q.manual, q.typ, q.recipe = true, "manual", "directed-one-short"
	q.to = []coin.TransactionOutput{{Address: dest, Coins: 8, Hours: 0}}
	out = append(out, q)

	// one hour too many
	q, _ = mk([]uint64{3, 4}, []uint64{10, 0}, false)
	q.manual, q.typ, q.recipe = true, "manual", "directed-one-hour-short"
	q.to = []coin.TransactionOutput{{Address: dest, Coins: 1, Hours: 10}}
	out = append(out, q)
	return out
}

// ---------------------------------------------------------------------------------

func main() {
	fix.Quiet()
	r := vf.Start("C12", "exploration")

	// pure leg
	nPure := envInt("C12_PURE", r.Pick(20000, 1000000)) // the env overrides are for development only
	const chunk = 500
	nChunks := (nPure + chunk - 1) / chunk
	vf.Parallel(nChunks, 16, func(c int) {
		l := newLocal()
		for i := c * chunk; i < (c+1)*chunk && i < nPure; i++ {
			pureCase(r, l, i)
		}
		l.merge(r)
	})
	{
		l := newLocal()
		for i, q := range directedCases() {
			runPure(r, l, "directed", i, q)
		}
		l.merge(r)
	}

	// sessions: several requests by one caller who reuses its objects
	nSess := envInt("C12_SESSIONS", r.Pick(4000, 100000))
	const schunk = 100
	vf.Parallel((nSess+schunk-1)/schunk, 16, func(c int) {
		l := newLocal()
		for i := c * schunk; i < (c+1)*schunk && i < nSess; i++ {
			sessionCase(r, l, i)
		}
		l.merge(r)
	})

	// node leg
	nNode := envInt("C12_NODE", r.Pick(304, 4000))
	nPool := envInt("C12_POOL", r.Pick(6, 40)) // rounds of 8 groups with a filled unconfirmed pool
	if nNode > 0 {
		nodeLeg(r, nNode, nPool)
	}

	// samples: the directed cases as the code answered them
	for i, q := range directedCases() {
		if i >= 4 {
			break
		}
		var txn *coin.Transaction
		var err error
		vf.Recover(func() { txn, _, err = transaction.Create(q.params(), q.auxs(), q.headTime) })
		es := ""
		if err != nil {
			es = err.Error()
		}
		r.Sample(q.witness("directed", i, txn, es))
	}

	floors(r)
	r.Finish("pure: random offered sets (0-40 outputs, 1-6 owners, boundary-biased coins/hours/ages inside the documented range) x requests by recipe "+
		"(random, exact-all, exact-top, one-short, one-left, mirror, ...) x manual / auto-share {0,0.000001,1/3,0.5,1,...} x explicit / automatic change; "+
		"node: the same requests against outputs that really exist on a publisher node's chain, through Visor.CreateTransaction, the wallet variants and POST /api/v2/transaction, "+
		"then signed and injected; node.pool: rounds of 8 groups of 2-9 confirmed outputs whose unconfirmed pool is first filled by the harness with 0-5 transactions per group spending one / several / all of the group's outputs, "+
		"most of them conflicting with an earlier pooled transaction (double spends, injected through InjectForeignTransaction), the pool order being that of the transaction hashes; against every such pool both unconfirmed options "+
		"(IgnoreUnconfirmed false / true) x (explicit output list: all of the group / sub-lists, address list, whole wallet, a wallet spanning all groups) through Visor.CreateTransaction, WalletCreateTransaction[Signed], POST /api/v2/transaction and POST /api/v1/wallet/transaction; "+
		"the offered set of the oracle is the requested outputs minus (ignoring option) those the harness's own record of the pooled transactions' inputs says are spent; with the failing option a request naming a pool-spent output must be refused; "+
		"sessions: 2-4 requests by one caller on one offered set who reuses its objects (one *decimal.Decimal share factor, one change-address pointer, "+
		"one destination array of which each request is a prefix, one offered-outputs map; in the node leg a first request before the main one with the same share factor object and output/address lists), "+
		"among them 'everything with automatic hours' (the fall-back to 1.0) followed by requests with change; each request is judged by the values the caller set (private copies), and after every call, "+
		"whatever its outcome, every caller-visible input (Params, the pointed-to share factor and change address, To up to its capacity, offered outputs, UxOuts/Addresses) must equal its pre-call copy. A case is distinct by (leg, outcome, recipe, mode, input/output count bucket, change/extra-input/fall-back/all-spent flags).",
		"operating range: total offered coins and total accrued hours below 2^63, accrual not overflowing 64-bit intermediates, offered outputs distinct and consistent (block 0 <=> null source transaction)",
		"user-level error = transaction.Error, visor.UserError, wallet.Error, blockdb.ErrUnspentNotExist, fee.ErrTxnNoFee, fee.ErrTxnInsufficientCoinHours (the set the HTTP API maps to 400); over HTTP: status 4xx",
		"allotted amount (auto/share) = floor(share_factor x (input hours - required fee)) per README and the Create doc comment; with the documented forced extra input the allotment may be the one computed before that input was added; without a change output the destinations receive all remaining hours (documented fall-back to 1.0)",
		"default change address = lexically first address among the owners of the spent outputs (Create doc comment)",
		"unconfirmed option as documented in src/api/README.md (ignore_unconfirmed): false = an error is returned if any requested / wallet output is spent by a pooled transaction, true = such outputs are not used (and the request is refused with a user-level error if nothing else is left)",
		"node level: coins are multiples of 0.001 (documented decimal restriction), burn factor and limits are params.UserVerifyTxn",
	)
}

func floors(r *vf.Run) {
	r.Floor("pure.success", 5000)
	r.Floor("pure.success.mode:manual", 100)
	for _, f := range shareFactors[:5] {
		r.Floor("pure.success.mode:auto:"+f, 100)
	}
	r.Floor("pure.success.forced-extra-input", 100)
	r.Floor("pure.success.share-fallback-to-1", 50)
	r.Floor("pure.requests.change-would-equal-destination", 50)
	r.Floor("pure.success.destination-is-change-address", 100)
	r.Floor("pure.success.change-explicit", 100)
	r.Floor("pure.success.change-automatic", 100)
	r.Floor("pure.success.equal-amount-destinations", 100)
	r.Floor("pure.success.spends-zero-hour-output", 100)
	r.Floor("pure.fail."+failBalance, 100)
	r.Floor("pure.fail."+failHours, 100)
	r.Floor("pure.fail."+failNoFee, 20)
	r.Floor("pure.fail."+failOther, 50)
	r.Floor("session.sessions", 1000)
	r.Floor("session.success", 3000)
	r.Floor("session.success.share-fallback-to-1", 300)
	r.Floor("session.with-change-after-fallback-on-same-share-factor", 300)
	r.Floor("session.shared.share-factor-pointer-reused", 1000)
	r.Floor("session.shared.change-pointer-reused", 300)
	r.Floor("session.shared.destination-array-reused", 1000)
	r.Floor("session.requests.same-params-again", 100)
	r.Floor("session.caller-inputs-compared", 5000)
	r.Floor("pure.caller-inputs-compared", 10000)
	r.Floor("node.caller-inputs-compared", 100)
	r.Floor("node.session.first-requests", 30)
	r.Floor("node.session.with-change-after-fallback-on-same-share-factor", 5)
	r.Floor("node.success", 100)
	r.Floor("node.admitted", 100)
	r.Floor("node.success.mode:manual", 20)
	r.Floor("node.success.forced-extra-input", 5)
	r.Floor("node.success.share-fallback-to-1", 3)
	r.Floor("node.requests.change-would-equal-destination", 3)
	r.Floor("node.fail."+failBalance, 3)
	r.Floor("node.fail."+failHours, 3)
	for _, v := range nodeVias {
		r.Floor("node.via:"+v, 10)
	}
	// pool leg: requests against an unconfirmed pool that spends some of the requested outputs
	r.Floor("node.pool.requests", 400)
	r.Floor("node.pool.requests.option:fail", 150)
	r.Floor("node.pool.requests.option:ignore", 150)
	for _, s := range poolSelectors {
		r.Floor("node.pool.requests.selector:"+s, 50)
	}
	r.Floor("node.pool.requests.selector:wallet-all-groups", 6)
	for _, v := range poolViasSel {
		r.Floor("node.pool.requests.via:"+v, 30)
	}
	r.Floor("node.pool.txns", 60)
	r.Floor("node.pool.txns.conflicting-with-earlier-pool-txn", 25)
	r.Floor("node.pool.txns.path:foreign", 25)
	r.Floor("node.pool.txns.spends:one", 10)
	r.Floor("node.pool.txns.spends:several", 5)
	r.Floor("node.pool.txns.spends:all", 2)
	r.Floor("node.pool.requests.spent-in-pool:none", 10)
	r.Floor("node.pool.requests.spent-in-pool:some", 80)
	r.Floor("node.pool.requests.spent-in-pool:all", 30)
	r.Floor("node.pool.requests.requested-output-spent-by-several-pool-txns", 80)
	r.Floor("node.pool.requests.pool-order:double-spend-then-first-spend-of-another-output", 30)
	r.Floor("node.pool.refused.fail-option-requested-output-spent-in-pool", 60)
	r.Floor("node.pool.refused.ignore-option-nothing-left", 20)
	r.Floor("node.pool.success.ignore-option-some-requested-outputs-spent-in-pool", 30)
	r.Floor("node.pool.success.pool-does-not-touch-request", 10)
	r.Floor("node.pool.caller-inputs-compared", 400)
}

// helpers shared with the node leg

func sortedKeys(m map[string]int) []string {
	ks := make([]string, 0, len(m))
	for k := range m {
		ks = append(ks, k)
	}
	sort.Strings(ks)
	return ks
}

func jsonString(v interface{}) string {
	b, _ := json.Marshal(v)
	return string(b)
}

func envInt(name string, def int) int {
	if v := os.Getenv(name); v != "" {
		if n, err := strconv.Atoi(v); err == nil {
			return n
		}
	}
	return def
}

func fatal(format string, a ...interface{}) {
	fmt.Fprintf(os.Stderr, "c12: "+format+"\n", a...)
	os.Exit(3)
}

var _ = strings.Join
var _ = rand.Int
