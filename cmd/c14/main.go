// C14 — the secp256k1 implementation agrees with the curve mathematics.
//
// Differential monitor: every public entry point of cipher's key / signature / ECDH code is
// driven with boundary, malformed and random inputs and its answer (value, accept/reject,
// error-vs-panic) is compared with lib/refsecp, a textbook big.Int implementation that shares no
// code with the implementation under test. The deterministic key chain is re-derived from its
// documented construction.
package main

import (
	"bytes"
	"crypto/sha256"
	"encoding/hex"
	"fmt"
	"io/ioutil"
	"log"
	"math/big"
	"math/rand"
	"os"
	"runtime"
	"strings"
	"sync"
	"time"

	"github.com/skycoin/skycoin/src/cipher"
	secp256k1 "github.com/skycoin/skycoin/src/cipher/secp256k1-go"

	"verif/lib/refbip"
	"verif/lib/refsecp"
	"verif/lib/vf"
)

var (
	r      *vf.Run
	one    = big.NewInt(1)
	two256 = new(big.Int).Lsh(one, 256)
	two255 = new(big.Int).Lsh(one, 255)
	// lambda: the public cube root of unity mod n used by endomorphism implementations
	lambda, _ = new(big.Int).SetString("5363ad4cc05c30e0a5261c028812645a122e22ea20816678df02967c1b23bd72", 16)
)

func bi(x int64) *big.Int        { return big.NewInt(x) }
func add(a, b *big.Int) *big.Int { return new(big.Int).Add(a, b) }
func sub(a, b *big.Int) *big.Int { return new(big.Int).Sub(a, b) }
func pow2(k uint) *big.Int       { return new(big.Int).Lsh(one, k) }
func b32(x *big.Int) []byte      { return refsecp.To32(x) }
func hx(b []byte) string         { return hex.EncodeToString(b) }
func sha(b []byte) []byte        { h := sha256.Sum256(b); return h[:] }
func randBytes(g *rand.Rand, n int) []byte {
	b := make([]byte, n)
	g.Read(b)
	return b
}

// refAddress is the skycoin address rule written out: version 0, RIPEMD160(SHA256(SHA256(pub)))
func refAddress(pub []byte) cipher.Address {
	h := refbip.Ripemd160(sha(sha(pub)))
	a := cipher.Address{Version: 0}
	copy(a.Key[:], h[:])
	return a
}

// capped limits the reports per (kind, function, class) to three; repeats are only counted, so
// that the first lines of output show every distinct class of violation
var (
	capMu   sync.Mutex
	capSeen = map[string]int{}
)

func capped(kind, fn, class string) bool {
	key := kind + "/" + fn + "/" + class
	capMu.Lock()
	capSeen[key]++
	n := capSeen[key]
	capMu.Unlock()
	if n > 3 {
		r.Count("violation.repeats:"+key, 1)
		return true
	}
	return false
}

// guard runs f; a panic is reported as a violation (the property demands an error) and false is returned
func guard(fn, class string, input string, f func()) bool {
	p, msg, frame := vf.Recover(f)
	if !p {
		return true
	}
	if capped("panic", fn, class) {
		return false
	}
	r.Count("panic."+fn+"."+class, 1)
	if len(msg) > 120 {
		msg = msg[:120]
	}
	r.Violation("panic", map[string]string{"func": fn, "class": class, "frame": frame, "msg": msg},
		map[string]string{"func": fn, "class": class, "input": input, "panic": msg, "frame": frame})
	return false
}

func mismatch(kind, fn, class, input, detail string) {
	if os.Getenv("VERIF_DEBUG") == "all" {
		fmt.Fprintf(os.Stderr, "mismatch %s %s %s %s\n", kind, fn, class, input)
	}
	if capped(kind, fn, class) {
		return
	}
	r.Violation(kind, map[string]string{"func": fn, "class": class},
		map[string]string{"func": fn, "class": class, "input": input, "detail": detail})
}

// ------------------------------------------------------------------------------------------
// secret-key leg

type namedScalar struct {
	name  string // counter key
	group string // floor group
	v     *big.Int
}

func scalarCases() []namedScalar {
	n := refsecp.N
	var out []namedScalar
	ad := func(group, name string, v *big.Int) { out = append(out, namedScalar{name, group, v}) }
	ad("edge", "1", bi(1))
	ad("edge", "2", bi(2))
	ad("edge", "3", bi(3))
	ad("edge", "n-1", sub(n, bi(1)))
	ad("edge", "n-2", sub(n, bi(2)))
	ad("edge", "n-3", sub(n, bi(3)))
	ad("edge", "floor(n/2)", refsecp.HalfN)
	ad("edge", "floor(n/2)+1", add(refsecp.HalfN, bi(1)))
	ad("edge", "floor(n/2)-1", sub(refsecp.HalfN, bi(1)))
	ad("edge", "lambda", lambda)
	ad("edge", "n-lambda", sub(n, lambda))
	ad("edge", "lambda+1", add(lambda, bi(1)))
	ad("edge", "p-n", sub(refsecp.P, n))
	for k := uint(0); k < 256; k++ {
		ad("2^k", fmt.Sprintf("2^%d", k), pow2(k))
	}
	for k := uint(2); k < 256; k++ {
		ad("2^k-1", fmt.Sprintf("2^%d-1", k), sub(pow2(k), bi(1)))
	}
	for k := uint(2); k < 256; k += 3 {
		ad("2^k+1", fmt.Sprintf("2^%d+1", k), add(pow2(k), bi(1)))
	}
	// out of range
	ad("invalid", "0", bi(0))
	ad("invalid", "n", n)
	ad("invalid", "n+1", add(n, bi(1)))
	ad("invalid", "n+2", add(n, bi(2)))
	ad("invalid", "p-1", sub(refsecp.P, bi(1)))
	ad("invalid", "p", refsecp.P)
	ad("invalid", "2^256-2", sub(two256, bi(2)))
	ad("invalid", "2^256-1", sub(two256, bi(1)))
	return out
}

// randomScalar draws scalars of several shapes: uniform, sparse, dense, byte runs, >= n
func randomScalar(g *rand.Rand) (string, *big.Int) {
	switch g.Intn(8) {
	case 0: // sparse
		v := new(big.Int)
		for i, k := 0, 1+g.Intn(4); i < k; i++ {
			v.SetBit(v, g.Intn(256), 1)
		}
		return "sparse", v
	case 1: // dense
		v := sub(two256, bi(1))
		for i, k := 0, 1+g.Intn(140); i < k; i++ {
			v.SetBit(v, g.Intn(256), 0)
		}
		return "dense", v
	case 2: // byte runs
		b := make([]byte, 32)
		fill := []byte{0x00, 0xff, 0x55, 0xaa, 0x80, 0x01}
		for i := 0; i < 32; {
			run := 1 + g.Intn(12)
			f := fill[g.Intn(len(fill))]
			for j := 0; j < run && i < 32; j, i = j+1, i+1 {
				b[i] = f
			}
		}
		return "runs", new(big.Int).SetBytes(b)
	case 3: // at or above n
		span := sub(two256, refsecp.N)
		v := new(big.Int).Rand(g, span)
		return "rand>=n", v.Add(v, refsecp.N)
	case 4: // short
		return "short", new(big.Int).SetBytes(randBytes(g, 1+g.Intn(16)))
	default:
		return "uniform", new(big.Int).SetBytes(randBytes(g, 32))
	}
}

func checkSecKey(class, group string, v *big.Int, otherPub cipher.PubKey) {
	raw := b32(v)
	var sk cipher.SecKey
	copy(sk[:], raw)
	in := hx(raw)
	want, refErr := refsecp.PubKey(raw)
	r.Eval(1)
	r.DistinctBytes(append([]byte("sk"), raw...))

	var pk cipher.PubKey
	var err error
	if !guard("PubKeyFromSecKey", "scalar:"+group, in, func() { pk, err = cipher.PubKeyFromSecKey(sk) }) {
		return
	}
	if refErr != nil {
		if err == nil {
			mismatch("accepted-invalid", "PubKeyFromSecKey", "scalar:"+class, in, "out-of-range scalar produced "+pk.Hex())
		} else {
			r.Count("seckey.invalid.rejected", 1)
			r.Count("seckey.invalid.rejected:"+class, 1)
		}
		// every other entry point must refuse it as well, with an error
		var e2 error
		if guard("NewSecKey", "scalar:"+group, in, func() { _, e2 = cipher.NewSecKey(raw) }) && e2 == nil {
			mismatch("accepted-invalid", "NewSecKey", "scalar:"+class, in, "")
		}
		if guard("SecKeyFromHex", "scalar:"+group, in, func() { _, e2 = cipher.SecKeyFromHex(in) }) && e2 == nil {
			mismatch("accepted-invalid", "SecKeyFromHex", "scalar:"+class, in, "")
		}
		if guard("SignHash", "scalar:"+group, in, func() { _, e2 = cipher.SignHash(cipher.SHA256{1}, sk) }) && e2 == nil {
			mismatch("accepted-invalid", "SignHash", "scalar:"+class, in, "")
		}
		if guard("ECDH", "scalar:"+group, in, func() { _, e2 = cipher.ECDH(otherPub, sk) }) && e2 == nil {
			mismatch("accepted-invalid", "ECDH", "scalar:"+class, in, "")
		}
		if guard("AddressFromSecKey", "scalar:"+group, in, func() { _, e2 = cipher.AddressFromSecKey(sk) }) && e2 == nil {
			mismatch("accepted-invalid", "AddressFromSecKey", "scalar:"+class, in, "")
		}
		// the package underneath is public API too: its shared-secret and validity entry points
		// refuse the scalar themselves (nil / not-valid answers), whatever their callers in cipher
		// check beforehand (PubkeyFromSeckey documents that the caller validates: not called)
		if len(raw) == 32 {
			var out []byte
			var ok int
			if guard("secp256k1.ECDH", "scalar:"+group, in, func() { out = secp256k1.ECDH(otherPub[:], raw) }) && out != nil {
				mismatch("accepted-invalid", "secp256k1.ECDH", "scalar:"+class, in, "returned "+hx(out))
			}
			if guard("secp256k1.VerifySeckey", "scalar:"+group, in, func() { ok = secp256k1.VerifySeckey(raw) }) && ok == 1 {
				mismatch("accepted-invalid", "secp256k1.VerifySeckey", "scalar:"+class, in, "")
			}
			r.Count("seckey.invalid.lower-level-entry-points", 1)
		}
		return
	}
	if err != nil {
		mismatch("rejected-valid", "PubKeyFromSecKey", "scalar:"+class, in, err.Error())
		return
	}
	if !bytes.Equal(pk[:], want) {
		mismatch("value-mismatch", "PubKeyFromSecKey", "scalar:"+class, in, "got "+pk.Hex()+" want "+hx(want))
		return
	}
	r.Count("seckey.valid.agree", 1)
	r.Count("seckey.valid.agree:"+group, 1)
	var e2 error
	if guard("NewSecKey", "scalar:"+group, in, func() { _, e2 = cipher.NewSecKey(raw) }) && e2 != nil {
		mismatch("rejected-valid", "NewSecKey", "scalar:"+class, in, e2.Error())
	}
	var a cipher.Address
	if guard("AddressFromSecKey", "scalar:"+group, in, func() { a, e2 = cipher.AddressFromSecKey(sk) }) {
		if e2 != nil || a != refAddress(want) {
			mismatch("value-mismatch", "AddressFromSecKey", "scalar:"+class, in, fmt.Sprint(e2))
		}
	}
	r.Sample(map[string]string{"leg": "seckey", "class": class, "seckey": in, "pubkey": hx(want)})
}

func legSecKeys() {
	cases := scalarCases()
	otherRaw, _ := refsecp.PubKey(b32(bi(0x1234567)))
	var otherPub cipher.PubKey
	copy(otherPub[:], otherRaw)
	nRand := r.Pick(1500, 25000)
	vf.Parallel(len(cases)+nRand, runtime.NumCPU(), func(i int) {
		if i < len(cases) {
			c := cases[i]
			checkSecKey(c.name, c.group, c.v, otherPub)
			r.Count("scalar.boundary.hit:"+c.group, 1)
			return
		}
		g := r.Rand("seckey", i)
		cl, v := randomScalar(g)
		checkSecKey(cl, "random", v, otherPub)
		r.Count("scalar.random:"+cl, 1)
	})
	// wrong lengths are refused with an error
	for _, l := range []int{0, 1, 31, 33, 64} {
		b := bytes.Repeat([]byte{1}, l)
		var err error
		r.Eval(1)
		if guard("NewSecKey", "length", hx(b), func() { _, err = cipher.NewSecKey(b) }) {
			if err == nil {
				mismatch("accepted-invalid", "NewSecKey", "length", hx(b), "")
			} else {
				r.Count("seckey.length.rejected", 1)
			}
		}
	}
}

// ------------------------------------------------------------------------------------------
// public-key parsing leg

type pubCase struct {
	class string
	b     []byte
}

func randomCurveX(g *rand.Rand, wantOn bool) *big.Int {
	for {
		x := new(big.Int).Rand(g, refsecp.P)
		_, ok := refsecp.LiftX(x, false)
		if ok == wantOn {
			return x
		}
	}
}

// tinyYPoint returns a curve point whose y is below 2^33 (so that y + p still fits 256 bits):
// x = cuberoot(y^2 - 7), which exists for a third of all y because p = 7 mod 9
func tinyYPoint(g *rand.Rand) (x, y *big.Int) {
	for {
		y = new(big.Int).Rand(g, pow2(33))
		y.Add(y, bi(1))
		a := new(big.Int).Mul(y, y)
		a.Sub(a, bi(7)).Mod(a, refsecp.P)
		e := add(refsecp.P, bi(2))
		e.Div(e, bi(9))
		x = new(big.Int).Exp(a, e, refsecp.P)
		x3 := new(big.Int).Exp(x, bi(3), refsecp.P)
		if x3.Cmp(a) == 0 && refsecp.OnCurve(x, y) {
			return x, y
		}
	}
}

func ser(prefix byte, x *big.Int) []byte {
	return append([]byte{prefix}, b32(x)...)
}

func genPubCase(g *rand.Rand, i int) pubCase {
	pfx := byte(2 + g.Intn(2))
	switch i % 11 {
	case 0, 1:
		return pubCase{"valid", ser(pfx, randomCurveX(g, true))}
	case 2, 3:
		return pubCase{"off-curve", ser(pfx, randomCurveX(g, false))}
	case 4:
		// x >= p with (x mod p) on the curve: only 2^32+977 such encodings of x exist
		for {
			t := new(big.Int).Rand(g, sub(two256, refsecp.P))
			if _, ok := refsecp.LiftX(t, false); ok {
				return pubCase{"x>=p(x-p on curve)", ser(pfx, add(refsecp.P, t))}
			}
		}
	case 5:
		for {
			t := new(big.Int).Rand(g, sub(two256, refsecp.P))
			if _, ok := refsecp.LiftX(t, false); !ok {
				return pubCase{"x>=p(x-p off curve)", ser(pfx, add(refsecp.P, t))}
			}
		}
	case 6:
		bad := []byte{0x00, 0x01, 0x04, 0x05, 0x06, 0x07, 0x12, 0x82, 0x83, 0xfe, 0xff}
		return pubCase{"bad-prefix", ser(bad[g.Intn(len(bad))], randomCurveX(g, true))}
	case 7:
		ls := []int{0, 1, 32, 34, 64, 65}
		l := ls[g.Intn(len(ls))]
		b := randBytes(g, l)
		if l > 0 {
			b[0] = pfx
		}
		return pubCase{"bad-length", b}
	case 8:
		// small x, either side of the curve
		return pubCase{"small-x", ser(pfx, bi(int64(g.Intn(4096))))}
	case 9:
		x, y := tinyYPoint(g)
		if g.Intn(2) == 0 {
			return pubCase{"valid(tiny y)", ser(2+byte(y.Bit(0)), x)}
		}
		return pubCase{"valid(y near p)", ser(2+byte(1-y.Bit(0)), x)}
	default:
		return pubCase{"random-bytes", randBytes(g, 33)}
	}
}

func fixedPubCases() []pubCase {
	p := refsecp.P
	out := []pubCase{
		{"all-zero", make([]byte, 33)},
		{"x=0", ser(2, bi(0))},
		{"x=0", ser(3, bi(0))},
		{"x>=p(edge)", ser(2, p)},
		{"x>=p(edge)", ser(3, p)},
		{"x>=p(edge)", ser(2, add(p, bi(1)))},
		{"x>=p(edge)", ser(3, add(p, bi(1)))},
		{"x>=p(edge)", ser(2, add(p, bi(2)))},
		{"x>=p(edge)", ser(2, add(p, bi(3)))},
		{"x>=p(edge)", ser(2, sub(two256, bi(1)))},
		{"x>=p(edge)", ser(3, sub(two256, bi(1)))},
		{"x>=p(edge)", ser(2, sub(two256, bi(2)))},
		{"x=p-1", ser(2, sub(p, bi(1)))},
		{"x=p-1", ser(3, sub(p, bi(1)))},
		{"x=p-2", ser(2, sub(p, bi(2)))},
		{"small-x", ser(2, bi(44))}, // 2*(44, y) has tiny positive Jacobian coordinates
		{"small-x", ser(3, bi(44))},
		{"generator", refsecp.Compress(refsecp.G())},
		{"generator-uncompressed-prefix", ser(4, refsecp.Gx)},
	}
	return out
}

func checkPub(c pubCase, sec cipher.SecKey) {
	in := hx(c.b)
	r.Eval(1)
	r.DistinctBytes(append([]byte("pk"), c.b...))
	r.Count("pubkey.case:"+c.class, 1)
	wantOK := false
	if len(c.b) == 33 {
		_, err := refsecp.Decompress(c.b)
		wantOK = err == nil
	}
	verdict := func(fn string, err error, got []byte) {
		if wantOK {
			if err != nil {
				mismatch("rejected-valid", fn, "pubkey:"+c.class, in, err.Error())
				return
			}
			if got != nil && !bytes.Equal(got, c.b) {
				mismatch("value-mismatch", fn, "pubkey:"+c.class, in, "returned "+hx(got))
				return
			}
			r.Count("pubkey.accepted", 1)
			r.Count("pubkey.accepted:"+c.class, 1)
		} else {
			if err == nil {
				mismatch("accepted-invalid", fn, "pubkey:"+c.class, in, "")
				return
			}
			r.Count("pubkey.rejected", 1)
			r.Count("pubkey.rejected:"+c.class, 1)
		}
	}
	var pk cipher.PubKey
	var err error
	if guard("NewPubKey", "pubkey:"+c.class, in, func() { pk, err = cipher.NewPubKey(c.b) }) {
		verdict("NewPubKey", err, pk[:])
	}
	if guard("PubKeyFromHex", "pubkey:"+c.class, in, func() { pk, err = cipher.PubKeyFromHex(in) }) {
		verdict("PubKeyFromHex", err, pk[:])
	}
	if len(c.b) == 33 {
		var raw cipher.PubKey
		copy(raw[:], c.b)
		if guard("PubKey.Verify", "pubkey:"+c.class, in, func() { err = raw.Verify() }) {
			verdict("PubKey.Verify", err, nil)
		}
		if !wantOK {
			// shared-secret derivation must refuse the key with an error as well
			if guard("ECDH", "pubkey:"+c.class, in, func() { _, err = cipher.ECDH(raw, sec) }) {
				verdict("ECDH", err, nil)
			}
		} else if strings.HasPrefix(c.class, "valid(") || c.class == "small-x" {
			// unusual but valid points: the product must be right too
			h := sha(c.b)
			h[0] &= 0x7f // below n
			for _, k := range [][]byte{sec[:], b32(bi(4)), h} {
				var got []byte
				var ks cipher.SecKey
				copy(ks[:], k)
				want, rerr := refsecp.ECDH(c.b, k)
				if rerr == nil && guard("ECDH", "pubkey:"+c.class, in+" sec="+hx(k), func() { got, err = cipher.ECDH(raw, ks) }) {
					if err != nil || !bytes.Equal(got, want) {
						mismatch("value-mismatch", "ECDH", "pubkey:"+c.class, in+" sec="+hx(k), fmt.Sprint(err))
					} else {
						r.Count("ecdh.agree:special-point", 1)
					}
				}
			}
		}
	}
}

func legPubKeys() {
	var sec cipher.SecKey
	copy(sec[:], b32(bi(0x7654321)))
	fixed := fixedPubCases()
	n := r.Pick(11000, 200000)
	vf.Parallel(len(fixed)+n, runtime.NumCPU(), func(i int) {
		if i < len(fixed) {
			checkPub(fixed[i], sec)
			return
		}
		g := r.Rand("pub", i)
		c := genPubCase(g, i)
		checkPub(c, sec)
		if i < len(fixed)+10 {
			r.Sample(map[string]string{"leg": "pubkey", "class": c.class, "bytes": hx(c.b)})
		}
	})
	// malformed hex
	for _, s := range []string{"", "0", "zz", strings.Repeat("0", 65), "02" + strings.Repeat("g", 64), " 02" + strings.Repeat("0", 64)} {
		var err error
		r.Eval(1)
		if guard("PubKeyFromHex", "pubkey:bad-hex", s, func() { _, err = cipher.PubKeyFromHex(s) }) {
			if err == nil {
				mismatch("accepted-invalid", "PubKeyFromHex", "pubkey:bad-hex", s, "")
			} else {
				r.Count("pubkey.rejected:bad-hex", 1)
			}
		}
	}
}

// ------------------------------------------------------------------------------------------
// signing leg

func hashCase(g *rand.Rand, i int) (string, []byte) {
	n := refsecp.N
	switch i % 12 {
	case 0:
		return "h=1", b32(bi(1))
	case 1:
		return "h=n", b32(n)
	case 2:
		return "h=n-1", b32(sub(n, bi(1)))
	case 3:
		return "h=n+1", b32(add(n, bi(1)))
	case 4:
		return "h=2^256-1", b32(sub(two256, bi(1)))
	case 5:
		return "h=p", b32(refsecp.P)
	default:
		return "h=random", randBytes(g, 32)
	}
}

func legSign() {
	n := r.Pick(960, 15000)
	edges := scalarCases()
	vf.Parallel(n, runtime.NumCPU(), func(i int) {
		g := r.Rand("sign", i)
		var d *big.Int
		dclass := "random"
		if i%4 == 0 {
			c := edges[g.Intn(len(edges))]
			if c.group == "invalid" {
				c = edges[0]
			}
			d, dclass = c.v, c.name
		} else {
			d = new(big.Int).Rand(g, sub(refsecp.N, bi(1)))
			d.Add(d, bi(1))
		}
		hclass, h := hashCase(g, i)
		var sk cipher.SecKey
		copy(sk[:], b32(d))
		var hh cipher.SHA256
		copy(hh[:], h)
		in := "sec=" + hx(sk[:]) + " hash=" + hx(h)
		r.Eval(1)
		r.DistinctBytes([]byte("sign" + in))
		pubRaw, _ := refsecp.PubKey(sk[:])
		Q, _ := refsecp.Decompress(pubRaw)
		for rep := 0; rep < 2; rep++ {
			var sig cipher.Sig
			var err error
			if !guard("SignHash", "sign:"+hclass, in, func() { sig, err = cipher.SignHash(hh, sk) }) {
				return
			}
			if err != nil {
				mismatch("rejected-valid", "SignHash", "sign:"+hclass, in, err.Error())
				return
			}
			s, _ := refsecp.ParseSig(sig[:])
			w := in + " sig=" + hx(sig[:])
			switch {
			case !refsecp.ValidScalar(s.R) || !refsecp.ValidScalar(s.S):
				mismatch("bad-signature", "SignHash", "sign:range", w, "r or s outside 1..n-1")
			case s.S.Cmp(refsecp.HalfN) > 0:
				mismatch("bad-signature", "SignHash", "sign:high-s", w, "s above n/2")
			case s.RecID > 3:
				mismatch("bad-signature", "SignHash", "sign:recid", w, "recovery id above 3")
			case !refsecp.Verify(h, s.R, s.S, Q):
				mismatch("bad-signature", "SignHash", "sign:verify", w, "reference verification fails")
			default:
				rec, ok := refsecp.Recover(h, s.R, s.S, s.RecID)
				if !ok || !bytes.Equal(refsecp.Compress(rec), pubRaw) {
					mismatch("bad-signature", "SignHash", "sign:recover", w, "reference recovery gives another key")
				} else {
					r.Count("sign.ok", 1)
					r.Count("sign.ok:"+hclass, 1)
					r.Count(fmt.Sprintf("sign.recid=%d", s.RecID), 1)
					if dclass != "random" {
						r.Count("sign.ok.boundary-seckey", 1)
					}
				}
			}
		}
		if i < 2 {
			r.Sample(map[string]string{"leg": "sign", "seckey": hx(sk[:]), "hash": hx(h), "hash_class": hclass})
		}
	})
	// the null digest: documented as refused; it must not panic
	var sk cipher.SecKey
	copy(sk[:], b32(bi(99)))
	var err error
	r.Eval(1)
	if guard("SignHash", "sign:null-hash", "hash=00..00", func() { _, err = cipher.SignHash(cipher.SHA256{}, sk) }) {
		if err != nil {
			r.Count("sign.null-hash.refused", 1)
		} else {
			r.Count("sign.null-hash.signed", 1)
		}
	}
}

// ------------------------------------------------------------------------------------------
// verification / recovery leg

type sigCase struct {
	h      []byte
	r, s   *big.Int
	recid  byte
	rc, sc string // classes
	source string
	knownQ []byte // signer's key for reference-made signatures
	wrongH bool

	// structured leg only
	tag        string // counter prefix ("" = none)
	note       string // how the case was constructed (goes into the witness)
	expectSet  bool   // the construction fixes what the reference recovery must give
	expectNone bool   // ... nothing (the recovered point is the point at infinity)
	expectQ    []byte // ... this key
}

func pickR(g *rand.Rand) (string, *big.Int) {
	n, p := refsecp.N, refsecp.P
	switch g.Intn(17) {
	case 16:
		x, _ := tinyYPoint(g)
		return "r=x(point with tiny y)", x
	case 0:
		return "r=0", bi(0)
	case 1:
		return "r=n", n
	case 2:
		return "r=n-1", sub(n, bi(1))
	case 3:
		return "r=n+1", add(n, bi(1))
	case 4:
		return "r=p", p
	case 5:
		return "r=2^256-1", sub(two256, bi(1))
	case 6:
		if g.Intn(4) == 0 {
			return "r=small", bi(44) // x = 44: doubling (44, y) gives tiny positive Jacobian coordinates
		}
		return "r=small", bi(int64(1 + g.Intn(4096)))
	case 7:
		return "r=p-n-1", sub(sub(p, n), bi(1))
	case 8:
		return "r=p-n", sub(p, n)
	case 9, 10:
		return "r<p-n", new(big.Int).Rand(g, sub(p, n))
	case 11:
		// r + n lands in [p, p+4096): with the recovery id's overflow bit set the lifted x
		// coordinate is not a field element (it must not be reduced mod p)
		return "r=p-n+k(x=r+n>=p)", add(sub(p, n), bi(int64(g.Intn(4096))))
	default:
		return "r=random", new(big.Int).SetBytes(randBytes(g, 32))
	}
}

func pickS(g *rand.Rand) (string, *big.Int) {
	n := refsecp.N
	switch g.Intn(16) {
	case 0:
		return "s=0", bi(0)
	case 1:
		return "s=n", n
	case 2:
		return "s=n-1", sub(n, bi(1))
	case 3:
		return "s=n+1", add(n, bi(1))
	case 4:
		return "s=p", refsecp.P
	case 5:
		return "s=2^256-1", sub(two256, bi(1))
	case 6:
		return "s=1", bi(1)
	case 7:
		return "s=floor(n/2)", refsecp.HalfN
	case 8:
		return "s=2^255", two255
	case 9, 10:
		v := new(big.Int).Rand(g, sub(n, bi(1)))
		v.Add(v, bi(1))
		if v.Cmp(refsecp.HalfN) <= 0 {
			v = sub(n, v)
		}
		return "s=random-high", v
	default:
		v := new(big.Int).Rand(g, refsecp.HalfN)
		v.Add(v, bi(1))
		return "s=random-low", v
	}
}

func pickRecid(g *rand.Rand) byte {
	if g.Intn(4) == 0 {
		bad := []byte{4, 5, 6, 7, 8, 27, 28, 31, 0x80, 0x83, 0xfe, 0xff}
		return bad[g.Intn(len(bad))]
	}
	return byte(g.Intn(4))
}

func genSigCase(g *rand.Rand, i int) sigCase {
	c := sigCase{}
	switch i % 4 {
	case 0, 1:
		// reference-made signature, then possibly perturbed
		d := new(big.Int).Rand(g, sub(refsecp.N, bi(1)))
		d.Add(d, bi(1))
		k := new(big.Int).Rand(g, sub(refsecp.N, bi(1)))
		k.Add(k, bi(1))
		c.h = randBytes(g, 32)
		sg, ok := refsecp.Sign(c.h, d, k)
		if !ok {
			return genSigCase(g, i+2)
		}
		c.r, c.s, c.recid = sg.R, sg.S, byte(sg.RecID)
		c.rc, c.sc, c.source = "r=refsig", "s=refsig", "refsig"
		c.knownQ, _ = refsecp.PubKey(b32(d))
		switch g.Intn(8) {
		case 0:
			c.s = sub(refsecp.N, c.s)
			c.recid ^= 1
			c.sc, c.source = "s=refsig-negated", "refsig-high-s"
		case 1:
			c.recid ^= 1
			c.source = "refsig-recid-parity-flipped"
		case 2:
			c.recid |= 2
			c.source = "refsig-recid-overflow-bit"
		case 3:
			c.recid = pickRecid(g) | 4
			c.source = "refsig-recid>=4"
		case 4:
			c.h = randBytes(g, 32)
			c.wrongH = true
			c.source = "refsig-wrong-hash"
		case 5:
			c.h = append([]byte{}, c.h...)
			c.h[g.Intn(32)] ^= 1 << uint(g.Intn(8))
			c.wrongH = true
			c.source = "refsig-hash-bitflip"
		}
	case 2:
		c.h = randBytes(g, 32)
		c.rc, c.r = pickR(g)
		c.sc, c.s = pickS(g)
		c.recid = pickRecid(g)
		if (c.rc == "r<p-n" || c.rc == "r=p-n-1" || c.rc == "r=small" || c.rc == "r=p-n" || c.rc == "r=p-n+k(x=r+n>=p)") && g.Intn(2) == 0 {
			c.recid = byte(2 + g.Intn(2)) // x = r + n is below p only for these
		}
		c.source = "constructed"
	default:
		raw := randBytes(g, 65)
		c.h = randBytes(g, 32)
		c.r = new(big.Int).SetBytes(raw[:32])
		c.s = new(big.Int).SetBytes(raw[32:64])
		c.recid = raw[64]
		if g.Intn(2) == 0 {
			c.recid &= 3
		}
		c.rc, c.sc, c.source = "r=random", "s=random", "random65"
	}
	return c
}

func checkSig(c sigCase, other cipher.PubKey) {
	var sig cipher.Sig
	copy(sig[:32], b32(new(big.Int).Mod(c.r, two256)))
	copy(sig[32:64], b32(new(big.Int).Mod(c.s, two256)))
	sig[64] = c.recid
	var h cipher.SHA256
	copy(h[:], c.h)
	in := "sig=" + hx(sig[:]) + " hash=" + hx(c.h)
	if c.note != "" {
		in += " [" + c.note + "]"
	}
	tagCount := func(k string) {
		if c.tag != "" {
			r.Count(c.tag+"."+k, 1)
		}
	}
	class := c.source + "/" + c.rc + "/" + c.sc + fmt.Sprintf("/recid=%d", c.recid)
	r.Eval(1)
	r.DistinctBytes([]byte(in))

	recidOK := c.recid < 4
	lowS := c.s.Cmp(refsecp.HalfN) <= 0
	gapS := !lowS && c.s.Cmp(two255) < 0 // between n/2 and 2^255: the package's malleability rule is silent
	var rec refsecp.Point
	ok := false
	if recidOK {
		rec, ok = refsecp.Recover(c.h, c.r, c.s, int(c.recid))
	} else if refsecp.ValidScalar(c.r) && refsecp.ValidScalar(c.s) {
		// what the recovery would be if only the two defined bits were looked at (observation only)
		rec, ok = refsecp.Recover(c.h, c.r, c.s, int(c.recid&3))
	}
	var recBytes []byte
	if c.expectSet {
		// the construction says what the textbook recovery must give; the reference has to agree with it
		if c.expectNone == ok || (ok && !bytes.Equal(refsecp.Compress(rec), c.expectQ)) {
			r.Inconclusive("reference self-check failed: recovery differs from the construction for " + in)
			return
		}
	}
	if ok {
		recBytes = refsecp.Compress(rec)
		// (a case whose recovery is fixed by its construction has been cross-checked above)
		if !c.expectSet && !refsecp.Verify(c.h, c.r, c.s, rec) {
			r.Inconclusive("reference self-check failed: recovered key does not verify for " + in)
			return
		}
		if c.source == "refsig" && !bytes.Equal(recBytes, c.knownQ) {
			r.Inconclusive("reference self-check failed: recovery of a reference signature gives another key " + in)
			return
		}
	}
	r.Count("sig.class:"+c.source, 1)
	r.Count("sig.r:"+c.rc, 1)
	r.Count("sig.s:"+c.sc, 1)
	if recidOK {
		r.Count(fmt.Sprintf("sig.recid=%d", c.recid), 1)
		if ok {
			r.Count(fmt.Sprintf("sig.recoverable.recid=%d", c.recid), 1)
		}
	} else {
		r.Count("sig.recid>=4", 1)
	}

	// 1. recovery
	var pk cipher.PubKey
	var err error
	if guard("PubKeyFromSig", "sig:"+c.source, in, func() { pk, err = cipher.PubKeyFromSig(sig, h) }) {
		switch {
		case !recidOK:
			// byte 64 outside 0..3 is not a textbook input; the verification functions must refuse it
			// (asserted below); for bare recovery only the outcome is recorded
			if err == nil {
				r.Count("recover.recid>=4.returned-key(unasserted)", 1)
			} else {
				r.Count("recover.recid>=4.refused(unasserted)", 1)
			}
		case ok && err != nil:
			mismatch("rejected-valid", "PubKeyFromSig", "sig:"+class, in, "reference recovers "+hx(recBytes)+": "+err.Error())
		case ok && !bytes.Equal(pk[:], recBytes):
			mismatch("value-mismatch", "PubKeyFromSig", "sig:"+class, in, "got "+pk.Hex()+" reference "+hx(recBytes))
		case !ok && err == nil:
			mismatch("accepted-invalid", "PubKeyFromSig", "sig:"+class, in, "reference recovers nothing, got "+pk.Hex())
		case ok:
			r.Count("recover.agree.key", 1)
			tagCount("recover.agree.key")
		default:
			r.Count("recover.agree.refused", 1)
			tagCount("recover.agree.refused")
		}
	}

	acceptable := ok && recidOK && lowS
	unasserted := ok && recidOK && gapS
	expect := func(fn string, err error, should bool, why string) {
		if unasserted && should {
			r.Count("verify.unasserted(n/2<s<2^255)", 1)
			return
		}
		if should && err != nil {
			mismatch("rejected-valid", fn, "sig:"+class, in, why+": "+err.Error())
		} else if !should && err == nil {
			mismatch("accepted-invalid", fn, "sig:"+class, in, why)
		} else if should {
			r.Count("verify.accepted", 1)
			r.Count("verify.accepted:"+fn, 1)
			tagCount("verify.accepted")
		} else {
			r.Count("verify.rejected", 1)
			r.Count("verify.rejected:"+why, 1)
			tagCount("verify.rejected")
			tagCount("verify.rejected:" + why)
		}
	}
	reason := "ok"
	switch {
	case !recidOK:
		reason = "recid>=4"
	case !refsecp.ValidScalar(c.r) || !refsecp.ValidScalar(c.s):
		reason = "r-or-s-out-of-range"
	case !ok:
		reason = "no-curve-point-for-r"
	case !lowS:
		reason = "high-s"
	}

	// 2. signature alone
	if guard("VerifySignatureRecoverPubKey", "sig:"+c.source, in, func() { err = cipher.VerifySignatureRecoverPubKey(sig, h) }) {
		should := acceptable || (unasserted)
		expect("VerifySignatureRecoverPubKey", err, should, reason)
	}

	// 3. against keys / addresses
	type cand struct {
		key    []byte
		should bool
		why    string
	}
	var cands []cand
	if ok {
		// the key the two defined recovery bits lead to; with byte 64 > 3 it must still be refused
		cands = append(cands, cand{recBytes, true, reason})
	}
	if c.knownQ != nil && !bytes.Equal(c.knownQ, recBytes) {
		cands = append(cands, cand{c.knownQ, false, "signer-key-but-" + map[bool]string{true: "wrong-hash", false: "altered-signature"}[c.wrongH]})
	}
	if !bytes.Equal(other[:], recBytes) {
		cands = append(cands, cand{other[:], false, "unrelated-key"})
	}
	for _, cd := range cands {
		var P cipher.PubKey
		copy(P[:], cd.key)
		should := cd.should && (acceptable || unasserted)
		why := cd.why
		if cd.should && !should {
			why = reason
		}
		if guard("VerifyPubKeySignedHash", "sig:"+c.source, in+" pubkey="+P.Hex(), func() { err = cipher.VerifyPubKeySignedHash(P, sig, h) }) {
			expect("VerifyPubKeySignedHash", err, should, why)
		}
		A := refAddress(cd.key)
		if guard("VerifyAddressSignedHash", "sig:"+c.source, in+" address-of="+P.Hex(), func() { err = cipher.VerifyAddressSignedHash(A, sig, h) }) {
			expect("VerifyAddressSignedHash", err, should, why)
		}
	}
}

func legSigs() {
	otherRaw, _ := refsecp.PubKey(b32(bi(0xabcdef)))
	var other cipher.PubKey
	copy(other[:], otherRaw)
	n := r.Pick(10000, 180000)
	vf.Parallel(n, runtime.NumCPU(), func(i int) {
		g := r.Rand("sig", i)
		c := genSigCase(g, i)
		checkSig(c, other)
		if i >= 4 && i < 7 {
			r.Sample(map[string]string{"leg": "sig", "source": c.source, "r": hx(b32(new(big.Int).Mod(c.r, two256))), "s": hx(b32(new(big.Int).Mod(c.s, two256))), "recid": fmt.Sprint(c.recid), "hash": hx(c.h)})
		}
	})
	// an invalid (x >= p) key on the key side of verification must give an error, not a panic
	bad := ser(2, add(refsecp.P, bi(5)))
	var P cipher.PubKey
	copy(P[:], bad)
	var err error
	r.Eval(1)
	if guard("VerifyPubKeySignedHash", "pubkey:x>=p", P.Hex(), func() { err = cipher.VerifyPubKeySignedHash(P, cipher.Sig{1}, cipher.SHA256{1}) }) && err == nil {
		mismatch("accepted-invalid", "VerifyPubKeySignedHash", "pubkey:x>=p", P.Hex(), "")
	}
}

// ------------------------------------------------------------------------------------------
// structured signatures leg
//
// Verification and recovery both evaluate a sum of two scalar multiples, u1*G + u2*X. With random
// scalars the intermediate points of any evaluation strategy (two multiplications and one addition,
// a shared double-and-add ladder, windowed or interleaved tables) are unrelated; the special cases
// of the group law (a point added to itself, to its negative, to infinity) never occur. They do occur
// when everything is a small multiple of G. For small a, b, d take P = d*G and T = a*G + b*P:
//
//   verify form:  public key P, nonce point T:   r = T.x mod n, s = r/b, digest m = a*s
//                 (textbook verification computes u1 = m/s = a, u2 = r/s = b)
//   recover form: nonce point P, public key T:   r = P.x mod n, s = b*r, digest m = -a*r
//                 (textbook recovery computes (s/r)*P + (-m/r)*G = b*P + a*G)
//
// Both are valid signatures by construction (unless T is infinity, which recovery must refuse). The
// third class takes signatures made by the reference with nonce 1..16 and small secret keys over
// random digests. Each case and its neighbours (digest+1, s+1, other recovery ids) goes through the
// same comparison with the reference as every other signature.

type triple struct {
	a, b, d *big.Int
	form    int    // 0 verify form, 1 recover form
	rel     string // how a was chosen
}

func scalarName(v *big.Int) string {
	if v.BitLen() <= 24 {
		return v.String()
	}
	if m := sub(refsecp.N, v); m.Sign() > 0 && m.BitLen() <= 24 {
		return "n-" + m.String()
	}
	return "0x" + v.Text(16)
}

// windowScalars: values around the usual window / split sizes of windowed multiplication, and the
// endomorphism constant
func windowScalars() []*big.Int {
	var out []*big.Int
	for _, k := range []uint{4, 5, 6, 7, 8, 13, 14, 15, 127, 128, 129} {
		out = append(out, sub(pow2(k), bi(1)), pow2(k), add(pow2(k), bi(1)))
	}
	out = append(out, lambda, sub(refsecp.N, lambda))
	return out
}

func pickSmallScalar(g *rand.Rand, extras []*big.Int) *big.Int {
	switch x := g.Intn(20); {
	case x < 14:
		return bi(int64(1 + g.Intn(40)))
	case x < 17:
		return sub(refsecp.N, bi(int64(1+g.Intn(40))))
	default:
		return extras[g.Intn(len(extras))]
	}
}

func structuredTriples() []triple {
	var out []triple
	n := refsecp.N
	// a chosen so that a*G and b*P coincide up to sign and a power of two: the places where a
	// two-multiplication or a shared-ladder evaluation meets the special cases of the group law
	maxB, maxD := int64(r.Pick(16, 40)), int64(r.Pick(12, 40))
	for b := int64(1); b <= maxB; b++ {
		for d := int64(1); d <= maxD; d++ {
			bd := bi(b * d)
			rels := []struct {
				name string
				a    *big.Int
			}{{"a=b*d", bd}, {"a=-b*d", sub(n, bd)}, {"a=2*b*d", bi(2 * b * d)}}
			if (b*d)%2 == 0 {
				rels = append(rels, struct {
					name string
					a    *big.Int
				}{"a=b*d/2", bi(b * d / 2)})
			}
			for _, rl := range rels {
				for form := 0; form < 2; form++ {
					out = append(out, triple{rl.a, bi(b), bi(d), form, rl.name})
				}
			}
		}
	}
	// the small cube and its extensions, sampled
	extras := windowScalars()
	nr := r.Pick(1200, 21600)
	for i := 0; i < nr; i++ {
		g := r.Rand("structured", i)
		t := triple{a: pickSmallScalar(g, extras), b: pickSmallScalar(g, extras), form: i % 2, rel: "sampled"}
		if g.Intn(8) == 0 {
			t.d = sub(n, bi(int64(1+g.Intn(8))))
		} else {
			t.d = bi(int64(1 + g.Intn(40)))
		}
		out = append(out, t)
	}
	return out
}

func recidOf(p refsecp.Point) byte {
	id := byte(p.Y.Bit(0))
	if p.X.Cmp(refsecp.N) >= 0 {
		id |= 2
	}
	return id
}

// buildStructured turns a triple into a signature case; ok=false if the form does not exist for it
func buildStructured(t triple) (sigCase, string, bool) {
	n := refsecp.N
	P := refsecp.Mul(t.d, refsecp.G())
	aG := refsecp.Mul(t.a, refsecp.G())
	bP := refsecp.Mul(t.b, P)
	T := refsecp.Add(aG, bP)
	co := "generic"
	switch {
	case T.Inf:
		co = "sum-is-infinity"
	case aG.X.Cmp(bP.X) == 0:
		co = "final-add-is-doubling"
	}
	c := sigCase{tag: "structured", expectSet: true}
	c.note = fmt.Sprintf("a=%s b=%s d=%s %s %s", scalarName(t.a), scalarName(t.b), scalarName(t.d), t.rel, co)
	var m *big.Int
	if t.form == 0 {
		if T.Inf {
			return c, co, false
		}
		c.r = new(big.Int).Mod(T.X, n)
		if c.r.Sign() == 0 {
			return c, co, false
		}
		c.s = new(big.Int).Mul(c.r, new(big.Int).ModInverse(t.b, n))
		c.s.Mod(c.s, n)
		m = new(big.Int).Mul(t.a, c.s)
		m.Mod(m, n)
		c.recid = recidOf(T)
		c.knownQ = refsecp.Compress(P)
		c.expectQ = c.knownQ
		c.source, c.rc, c.sc = "structured-verify-form", "r=x(a*G+b*Q)", "s=r/b"
	} else {
		c.r = new(big.Int).Mod(P.X, n)
		if c.r.Sign() == 0 {
			return c, co, false
		}
		c.s = new(big.Int).Mul(c.r, t.b)
		c.s.Mod(c.s, n)
		m = new(big.Int).Mul(c.r, t.a)
		m.Neg(m).Mod(m, n)
		c.recid = recidOf(P)
		if T.Inf {
			c.expectNone = true
		} else {
			c.knownQ = refsecp.Compress(T)
			c.expectQ = c.knownQ
		}
		c.source, c.rc, c.sc = "structured-recover-form", "r=x(d*G)", "s=b*r"
	}
	c.h = b32(m)
	return c, co, true
}

// lowS gives the equivalent signature with s <= n/2 (s negated, parity bit of the recovery id flipped)
func lowS(c sigCase) sigCase {
	if c.s.Cmp(refsecp.HalfN) > 0 {
		c.s = sub(refsecp.N, c.s)
		c.recid ^= 1
		c.sc += "(negated)"
	}
	return c
}

// neighbour derives an adjacent input from a valid structured case; nothing is known about it in
// advance, the reference decides
func neighbour(c sigCase, kind int) sigCase {
	nb := c
	nb.expectSet, nb.expectNone, nb.expectQ = false, false, nil
	switch kind {
	case 0:
		h := add(new(big.Int).SetBytes(c.h), bi(1))
		nb.h = b32(h.Mod(h, two256))
		nb.wrongH = true
		nb.source += "/digest+1"
	case 1:
		nb.s = add(c.s, bi(1))
		nb.sc += "+1"
		nb.source += "/s+1"
	case 2:
		nb.recid ^= 1
		nb.source += "/recid-parity-flipped"
	default:
		nb.recid ^= 2
		nb.source += "/recid-overflow-bit-flipped"
	}
	return nb
}

var neighbourKinds = []string{"digest+1", "s+1", "recid-parity-flipped", "recid-overflow-bit-flipped"}

func legStructured() {
	otherRaw, _ := refsecp.PubKey(b32(bi(0xabcdef)))
	var other cipher.PubKey
	copy(other[:], otherRaw)

	run := func(i int, c sigCase) {
		// the choices below must not line up with the order of the case list: scramble the index
		hsh := uint64(i+1) * 0x9E3779B97F4A7C15
		hsh ^= hsh >> 29
		// half of the cases in the form the package's malleability rule accepts
		if hsh&1 == 0 {
			c = lowS(c)
		}
		checkSig(c, other)
		k := int(hsh>>1) & 3
		checkSig(neighbour(c, k), other)
		r.Count("structured.neighbour:"+neighbourKinds[k], 1)
		if (hsh>>3)&15 == 0 {
			// every recovery id and every neighbour for a sixteenth of the cases
			for j := 0; j < len(neighbourKinds); j++ {
				if j != k {
					checkSig(neighbour(c, j), other)
					r.Count("structured.neighbour:"+neighbourKinds[j], 1)
				}
			}
			both := neighbour(neighbour(c, 2), 3)
			both.source = c.source + "/recid-both-bits-flipped"
			checkSig(both, other)
		}
	}

	ts := structuredTriples()
	vf.Parallel(len(ts), runtime.NumCPU(), func(i int) {
		t := ts[i]
		c, co, ok := buildStructured(t)
		if !ok {
			r.Count("structured.skipped(no such form)", 1)
			return
		}
		r.Count("structured.case:"+c.source, 1)
		r.Count("structured.coincidence:"+co, 1)
		r.Count("structured.a:"+t.rel, 1)
		run(i, c)
		if i == 0 || i == 3 {
			r.Sample(map[string]string{"leg": "structured", "construction": c.note, "source": c.source, "r": hx(b32(c.r)), "s": hx(b32(c.s)), "recid": fmt.Sprint(c.recid), "hash": hx(c.h)})
		}
	})

	// nonce points that are small multiples of G, small secret keys, random digests
	nn := r.Pick(640, 11520)
	vf.Parallel(nn, runtime.NumCPU(), func(i int) {
		g := r.Rand("small-nonce", i)
		k := bi(int64(1 + i%16))
		d := bi(int64(1 + g.Intn(16)))
		if g.Intn(8) == 0 {
			d = sub(refsecp.N, d)
		}
		h := randBytes(g, 32)
		sg, ok := refsecp.Sign(h, d, k)
		if !ok {
			return
		}
		c := sigCase{h: h, r: sg.R, s: sg.S, recid: byte(sg.RecID), tag: "structured", expectSet: true,
			source: "small-nonce-refsig", rc: "r=x(k*G),k<=16", sc: "s=refsig",
			note: fmt.Sprintf("nonce=%s seckey=%s", scalarName(k), scalarName(d))}
		c.knownQ, _ = refsecp.PubKey(b32(d))
		c.expectQ = c.knownQ
		r.Count("structured.case:"+c.source, 1)
		r.Count(fmt.Sprintf("structured.nonce=%d", k.Int64()), 1)
		run(i, c)
		if i == 1 {
			r.Sample(map[string]string{"leg": "structured", "construction": c.note, "source": c.source, "r": hx(b32(c.r)), "s": hx(b32(c.s)), "recid": fmt.Sprint(c.recid), "hash": hx(c.h)})
		}
	})
}

// ------------------------------------------------------------------------------------------
// shared secret leg

func legECDH() {
	n := r.Pick(1200, 15000)
	edges := scalarCases()
	vf.Parallel(n, runtime.NumCPU(), func(i int) {
		g := r.Rand("ecdh", i)
		a := new(big.Int).Rand(g, sub(refsecp.N, bi(1)))
		a.Add(a, bi(1))
		b := new(big.Int).Rand(g, sub(refsecp.N, bi(1)))
		b.Add(b, bi(1))
		class := "random"
		if i%3 == 0 {
			c := edges[g.Intn(len(edges))]
			if c.group != "invalid" {
				a, class = c.v, "boundary"
			}
		}
		pa, _ := refsecp.PubKey(b32(a))
		pb, _ := refsecp.PubKey(b32(b))
		if i%5 == 4 {
			// B's key chosen so that the shared point a*B has a tiny y: B = a^-1 * T
			x, y := tinyYPoint(g)
			T := refsecp.Point{X: x, Y: y}
			if g.Intn(2) == 0 {
				T = refsecp.Neg(T)
			}
			pb = refsecp.Compress(refsecp.Mul(new(big.Int).ModInverse(a, refsecp.N), T))
			class = "product-has-tiny-y"
			var PB cipher.PubKey
			var SA cipher.SecKey
			copy(PB[:], pb)
			copy(SA[:], b32(a))
			want, err := refsecp.ECDH(pb, b32(a))
			in := "secA=" + hx(SA[:]) + " pubB=" + hx(pb)
			r.Eval(1)
			r.DistinctBytes([]byte("ecdh" + in))
			var got []byte
			var e1 error
			if err == nil && guard("ECDH", "ecdh:"+class, in, func() { got, e1 = cipher.ECDH(PB, SA) }) {
				if e1 != nil {
					mismatch("rejected-valid", "ECDH", "ecdh:"+class, in, e1.Error())
				} else if !bytes.Equal(got, want) {
					mismatch("value-mismatch", "ECDH", "ecdh:"+class, in, "got "+hx(got)+" want "+hx(want))
				} else {
					r.Count("ecdh.agree", 1)
					r.Count("ecdh.agree:"+class, 1)
				}
				var low []byte
				if guard("secp256k1.ECDH", "ecdh:"+class, in, func() { low = secp256k1.ECDH(pb, SA[:]) }) {
					// cipher.ECDH is the SHA-256 of the compressed product point
					if h := cipher.SumSHA256(low); low == nil || !bytes.Equal(h[:], want) {
						mismatch("value-mismatch", "secp256k1.ECDH", "ecdh:"+class, in, "got "+hx(low)+" want "+hx(want))
					} else {
						r.Count("ecdh.lower-level.agree", 1)
					}
				}
			}
			return
		}
		want, err := refsecp.ECDH(pb, b32(a))
		if err != nil {
			return
		}
		var PA, PB cipher.PubKey
		var SA, SB cipher.SecKey
		copy(PA[:], pa)
		copy(PB[:], pb)
		copy(SA[:], b32(a))
		copy(SB[:], b32(b))
		in := "secA=" + hx(SA[:]) + " secB=" + hx(SB[:])
		r.Eval(1)
		r.DistinctBytes([]byte("ecdh" + in))
		var g1, g2 []byte
		var e1, e2 error
		if !guard("ECDH", "ecdh:"+class, in, func() { g1, e1 = cipher.ECDH(PB, SA); g2, e2 = cipher.ECDH(PA, SB) }) {
			return
		}
		switch {
		case e1 != nil || e2 != nil:
			mismatch("rejected-valid", "ECDH", "ecdh:"+class, in, fmt.Sprint(e1, e2))
		case !bytes.Equal(g1, want):
			mismatch("value-mismatch", "ECDH", "ecdh:"+class, in, "got "+hx(g1)+" want "+hx(want))
		case !bytes.Equal(g1, g2):
			mismatch("value-mismatch", "ECDH", "ecdh:asymmetric", in, hx(g1)+" vs "+hx(g2))
		default:
			r.Count("ecdh.agree", 1)
			r.Count("ecdh.agree:"+class, 1)
		}
		if i == 1 {
			r.Sample(map[string]string{"leg": "ecdh", "secA": hx(SA[:]), "pubB": hx(pb), "secret": hx(want)})
		}
	})
}

// ------------------------------------------------------------------------------------------
// deterministic key chain, re-derived from its documented construction:
//   step(x):   repeat x = SHA256(x) until 1 <= x < n; seckey = x, pubkey = x*G
//   H(seed):   h = SHA256(seed); (_, s) = step(h); (P, _) = step(SHA256(h));
//              H = SHA256(h || compressed(s*P))
//   next(seed): s1 = H(seed); (pub, sec) = step(SHA256(seed || s1)); new seed = s1

func detStep(x []byte) (sec []byte) {
	for {
		x = sha(x)
		if refsecp.ValidScalar(new(big.Int).SetBytes(x)) {
			return x
		}
	}
}

func detHash(seed []byte) []byte {
	h := sha(seed)
	s := detStep(h)
	pSec := detStep(sha(h))
	P, _ := refsecp.PubKey(pSec)
	Pt, _ := refsecp.Decompress(P)
	prod := refsecp.Compress(refsecp.Mul(new(big.Int).SetBytes(s), Pt))
	return sha(append(append([]byte{}, h...), prod...))
}

func detNext(seed []byte) (newSeed, pub, sec []byte) {
	s1 := detHash(seed)
	sec = detStep(sha(append(append([]byte{}, seed...), s1...)))
	pub, _ = refsecp.PubKey(sec)
	return s1, pub, sec
}

func legDeterministic() {
	n := r.Pick(300, 4000)
	vf.Parallel(n, runtime.NumCPU(), func(i int) {
		g := r.Rand("det", i)
		var seed []byte
		switch i % 6 {
		case 0:
			seed = []byte{byte(i / 6)}
		case 1:
			seed = make([]byte, 32)
			seed[31] = byte(i / 6)
		case 2:
			seed = randBytes(g, 200+g.Intn(800))
		default:
			seed = randBytes(g, 1+g.Intn(64))
		}
		const k = 3
		in := "seed=" + hx(seed)
		r.Eval(1)
		r.DistinctBytes(append([]byte("det"), seed...))
		// reference chain
		var wantSec, wantPub [][]byte
		cur := seed
		for j := 0; j < k; j++ {
			ns, pub, sec := detNext(cur)
			wantSec, wantPub = append(wantSec, sec), append(wantPub, pub)
			cur = ns
		}
		wantSeed := cur

		var newSeed []byte
		var keys []cipher.SecKey
		var err error
		if !guard("GenerateDeterministicKeyPairsSeed", "det", in, func() { newSeed, keys, err = cipher.GenerateDeterministicKeyPairsSeed(seed, k) }) {
			return
		}
		if err != nil || len(keys) != k {
			mismatch("rejected-valid", "GenerateDeterministicKeyPairsSeed", "det", in, fmt.Sprint(err))
			return
		}
		for j := 0; j < k; j++ {
			if !bytes.Equal(keys[j][:], wantSec[j]) {
				mismatch("value-mismatch", "GenerateDeterministicKeyPairsSeed", "det:key", in, fmt.Sprintf("key %d got %s want %s", j, keys[j].Hex(), hx(wantSec[j])))
				return
			}
		}
		if !bytes.Equal(newSeed, wantSeed) {
			mismatch("value-mismatch", "GenerateDeterministicKeyPairsSeed", "det:seed", in, "new seed differs")
			return
		}
		// the single-step and pair entry points
		var h1 []byte
		var p1 cipher.PubKey
		var s1 cipher.SecKey
		if guard("DeterministicKeyPairIterator", "det", in, func() { h1, p1, s1, err = cipher.DeterministicKeyPairIterator(seed) }) {
			if err != nil || !bytes.Equal(s1[:], wantSec[0]) || !bytes.Equal(p1[:], wantPub[0]) || !bytes.Equal(h1, detHash(seed)) {
				mismatch("value-mismatch", "DeterministicKeyPairIterator", "det", in, fmt.Sprint(err))
				return
			}
		}
		if guard("GenerateDeterministicKeyPair", "det", in, func() { p1, s1, err = cipher.GenerateDeterministicKeyPair(seed) }) {
			if err != nil || !bytes.Equal(s1[:], wantSec[0]) || !bytes.Equal(p1[:], wantPub[0]) {
				mismatch("value-mismatch", "GenerateDeterministicKeyPair", "det", in, fmt.Sprint(err))
				return
			}
		}
		// every derived pair matches
		for j := 0; j < k; j++ {
			var pk cipher.PubKey
			if guard("PubKeyFromSecKey", "det", in, func() { pk, err = cipher.PubKeyFromSecKey(keys[j]) }) {
				if err != nil || !bytes.Equal(pk[:], wantPub[j]) {
					mismatch("value-mismatch", "PubKeyFromSecKey", "det:pair", in, fmt.Sprint(err))
					return
				}
			}
		}
		// reproducible across batch splits: 1 + 2 == 3
		var sA, sB []byte
		var kA, kB []cipher.SecKey
		if guard("GenerateDeterministicKeyPairsSeed", "det:split", in, func() {
			sA, kA, err = cipher.GenerateDeterministicKeyPairsSeed(seed, 1)
			if err == nil {
				sB, kB, err = cipher.GenerateDeterministicKeyPairsSeed(sA, k-1)
			}
		}) {
			if err != nil || len(kA) != 1 || len(kB) != k-1 || kA[0] != keys[0] || kB[0] != keys[1] || kB[1] != keys[2] || !bytes.Equal(sB, newSeed) {
				mismatch("value-mismatch", "GenerateDeterministicKeyPairsSeed", "det:split", in, "1+2 split differs from a batch of 3")
				return
			}
		}
		r.Count("det.chains.agree", 1)
		r.Count("det.keys.agree", k)
		if i == 3 {
			r.Sample(map[string]string{"leg": "deterministic", "seed": hx(seed), "seckey0": hx(wantSec[0]), "pubkey0": hx(wantPub[0]), "next_seed": hx(wantSeed)})
		}
	})
	// empty seed: an error everywhere
	var err error
	r.Eval(1)
	if guard("GenerateDeterministicKeyPair", "det:empty-seed", "", func() { _, _, err = cipher.GenerateDeterministicKeyPair(nil) }) && err == nil {
		mismatch("accepted-invalid", "GenerateDeterministicKeyPair", "det:empty-seed", "", "")
	}
	if guard("DeterministicKeyPairIterator", "det:empty-seed", "", func() { _, _, _, err = cipher.DeterministicKeyPairIterator([]byte{}) }) && err == nil {
		mismatch("accepted-invalid", "DeterministicKeyPairIterator", "det:empty-seed", "", "")
	}
	if guard("GenerateDeterministicKeyPairsSeed", "det:empty-seed", "", func() { _, _, err = cipher.GenerateDeterministicKeyPairsSeed(nil, 2) }) && err == nil {
		mismatch("accepted-invalid", "GenerateDeterministicKeyPairsSeed", "det:empty-seed", "", "")
	} else if err != nil {
		r.Count("det.empty-seed.refused", 1)
	}
}

func main() {
	log.SetOutput(ioutil.Discard) // the library logs before it panics; panics are reported as violations
	r = vf.Start("C14", "exploration")

	for _, l := range []struct {
		name string
		f    func()
	}{{"seckeys", legSecKeys}, {"pubkeys", legPubKeys}, {"sign", legSign}, {"sigs", legSigs}, {"structured", legStructured}, {"ecdh", legECDH}, {"deterministic", legDeterministic}} {
		t0 := time.Now()
		l.f()
		r.Extra("wall_s."+l.name, time.Since(t0).Seconds())
		if os.Getenv("VERIF_DEBUG") != "" {
			fmt.Fprintf(os.Stderr, "leg %s %.1fs\n", l.name, time.Since(t0).Seconds())
		}
	}

	// floors: every class must have been observed, sized well below what the unchanged tree gives
	q := r.Quick()
	fl := func(k string, quick, thorough int64) {
		if q {
			r.Floor(k, quick)
		} else {
			// thorough sizes were trimmed to 60% for the time budget; floors follow
			r.Floor(k, thorough*55/100)
		}
	}
	r.Floor("scalar.boundary.hit:edge", 13)
	r.Floor("scalar.boundary.hit:2^k", 256)
	r.Floor("scalar.boundary.hit:2^k-1", 254)
	r.Floor("scalar.boundary.hit:invalid", 8)
	r.Floor("seckey.valid.agree:edge", 13)
	r.Floor("seckey.invalid.lower-level-entry-points", 100)
	r.Floor("seckey.valid.agree:2^k", 256)
	r.Floor("seckey.valid.agree:2^k-1", 254)
	fl("seckey.valid.agree:random", 800, 20000)
	fl("scalar.random:rand>=n", 100, 3000)
	fl("seckey.invalid.rejected", 100, 3000)
	r.Floor("seckey.length.rejected", 5)
	for _, c := range []string{"valid", "off-curve", "x>=p(x-p on curve)", "x>=p(x-p off curve)", "bad-prefix", "bad-length", "small-x", "random-bytes"} {
		fl("pubkey.case:"+c, 900, 27000)
	}
	fl("pubkey.case:valid(tiny y)", 300, 10000)
	fl("pubkey.case:valid(y near p)", 300, 10000)
	r.Floor("pubkey.case:x>=p(edge)", 9)
	r.Floor("pubkey.case:all-zero", 1)
	fl("pubkey.accepted:valid", 2000, 60000)
	fl("pubkey.accepted:valid(tiny y)", 900, 30000)
	fl("pubkey.accepted:valid(y near p)", 900, 30000)
	fl("ecdh.agree:special-point", 2400, 75000)
	for _, c := range []string{"off-curve", "bad-prefix", "bad-length", "random-bytes", "x>=p(x-p on curve)", "x>=p(x-p off curve)"} {
		fl("pubkey.rejected:"+c, 1000, 30000)
	}
	r.Floor("pubkey.rejected:x>=p(edge)", 36)
	r.Floor("pubkey.rejected:all-zero", 4)
	r.Floor("pubkey.rejected:bad-hex", 6)
	fl("sign.ok", 1500, 40000)
	fl("sign.ok.boundary-seckey", 250, 6000)
	for _, c := range []string{"h=1", "h=n", "h=n-1", "h=n+1", "h=2^256-1", "h=p"} {
		fl("sign.ok:"+c, 100, 2500)
	}
	fl("recover.agree.key", 2500, 75000)
	fl("recover.agree.refused", 1000, 30000)
	fl("verify.accepted", 5000, 150000)
	fl("verify.rejected", 12000, 360000)
	for _, c := range []string{"recid>=4", "r-or-s-out-of-range", "no-curve-point-for-r", "high-s", "unrelated-key", "signer-key-but-wrong-hash", "signer-key-but-altered-signature"} {
		fl("verify.rejected:"+c, 200, 5000)
	}
	for _, c := range []string{"r=0", "r=n", "r=n-1", "r=n+1", "r=p", "r=2^256-1", "r<p-n", "r=p-n", "r=p-n-1", "r=small"} {
		fl("sig.r:"+c, 60, 2000)
	}
	for _, c := range []string{"s=0", "s=n", "s=n-1", "s=n+1", "s=p", "s=2^256-1", "s=1", "s=floor(n/2)", "s=2^255", "s=random-high", "s=refsig-negated"} {
		fl("sig.s:"+c, 60, 2000)
	}
	for i := 0; i < 4; i++ {
		fl(fmt.Sprintf("sig.recid=%d", i), 500, 15000)
	}
	fl("sig.recid>=4", 1000, 30000)
	fl("sig.recoverable.recid=2", 20, 500)
	fl("sig.recoverable.recid=3", 20, 500)
	fl("ecdh.agree", 1100, 23000)
	fl("ecdh.agree:boundary", 180, 4500)
	fl("ecdh.agree:product-has-tiny-y", 200, 4500)
	fl("sig.r:r=x(point with tiny y)", 60, 2000)
	// structured leg (sizes are fixed by the tier, only the sampled part depends on the seed)
	fs := func(k string, quick, thorough int64) {
		if q {
			r.Floor(k, quick)
		} else {
			r.Floor(k, thorough)
		}
	}
	fs("structured.case:structured-verify-form", 1000, 13500)
	fs("structured.case:structured-recover-form", 1200, 15000)
	fs("structured.case:small-nonce-refsig", 600, 11000)
	fs("structured.coincidence:final-add-is-doubling", 380, 3200)
	fs("structured.coincidence:sum-is-infinity", 190, 1600)
	fs("structured.coincidence:generic", 1500, 22000)
	for _, k := range neighbourKinds {
		fs("structured.neighbour:"+k, 600, 9000)
	}
	fs("structured.recover.agree.key", 4000, 55000)
	fs("structured.recover.agree.refused", 900, 12000)
	fs("structured.verify.accepted", 9000, 120000)
	fs("structured.verify.rejected:high-s", 2000, 28000)
	fs("structured.verify.rejected:signer-key-but-altered-signature", 3000, 42000)
	fs("structured.verify.rejected:signer-key-but-wrong-hash", 1000, 14000)
	fl("det.chains.agree", 290, 5900)
	r.Floor("det.empty-seed.refused", 1)

	r.Finish("cases are generated from (seed, leg, index): boundary scalars (1, 2, n-1, n/2 and neighbours, lambda, 2^k, 2^k-1, 2^k+1), random scalars of five shapes incl. >= n, public-key encodings by class (valid, off-curve, x>=p, bad prefix, bad length, zero, random), signatures made by the reference and perturbed (s negated, recovery id parity/overflow bit, id>=4, wrong or bit-flipped digest), signatures constructed from boundary r/s/recid values, random 65 bytes, structured signatures in which key, nonce point and both scalars of the verification / recovery sum u1*G + u2*X are small multiples (for small a, b, d incl. n-k and window-size values: Q = d*G, R = a*G + b*Q, r = R.x, s = r/b, m = a*s, and the mirror form with nonce point d*G and key a*G + b*d*G; a enriched with +-b*d, 2*b*d, b*d/2 so that the sum meets doubling, negation and infinity; reference signatures with nonce 1..16 and small keys) each with its neighbours digest+1, s+1 and the other recovery ids, ECDH pairs, deterministic chains; a case is distinct by its input bytes and non-trivial because the reference produced a definite expectation for it",
		"SignHash draws its nonce from crypto/rand, so the signatures examined differ from run to run; the verdict on each (reference verification and recovery) does not depend on the nonce unless the defect does",
		"signatures with n/2 < s < 2^255 are accepted by the textbook rule and not covered by the package's top-bit malleability rule; they are generated only at the two boundary values and left unasserted",
		"bare PubKeyFromSig with recovery byte > 3 is recorded but not asserted (not a textbook input); all three verification functions are required to refuse it",
		"lib/refsecp is assumed correct (affine big.Int arithmetic, cross-checked against itself: every recovered key must verify)")
}
