// c29: transaction paging partitions the result list.
//
// Leg F (function level): visor.NewPageIndex(size, page).Cal(n) for list lengths n, page sizes
// 1..100 and page numbers {1..N+2} plus huge 64-bit page numbers; expectation computed with
// math/big: totalPages = ceil(n/size); page k <= N is [size(k-1), min(size k, n)); page k > N
// is empty. Pages 1..N are also applied to a real list and concatenated.
//
// Leg V (visor level, no network): a publisher visor on a scratch database is fed a chain of
// blocks (one transaction each, addresses and amounts chosen by the harness, which records
// for every transaction its block and the addresses it touches). Visor.GetTransactions is
// then queried for address sets x confirmed filter x sort order x page sizes x page numbers.
//
// Leg A (HTTP API /api/v2/transactions): runAPILeg in api.go (real node process via lib/node).
package main

import (
	"fmt"
	"math/big"
	"os"
	"path/filepath"
	"sort"
	"strings"
	"sync"

	"github.com/skycoin/skycoin/src/cipher"
	"github.com/skycoin/skycoin/src/coin"
	"github.com/skycoin/skycoin/src/params"
	"github.com/skycoin/skycoin/src/util/logging"
	"github.com/skycoin/skycoin/src/visor"

	"verif/lib/rp"
	"verif/lib/vf"
)

const workers = 16

var bMaxU64 = new(big.Int).SetUint64(^uint64(0))

type local struct {
	counts   map[string]int64
	distinct map[string]struct{}
	evals    int64
}

func newLocal() *local { return &local{counts: map[string]int64{}, distinct: map[string]struct{}{}} }
func (l *local) merge(r *vf.Run) {
	for k, v := range l.counts {
		r.Count(k, v)
	}
	for k := range l.distinct {
		r.Distinct(k)
	}
	r.Eval(l.evals)
}

// ---- leg F ------------------------------------------------------------------------------

// hugePages are the page numbers beyond any realistic page count
func hugePages(size uint64) []uint64 {
	q := ^uint64(0) / size
	cand := []uint64{1 << 31, 1<<32 - 1, 1 << 32, 1<<32 + 1, 1 << 53, 1<<63 - 1, 1 << 63, 1<<63 + 1, q - 1, q, q + 1, q + 2, ^uint64(0) - 1, ^uint64(0),
		// (2^64 / size) + k: size*(page-1) wraps to a small number
		q + 3, (1<<63)/size + 1, (1<<63)/size + 2}
	out := cand[:0]
	seen := map[uint64]bool{}
	for _, p := range cand {
		if p >= 1<<31 && !seen[p] { // for size 1, q+1.. wrap to 0,1,2: not page numbers of this class
			out = append(out, p)
			seen[p] = true
		}
	}
	return out
}

// calCheck evaluates one (n, size, page) triple. Returns the slice bounds for use by the caller
func calCheck(r *vf.Run, l *local, n, size, page uint64) (start, end uint64, ok bool) {
	pi, err := visor.NewPageIndex(size, page)
	attrs := map[string]string{"n": fmt.Sprint(n), "size": fmt.Sprint(size), "page": fmt.Sprint(page), "leg": "function"}
	if err != nil {
		attrs["err"] = err.Error()
		r.Violation("page-index-refused", attrs, nil)
		return 0, 0, false
	}
	var total uint64
	p, msg, frame := vf.Recover(func() { start, end, total, err = pi.Cal(n) })
	if p {
		attrs["frame"], attrs["msg"] = frame, msg
		r.Violation("panic", attrs, nil)
		return 0, 0, false
	}
	if err != nil {
		attrs["err"] = err.Error()
		r.Violation("cal-error", attrs, nil)
		return 0, 0, false
	}
	bn, bs, bp := new(big.Int).SetUint64(n), new(big.Int).SetUint64(size), new(big.Int).SetUint64(page)
	// N = ceil(n/size)
	N := new(big.Int).Add(bn, bs)
	N.Sub(N, big.NewInt(1))
	N.Quo(N, bs)
	if N.Cmp(new(big.Int).SetUint64(total)) != 0 {
		attrs["got_total"], attrs["want_total"] = fmt.Sprint(total), N.String()
		r.Violation("wrong-total-pages", attrs, nil)
		return start, end, false
	}
	l.evals++
	if bp.Cmp(N) > 0 {
		// beyond the last page: must be an empty, valid slice
		class := "beyond_last"
		prod := new(big.Int).Mul(bs, new(big.Int).Sub(bp, big.NewInt(1)))
		if prod.Cmp(bMaxU64) > 0 {
			class = "beyond_last_product_exceeds_64bit"
		}
		l.counts["function."+class]++
		if start != end || end > n {
			attrs["class"] = class
			attrs["got_start"], attrs["got_end"] = fmt.Sprint(start), fmt.Sprint(end)
			attrs["got_len"] = new(big.Int).Sub(new(big.Int).SetUint64(end), new(big.Int).SetUint64(start)).String()
			r.Violation("page-beyond-last-not-empty", attrs, nil)
			return start, end, false
		}
		return start, end, true
	}
	wantStart := new(big.Int).Mul(bs, new(big.Int).Sub(bp, big.NewInt(1)))
	wantEnd := new(big.Int).Mul(bs, bp)
	if wantEnd.Cmp(bn) > 0 {
		wantEnd.Set(bn)
		l.counts["function.last_partial_page"]++
	} else {
		l.counts["function.full_page"]++
	}
	if wantStart.Cmp(new(big.Int).SetUint64(start)) != 0 || wantEnd.Cmp(new(big.Int).SetUint64(end)) != 0 {
		attrs["got"] = fmt.Sprintf("[%d,%d)", start, end)
		attrs["want"] = fmt.Sprintf("[%s,%s)", wantStart, wantEnd)
		r.Violation("wrong-slice", attrs, nil)
		return start, end, false
	}
	return start, end, true
}

func legFunction(r *vf.Run) {
	maxN := uint64(r.Pick(300, 1500))
	var mu sync.Mutex
	locals := []*local{}
	vf.Parallel(int(maxN)+1, workers, func(i int) {
		l := newLocal()
		mu.Lock()
		locals = append(locals, l)
		mu.Unlock()
		n := uint64(i)
		list := make([]int, n)
		for k := range list {
			list[k] = k
		}
		for size := uint64(1); size <= visor.MaxTxnPageSize; size++ {
			N := (n + size - 1) / size // small numbers, no wrap possible
			// pages 1..N applied to a real list must reproduce it exactly once
			covered := 0
			good := true
			for page := uint64(1); page <= N+2; page++ {
				s, e, ok := calCheck(r, l, n, size, page)
				if !ok {
					good = false
					continue
				}
				for _, v := range list[s:e] {
					if v != covered {
						good = false
					}
					covered++
				}
			}
			if good && covered != int(n) {
				r.Violation("pages-do-not-cover-list", map[string]string{"n": fmt.Sprint(n), "size": fmt.Sprint(size), "covered": fmt.Sprint(covered), "leg": "function"}, nil)
			}
			l.counts["function.lists_reassembled"]++
			for _, page := range hugePages(size) {
				calCheck(r, l, n, size, page)
			}
			l.distinct[fmt.Sprintf("f:%d:%d", n, size)] = struct{}{}
		}
	})
	// long lists (lengths a Go slice can have): page numbers around N and the huge ones
	l := newLocal()
	locals = append(locals, l)
	for _, n := range []uint64{5000, 65535, 65536, 1<<31 - 1, 1 << 31, 1 << 32, 1<<32 + 1, 1 << 53, 1 << 62, 1<<63 - 1} {
		for size := uint64(1); size <= visor.MaxTxnPageSize; size++ {
			N := n / size
			if n%size != 0 {
				N++
			}
			for _, page := range []uint64{1, 2, 3, N - 1, N, N + 1, N + 2, 2 * N} {
				if page >= 1 {
					calCheck(r, l, n, size, page)
				}
			}
			for _, page := range hugePages(size) {
				calCheck(r, l, n, size, page)
			}
			l.counts["function.long_list_cases"]++
			l.distinct[fmt.Sprintf("f:%d:%d", n, size)] = struct{}{}
		}
	}
	for _, l := range locals {
		l.merge(r)
	}
}

// ---- leg V ------------------------------------------------------------------------------

type shadowTxn struct {
	hash  cipher.SHA256
	seq   uint64 // block sequence; ^0 for unconfirmed
	addrs map[cipher.Address]bool
}

type utxo struct {
	hash  cipher.SHA256
	owner int // index into keys
	coins uint64
	ux    coin.UxOut
}

type fixture struct {
	dir    string
	v      *visor.Visor
	closer func()
	addrs  []cipher.Address
	secs   []cipher.SecKey
	txns   []shadowTxn
}

func buildFixture(r *vf.Run, nBlocks int, nUnconfirmed int) (*fixture, error) {
	fx := &fixture{dir: vf.TempDir("c29")}
	db, err := visor.OpenDB(filepath.Join(fx.dir, "data.db"), false)
	if err != nil {
		return fx, err
	}
	fx.closer = func() { db.Close() }
	rng := r.Rand("fixture")
	seed := make([]byte, 32)
	rng.Read(seed)
	pub, sec := cipher.MustGenerateDeterministicKeyPair(seed)
	const nAddr = 7
	fx.secs = append([]cipher.SecKey{sec}, cipher.MustGenerateDeterministicKeyPairs(append(seed, 1), nAddr-1)...)
	for _, s := range fx.secs {
		fx.addrs = append(fx.addrs, cipher.AddressFromPubKey(cipher.MustPubKeyFromSecKey(s)))
	}
	_, unrelated := cipher.MustGenerateDeterministicKeyPair(append(seed, 2))
	cfg := visor.NewConfig()
	cfg.IsBlockPublisher = true
	cfg.BlockchainPubkey = pub
	cfg.BlockchainSeckey = sec
	cfg.GenesisAddress = fx.addrs[0]
	cfg.GenesisTimestamp = 1500000000
	cfg.GenesisCoinVolume = 100e12
	cfg.Distribution = params.Distribution{
		MaxCoinSupply:        100e6,
		InitialUnlockedCount: 1,
		UnlockAddressRate:    1,
		UnlockTimeInterval:   1,
		Addresses:            []string{cipher.AddressFromPubKey(cipher.MustPubKeyFromSecKey(unrelated)).String()},
	}
	v, err := visor.New(cfg, db, nil)
	if err != nil {
		return fx, err
	}
	if err := v.Init(); err != nil {
		return fx, err
	}
	fx.v = v
	gb, err := v.GetSignedBlockBySeq(0)
	if err != nil {
		return fx, err
	}
	if gb == nil {
		return fx, fmt.Errorf("no genesis block after Init")
	}
	gtxn := gb.Body.Transactions[0]
	fx.txns = append(fx.txns, shadowTxn{hash: gtxn.Hash(), seq: 0, addrs: map[cipher.Address]bool{fx.addrs[0]: true}})
	uxs := coin.CreateUnspents(gb.Head, gtxn)
	pool := []utxo{{hash: uxs[0].Hash(), owner: 0, coins: uxs[0].Body.Coins, ux: uxs[0]}}
	headTime := gb.Head.Time

	mkTxn := func() (coin.Transaction, []utxo, map[cipher.Address]bool, int, error) {
		// spend the richest output of a random owner among the 3 richest outputs
		sort.Slice(pool, func(i, j int) bool { return pool[i].coins > pool[j].coins })
		k := rng.Intn(3)
		if k >= len(pool) {
			k = 0
		}
		in := pool[k]
		hours, err := in.ux.CoinHours(headTime)
		if err != nil {
			return coin.Transaction{}, nil, nil, 0, err
		}
		var txn coin.Transaction
		if err := txn.PushInput(in.hash); err != nil {
			return txn, nil, nil, 0, err
		}
		involved := map[cipher.Address]bool{fx.addrs[in.owner]: true}
		// one payment of a whole number of coins to a random address, change to a random address
		dst := rng.Intn(nAddr)
		chg := rng.Intn(nAddr)
		pay := (in.coins / 1e6 / uint64(3+rng.Intn(6))) * 1e6
		if pay == 0 || in.coins-pay == 0 {
			return txn, nil, nil, 0, fmt.Errorf("fixture ran out of coins")
		}
		outHours := hours / 4
		if err := txn.PushOutput(fx.addrs[dst], pay, outHours); err != nil {
			return txn, nil, nil, 0, err
		}
		if err := txn.PushOutput(fx.addrs[chg], in.coins-pay, outHours); err != nil {
			return txn, nil, nil, 0, err
		}
		involved[fx.addrs[dst]] = true
		involved[fx.addrs[chg]] = true
		txn.SignInputs([]cipher.SecKey{fx.secs[in.owner]})
		if err := txn.UpdateHeader(); err != nil {
			return txn, nil, nil, 0, err
		}
		outs := []utxo{{owner: dst, coins: pay}, {owner: chg, coins: in.coins - pay}}
		return txn, outs, involved, k, nil
	}

	for b := 1; b <= nBlocks; b++ {
		txn, outs, involved, k, err := mkTxn()
		if err != nil {
			return fx, err
		}
		if _, _, _, err := v.InjectUserTransaction(txn); err != nil {
			return fx, fmt.Errorf("inject block %d: %v", b, err)
		}
		when := headTime + 50000 + uint64(rng.Intn(50000))
		sb, err := v.VerifCreateAndExecuteBlock(when)
		if err != nil {
			return fx, fmt.Errorf("create block %d: %v", b, err)
		}
		if len(sb.Body.Transactions) != 1 || sb.Body.Transactions[0].Hash() != txn.Hash() {
			return fx, fmt.Errorf("block %d does not contain exactly the injected transaction", b)
		}
		headTime = sb.Head.Time
		pool = append(pool[:k], pool[k+1:]...)
		nux := coin.CreateUnspents(sb.Head, sb.Body.Transactions[0])
		for i := range outs {
			outs[i].ux = nux[i]
			outs[i].hash = nux[i].Hash()
			pool = append(pool, outs[i])
		}
		fx.txns = append(fx.txns, shadowTxn{hash: txn.Hash(), seq: sb.Head.BkSeq, addrs: involved})
	}
	// unconfirmed transactions: spend distinct outputs, stay in the pool
	for u := 0; u < nUnconfirmed; u++ {
		txn, _, involved, k, err := mkTxn()
		if err != nil {
			return fx, err
		}
		if _, _, _, err := v.InjectUserTransaction(txn); err != nil {
			return fx, fmt.Errorf("inject unconfirmed %d: %v", u, err)
		}
		pool = append(pool[:k], pool[k+1:]...)
		fx.txns = append(fx.txns, shadowTxn{hash: txn.Hash(), seq: ^uint64(0), addrs: involved})
	}
	return fx, nil
}

func (fx *fixture) close() {
	if fx.closer != nil {
		fx.closer()
	}
	os.RemoveAll(fx.dir)
}

type query struct {
	addrs     []int // indexes; empty = no address filter
	confirmed int   // -1 no filter, 0 unconfirmed only, 1 confirmed only
	order     visor.SortOrder
}

func (q query) String() string {
	o := "asc"
	if q.order == visor.DescOrder {
		o = "desc"
	}
	return fmt.Sprintf("addrs=%v confirmed=%d sort=%s", q.addrs, q.confirmed, o)
}

func (fx *fixture) filters(q query) []visor.TxFilter {
	flts := []visor.TxFilter{}
	if len(q.addrs) > 0 {
		as := []cipher.Address{}
		for _, i := range q.addrs {
			as = append(as, fx.addrs[i])
		}
		flts = append(flts, visor.NewAddrsFilter(as))
	}
	if q.confirmed >= 0 {
		flts = append(flts, visor.NewConfirmedTxFilter(q.confirmed == 1))
	}
	return flts
}

// expectedSet: the transactions the shadow says the query must return (as a set)
func (fx *fixture) expectedSet(q query) map[cipher.SHA256]uint64 {
	out := map[cipher.SHA256]uint64{}
	for _, t := range fx.txns {
		unconf := t.seq == ^uint64(0)
		if q.confirmed == 1 && unconf || q.confirmed == 0 && !unconf {
			continue
		}
		if len(q.addrs) > 0 {
			hit := false
			for _, i := range q.addrs {
				if t.addrs[fx.addrs[i]] {
					hit = true
				}
			}
			if !hit {
				continue
			}
		}
		out[t.hash] = t.seq
	}
	return out
}

func hashes(txns []visor.Transaction) []string {
	out := make([]string, len(txns))
	for i, t := range txns {
		out[i] = t.Transaction.Hash().Hex()[:16]
	}
	return out
}

func legVisor(r *vf.Run) {
	nBlocks := r.Pick(70, 400)
	fx, err := buildFixture(r, nBlocks, 3)
	defer fx.close()
	if err != nil {
		r.Inconclusive("visor fixture could not be built: " + err.Error())
		return
	}
	r.Count("visor.fixture_blocks", int64(nBlocks))
	rng := r.Rand("queries")
	queries := []query{}
	for _, order := range []visor.SortOrder{visor.AscOrder, visor.DescOrder} {
		for _, conf := range []int{-1, 1, 0} {
			queries = append(queries, query{nil, conf, order})
			for a := 0; a < len(fx.addrs); a++ {
				queries = append(queries, query{[]int{a}, conf, order})
			}
			for k := 0; k < r.Pick(6, 30); k++ {
				n := 2 + rng.Intn(3)
				set := rng.Perm(len(fx.addrs))[:n]
				queries = append(queries, query{set, conf, order})
			}
			// duplicated address in the filter
			queries = append(queries, query{[]int{1, 1, 2}, conf, order})
		}
	}
	sizes := []uint64{1, 2, 3, 7, 10, 33, 99, 100}
	if !r.Quick() {
		sizes = []uint64{1, 2, 3, 4, 5, 6, 7, 8, 9, 10, 11, 13, 16, 20, 25, 32, 33, 50, 64, 75, 90, 98, 99, 100}
	}
	// queries are read-only database views and run concurrently
	vf.Parallel(len(queries), workers, func(qi int) {
		q := queries[qi]
		flts := fx.filters(q)
		attrs := func(extra ...string) map[string]string {
			m := map[string]string{"leg": "visor", "query": q.String()}
			for i := 0; i+1 < len(extra); i += 2 {
				m[extra[i]] = extra[i+1]
			}
			return m
		}
		full, _, err := fx.v.GetTransactions(flts, q.order, nil)
		if err != nil {
			r.Violation("query-error", attrs("err", err.Error(), "page", "nil"), nil)
			return
		}
		// the unpaged list: de-duplicated, and as a set what the shadow says
		want := fx.expectedSet(q)
		seen := map[cipher.SHA256]bool{}
		dup := false
		for _, t := range full {
			h := t.Transaction.Hash()
			if seen[h] {
				dup = true
			}
			seen[h] = true
		}
		if dup {
			r.Violation("duplicate-in-result-list", attrs("list", strings.Join(hashes(full), ",")), nil)
		}
		// every returned transaction must match the query according to the ledger record, and
		// every matching confirmed transaction must be returned. Pooled transactions that match
		// only through a spent output's owner may be absent: the pool indexes receiving addresses
		// only, and which pooled transactions belong to an address is not this property's subject
		setOK := true
		for h := range seen {
			if _, in := want[h]; !in {
				setOK = false
			}
		}
		for h, seq := range want {
			if seq != ^uint64(0) && !seen[h] {
				setOK = false
			}
		}
		if !setOK {
			r.Violation("result-set-differs-from-ledger", attrs("got", fmt.Sprint(len(seen)), "want", fmt.Sprint(len(want))), hashes(full))
		} else if len(seen) != len(want) {
			r.Count("visor.query_pool_txn_absent_for_sender_address", 1)
		}
		// documented order (by block sequence) for confirmed-only queries
		if q.confirmed == 1 {
			for i := 1; i < len(full); i++ {
				a, b := want[full[i-1].Transaction.Hash()], want[full[i].Transaction.Hash()]
				if q.order == visor.AscOrder && a > b || q.order == visor.DescOrder && a < b {
					r.Violation("result-list-not-ordered-by-block-seq", attrs("index", fmt.Sprint(i)), nil)
					break
				}
			}
		}
		n := uint64(len(full))
		switch {
		case n == 0:
			r.Count("visor.query_empty_list", 1)
		default:
			r.Count("visor.query_nonempty_list", 1)
		}
		if len(q.addrs) > 1 {
			r.Count("visor.query_multi_address", 1)
		}
		for _, size := range sizes {
			N := (n + size - 1) / size
			var concat []visor.Transaction
			ok := true
			pages := []uint64{}
			for p := uint64(1); p <= N+2; p++ {
				pages = append(pages, p)
			}
			pages = append(pages, hugePages(size)...)
			for _, p := range pages {
				pi, err := visor.NewPageIndex(size, p)
				if err != nil {
					r.Violation("page-index-refused", attrs("size", fmt.Sprint(size), "page", fmt.Sprint(p), "err", err.Error()), nil)
					ok = false
					continue
				}
				var got []visor.Transaction
				var total uint64
				pn, msg, frame := vf.Recover(func() { got, total, err = fx.v.GetTransactions(flts, q.order, pi) })
				r.Eval(1)
				if pn {
					r.Violation("panic", attrs("size", fmt.Sprint(size), "page", fmt.Sprint(p), "frame", frame, "msg", msg), nil)
					ok = false
					continue
				}
				if err != nil {
					r.Violation("query-error", attrs("size", fmt.Sprint(size), "page", fmt.Sprint(p), "err", err.Error()), nil)
					ok = false
					continue
				}
				if total != N {
					r.Violation("wrong-total-pages", attrs("size", fmt.Sprint(size), "page", fmt.Sprint(p), "got_total", fmt.Sprint(total), "want_total", fmt.Sprint(N), "n", fmt.Sprint(n)), nil)
					ok = false
				}
				if p <= N {
					concat = append(concat, got...)
					wantLen := size
					if p == N {
						wantLen = n - size*(N-1)
					}
					if uint64(len(got)) != wantLen {
						r.Violation("wrong-slice", attrs("size", fmt.Sprint(size), "page", fmt.Sprint(p), "got_len", fmt.Sprint(len(got)), "want_len", fmt.Sprint(wantLen), "n", fmt.Sprint(n)), nil)
						ok = false
					}
					r.Count("visor.pages_within_range", 1)
				} else {
					class := "beyond_last"
					if new(big.Int).Mul(new(big.Int).SetUint64(size), new(big.Int).SetUint64(p-1)).Cmp(bMaxU64) > 0 {
						class = "beyond_last_product_exceeds_64bit"
					}
					r.Count("visor.pages_"+class, 1)
					if len(got) != 0 {
						r.Violation("page-beyond-last-not-empty", attrs("class", class, "size", fmt.Sprint(size), "page", fmt.Sprint(p), "got_len", fmt.Sprint(len(got)), "n", fmt.Sprint(n)), hashes(got))
						ok = false
					}
				}
			}
			if ok {
				same := len(concat) == len(full)
				for i := 0; same && i < len(full); i++ {
					if concat[i].Transaction.Hash() != full[i].Transaction.Hash() {
						same = false
					}
				}
				if !same {
					r.Violation("pages-do-not-cover-list", attrs("size", fmt.Sprint(size), "n", fmt.Sprint(n), "concat", strings.Join(hashes(concat), ",")), hashes(full))
				}
			}
			r.Count("visor.lists_reassembled", 1)
			r.Distinct(fmt.Sprintf("v:%s:%d", q.String(), size))
		}
	})
	r.Sample(map[string]interface{}{"leg": "visor", "blocks": nBlocks, "addresses": len(fx.addrs), "queries": len(queries), "page_sizes": len(sizes)})
}

// apiLegTODO marks where the system/API leg plugs in.
//
// TODO(orchestrator, lib/node): start an in-process node on the same kind of fixture chain
// (lib/node), then for each query of legVisor issue
//
//	GET /api/v2/transactions?addrs=<a,b>&confirmed=<0|1>&sort=<asc|desc>&limit=<size>&page=<p>
//
// for p in 1..N+2 and hugePages(size), and apply the same four judgements as legVisor:
// page_info.total_pages == ceil(n/size); data.txns of pages 1..N concatenated == the unpaged
// visor list (txn.txid order); no duplicates; pages > N (including the huge ones) have an
// empty txns array. Report with leg="api" and the same kinds (wrong-total-pages, wrong-slice,
// page-beyond-last-not-empty, pages-do-not-cover-list) so that finding matchers carry over.
func apiLegTODO(r *vf.Run) {
	r.Extra("api_leg", "not built here: to be added through lib/node (see apiLegTODO in cmd/c29/main.go)")
}

func main() {
	logging.Disable()
	r := vf.Start("C29", "exploration")
	if p := r.ReplayPath(); p != "" {
		f := rp.Load(p, "C29")
		if f.Attrs["leg"] == "function" {
			calCheck(r, newLocal(), f.U64("n"), f.U64("size"), f.U64("page"))
		} else {
			// the visor fixture and the query list are functions of (seed, tier): run the whole leg again
			r.Seed, r.Tier = f.Seed, f.Tier
			legVisor(r)
		}
		rp.Done("C29", r.Violations())
	}
	legs := os.Getenv("VERIF_C29_LEGS") // debugging aid: "function" or "visor" runs one leg only (then floors of the other are missed)
	if legs == "" || strings.Contains(legs, "function") {
		legFunction(r)
	}
	if legs == "" || strings.Contains(legs, "visor") {
		legVisor(r)
	}
	runAPILeg(r)

	r.Sample(map[string]interface{}{"leg": "function", "n": 25, "size": 10, "page": 3, "expect": "[20,25) of 3 pages"})
	r.Sample(map[string]interface{}{"leg": "function", "n": 25, "size": 10, "page": "1844674407370955163 (= floor(2^64/10)+2)", "expect": "empty; 10*(page-1) = 2^64+14 does not fit 64 bits"})

	r.Floor("function.full_page", 100000)
	r.Floor("function.last_partial_page", 10000)
	r.Floor("function.beyond_last", 100000)
	r.Floor("function.beyond_last_product_exceeds_64bit", 100000)
	r.Floor("function.lists_reassembled", 30000)
	r.Floor("function.long_list_cases", 1000)
	r.Floor("visor.query_nonempty_list", 50)
	r.Floor("visor.query_multi_address", 20)
	r.Floor("visor.pages_within_range", 2000)
	r.Floor("visor.pages_beyond_last", 2000)
	r.Floor("visor.pages_beyond_last_product_exceeds_64bit", 2000)
	r.Floor("visor.lists_reassembled", 400)

	r.Finish("function level: every list length 0..300 (thorough 0..1500) x every page size 1..100 x pages 1..N+2 and 17 huge page numbers (2^31..2^64-1, floor(2^64/size)+-k), plus long lists up to 2^63-1, expectation in math/big; visor level: a harness-built chain (one transaction per block, 7 addresses, 3 pooled transactions) queried through Visor.GetTransactions for address sets x confirmed filter x order x page sizes x pages 1..N+2 and the huge pages; a case is distinct by (n,size) resp. (query,size)",
		"the unpaged call (page=nil) is taken as 'the result list' whose slices the pages must be; its content as a set is compared with the harness's own record of which transaction touches which address, and its order with the documented block-sequence order for confirmed-only queries",
		"one transaction per block, so that the documented order is unambiguous",
		"HTTP leg (api.go, apicross.go): a real node on a harness-built chain (1-3 transactions per block) with 17 pooled transactions; GET /api/v2/transactions for address sets x confirmed x sort x page sizes x pages 1..N+2 and the huge pages, then the full cross product verbose {absent,0,1} x sort {absent,asc,desc} x confirmed {absent,0,1} x addrs {absent, one, several} x page sizes {1,2,3,7,10, = total, > total}, all pages of every combination, walks of different combinations interleaved on the node; per combination the concatenated pages must be one list for every page size and for the verbose and plain forms, hold what the ledger and the harness's pool record say, be ordered by block sequence, and total_pages = ceil(n/size)",
		"where the pooled transactions stand among the confirmed ones is counted (api.x.walks_pooled_txns_between_confirmed_ones), not judged, unless VERIF_C29_STRICT_ORDER=1",
		"list lengths above 2^63-1 cannot occur for a Go slice and are not tried")
}
