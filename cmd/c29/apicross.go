// Leg A, second part (api.x.*): the whole parameter space of GET /api/v2/transactions.
//
// The paged list can be asked for with verbose absent/0/1, sort absent/asc/desc, confirmed
// absent/0/1 and addrs absent / one / several. For every combination and the page sizes
// 1, 2, 3, 7, 10, (list length) and (more than the list length) ALL pages 1..N+2 are fetched
// and the pages must be consecutive slices of one list:
//
//   - what the list holds comes from the harness's ledger (confirmed transactions touching the
//     addresses) and from the harness's record of what it put into the pool;
//   - its order is the documented one: by block sequence in the requested direction (ascending
//     when sort is absent), the unconfirmed transactions being the latest;
//   - the order the documentation leaves open (inside a block, among the pooled ones) is fixed
//     by the first walk of the combination: every other page size and every verbose form has
//     to give exactly that sequence again;
//   - total_pages = ceil(n/size) in every response, pages < N are full, page N holds the rest,
//     pages N+1, N+2 are empty.
//
// The walks of different combinations are interleaved on the same node (each worker steps a
// handful of walks round-robin, page by page), so that anything a handler keeps from one
// request to the next would show up in another combination's page.
package main

import (
	"encoding/json"
	"fmt"
	"net/url"
	"os"
	"sort"
	"strings"
	"sync"
	"time"

	"github.com/skycoin/skycoin/src/cipher"
	"github.com/skycoin/skycoin/src/coin"

	"verif/lib/apifix"
	"verif/lib/fix"
	"verif/lib/ledger"
	"verif/lib/vf"
)

// ---- more pooled transactions -------------------------------------------------------------

// injectPool puts up to `want` more valid transactions into the node's pool through
// POST /api/v1/injectTransaction (no broadcast) and records the accepted ones in the model's pool.
// Each pays two or three harness addresses, so that address queries see several pooled
// transactions too.
func injectPool(r *vf.Run, w *apifix.World, apiAddr string, batch, want int) {
	m := w.Model
	rng := r.Rand("api-pool", batch)
	used := map[cipher.SHA256]bool{}
	for _, e := range m.Pool {
		for _, in := range e.Txn.In {
			used[in] = true
		}
	}
	locked := w.Chain.LockedAddrs()
	var sp []coin.UxOut
	for id, ux := range m.Utxo {
		if used[id] || locked[ux.Body.Address] || ux.Body.Coins < 8e6 || ux.Body.Coins%1e6 != 0 {
			continue
		}
		if _, ok := w.Chain.KeyFor(ux.Body.Address); !ok {
			continue
		}
		h, _ := ledger.Accrued(ux, m.HeadTime())
		if !h.IsUint64() || h.Uint64() < 16 || h.Uint64() > 1<<50 {
			continue
		}
		sp = append(sp, ux)
	}
	sort.Slice(sp, func(i, j int) bool {
		a, b := ledger.UxID(sp[i]), ledger.UxID(sp[j])
		return string(a[:]) < string(b[:])
	})
	rng.Shuffle(len(sp), func(i, j int) { sp[i], sp[j] = sp[j], sp[i] })
	keys := w.Chain.Keys
	done := 0
	for _, ux := range sp {
		if done >= want {
			break
		}
		hb, _ := ledger.Accrued(ux, m.HeadTime())
		hours := hb.Uint64()
		nd := uint64(2 + rng.Intn(2))
		perm := rng.Perm(len(keys))
		whole := ux.Body.Coins / 1e6
		unit := whole / (nd * (nd + 1) / 2)
		var outs []fix.Out
		var given uint64
		for i := uint64(0); i < nd; i++ {
			c := unit * (i + 1) * 1e6
			outs = append(outs, fix.Out{Addr: keys[perm[i]].Addr, Coins: c, Hours: hours/2/nd + i})
			given += c
		}
		outs[0].Coins += ux.Body.Coins - given
		t := w.Chain.MakeTxn([]coin.UxOut{ux}, outs)
		raw, err := t.Serialize()
		if err != nil {
			continue
		}
		body, _ := json.Marshal(map[string]interface{}{"rawtx": fmt.Sprintf("%x", raw), "no_broadcast": true})
		resp := apifix.Do(apiAddr, &apifix.Req{Method: "POST", Target: "/api/v1/injectTransaction",
			Headers: [][2]string{{"Content-Type", "application/json"}}, Body: string(body)}, 120*time.Second)
		if resp.Fail != "" || resp.Status != 200 {
			r.Count("api.x.pool_injections_refused", 1)
			continue
		}
		m.Pool[ledger.TxnHash(&t)] = &ledger.PoolEntry{Txn: t, Valid: true}
		done++
		r.Count("api.x.pool_injections_accepted", 1)
	}
}

// ---- the cross product --------------------------------------------------------------------

type xBase struct {
	setName   string
	addrs     []cipher.Address
	sort      string // "", "asc", "desc"
	confirmed string // "", "0", "1"
}

func (b xBase) String() string {
	q := func(s string) string {
		if s == "" {
			return "absent"
		}
		return s
	}
	return fmt.Sprintf("%s confirmed=%s sort=%s", b.setName, q(b.confirmed), q(b.sort))
}

type xItem struct {
	txid      string
	confirmed bool
	seq       uint64
}

type xPage struct {
	ok       bool
	total    uint64
	size     uint64
	current  uint64
	items    []xItem
	inputObj int // 1 = the first input of the first transaction is an object (verbose form), 0 = a string, -1 = none seen
}

type xWalk struct {
	base    int
	verbose string // "", "0", "1"
	size    uint64
	maxN    uint64 // the most pages the ledger allows for this walk (+ slack): bound for a wrong total_pages
	pages   []xPage
	next    uint64 // next page number to ask for (1-based); 0 = finished
	failed  bool
}

func (wk *xWalk) target(b xBase, page uint64) string {
	v := url.Values{}
	if len(b.addrs) > 0 {
		var s []string
		for _, a := range b.addrs {
			s = append(s, a.String())
		}
		v.Set("addrs", strings.Join(s, ","))
	}
	if b.confirmed != "" {
		v.Set("confirmed", b.confirmed)
	}
	if b.sort != "" {
		v.Set("sort", b.sort)
	}
	if wk.verbose != "" {
		v.Set("verbose", wk.verbose)
	}
	v.Set("limit", fmt.Sprint(wk.size))
	v.Set("page", fmt.Sprint(page))
	return "/api/v2/transactions?" + v.Encode()
}

type xRawPage struct {
	Data *struct {
		PageInfo struct {
			TotalPages  uint64 `json:"total_pages"`
			PageSize    uint64 `json:"page_size"`
			CurrentPage uint64 `json:"current_page"`
		} `json:"page_info"`
		Txns []struct {
			Status struct {
				Confirmed bool   `json:"confirmed"`
				BlockSeq  uint64 `json:"block_seq"`
			} `json:"status"`
			Txn struct {
				Txid   string            `json:"txid"`
				Inputs []json.RawMessage `json:"inputs"`
			} `json:"txn"`
		} `json:"txns"`
	} `json:"data"`
}

// strictOrder (VERIF_C29_STRICT_ORDER=1) also judges the documented place of the pooled transactions:
// after all confirmed ones (before them with sort=desc). Off by default: the property is about paging
var strictOrder = os.Getenv("VERIF_C29_STRICT_ORDER") == "1"

type xLimiter struct {
	mu sync.Mutex
	n  map[string]int
}

// report caps the number of violations of one kind (one defect shows in hundreds of walks)
func (l *xLimiter) report(r *vf.Run, kind string, attrs map[string]string, witness interface{}) {
	l.mu.Lock()
	l.n[kind]++
	over := l.n[kind] > 6
	l.mu.Unlock()
	if over {
		r.Count("api.x.further_violations_not_listed", 1)
		return
	}
	r.Violation(kind, attrs, witness)
}

func runAPICross(r *vf.Run, w *apifix.World, apiAddr string, confirmedSet, poolSet func([]cipher.Address) map[string]bool, seqOf map[string]uint64) {
	m := w.Model
	lim := &xLimiter{n: map[string]int{}}
	rng := r.Rand("api-cross")
	keys := w.Chain.Keys

	// pooled transactions that pay one of the addresses: the least the node must list
	poolPays := func(addrs []cipher.Address) map[string]bool {
		out := map[string]bool{}
		in := map[cipher.Address]bool{}
		for _, a := range addrs {
			in[a] = true
		}
		for h, e := range m.Pool {
			hit := len(addrs) == 0
			for _, o := range e.Txn.Out {
				if in[o.Address] {
					hit = true
				}
			}
			if hit {
				out[h.Hex()] = true
			}
		}
		return out
	}

	// addrs absent / one / several
	type aset struct {
		name  string
		addrs []cipher.Address
	}
	perm := rng.Perm(len(keys))
	sets := []aset{{name: "no-address-filter"}}
	nSingles, nSeveral := r.Pick(2, 5), r.Pick(2, 6)
	for i := 0; i < nSingles && i < len(perm); i++ {
		sets = append(sets, aset{fmt.Sprintf("key%d", perm[i]), []cipher.Address{keys[perm[i]].Addr}})
	}
	for k := 0; k < nSeveral; k++ {
		n := 2 + k%3
		var as []cipher.Address
		var nm []string
		for _, i := range rng.Perm(len(keys))[:n] {
			as = append(as, keys[i].Addr)
			nm = append(nm, fmt.Sprint(i))
		}
		if k%2 == 1 {
			as = append(as, as[0]) // an address given twice
			nm = append(nm, nm[0])
		}
		sets = append(sets, aset{"keys" + strings.Join(nm, "+"), as})
	}

	var bases []xBase
	for _, s := range sets {
		for _, conf := range []string{"", "0", "1"} {
			for _, so := range []string{"", "asc", "desc"} {
				bases = append(bases, xBase{setName: s.name, addrs: s.addrs, sort: so, confirmed: conf})
			}
		}
	}
	// the ledger's bounds for each base
	type bound struct {
		conf, must, may map[string]bool // confirmed (exact), pooled at least, pooled at most
	}
	bounds := make([]bound, len(bases))
	for i, b := range bases {
		bd := bound{conf: map[string]bool{}, must: map[string]bool{}, may: map[string]bool{}}
		if b.confirmed != "0" {
			bd.conf = confirmedSet(b.addrs)
		}
		if b.confirmed != "1" {
			bd.must, bd.may = poolPays(b.addrs), poolSet(b.addrs)
		}
		bounds[i] = bd
	}

	var walks []*xWalk
	for bi := range bases {
		lo, hi := uint64(len(bounds[bi].conf)+len(bounds[bi].must)), uint64(len(bounds[bi].conf)+len(bounds[bi].may))
		sizes := []uint64{1, 2, 3, 7, 10}
		for _, s := range []uint64{lo, hi, hi + 1, hi + 5} { // limit = total, > total (when the limit allows)
			if s >= 1 && s <= 100 {
				sizes = append(sizes, s)
			}
		}
		if !r.Quick() {
			sizes = append(sizes, 4, 5, 16, 33, 64, 99, 100)
		}
		seen := map[uint64]bool{}
		for _, size := range sizes {
			if seen[size] {
				continue
			}
			seen[size] = true
			for _, vb := range []string{"", "0", "1"} {
				walks = append(walks, &xWalk{base: bi, verbose: vb, size: size, maxN: (hi+size-1)/size + 3, next: 1})
			}
		}
	}
	// mixed order: neighbours in the list belong to different combinations
	order := rng.Perm(len(walks))
	const nWorkers, group = 8, 6
	var wg sync.WaitGroup
	for wi := 0; wi < nWorkers; wi++ {
		wg.Add(1)
		go func(wi int) {
			defer wg.Done()
			var mine []*xWalk
			for k := wi; k < len(order); k += nWorkers {
				mine = append(mine, walks[order[k]])
			}
			for g := 0; g < len(mine); g += group {
				end := g + group
				if end > len(mine) {
					end = len(mine)
				}
				active := mine[g:end]
				for live := true; live; {
					live = false
					for _, wk := range active {
						if wk.next == 0 {
							continue
						}
						live = true
						xStep(r, lim, apiAddr, bases[wk.base], wk)
					}
				}
				if len(active) > 1 {
					r.Count("api.x.interleaved_groups", 1)
				}
			}
		}(wi)
	}
	wg.Wait()

	// ---- judgement (sequential, in the fixed order of the walk list) ----
	type ref struct {
		list []string
		by   *xWalk
	}
	refs := make([]*ref, len(bases))
	plainRef := make([]*ref, len(bases)) // first non-verbose walk, first verbose walk
	verbRef := make([]*ref, len(bases))
	sampled := false
	for _, wk := range walks {
		b := bases[wk.base]
		bd := bounds[wk.base]
		at := func(extra ...string) map[string]string {
			vq := wk.verbose
			if vq == "" {
				vq = "absent"
			}
			a := map[string]string{"leg": "api-cross", "query": b.String(), "verbose": vq, "size": fmt.Sprint(wk.size)}
			for i := 0; i+1 < len(extra); i += 2 {
				a[extra[i]] = extra[i+1]
			}
			return a
		}
		if wk.failed || len(wk.pages) == 0 {
			continue
		}
		N := wk.pages[0].total
		ok := true
		var concat []xItem
		for i, p := range wk.pages {
			pg := uint64(i + 1)
			if p.total != N {
				lim.report(r, "wrong-total-pages", at("page", fmt.Sprint(pg), "got_total", fmt.Sprint(p.total), "want_total", fmt.Sprint(N), "note", "total_pages changes from page to page of one walk"), nil)
				ok = false
			}
			if p.size != wk.size || p.current != pg {
				lim.report(r, "page-info-does-not-echo-request", at("page", fmt.Sprint(pg), "got_size", fmt.Sprint(p.size), "got_page", fmt.Sprint(p.current)), nil)
			}
			switch {
			case pg < N && uint64(len(p.items)) != wk.size, pg == N && (len(p.items) == 0 || uint64(len(p.items)) > wk.size):
				lim.report(r, "wrong-slice", at("page", fmt.Sprint(pg), "got_len", fmt.Sprint(len(p.items)), "total_pages", fmt.Sprint(N)), nil)
				ok = false
			case pg > N && len(p.items) != 0:
				lim.report(r, "page-beyond-last-not-empty", at("page", fmt.Sprint(pg), "class", "beyond_last", "got_len", fmt.Sprint(len(p.items)), "total_pages", fmt.Sprint(N)), nil)
				ok = false
			}
			if pg <= N {
				concat = append(concat, p.items...)
				r.Count("api.x.pages_within_range", 1)
				nc, nu := 0, 0
				for _, it := range p.items {
					if it.confirmed {
						nc++
					} else {
						nu++
					}
				}
				if nu >= 2 {
					r.Count("api.x.pages_with_several_pooled_txns", 1)
				}
				if nc >= 2 {
					r.Count("api.x.pages_with_several_confirmed_txns", 1)
				}
				if nc >= 1 && nu >= 1 {
					r.Count("api.x.pages_with_confirmed_and_pooled_txns", 1)
				}
			} else {
				r.Count("api.x.pages_beyond_last", 1)
			}
			if p.inputObj >= 0 {
				if (wk.verbose == "1") == (p.inputObj == 1) {
					r.Count("api.x.responses_in_the_requested_form", 1)
				} else {
					r.Count("api.x.responses_in_the_other_form", 1)
				}
			}
		}
		if uint64(len(wk.pages)) < N {
			// the walk was cut at the ledger's bound: total_pages is beyond anything the ledger allows
			lim.report(r, "wrong-total-pages", at("got_total", fmt.Sprint(N), "want_max", fmt.Sprint(wk.maxN-3)), nil)
			ok = false
		}
		if !ok {
			continue
		}
		n := uint64(len(concat))
		ids := make([]string, len(concat))
		for i, it := range concat {
			ids[i] = it.txid
		}
		// exactly once
		seen := map[string]bool{}
		for _, id := range ids {
			if seen[id] {
				lim.report(r, "duplicate-in-result-list", at("txid", id), ids)
				ok = false
				break
			}
			seen[id] = true
		}
		// the ledger's list as a set (this also fixes n, hence total_pages = ceil(n/size))
		for id := range bd.conf {
			if !seen[id] {
				lim.report(r, "result-set-differs-from-ledger", at("missing", id, "class", "confirmed"), nil)
				ok = false
				break
			}
		}
		for id := range bd.must {
			if !seen[id] {
				lim.report(r, "result-set-differs-from-ledger", at("missing", id, "class", "pooled, pays one of the addresses"), nil)
				ok = false
				break
			}
		}
		for id := range seen {
			if !bd.conf[id] && !bd.may[id] {
				lim.report(r, "result-set-differs-from-ledger", at("unexpected", id), nil)
				ok = false
				break
			}
		}
		if want := (n + wk.size - 1) / wk.size; N != want {
			lim.report(r, "wrong-total-pages", at("got_total", fmt.Sprint(N), "want_total", fmt.Sprint(want), "n", fmt.Sprint(n)), nil)
			ok = false
		}
		// status as the ledger has it, and the documented order: by block sequence in the requested
		// direction. Where the pooled transactions stand among the confirmed ones is observed, not
		// judged (see strictOrder)
		desc := b.sort == "desc"
		witness := func() []string {
			var wit []string
			for _, x := range concat {
				if x.confirmed {
					wit = append(wit, fmt.Sprintf("%s block %d", x.txid[:16], x.seq))
				} else {
					wit = append(wit, x.txid[:16]+" unconfirmed")
				}
			}
			return wit
		}
		var prevConf *xItem
		pooledNotLatest := false
		for i := range concat {
			it := concat[i]
			_, isConf := seqOf[it.txid]
			if it.confirmed != isConf || isConf && it.seq != seqOf[it.txid] {
				lim.report(r, "listed-status-differs-from-ledger", at("txid", it.txid, "got_confirmed", fmt.Sprint(it.confirmed), "got_seq", fmt.Sprint(it.seq)), nil)
				ok = false
				break
			}
			if i > 0 && (!desc && !concat[i-1].confirmed && it.confirmed || desc && concat[i-1].confirmed && !it.confirmed) {
				pooledNotLatest = true
			}
			if !it.confirmed {
				continue
			}
			if prevConf != nil && (!desc && prevConf.seq > it.seq || desc && prevConf.seq < it.seq) {
				lim.report(r, "result-list-not-ordered-by-block-seq", at("index", fmt.Sprint(i), "n", fmt.Sprint(n), "class", "confirmed-out-of-order"), witness())
				ok = false
				break
			}
			prevConf = &concat[i]
		}
		if pooledNotLatest {
			// README: "If there are unconfirmed transactions, they will be appended after the confirmed
			// transactions" - the unchanged tree does not do that for every query (reported as a defect of
			// its own; the paging property does not depend on it)
			r.Count("api.x.walks_pooled_txns_between_confirmed_ones", 1)
			if strictOrder {
				lim.report(r, "result-list-not-ordered-by-block-seq", at("n", fmt.Sprint(n), "class", "unconfirmed-not-latest"), witness())
				ok = false
			}
		}
		// one list whatever the page size and the form
		// (the first walk of a combination is the one with page size 1, where a page cannot be
		// re-ordered inside; walks of the same form are compared with the first of that form, the
		// first walk of the verbose form with the first walk of the plain form)
		key := strings.Join(ids, ",")
		mine := &plainRef[wk.base]
		if wk.verbose == "1" {
			mine = &verbRef[wk.base]
		}
		switch {
		case *mine != nil:
			if strings.Join((*mine).list, ",") != key {
				lim.report(r, "pages-do-not-cover-list", at("n", fmt.Sprint(n), "reference_size", fmt.Sprint((*mine).by.size)), map[string]interface{}{"reference": (*mine).list, "concat": ids})
				ok = false
			}
		default:
			*mine = &ref{list: ids, by: wk}
			if refs[wk.base] == nil {
				refs[wk.base] = *mine
			} else if strings.Join(refs[wk.base].list, ",") != key {
				lim.report(r, "verbose-and-plain-lists-differ", at("n", fmt.Sprint(n), "reference_size", fmt.Sprint(refs[wk.base].by.size)), map[string]interface{}{"plain": refs[wk.base].list, "verbose": ids})
				ok = false
			}
		}
		if !ok {
			continue
		}
		r.Count("api.x.walks_reassembled", 1)
		r.Count("api.x.walks_verbose_"+map[string]string{"": "absent", "0": "0", "1": "1"}[wk.verbose], 1)
		r.Count("api.x.walks_sort_"+map[string]string{"": "absent", "asc": "asc", "desc": "desc"}[b.sort], 1)
		r.Count("api.x.walks_confirmed_"+map[string]string{"": "absent", "0": "0", "1": "1"}[b.confirmed], 1)
		switch {
		case len(b.addrs) == 0:
			r.Count("api.x.walks_addrs_absent", 1)
		case len(b.addrs) == 1:
			r.Count("api.x.walks_addrs_one", 1)
		default:
			r.Count("api.x.walks_addrs_several", 1)
		}
		switch {
		case n == 0:
			r.Count("api.x.walks_of_an_empty_list", 1)
		case n > 1 && wk.size == n:
			r.Count("api.x.walks_limit_equals_total", 1)
		case n > 1 && wk.size > n:
			r.Count("api.x.walks_limit_above_total", 1)
		case N >= 2:
			r.Count("api.x.walks_multi_page", 1)
		}
		if wk.verbose == "1" && desc && N >= 2 && wk.size >= 2 {
			r.Count("api.x.walks_verbose_desc_multi_page", 1)
		}
		r.Distinct(fmt.Sprintf("x:%s:v%s:%d", b.String(), wk.verbose, wk.size))
		if !sampled && wk.verbose == "1" && desc && b.confirmed == "" && wk.size == 3 && n > 9 {
			sampled = true
			r.Sample(map[string]interface{}{"leg": "api-cross", "query": b.String(), "verbose": "1", "size": 3, "n": n, "total_pages": N,
				"first_page": ids[:3], "first_page_confirmed": []bool{concat[0].confirmed, concat[1].confirmed, concat[2].confirmed}})
		}
	}

	// documented defaults: sort absent = asc (the same list)
	for i, b := range bases {
		if b.sort != "" || refs[i] == nil {
			continue
		}
		for j, c := range bases {
			if c.sort == "asc" && c.setName == b.setName && c.confirmed == b.confirmed && refs[j] != nil {
				r.Count("api.x.default_sort_compared", 1)
				if strings.Join(refs[i].list, ",") != strings.Join(refs[j].list, ",") {
					lim.report(r, "default-sort-differs-from-asc", map[string]string{"leg": "api-cross", "query": b.String()}, map[string]interface{}{"absent": refs[i].list, "asc": refs[j].list})
				}
			}
		}
	}
	r.Count("api.x.combinations", int64(len(bases)*3))
	r.Count("api.x.pooled_txns_in_the_node", int64(len(m.Pool)))

	nb := int64(len(bases) * 3)
	r.Floor("api.x.pool_injections_accepted", 8)
	r.Floor("api.x.walks_reassembled", nb*5)
	for _, k := range []string{"verbose_absent", "verbose_0", "verbose_1", "sort_absent", "sort_asc", "sort_desc", "confirmed_absent", "confirmed_0", "confirmed_1"} {
		r.Floor("api.x.walks_"+k, int64(len(bases)*5))
	}
	r.Floor("api.x.walks_addrs_absent", 100)
	r.Floor("api.x.walks_addrs_one", 150)
	r.Floor("api.x.walks_addrs_several", 150)
	r.Floor("api.x.walks_multi_page", nb*2)
	r.Floor("api.x.walks_verbose_desc_multi_page", 20)
	r.Floor("api.x.walks_limit_equals_total", 20)
	r.Floor("api.x.walks_limit_above_total", 20)
	r.Floor("api.x.pages_within_range", 5000)
	r.Floor("api.x.pages_beyond_last", 1200)
	r.Floor("api.x.pages_with_several_pooled_txns", 300)
	r.Floor("api.x.pages_with_several_confirmed_txns", 1000)
	r.Floor("api.x.pages_with_confirmed_and_pooled_txns", 50)
	r.Floor("api.x.responses_in_the_requested_form", 5000)
	r.Floor("api.x.interleaved_groups", 50)
	r.Floor("api.x.default_sort_compared", int64(len(sets)*3))
}

// xStep fetches the next page of a walk
func xStep(r *vf.Run, lim *xLimiter, apiAddr string, b xBase, wk *xWalk) {
	pg := wk.next
	t := wk.target(b, pg)
	resp := apifix.Do(apiAddr, &apifix.Req{Method: "GET", Target: t}, 120*time.Second)
	r.Eval(1)
	r.Count("api.x.requests", 1)
	attrs := map[string]string{"leg": "api-cross", "query": b.String(), "verbose": wk.verbose, "size": fmt.Sprint(wk.size), "page": fmt.Sprint(pg)}
	if resp.Fail != "" {
		attrs["failure"] = resp.Fail + " " + resp.Detail
		lim.report(r, "api-no-response", attrs, t)
		wk.failed, wk.next = true, 0
		return
	}
	var p xRawPage
	if err := json.Unmarshal(resp.Body, &p); err != nil || resp.Status != 200 || p.Data == nil {
		attrs["status"] = fmt.Sprint(resp.Status)
		body := string(resp.Body)
		if len(body) > 200 {
			body = body[:200]
		}
		attrs["body"] = body
		lim.report(r, "query-error", attrs, t)
		wk.failed, wk.next = true, 0
		return
	}
	xp := xPage{ok: true, total: p.Data.PageInfo.TotalPages, size: p.Data.PageInfo.PageSize, current: p.Data.PageInfo.CurrentPage, inputObj: -1}
	for i, tx := range p.Data.Txns {
		xp.items = append(xp.items, xItem{txid: tx.Txn.Txid, confirmed: tx.Status.Confirmed, seq: tx.Status.BlockSeq})
		if i == 0 && len(tx.Txn.Inputs) > 0 {
			xp.inputObj = 0
			if s := strings.TrimSpace(string(tx.Txn.Inputs[0])); strings.HasPrefix(s, "{") {
				xp.inputObj = 1
			}
		}
	}
	wk.pages = append(wk.pages, xp)
	// pages 1..N+2, N as the first response reports it (never beyond what the ledger allows)
	N := wk.pages[0].total
	if N > wk.maxN {
		N = wk.maxN
	}
	if pg >= N+2 {
		wk.next = 0
	} else {
		wk.next = pg + 1
	}
}
