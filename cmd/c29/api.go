// Leg A of c29 (HTTP API): GET /api/v2/transactions on a real node (cmd/vnode child) whose chain
// the harness built itself and recorded in its shadow ledger (lib/apifix world + lib/ledger).
// For address sets with known result lists the pages 1..N must be consecutive slices of one
// ordered, de-duplicated list: together they cover it exactly once (the same list for every
// page size), page_info.total_pages = N = ceil(n/size), and every page beyond N - including
// 2^31, 2^63, 2^64-1 and the numbers whose product with the size wraps - is empty.
package main

import (
	"encoding/json"
	"fmt"
	"math/big"
	"net/url"
	"os"
	"path/filepath"
	"sort"
	"strings"
	"sync"
	"time"

	"github.com/skycoin/skycoin/src/cipher"

	"verif/lib/apifix"
	"verif/lib/node"
	"verif/lib/vf"
)

type apiPage struct {
	Data *struct {
		PageInfo struct {
			TotalPages  uint64 `json:"total_pages"`
			PageSize    uint64 `json:"page_size"`
			CurrentPage uint64 `json:"current_page"`
		} `json:"page_info"`
		Txns []struct {
			Status struct {
				Confirmed bool   `json:"confirmed"`
				BlockSeq  uint64 `json:"block_seq"`
			} `json:"status"`
			Txn struct {
				Txid string `json:"txid"`
			} `json:"txn"`
		} `json:"txns"`
	} `json:"data"`
	Error *struct {
		Message string `json:"message"`
		Code    int    `json:"code"`
	} `json:"error"`
}

type apiQuery struct {
	name      string
	addrs     []cipher.Address
	confirmed bool // confirmed=1 (the ledger knows the exact list); false = parameter absent (pool included)
	desc      bool
}

func (q apiQuery) target(size, page uint64) string {
	v := url.Values{}
	if len(q.addrs) > 0 {
		var s []string
		for _, a := range q.addrs {
			s = append(s, a.String())
		}
		v.Set("addrs", strings.Join(s, ","))
	}
	if q.confirmed {
		v.Set("confirmed", "1")
	}
	if q.desc {
		v.Set("sort", "desc")
	} else {
		v.Set("sort", "asc")
	}
	v.Set("limit", fmt.Sprint(size))
	v.Set("page", fmt.Sprint(page))
	return "/api/v2/transactions?" + v.Encode()
}

func (q apiQuery) String() string {
	o := "asc"
	if q.desc {
		o = "desc"
	}
	return fmt.Sprintf("%s confirmed=%v sort=%s", q.name, q.confirmed, o)
}

func runAPILeg(r *vf.Run) {
	vnode := filepath.Join(os.Getenv("VERIF_BIN"), "vnode")
	if _, err := os.Stat(vnode); err != nil {
		r.Inconclusive("api leg: vnode binary not found (cmd/c29/build.txt must list `vnode ./cmd/vnode`): " + err.Error())
		return
	}
	w, err := apifix.BuildWorld(apifix.WorldConfig{Tag: "c29", Seed: r.SubSeed("api-world"), Blocks: r.Pick(60, 220), Wallets: false, Pool: true})
	if err != nil {
		r.Inconclusive("api leg: world: " + err.Error())
		return
	}
	defer w.Remove()
	tmp := vf.TempDir("c29api")
	defer os.RemoveAll(tmp)
	data := filepath.Join(tmp, "data")
	if err := w.CopyTo(data); err != nil {
		r.Inconclusive("api leg: " + err.Error())
		return
	}
	o := w.NodeOptions(data)
	o.DisableCSRF = true
	o.DisableNetworking = true
	proc, err := node.Spawn(vnode, tmp, o)
	if err != nil {
		r.Inconclusive("api leg: node: " + err.Error())
		return
	}
	defer proc.Stop(20 * time.Second)
	m := w.Model
	r.Count("api.fixture_blocks", int64(len(m.Blocks)-1))
	r.Count("api.fixture_confirmed_txns", int64(len(m.TxOrder)))

	// what the ledger says: confirmed transactions touching a set of addresses, de-duplicated
	seqOf := map[string]uint64{}
	for h, rec := range m.Txns {
		seqOf[h.Hex()] = rec.Seq
	}
	confirmedSet := func(addrs []cipher.Address) map[string]bool {
		out := map[string]bool{}
		if len(addrs) == 0 {
			for _, h := range m.TxOrder {
				out[h.Hex()] = true
			}
			return out
		}
		for _, a := range addrs {
			for _, h := range m.AddrTxns(a) {
				out[h.Hex()] = true
			}
		}
		return out
	}
	// pooled transactions that touch the set (as sender or receiver): the most the node may add
	poolSet := func(addrs []cipher.Address) map[string]bool {
		out := map[string]bool{}
		in := map[cipher.Address]bool{}
		for _, a := range addrs {
			in[a] = true
		}
		for h, e := range m.Pool {
			hit := len(addrs) == 0
			for _, o := range e.Txn.Out {
				if in[o.Address] {
					hit = true
				}
			}
			for _, i := range e.Txn.In {
				if ux, ok := m.AllOuts[i]; ok && in[ux.Body.Address] {
					hit = true
				}
			}
			if hit {
				out[h.Hex()] = true
			}
		}
		return out
	}

	// more pooled transactions (the world leaves three): a first batch now, a second one after the
	// walks below, so that the pool holds transactions received at different times
	injectPool(r, w, proc.APIAddr, 1, 7)

	// queries
	rng := r.Rand("api-queries")
	var sets []apiQuery
	keys := w.Chain.Keys
	for i, k := range keys {
		sets = append(sets, apiQuery{name: fmt.Sprintf("key%d", i), addrs: []cipher.Address{k.Addr}})
	}
	sets = append(sets, apiQuery{name: "genesis-address", addrs: []cipher.Address{w.Chain.Genesis.Addr}})
	for k := 0; k < r.Pick(4, 14); k++ {
		n := 2 + rng.Intn(3)
		var as []cipher.Address
		var nm []string
		for _, i := range rng.Perm(len(keys))[:n] {
			as = append(as, keys[i].Addr)
			nm = append(nm, fmt.Sprint(i))
		}
		sets = append(sets, apiQuery{name: "keys" + strings.Join(nm, "+"), addrs: as})
	}
	sets = append(sets, apiQuery{name: "duplicated-address", addrs: []cipher.Address{keys[1].Addr, keys[1].Addr, keys[2].Addr}})
	unk, _ := cipher.MustGenerateDeterministicKeyPair([]byte("c29 api unknown address"))
	sets = append(sets, apiQuery{name: "unknown-address", addrs: []cipher.Address{cipher.AddressFromPubKey(unk)}})
	sets = append(sets, apiQuery{name: "no-address-filter"})
	var queries []apiQuery
	for _, s := range sets {
		for _, conf := range []bool{true, false} {
			for _, desc := range []bool{false, true} {
				q := s
				q.confirmed, q.desc = conf, desc
				queries = append(queries, q)
			}
		}
	}
	sizes := []uint64{1, 3, 10, 100}
	if !r.Quick() {
		sizes = []uint64{1, 2, 3, 5, 7, 10, 16, 33, 64, 99, 100}
	}

	var sampleOnce sync.Once
	get := func(q apiQuery, size, page uint64) (*apiPage, bool) {
		t := q.target(size, page)
		resp := apifix.Do(proc.APIAddr, &apifix.Req{Method: "GET", Target: t}, 120*time.Second)
		r.Eval(1)
		r.Count("api.requests", 1)
		attrs := map[string]string{"leg": "api", "query": q.String(), "size": fmt.Sprint(size), "page": fmt.Sprint(page)}
		if resp.Fail != "" {
			attrs["failure"] = resp.Fail + " " + resp.Detail
			r.Violation("api-no-response", attrs, t)
			return nil, false
		}
		var p apiPage
		if err := json.Unmarshal(resp.Body, &p); err != nil || resp.Status != 200 || p.Data == nil {
			attrs["status"] = fmt.Sprint(resp.Status)
			body := string(resp.Body)
			if len(body) > 200 {
				body = body[:200]
			}
			attrs["body"] = body
			r.Violation("query-error", attrs, t)
			return nil, false
		}
		return &p, true
	}

	vf.Parallel(len(queries), 8, func(qi int) {
		q := queries[qi]
		attrs := func(extra ...string) map[string]string {
			a := map[string]string{"leg": "api", "query": q.String()}
			for i := 0; i+1 < len(extra); i += 2 {
				a[extra[i]] = extra[i+1]
			}
			return a
		}
		conf := confirmedSet(q.addrs)
		pool := poolSet(q.addrs)
		var reference []string // the concatenation for the first page size; every other size must give the same list
		var n uint64
		nKnown := false
		if q.confirmed {
			n, nKnown = uint64(len(conf)), true
		}
		for _, size := range sizes {
			if !nKnown {
				// the list length is what page size 1 reports; it must lie between the ledger's bounds
				p, ok := get(q, 1, 1)
				if !ok {
					return
				}
				n, nKnown = p.Data.PageInfo.TotalPages, true
				if n < uint64(len(conf)) || n > uint64(len(conf)+len(pool)) {
					r.Violation("result-set-differs-from-ledger", attrs("got", fmt.Sprint(n), "want_min", fmt.Sprint(len(conf)), "want_max", fmt.Sprint(len(conf)+len(pool))), nil)
					return
				}
			}
			N := (n + size - 1) / size
			var pages []uint64
			for p := uint64(1); p <= N+2; p++ {
				pages = append(pages, p)
			}
			pages = append(pages, hugePages(size)...)
			var concat []string
			ok := true
			for _, pg := range pages {
				p, got := get(q, size, pg)
				if !got {
					ok = false
					continue
				}
				pa := func(extra ...string) map[string]string {
					return attrs(append([]string{"size", fmt.Sprint(size), "page", fmt.Sprint(pg), "n", fmt.Sprint(n)}, extra...)...)
				}
				if p.Data.PageInfo.TotalPages != N {
					r.Violation("wrong-total-pages", pa("got_total", fmt.Sprint(p.Data.PageInfo.TotalPages), "want_total", fmt.Sprint(N)), nil)
					ok = false
				}
				if p.Data.PageInfo.PageSize != size || p.Data.PageInfo.CurrentPage != pg {
					r.Violation("page-info-does-not-echo-request", pa("got_size", fmt.Sprint(p.Data.PageInfo.PageSize), "got_page", fmt.Sprint(p.Data.PageInfo.CurrentPage)), nil)
				}
				if pg <= N {
					want := size
					if pg == N {
						want = n - size*(N-1)
					}
					if uint64(len(p.Data.Txns)) != want {
						r.Violation("wrong-slice", pa("got_len", fmt.Sprint(len(p.Data.Txns)), "want_len", fmt.Sprint(want)), nil)
						ok = false
					}
					for _, t := range p.Data.Txns {
						concat = append(concat, t.Txn.Txid)
					}
					r.Count("api.pages_within_range", 1)
				} else {
					class := "beyond_last"
					if new(big.Int).Mul(new(big.Int).SetUint64(size), new(big.Int).SetUint64(pg-1)).Cmp(bMaxU64) > 0 {
						class = "beyond_last_product_exceeds_64bit"
					}
					r.Count("api.pages_"+class, 1)
					if len(p.Data.Txns) != 0 {
						var ids []string
						for _, t := range p.Data.Txns {
							ids = append(ids, t.Txn.Txid[:16])
						}
						r.Violation("page-beyond-last-not-empty", pa("class", class, "got_len", fmt.Sprint(len(p.Data.Txns))), ids)
						ok = false
					}
				}
			}
			if !ok {
				continue
			}
			// exactly once
			seen := map[string]bool{}
			for _, id := range concat {
				if seen[id] {
					r.Violation("duplicate-in-result-list", attrs("size", fmt.Sprint(size), "txid", id), concat)
					ok = false
					break
				}
				seen[id] = true
			}
			// the ledger's set (every confirmed match present; nothing but confirmed or pooled matches)
			for id := range conf {
				if !seen[id] {
					r.Violation("result-set-differs-from-ledger", attrs("size", fmt.Sprint(size), "missing", id), nil)
					ok = false
					break
				}
			}
			for id := range seen {
				if !conf[id] && (q.confirmed || !pool[id]) {
					r.Violation("result-set-differs-from-ledger", attrs("size", fmt.Sprint(size), "unexpected", id), nil)
					ok = false
					break
				}
			}
			// documented order: by block sequence; unconfirmed ones after the confirmed ones
			var confirmedIDs []string
			for _, id := range concat {
				if conf[id] {
					confirmedIDs = append(confirmedIDs, id)
				}
			}
			sorted := sort.SliceIsSorted(confirmedIDs, func(i, j int) bool {
				if q.desc {
					return seqOf[confirmedIDs[i]] > seqOf[confirmedIDs[j]]
				}
				return seqOf[confirmedIDs[i]] < seqOf[confirmedIDs[j]]
			})
			if !sorted {
				r.Violation("result-list-not-ordered-by-block-seq", attrs("size", fmt.Sprint(size)), concat)
				ok = false
			}
			// one list, whatever the page size
			if reference == nil {
				reference = append([]string{}, concat...)
			} else if strings.Join(reference, ",") != strings.Join(concat, ",") {
				r.Violation("pages-do-not-cover-list", attrs("size", fmt.Sprint(size), "n", fmt.Sprint(n), "reference_size", fmt.Sprint(sizes[0])), map[string]interface{}{"reference": reference, "concat": concat})
				ok = false
			}
			if ok {
				r.Count("api.lists_reassembled", 1)
				if n == 0 {
					r.Count("api.empty_lists_reassembled", 1)
				}
				if n > size {
					r.Count("api.multi_page_lists_reassembled", 1)
				}
				if len(q.addrs) > 1 {
					r.Count("api.multi_address_lists_reassembled", 1)
				}
				r.Distinct(fmt.Sprintf("a:%s:%d", q.String(), size))
			}
			if size == 3 && n > 6 {
				sampleOnce.Do(func() {
					r.Sample(map[string]interface{}{"leg": "api", "query": q.String(), "n": n, "size": size, "total_pages": N, "first_page": concat[:3], "huge_pages_probed": len(hugePages(size))})
				})
			}
		}
	})
	// the whole parameter space (verbose x sort x confirmed x addrs x page size), all pages, interleaved
	injectPool(r, w, proc.APIAddr, 2, 7)
	runAPICross(r, w, proc.APIAddr, confirmedSet, poolSet, seqOf)

	r.Floor("api.requests", int64(r.Pick(3000, 30000)))
	r.Floor("api.lists_reassembled", int64(r.Pick(100, 800)))
	r.Floor("api.multi_page_lists_reassembled", int64(r.Pick(50, 400)))
	r.Floor("api.multi_address_lists_reassembled", int64(r.Pick(20, 150)))
	r.Floor("api.pages_beyond_last", 1000)
	r.Floor("api.pages_beyond_last_product_exceeds_64bit", 500)
	r.Floor("api.empty_lists_reassembled", 4)
}
