package main

// Aliasing oracles. The statement compares decoded VALUES and encoded BYTES; a value that is
// only equal to the reference's until the caller reuses its input buffer (or bytes that change
// when the caller keeps using its object) is not the same value. After every successful
// generated decode from a private scratch copy of the input the scratch is overwritten and the
// value must still equal the reference-decoded value and re-encode to the same bytes; no decode
// may write to its input; after encoding, the object is rewritten in place and the encoded bytes
// must not change, and the encoded bytes are rewritten and the object must not change.

import (
	"bytes"
	"fmt"
	"math"
	"reflect"

	"github.com/skycoin/skycoin/src/cipher/encoder"
)

const scratchTail = 8

// scratchOf copies x into a private buffer with a few guard bytes of spare capacity
func scratchOf(x []byte) []byte {
	s := make([]byte, len(x)+scratchTail)
	copy(s, x)
	for i := len(x); i < len(s); i++ {
		s[i] = 0xa5
	}
	return s[:len(x)]
}

// scratchIntact: the decoder left the buffer (and the memory behind it) as it was
func scratchIntact(s, x []byte) bool {
	if !bytes.Equal(s, x) {
		return false
	}
	for _, b := range s[len(s):cap(s)] {
		if b != 0xa5 {
			return false
		}
	}
	return true
}

// overwrite changes every byte the caller owns (what a reader reusing its buffer does)
func overwrite(s []byte) {
	s = s[:cap(s)]
	for i := range s {
		s[i] ^= 0xff
	}
}

// inputUntouched reports a decoder that wrote to its input (whether or not it succeeded)
func (e *evaluator) inputUntouched(api string, scratch, x []byte, gk, mut string) {
	if scratchIntact(scratch, x) {
		return
	}
	e.cnt("input_modified", 1)
	e.report("decode-modified-input", map[string]string{"api": api, "gen": gk, "mut": mut}, x,
		map[string]string{"buffer_after_hex": hexCap(scratch[:cap(scratch)])})
	copy(scratch, x)
}

// decodedSurvives: called after a successful generated decode from scratch whose value equals
// the reference's value ref. enc is the re-encoding taken before (nil: not taken).
func (e *evaluator) decodedSurvives(api, counter string, x, scratch []byte, ref, got interface{}, enc []byte, mut string) {
	overwrite(scratch)
	e.cnt(counter, 1)
	if !reflect.DeepEqual(ref, got) {
		e.report("decoded-value-aliases-input", map[string]string{"api": api, "detail": "value-changed", "mut": mut}, x,
			map[string]string{"ref_value": fmt.Sprintf("%+v", ref), "gen_value_after_buffer_reuse": fmt.Sprintf("%+v", got)})
		return
	}
	if enc == nil {
		return
	}
	var b []byte
	var err error
	if e.call(stGenReencode, "Encode", "gen", x, func() { b, err = e.c.Encode(got) }) {
		if err != nil || !bytes.Equal(b, enc) {
			e.report("decoded-value-aliases-input", map[string]string{"api": api, "detail": "reencoding-changed", "mut": mut}, x,
				map[string]string{"reencoded_before_hex": hexCap(enc), "reencoded_after_buffer_reuse_hex": hexCap(b), "error": fmt.Sprint(err)})
		}
	}
}

// scribble rewrites every settable leaf of v in place (an involution: twice restores the value);
// lengths, nil-ness and strings stay. Returns the number of leaves rewritten.
func scribble(v reflect.Value) int {
	switch v.Kind() {
	case reflect.Bool:
		if v.CanSet() {
			v.SetBool(!v.Bool())
			return 1
		}
	case reflect.Int8, reflect.Int16, reflect.Int32, reflect.Int64, reflect.Int:
		if v.CanSet() {
			v.SetInt(^v.Int())
			return 1
		}
	case reflect.Uint8, reflect.Uint16, reflect.Uint32, reflect.Uint64, reflect.Uint:
		if v.CanSet() {
			v.SetUint(^v.Uint())
			return 1
		}
	case reflect.Float32:
		if v.CanSet() {
			v.SetFloat(float64(math.Float32frombits(^math.Float32bits(float32(v.Float())))))
			return 1
		}
	case reflect.Float64:
		if v.CanSet() {
			v.SetFloat(math.Float64frombits(^math.Float64bits(v.Float())))
			return 1
		}
	case reflect.Slice:
		if v.Type().Elem().Kind() == reflect.Uint8 {
			b := v.Bytes()
			for i := range b {
				b[i] ^= 0xff
			}
			return len(b)
		}
		n := 0
		for i := 0; i < v.Len(); i++ {
			n += scribble(v.Index(i))
		}
		return n
	case reflect.Array:
		if v.Type().Elem().Kind() == reflect.Uint8 && v.CanAddr() {
			b := v.Slice(0, v.Len()).Bytes()
			for i := range b {
				b[i] ^= 0xff
			}
			return len(b)
		}
		n := 0
		for i := 0; i < v.Len(); i++ {
			n += scribble(v.Index(i))
		}
		return n
	case reflect.Struct:
		n := 0
		for i := 0; i < v.NumField(); i++ {
			if v.Type().Field(i).PkgPath != "" { // unexported: not encoded, not settable
				continue
			}
			n += scribble(v.Field(i))
		}
		return n
	}
	return 0
}

// encodeAlias: gb is what Encode returned for obj, buf what EncodeToBuffer filled (either may be nil)
func (e *evaluator) encodeAlias(obj interface{}, ref, gb, buf []byte, ex func() map[string]string) {
	v := reflect.ValueOf(obj).Elem()
	gb0, buf0 := clone(gb), clone(buf)
	if scribble(v) == 0 {
		e.cnt("encode_alias_trivial", 1) // nothing to rewrite (e.g. a value of empty slices and strings only)
		return
	}
	restored := false
	defer func() {
		if !restored {
			scribble(v)
		}
	}()
	if !bytes.Equal(gb, gb0) {
		e.report("encoded-bytes-alias-object", map[string]string{"api": "Encode"}, ref, ex())
	}
	if !bytes.Equal(buf, buf0) {
		e.report("encoded-bytes-alias-object", map[string]string{"api": "EncodeToBuffer"}, ref, ex())
	}
	var s1, s2, s3 []byte
	if !e.call(stRefSerialize, "Serialize", "ref", ref, func() { s1 = encoder.Serialize(obj) }) {
		return
	}
	for i := range gb {
		gb[i] ^= 0xff
	}
	for i := range buf {
		buf[i] ^= 0xff
	}
	if !e.call(stRefSerialize, "Serialize", "ref", ref, func() { s2 = encoder.Serialize(obj) }) {
		return
	}
	if !bytes.Equal(s1, s2) {
		e.report("object-aliases-encoded-bytes", map[string]string{"api": "Encode/EncodeToBuffer"}, ref, ex())
	}
	scribble(v)
	restored = true
	if e.call(stRefSerialize, "Serialize", "ref", ref, func() { s3 = encoder.Serialize(obj) }) && !bytes.Equal(s3, ref) {
		e.cnt("scribble_restore_mismatch", 1) // harness self-check: the rewrite is an involution
	}
	if bytes.Equal(s1, ref) {
		e.cnt("encode_alias_trivial", 1) // the rewrite did not reach an encoded field
		return
	}
	e.cnt("encode_alias_checked", 1)
}
