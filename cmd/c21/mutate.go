package main

// Byte-string mutator

import (
	"math/rand"
)

const (
	mIdentity = iota
	mTruncate
	mExtend
	mPrefix
	mBitflip
	mByteSet
	mInsDel
	mRandom
	mSparse
	mSplice
	nMutKinds
)

var mutNames = [nMutKinds]string{"identity", "truncate", "extend", "prefix", "bitflip", "byteset", "insdel", "random", "sparse", "splice"}

type input struct {
	mut  uint8
	data []byte
}

func clone(b []byte) []byte { return append([]byte(nil), b...) }

func putLE32(b []byte, off int, v uint32) {
	b[off] = byte(v)
	b[off+1] = byte(v >> 8)
	b[off+2] = byte(v >> 16)
	b[off+3] = byte(v >> 24)
}

func prefixEdits(rng *rand.Rand, pi prefixInst, total int) []uint32 {
	rem := total - pi.Off - 4 // bytes following the prefix
	vals := []uint32{0, uint32(pi.Len + 1), 1 << 31, 1<<32 - 1, 1<<31 - 1, uint32(rem + 1), 65535, 65536, 1 << 24}
	// a length equal to the number of remaining bytes passes the decoders' first check and makes them
	// allocate that many elements: keep it, but not on every long encoding (cost only)
	heavy := rem > 2048 && rng.Intn(4) != 0
	if !heavy {
		vals = append(vals, uint32(rem))
	}
	if pi.Len > 0 {
		vals = append(vals, uint32(pi.Len-1))
	}
	if pi.Site.MaxLen > 0 {
		vals = append(vals, uint32(pi.Site.MaxLen), uint32(pi.Site.MaxLen+1))
	}
	if pi.Site.MinElem > 1 && rem > 0 && !heavy {
		vals = append(vals, uint32(rem/pi.Site.MinElem), uint32(rem/pi.Site.MinElem+1))
	}
	return vals
}

// mutations derives the byte-string cases of one valid encoding
func mutations(rng *rand.Rand, enc []byte, prefixes []prefixInst, fullTrunc bool, other []byte) []input {
	out := []input{{mIdentity, enc}}
	n := len(enc)
	long := n > 4096 // long encodings get a thinner set (cost only; the short ones carry the volume)

	// truncation
	if fullTrunc {
		lim := n
		if lim > 512 {
			lim = 512
		}
		for k := 0; k < lim; k++ {
			out = append(out, input{mTruncate, enc[:k]})
		}
		if n > 512 {
			for j := 0; j < 6; j++ {
				out = append(out, input{mTruncate, enc[:512+rng.Intn(n-512)]})
			}
		}
	} else if n > 0 {
		cuts := map[int]bool{n - 1: true, rng.Intn(n): true, rng.Intn(n): true}
		if len(prefixes) > 0 {
			pi := prefixes[rng.Intn(len(prefixes))]
			for _, c := range []int{pi.Off, pi.Off + 3, pi.Off + 4, pi.Off + 5} {
				if c >= 0 && c < n {
					cuts[c] = true
				}
			}
		}
		for c := 0; c < n; c++ { // deterministic order
			if cuts[c] {
				out = append(out, input{mTruncate, enc[:c]})
			}
		}
	}

	// extension
	out = append(out, input{mExtend, append(clone(enc), 0)})
	ext := make([]byte, 1+rng.Intn(8))
	rng.Read(ext)
	out = append(out, input{mExtend, append(clone(enc), ext...)})
	k := rng.Intn(6)
	lp := make([]byte, 4+k)
	putLE32(lp, 0, uint32(k)+uint32(rng.Intn(3))-1)
	out = append(out, input{mExtend, append(clone(enc), lp...)})

	// length prefix edits
	if len(prefixes) > 0 {
		first := rng.Intn(len(prefixes))
		eds := prefixEdits(rng, prefixes[first], n)
		if long {
			rng.Shuffle(len(eds), func(i, j int) { eds[i], eds[j] = eds[j], eds[i] })
			eds = eds[:5]
		}
		for _, v := range eds {
			b := clone(enc)
			putLE32(b, prefixes[first].Off, v)
			out = append(out, input{mPrefix, b})
		}
		for j := 0; j < 3 && len(prefixes) > 1 && !(long && j > 0); j++ {
			pi := prefixes[rng.Intn(len(prefixes))]
			ed := prefixEdits(rng, pi, n)
			for q := 0; q < 2; q++ {
				b := clone(enc)
				putLE32(b, pi.Off, ed[rng.Intn(len(ed))])
				out = append(out, input{mPrefix, b})
			}
		}
		// shrink a prefix and drop the now superfluous tail / grow it and pad
		pi := prefixes[rng.Intn(len(prefixes))]
		b := clone(enc)
		putLE32(b, pi.Off, uint32(pi.Len+1))
		pad := make([]byte, pi.Site.MinElem)
		rng.Read(pad)
		out = append(out, input{mPrefix, append(b, pad...)})
	}

	if n > 0 {
		// bit flips
		for j := 0; j < 4 && !(long && j > 0); j++ {
			b := clone(enc)
			b[rng.Intn(n)] ^= 1 << uint(rng.Intn(8))
			out = append(out, input{mBitflip, b})
		}
		b := clone(enc)
		for j := 0; j < 1+rng.Intn(6); j++ {
			b[rng.Intn(n)] ^= 1 << uint(rng.Intn(8))
		}
		out = append(out, input{mBitflip, b})

		// byte sets
		for q, val := range []byte{0x00, 0x02, 0xff} {
			if long && q != rng.Intn(3) {
				continue
			}
			b := clone(enc)
			b[rng.Intn(n)] = val
			out = append(out, input{mByteSet, b})
		}

		// insert / delete one byte
		p := rng.Intn(n)
		b = append(clone(enc[:p]), byte(rng.Intn(256)))
		out = append(out, input{mInsDel, append(b, enc[p:]...)})
		out = append(out, input{mInsDel, append(clone(enc[:p]), enc[p+1:]...)})
	}

	// splice with another valid encoding of the same type
	if len(other) > 0 && n > 0 {
		a, c := rng.Intn(n+1), rng.Intn(len(other)+1)
		out = append(out, input{mSplice, append(clone(enc[:a]), other[c:]...)})
	}

	// random strings
	rl := 0
	switch rng.Intn(4) {
	case 0:
		rl = rng.Intn(16)
	case 1:
		rl = rng.Intn(200)
	case 2:
		rl = rng.Intn(700)
	default:
		rl = n + rng.Intn(9) - 4
		if rl < 0 {
			rl = 0
		}
	}
	rb := make([]byte, rl)
	rng.Read(rb)
	out = append(out, input{mRandom, rb})

	// sparse random: mostly zero with a few small bytes, so that length prefixes are small
	sl := rng.Intn(400)
	sb := make([]byte, sl)
	for j := 0; j < sl/6+1 && sl > 0; j++ {
		sb[rng.Intn(sl)] = byte(rng.Intn(4))
	}
	out = append(out, input{mSparse, sb})
	return out
}

// bigMutations: a handful of cases for multi-megabyte encodings (fewer in the quick tier)
func bigMutations(rng *rand.Rand, enc []byte, prefixes []prefixInst, target *site, full bool) []input {
	out := []input{{mIdentity, enc}}
	n := len(enc)
	if n == 0 {
		return out
	}
	out = append(out, input{mTruncate, enc[:n-1]})
	if full {
		out = append(out, input{mTruncate, enc[:rng.Intn(n)]}, input{mExtend, append(clone(enc), 0)})
	}
	for _, pi := range prefixes {
		if pi.Site != target {
			continue
		}
		vals := []uint32{uint32(pi.Len + 1), 1<<32 - 1}
		if full {
			vals = append(vals, 0, uint32(pi.Len-1), 1<<31, 65536)
		}
		for _, v := range vals {
			b := clone(enc)
			putLE32(b, pi.Off, v)
			out = append(out, input{mPrefix, b})
		}
		break
	}
	if full {
		b := clone(enc)
		b[rng.Intn(n)] ^= 1 << uint(rng.Intn(8))
		out = append(out, input{mBitflip, b})
	}
	return out
}
