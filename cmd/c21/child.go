package main

// Child: generates the inputs of one (codec, shard) job, logs them to disk, then runs
// the oracles over them. A progress page (shared mapping of a file) always names the
// record and the call being executed, so that the parent can attribute a runtime-fatal
// error or a kill to one input.

import (
	"encoding/json"
	"fmt"
	"io/ioutil"
	"os"
	"reflect"
	"runtime/pprof"
	"sort"
	"syscall"

	"verif/lib/vf"
)

type targetSpec struct {
	site *site
	ln   int
	nilV bool
}

// smallMenu: targeted lengths that fit into ordinary shards
func smallMenu(p *plan) []targetSpec {
	m := []targetSpec{}
	for _, s := range p.sites {
		m = append(m, targetSpec{s, 0, true}, targetSpec{s, 0, false}, targetSpec{s, 1, false}, targetSpec{s, 2, false})
		if s.MaxLen > 0 && s.MaxLen <= 600 {
			m = append(m, targetSpec{s, s.MaxLen - 1, false}, targetSpec{s, s.MaxLen, false}, targetSpec{s, s.MaxLen + 1, false})
		} else {
			m = append(m, targetSpec{s, 17, false}, targetSpec{s, 130, false})
		}
	}
	return m
}

// unlimitedLens: lengths given to every field that carries NO maxlen tag (read from the struct type by
// the plan): around the powers of two at which a length check could hide (the sibling codecs of the
// transaction types check 65535). Both codecs must accept them and round-trip byte-identically.
var unlimitedLens = []int{255, 256, 65535, 65536, 70000}

// longBudget caps the encoded size of one long unlimited slice (memory and time only)
const longBudget = 8 << 20

// longEligible: can site s (no maxlen tag) be given ln elements within the budget?
func longEligible(s *site, ln int) bool {
	return s.MaxLen == 0 && !s.ElemHeavy && s.MinElem > 0 && ln*s.MinElem <= longBudget
}

// isUnlimitedLen: ln is one of the boundary lengths of the fields without a maxlen tag
func isUnlimitedLen(ln int) bool {
	for _, l := range unlimitedLens {
		if l == ln {
			return true
		}
	}
	return false
}

// belowPlanned: is the long value of maxlen-1 elements part of this run for site s? Always in the thorough
// tier; in the quick tier a third of the fields, rotating with the seed (cost only: maxlen and maxlen+1
// are always there, and the fields limited to <= 600 get all three lengths from the small menu).
func belowPlanned(s *site, thorough bool, seed int64) bool {
	return thorough || (int(seed%3)+3+s.ID)%3 == 0
}

// bigTargets: long slices (maxlen-1 / maxlen / maxlen+1 of every field limited beyond the small menu's
// reach; boundary lengths up to 70000 for every field without a limit)
func bigTargets(p *plan, thorough bool, seed int64) []targetSpec {
	m := []targetSpec{}
	for _, s := range p.sites {
		if s.MaxLen > 600 {
			m = append(m, targetSpec{s, s.MaxLen, false}, targetSpec{s, s.MaxLen + 1, false})
			if belowPlanned(s, thorough, seed) {
				m = append(m, targetSpec{s, s.MaxLen - 1, false})
			}
			if thorough {
				m = append(m, targetSpec{s, 70000, false}, targetSpec{s, 2 * s.MaxLen, false})
			}
		} else if s.MaxLen == 0 {
			n := 0
			for _, ln := range unlimitedLens {
				if longEligible(s, ln) {
					m = append(m, targetSpec{s, ln, false})
					n++
				}
			}
			if n < len(unlimitedLens) {
				m = append(m, targetSpec{s, 3000, false}) // elements too large for the boundary lengths: a long slice all the same
			}
		}
	}
	return m
}

func fnv64(b []byte) uint64 {
	h := uint64(14695981039346656037)
	for _, c := range b {
		h ^= uint64(c)
		h *= 1099511628211
	}
	return h ^ uint64(len(b))<<1
}

type pendingValue struct {
	vi     int
	obj    interface{}
	target *targetSpec
	lay    *layout
	rec    int // record index of the value case
	inputs []input
	recs0  int // record index of the first byte-string case
}

func childMain() {
	// address-space guard: a decoder that tries to allocate for a 2^32-1 length prefix dies here, not the sandbox
	lim := syscall.Rlimit{Cur: 6 << 30, Max: 6 << 30}
	_ = syscall.Setrlimit(syscall.RLIMIT_AS, &lim)

	if pf := os.Getenv("C21_PROF"); pf != "" {
		f, _ := os.Create(pf)
		_ = pprof.StartCPUProfile(f)
		defer pprof.StopCPUProfile()
	}
	var jb job
	if err := json.Unmarshal([]byte(os.Getenv("C21_JOB")), &jb); err != nil {
		fatal("bad C21_JOB: %v", err)
	}
	r := vf.Start("C21", "exploration")
	codecs := allCodecs()
	c := codecs[jb.Codec]
	p := buildPlan(reflect.TypeOf(c.New()).Elem())
	dir, _ := os.Getwd()
	prog := openProgress(dir)
	log := openLog(dir)
	ev := newEvaluator(c, prog.stage)
	res := &result{SiteHits: map[string]*[3]int64{}, LongHits: map[string]map[string]int64{}}
	uniq := map[uint64]struct{}{}
	seenCase := map[string]bool{}

	hit := func(s *site, which int) {
		h := res.SiteHits[s.Path]
		if h == nil {
			h = &[3]int64{}
			res.SiteHits[s.Path] = h
		}
		h[which]++
	}
	longHit := func(s *site, ln int) {
		h := res.LongHits[s.Path]
		if h == nil {
			h = map[string]int64{}
			res.LongHits[s.Path] = h
		}
		h[fmt.Sprint(ln)]++
	}

	describe := func(obj interface{}) []byte {
		if jb.Kind == "big" {
			return []byte("(big value, see coords)")
		}
		s := fmt.Sprintf("%+v", obj)
		if len(s) > 2048 {
			s = s[:2048] + "..."
		}
		return []byte(s)
	}

	// evaluate one chunk of logged values
	run := func(chunk []*pendingValue) {
		for _, pv := range chunk {
			ev.coords = fmt.Sprintf("seed=%d tier=%s codec=%s kind=%s shard=%d value=%d", r.Seed, r.Tier, c.Name, jb.Kind, jb.Shard, pv.vi)
			violBefore := ev.violTotal()
			valueDone := false
			if pv.rec >= jb.Skip {
				prog.set(pv.rec)
				obj := pv.obj
				ref, ok := ev.evalValue(obj, func() string { return string(describe(obj)) })
				res.Inputs++
				if ok && pv.lay != nil && string(ref) != string(pv.lay.buf) {
					ev.cnt("walker_mismatch", 1)
				}
				valueDone = ok
			}
			for k, in := range pv.inputs {
				rec := pv.recs0 + k
				if rec < jb.Skip {
					continue
				}
				prog.set(rec)
				exactBefore := ev.counts[ev.name+".exact_alias_checked"]
				rk := ev.evalBytes(in.data, mutNames[in.mut])
				if k == 0 && pv.target != nil && pv.target.site.MaxLen == 0 && isUnlimitedLen(pv.target.ln) {
					// a field without a maxlen tag at a boundary length: the value was encoded by both encoders and its
					// encoding read back by both decoders (plain and exact), with equal values and an identical re-encoding
					s := pv.target.site
					ev.cnt("unlimited_boundary_values", 1)
					if valueDone && rk == "ok" && ev.counts[ev.name+".exact_alias_checked"] == exactBefore+1 && ev.violTotal() == violBefore {
						longHit(s, pv.target.ln)
						ev.cnt("unlimited_boundary_roundtrip", 1)
					}
				}
				if len(res.Cases) < 4 && !seenCase[rk] && len(in.data) > 0 && len(in.data) <= 96 {
					seenCase[rk] = true
					res.Cases = append(res.Cases, map[string]interface{}{"codec": c.Name, "mutation": mutNames[in.mut],
						"input_hex": hexCap(in.data), "reference_outcome": rk})
				}
				res.Inputs++
				uniq[fnv64(in.data)] = struct{}{}
				if k == 0 && pv.target != nil && pv.target.site.MaxLen > 0 {
					s := pv.target.site
					switch {
					case pv.target.ln == s.MaxLen-1 && rk == "ok":
						hit(s, 0)
					case pv.target.ln == s.MaxLen && rk == "ok":
						hit(s, 1)
					case pv.target.ln > s.MaxLen && rk == "maxlen":
						hit(s, 2)
					}
				}
			}
			pv.obj, pv.inputs, pv.lay = nil, nil, nil
		}
		prog.set(-1)
	}

	switch jb.Kind {
	case "small":
		menu := smallMenu(p)
		var prevEnc []byte
		chunk := []*pendingValue{}
		for k := 0; k < jb.NValues; k++ {
			vi := jb.Shard*jb.NValues + k
			rng := r.Rand("value", c.Name, vi)
			g := &genCtx{rng: rng}
			switch q := rng.Intn(10); {
			case q < 4:
				g.intMode = 0
			case q < 8:
				g.intMode = 1
			case q < 9:
				g.intMode = 2
			default:
				g.intMode = 3
			}
			switch q := rng.Intn(5); q {
			case 0:
				g.emptyBias = 1
			case 1:
				g.emptyBias = 2
			}
			pv := &pendingValue{vi: vi}
			if vi%3 == 0 && len(menu) > 0 {
				t := menu[(vi/3)%len(menu)]
				pv.target = &t
				g.target, g.targetLen, g.targetNil = t.site, t.ln, t.nilV
			}
			prog.set(-2 - vi)
			prog.stage(stGenerate)
			pv.obj = c.New()
			genValue(p, pv.obj, g)
			if g.target != nil && !g.done {
				pv.target = nil
			}
			pv.lay = p.layoutOf(reflect.ValueOf(pv.obj).Elem(), 4096)
			prog.stage(stIdle)
			pv.rec = log.add(1, 0, vi, describe(pv.obj))
			pv.inputs = mutations(rng, pv.lay.buf, pv.lay.prefixes, vi%8 == 0, prevEnc)
			pv.recs0 = log.n
			for _, in := range pv.inputs {
				log.add(2, in.mut, vi, in.data)
			}
			prevEnc = pv.lay.buf
			chunk = append(chunk, pv)
			if len(chunk) == 50 || k == jb.NValues-1 {
				log.flush()
				run(chunk)
				chunk = chunk[:0]
			}
		}
	case "big":
		for k, t := range bigTargets(p, !r.Quick(), r.Seed) {
			t := t
			if k%jb.NValues != jb.Shard {
				continue
			}
			rng := r.Rand("big", c.Name, k)
			g := &genCtx{rng: rng, target: t.site, targetLen: t.ln, intMode: k % 2, light: true}
			pv := &pendingValue{vi: k, target: &t}
			prog.set(-2 - k)
			prog.stage(stGenerate)
			pv.obj = c.New()
			genValue(p, pv.obj, g)
			if !g.done {
				fatal("big target %s not placed", t.site.Path)
			}
			pv.lay = p.layoutOf(reflect.ValueOf(pv.obj).Elem(), 1<<20)
			prog.stage(stIdle)
			pv.rec = log.add(1, 0, k, []byte(fmt.Sprintf("big value %d: site %s length %d, other slices short (regenerate with the job coordinates)", k, t.site.Path, t.ln)))
			pv.inputs = bigMutations(rng, pv.lay.buf, pv.lay.prefixes, t.site, !r.Quick())
			pv.recs0 = log.n
			for _, in := range pv.inputs {
				if len(in.data) <= 1<<16 {
					log.add(2, in.mut, k, in.data)
				} else {
					log.add(1, in.mut, k, []byte(fmt.Sprintf("byte string derived from big value %d (site %s length %d) by mutation %s, %d bytes, fnv64 %016x",
						k, t.site.Path, t.ln, mutNames[in.mut], len(in.data), fnv64(in.data))))
				}
			}
			log.flush()
			run([]*pendingValue{pv})
		}
	default:
		fatal("unknown job kind %q", jb.Kind)
	}

	res.Done = true
	res.Counts = ev.counts
	for d := range ev.distinct {
		res.Distinct = append(res.Distinct, d)
	}
	sort.Strings(res.Distinct)
	res.ViolCounts = ev.violN
	classes := []string{}
	for cl := range ev.viol {
		classes = append(classes, cl)
	}
	sort.Strings(classes)
	for _, cl := range classes {
		v := ev.viol[cl]
		v.Witness["occurrences_in_shard"] = fmt.Sprint(ev.violN[cl])
		res.Violations = append(res.Violations, v)
	}
	res.Uniq = int64(len(uniq))
	res.Sample = map[string]interface{}{"codec": c.Name, "job": jb, "inputs": res.Inputs, "distinct_inputs": res.Uniq,
		"length_fields": p.describe()}
	b, err := json.Marshal(res)
	if err != nil {
		fatal("result: %v", err)
	}
	if err := ioutil.WriteFile("result.json", b, 0644); err != nil {
		fatal("result: %v", err)
	}
	pprof.StopCPUProfile()
	os.Exit(0)
}
