package main

// Type plan: a description of a codec's Go type written from the documented encoding
// rules of package encoder (little-endian fixed-width integers, 1-byte bool, arrays
// without a length, slices/strings with a uint32 length prefix, struct fields in order,
// unexported and `enc:"-"` fields skipped, `,maxlen=N` and `,omitempty` on the field).
// It drives the value generator and tells the mutator where the length prefixes are;
// it is never used to decide what the right bytes are (that is the reference encoder).

import (
	"fmt"
	"reflect"
	"strconv"
	"strings"
)

type nodeKind int

const (
	nInt nodeKind = iota
	nBool
	nFloat
	nByteArray
	nArray
	nSlice  // slice of non-byte elements
	nBytes  // []byte / []int8-like: elements of one byte
	nString //
	nStruct
)

type site struct {
	ID        int
	Path      string // type-level path, e.g. Blocks[].Block.Body.Transactions[].Sigs
	MaxLen    int    // 0 = not limited
	Omit      bool
	Parents   []*site // enclosing slice sites, outermost first
	MinElem   int     // minimal encoded size of one element
	ElemHeavy bool    // element contains slices itself
}

type field struct {
	idx  int
	name string
	n    *node
}

type node struct {
	kind   nodeKind
	t      reflect.Type
	size   int // nInt/nFloat: bytes
	signed bool
	n      int // arrays
	elem   *node
	fields []field
	site   *site // nSlice/nBytes/nString
}

type plan struct {
	root  *node
	sites []*site
	bools int
}

func tagMaxLen(tag string) int {
	i := strings.Index(tag, ",maxlen=")
	if i < 0 {
		return 0
	}
	rem := tag[i+len(",maxlen="):]
	if j := strings.Index(rem, ","); j >= 0 {
		rem = rem[:j]
	}
	v, err := strconv.Atoi(rem)
	if err != nil {
		panic("bad maxlen tag " + tag)
	}
	return v
}

func buildPlan(t reflect.Type) *plan {
	p := &plan{}
	p.root = p.build(t, "", 0, false, nil)
	return p
}

func (p *plan) newSite(path string, maxlen int, omit bool, parents []*site) *site {
	s := &site{ID: len(p.sites), Path: path, MaxLen: maxlen, Omit: omit, Parents: append([]*site(nil), parents...)}
	p.sites = append(p.sites, s)
	return s
}

func (p *plan) build(t reflect.Type, path string, maxlen int, omit bool, parents []*site) *node {
	n := &node{t: t}
	switch t.Kind() {
	case reflect.Bool:
		n.kind = nBool
		p.bools++
	case reflect.Int8, reflect.Int16, reflect.Int32, reflect.Int64:
		n.kind, n.size, n.signed = nInt, int(t.Size()), true
	case reflect.Uint8, reflect.Uint16, reflect.Uint32, reflect.Uint64:
		n.kind, n.size = nInt, int(t.Size())
	case reflect.Float32, reflect.Float64:
		n.kind, n.size = nFloat, int(t.Size())
	case reflect.Array:
		n.n = t.Len()
		if t.Elem().Kind() == reflect.Uint8 {
			n.kind = nByteArray
		} else {
			n.kind = nArray
			n.elem = p.build(t.Elem(), path+"[#]", 0, false, parents)
		}
	case reflect.Slice:
		s := p.newSite(path, maxlen, omit, parents)
		n.site = s
		if t.Elem().Kind() == reflect.Uint8 {
			n.kind = nBytes
			s.MinElem = 1
		} else {
			n.kind = nSlice
			before := len(p.sites)
			n.elem = p.build(t.Elem(), path+"[]", 0, false, append(append([]*site(nil), parents...), s))
			s.ElemHeavy = len(p.sites) > before
			s.MinElem = minSize(n.elem)
		}
	case reflect.String:
		n.kind = nString
		n.site = p.newSite(path, maxlen, omit, parents)
		n.site.MinElem = 1
	case reflect.Struct:
		n.kind = nStruct
		for i := 0; i < t.NumField(); i++ {
			ff := t.Field(i)
			if ff.PkgPath != "" { // unexported
				continue
			}
			tag := ff.Tag.Get("enc")
			if len(tag) > 0 && tag[0] == '-' {
				continue
			}
			if ff.Name == "_" {
				continue
			}
			sub := ff.Name
			if path != "" {
				sub = path + "." + ff.Name
			}
			n.fields = append(n.fields, field{idx: i, name: ff.Name,
				n: p.build(ff.Type, sub, tagMaxLen(tag), strings.Contains(tag, ",omitempty"), parents)})
		}
	default:
		panic(fmt.Sprintf("plan: unsupported kind %s at %q", t.Kind(), path))
	}
	return n
}

func minSize(n *node) int {
	switch n.kind {
	case nBool:
		return 1
	case nInt, nFloat:
		return n.size
	case nByteArray:
		return n.n
	case nArray:
		return n.n * minSize(n.elem)
	case nSlice, nBytes, nString:
		if n.site.Omit {
			return 0
		}
		return 4
	case nStruct:
		s := 0
		for _, f := range n.fields {
			s += minSize(f.n)
		}
		return s
	}
	return 0
}

// prefixInst is one length prefix inside a concrete encoding
type prefixInst struct {
	Off  int
	Len  int
	Site *site
}

// layout is what the plan-walker learns about one concrete value
type layout struct {
	buf      []byte
	prefixes []prefixInst
	maxPer   map[int]int // site id -> largest length seen in the value
	keepPref int         // cap on recorded prefixes
}

func le(b []byte, v uint64, n int) []byte {
	for i := 0; i < n; i++ {
		b = append(b, byte(v>>(8*uint(i))))
	}
	return b
}

// walk encodes v following the documented rules, recording prefix offsets
func (l *layout) walk(n *node, v reflect.Value) {
	switch n.kind {
	case nBool:
		if v.Bool() {
			l.buf = append(l.buf, 1)
		} else {
			l.buf = append(l.buf, 0)
		}
	case nInt:
		if n.signed {
			l.buf = le(l.buf, uint64(v.Int()), n.size)
		} else {
			l.buf = le(l.buf, v.Uint(), n.size)
		}
	case nFloat:
		panic("float not expected")
	case nByteArray:
		if v.CanAddr() {
			l.buf = append(l.buf, v.Slice(0, n.n).Bytes()...)
		} else {
			for i := 0; i < n.n; i++ {
				l.buf = append(l.buf, byte(v.Index(i).Uint()))
			}
		}
	case nArray:
		for i := 0; i < n.n; i++ {
			l.walk(n.elem, v.Index(i))
		}
	case nSlice, nBytes, nString:
		ln := v.Len()
		if cur, seen := l.maxPer[n.site.ID]; !seen || ln > cur {
			l.maxPer[n.site.ID] = ln
		}
		if n.site.Omit && ln == 0 {
			return
		}
		if len(l.prefixes) < l.keepPref {
			l.prefixes = append(l.prefixes, prefixInst{Off: len(l.buf), Len: ln, Site: n.site})
		}
		l.buf = le(l.buf, uint64(ln), 4)
		switch n.kind {
		case nBytes:
			l.buf = append(l.buf, v.Bytes()...)
		case nString:
			l.buf = append(l.buf, v.String()...)
		default:
			for i := 0; i < ln; i++ {
				l.walk(n.elem, v.Index(i))
			}
		}
	case nStruct:
		for _, f := range n.fields {
			l.walk(f.n, v.Field(f.idx))
		}
	}
}

func (p *plan) layoutOf(v reflect.Value, keepPref int) *layout {
	l := &layout{maxPer: map[int]int{}, keepPref: keepPref}
	l.walk(p.root, v)
	return l
}

func (p *plan) describe() []string {
	out := []string{}
	for _, s := range p.sites {
		out = append(out, fmt.Sprintf("%s maxlen=%d omit=%v minElem=%d heavy=%v depth=%d", s.Path, s.MaxLen, s.Omit, s.MinElem, s.ElemHeavy, len(s.Parents)))
	}
	return out
}
