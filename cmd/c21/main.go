// Command c21: differential monitor of the generated (skyencoder) codecs against the
// reflection-based reference encoder (property C21).
package main

import (
	"bufio"
	"encoding/binary"
	"encoding/hex"
	"encoding/json"
	"fmt"
	"io"
	"io/ioutil"
	"os"
	"path/filepath"
	"reflect"
	"sort"
	"strings"
	"sync"
	"syscall"
	"time"

	"github.com/skycoin/skycoin/src/cipher/encoder"
	"github.com/skycoin/skycoin/src/coin"
	"github.com/skycoin/skycoin/src/daemon"
	"github.com/skycoin/skycoin/src/visor"
	"github.com/skycoin/skycoin/src/visor/blockdb"
	"github.com/skycoin/skycoin/src/visor/historydb"

	"verif/lib/vf"
)

func allCodecs() []encoder.VerifCodec {
	var cs []encoder.VerifCodec
	cs = append(cs, coin.VerifCodecs()...)
	cs = append(cs, daemon.VerifCodecs()...)
	cs = append(cs, visor.VerifCodecs()...)
	cs = append(cs, blockdb.VerifCodecs()...)
	cs = append(cs, historydb.VerifCodecs()...)
	return cs
}

type job struct {
	Codec   int    `json:"codec"`
	Kind    string `json:"kind"` // "small" or "big"
	Shard   int    `json:"shard"`
	NValues int    `json:"nvalues"`
	Skip    int    `json:"skip"` // records already evaluated by a child that died
}

type result struct {
	Done       bool                        `json:"done"`
	Counts     map[string]int64            `json:"counts"`
	Distinct   []string                    `json:"distinct"`
	Violations []*violation                `json:"violations"`
	ViolCounts map[string]int64            `json:"viol_counts"`
	SiteHits   map[string]*[3]int64        `json:"site_hits"` // site path -> below / at (accepted) / above (rejected)
	LongHits   map[string]map[string]int64 `json:"long_hits"` // site path without maxlen -> boundary length -> round trips
	Inputs     int64                       `json:"inputs"`
	Uniq       int64                       `json:"uniq"`
	Sample     interface{}                 `json:"sample,omitempty"`
	Cases      []interface{}               `json:"cases,omitempty"`
}

func main() {
	switch vf.ChildMode() {
	case "":
	case "replay":
		replayChild()
		return
	default:
		childMain()
		return
	}
	parentMain()
}

// ------------------------------------------------------------------------------------
// parent

type tierCfg struct {
	valuesPerCodec int
	shardValues    int
}

func parentMain() {
	r := vf.Start("C21", "exploration")
	codecs := allCodecs()
	if r.ReplayPath() != "" {
		replay(r, codecs)
		return
	}
	cfg := tierCfg{valuesPerCodec: 3000, shardValues: 500}
	if !r.Quick() {
		cfg = tierCfg{valuesPerCodec: 30000, shardValues: 1000}
	}
	if len(codecs) != 29 {
		r.Inconclusive(fmt.Sprintf("expected 29 generated codecs in the hook tables, found %d", len(codecs)))
	}
	plans := make([]*plan, len(codecs))
	for i, c := range codecs {
		plans[i] = buildPlan(reflect.TypeOf(c.New()).Elem())
	}

	only := os.Getenv("C21_ONLY") // self-test helper: restrict to codecs whose name contains this; never conclusive
	if only != "" {
		r.Inconclusive("C21_ONLY=" + only + " restricts the run to a subset of the codecs")
	}
	jobs := []job{}
	for i := range codecs {
		if !selected(codecs[i].Name, only) {
			continue
		}
		if nb := len(bigTargets(plans[i], !r.Quick(), r.Seed)); nb > 0 {
			ns := nb // one long value (and its byte strings) per child
			for s := 0; s < ns; s++ {
				jobs = append(jobs, job{Codec: i, Kind: "big", Shard: s, NValues: ns})
			}
		}
	}
	for i := range codecs {
		if !selected(codecs[i].Name, only) {
			continue
		}
		for s := 0; s*cfg.shardValues < cfg.valuesPerCodec; s++ {
			jobs = append(jobs, job{Codec: i, Kind: "small", Shard: s, NValues: cfg.shardValues})
		}
	}

	root := vf.TempDir("c21")

	var mu sync.Mutex
	siteHits := map[string]*[3]int64{}
	longHits := map[string]map[string]int64{}
	var inputs, uniq int64
	childCrashes := 0
	type jobWall struct {
		Job  string  `json:"job"`
		Wall float64 `json:"wall_s"`
	}
	walls := []jobWall{}

	vf.Parallel(len(jobs), 16, func(ji int) {
		jb := jobs[ji]
		for attempt := 0; attempt < 4; attempt++ {
			dir := filepath.Join(root, fmt.Sprintf("j%04d-%d", ji, attempt))
			_ = os.MkdirAll(dir, 0755)
			jbuf, _ := json.Marshal(jb)
			timeout := 10 * time.Minute
			res := vf.RunChild(dir, "", "job", nil, []string{
				"C21_JOB=" + string(jbuf), "VERIF_TIER=" + r.Tier, fmt.Sprintf("VERIF_SEED=%d", r.Seed), "GOMAXPROCS=2", "GOGC=300",
			}, timeout)
			var out result
			rb, err := ioutil.ReadFile(filepath.Join(dir, "result.json"))
			if err == nil {
				err = json.Unmarshal(rb, &out)
			}
			name := codecs[jb.Codec].Name
			mu.Lock()
			walls = append(walls, jobWall{fmt.Sprintf("%s %s/%d", name, jb.Kind, jb.Shard), res.Wall.Seconds()})
			mu.Unlock()
			if err == nil && out.Done && res.ExitCode == 0 && !res.TimedOut {
				mu.Lock()
				for k, v := range out.Counts {
					r.Count(k, v)
				}
				for _, d := range out.Distinct {
					r.Distinct(d)
				}
				for k, v := range out.SiteHits {
					h := siteHits[name+":"+k]
					if h == nil {
						h = &[3]int64{}
						siteHits[name+":"+k] = h
					}
					for q := 0; q < 3; q++ {
						h[q] += v[q]
					}
				}
				for k, v := range out.LongHits {
					h := longHits[name+":"+k]
					if h == nil {
						h = map[string]int64{}
						longHits[name+":"+k] = h
					}
					for l, n := range v {
						h[l] += n
					}
				}
				inputs += out.Inputs
				uniq += out.Uniq
				r.Eval(out.Inputs)
				if jb.Shard == 0 && jb.Kind == "small" && (jb.Codec == 4 || jb.Codec == 13 || jb.Codec == 15) {
					for q, cs := range out.Cases {
						if q < 2 {
							r.Sample(cs)
						}
					}
				}
				sort.Slice(out.Violations, func(a, b int) bool { return out.Violations[a].Size < out.Violations[b].Size })
				for _, v := range out.Violations {
					v.Witness["job"] = string(jbuf)
					r.Count("violations."+v.Kind+"."+name, 1)
					r.Violation(v.Kind, v.Attrs, v.Witness)
				}
				mu.Unlock()
				os.RemoveAll(dir)
				return
			}
			// the child died (or hung): attribute to the input it was working on
			idx, stage := readProgress(dir)
			rec := readRecord(filepath.Join(dir, "inputs.bin"), idx)
			headline, frame := vf.CrashSignature(res.Stderr)
			tail := string(res.Stderr)
			if len(tail) > 3000 {
				tail = tail[:3000]
			}
			st := "?"
			if stage >= 0 && stage < len(stageNames) {
				st = stageNames[stage]
			}
			mu.Lock()
			if res.TimedOut {
				r.Inconclusive(fmt.Sprintf("child for %s (%s shard %d) exceeded the %s watchdog at input #%d stage %s", name, jb.Kind, jb.Shard, timeout, idx, st))
			} else {
				childCrashes++
				r.Violation("crash", map[string]string{"codec": name, "headline": headline, "frame": frame, "stage": st, "api": st},
					map[string]interface{}{"codec": name, "job": string(jbuf), "input_index": idx, "stage": st, "input": rec,
						"exit": res.ExitCode, "signaled": res.Signaled, "stderr": tail})
			}
			mu.Unlock()
			os.RemoveAll(dir)
			if idx < 0 || res.TimedOut {
				return
			}
			jb.Skip = idx + 1
		}
	})

	os.RemoveAll(root) // (Finish exits the process: no defer)

	// floors
	r.Extra("inputs_total", inputs)
	r.Extra("distinct_inputs_sum_over_shards", uniq)
	r.Extra("child_crashes", childCrashes)
	sort.Slice(walls, func(a, b int) bool { return walls[a].Wall > walls[b].Wall })
	if len(walls) > 8 {
		walls = walls[:8]
	}
	r.Extra("slowest_jobs", walls)
	r.Extra("jobs", len(jobs))
	fields := map[string]interface{}{}
	for i, c := range codecs {
		p := plans[i]
		r.Floor(c.Name+".values", int64(cfg.valuesPerCodec))
		r.Floor(c.Name+".bytes", int64(cfg.valuesPerCodec*15))
		r.Floor(c.Name+".kind.ok", 100)
		r.Floor(c.Name+".kind.underflow", 100)
		r.Floor(c.Name+".kind.remaining", 100)
		r.Floor(c.Name+".exact_ok_reencoded", 100)
		r.Floor(c.Name+".short_buffer", 100)
		// aliasing oracles: decoded values outlive the input buffer, encodings and objects are disjoint
		r.Floor(c.Name+".decode_alias_checked", 100)
		r.Floor(c.Name+".exact_alias_checked", 100)
		r.Floor(c.Name+".encode_alias_checked", int64(cfg.valuesPerCodec/3))
		if r.Get(c.Name+".scribble_restore_mismatch") > 0 {
			r.Inconclusive("harness in-place rewrite of a value is not an involution for " + c.Name)
		}
		if p.bools > 0 {
			r.Floor(c.Name+".kind.invalid_bool", 10)
		}
		limited, hit := 0, 0
		unlimited, unlimitedHit, wantTrips := 0, 0, 0
		belowWant, belowGot := 0, 0
		for _, s := range p.sites {
			h := siteHits[c.Name+":"+s.Path]
			if h == nil {
				h = &[3]int64{}
			}
			entry := map[string]interface{}{"maxlen": s.MaxLen, "omitempty": s.Omit, "below": h[0], "at_accepted": h[1], "above_rejected": h[2]}
			fields[c.Name+":"+s.Path] = entry
			if s.MaxLen > 0 {
				limited++
				below := s.MaxLen <= 600 || belowPlanned(s, !r.Quick(), r.Seed) // maxlen-1 is part of this run for the field
				entry["below_planned"] = below
				if h[1] > 0 && h[2] > 0 && (h[0] > 0 || !below) {
					hit++
				}
				if below {
					belowWant++
					if h[0] > 0 {
						belowGot++
					}
				}
				continue
			}
			// no maxlen tag: every boundary length within the budget was accepted and round-tripped by both codecs
			lh := longHits[c.Name+":"+s.Path]
			want, got := 0, 0
			for _, ln := range unlimitedLens {
				if longEligible(s, ln) {
					want++
					if lh[fmt.Sprint(ln)] > 0 {
						got++
					}
				}
			}
			entry["boundary_lengths_wanted"] = want
			entry["boundary_lengths_roundtrip"] = lh
			entry["min_element_size"] = s.MinElem
			if want > 0 {
				unlimited++
				wantTrips += want
				if got == want {
					unlimitedHit++
				}
			}
		}
		if unlimited > 0 {
			r.Count(c.Name+".unlimited_fields_boundary_hit", int64(unlimitedHit))
			r.Floor(c.Name+".unlimited_fields_boundary_hit", int64(unlimited))
			r.Floor(c.Name+".unlimited_boundary_roundtrip", int64(wantTrips))
			r.Count("unlimited_fields_boundary_hit", int64(unlimitedHit))
		}
		if limited > 0 {
			r.Count(c.Name+".maxlen_fields_hit", int64(hit))
			r.Floor(c.Name+".maxlen_fields_hit", int64(limited))
			r.Floor(c.Name+".kind.maxlen", 2)
			r.Floor(c.Name+".encode_maxlen_rejected", int64(limited))
			r.Count(c.Name+".maxlen_below_accepted", int64(belowGot))
			r.Floor(c.Name+".maxlen_below_accepted", int64(belowWant))
		}
		if r.Get(c.Name+".walker_mismatch") > 0 {
			r.Inconclusive("harness layout walker disagrees with the reference encoding for " + c.Name)
		}
	}
	r.Extra("length_fields", fields)
	nb := 0
	for _, p := range plans {
		nb += p.bools
	}
	r.Extra("bool_fields_in_codec_types", nb) // 0: ErrInvalidBool is unreachable for the 29 types, no floor on it
	r.Count("codecs", int64(len(codecs)))
	r.Floor("codecs", 29)
	r.Floor("unlimited_fields_boundary_hit", 1) // slice/string fields without a maxlen tag exist and were taken beyond 65535 elements

	r.Finish("For each of the 29 generated codecs: type-directed values (extreme integers, nil/empty slices, lengths 0,1,2,..., maxlen-1/maxlen/maxlen+1 on every field with a maxlen tag, "+
		"255/256/65535/65536/70000 elements on every field without one (tags read by reflection; both codecs must accept and round-trip byte-identically), long slices) are encoded by both encoders; "+
		"every reference encoding is mutated (all truncations <=512, extensions, length-prefix edits incl. 2^31 and 2^32-1, bit flips, splices) and random strings are added; "+
		"each byte string is decoded by both decoders in a child process (inputs logged first); every generated decode reads a private scratch copy of the input (with guard bytes behind it) that must be left untouched and is overwritten afterwards, after which the decoded value must still equal the reference value and re-encode to the same bytes; after encoding, the object is rewritten in place (encoded bytes must not change) and the encoded bytes are rewritten (the object must not change). A case is non-trivial when it is a distinct (codec, mutation, reference outcome, exact outcome, length) class.",
		"the reflection-based encoder (encoder.Serialize/Size/DeserializeRaw/DeserializeRawExact) is the reference; its sentinel errors define the failure kinds",
		"maximum-length enforcement on the encode side is compared with the reference reading back its own serialization (the reference documents that it does not check maxlen when serializing)",
		"values are finite samples of the type-directed generator; byte strings are samples around valid encodings plus random strings",
	)
}

// ------------------------------------------------------------------------------------
// progress page + input log

type progress struct {
	page []byte
}

func openProgress(dir string) *progress {
	f, err := os.OpenFile(filepath.Join(dir, "progress"), os.O_RDWR|os.O_CREATE, 0644)
	if err != nil {
		fatal("progress: %v", err)
	}
	if err := f.Truncate(4096); err != nil {
		fatal("progress: %v", err)
	}
	pg, err := syscall.Mmap(int(f.Fd()), 0, 4096, syscall.PROT_READ|syscall.PROT_WRITE, syscall.MAP_SHARED)
	if err != nil {
		fatal("mmap: %v", err)
	}
	f.Close()
	p := &progress{page: pg}
	p.set(-1)
	return p
}

func (p *progress) set(idx int)  { binary.LittleEndian.PutUint64(p.page[0:8], uint64(int64(idx))) }
func (p *progress) stage(st int) { p.page[8] = byte(st) }

func readProgress(dir string) (int, int) {
	b, err := ioutil.ReadFile(filepath.Join(dir, "progress"))
	if err != nil || len(b) < 9 {
		return -1, 0
	}
	return int(int64(binary.LittleEndian.Uint64(b[0:8]))), int(b[8])
}

// record: [u8 type][u8 mut][u32 value index][u32 len][payload]; type 1 = value (payload: description), 2 = bytes
type inputLog struct {
	f *os.File
	w *bufio.Writer
	n int
}

func openLog(dir string) *inputLog {
	f, err := os.Create(filepath.Join(dir, "inputs.bin"))
	if err != nil {
		fatal("inputs.bin: %v", err)
	}
	return &inputLog{f: f, w: bufio.NewWriterSize(f, 1<<20)}
}

func (l *inputLog) add(typ, mut uint8, vi int, payload []byte) int {
	var h [10]byte
	h[0], h[1] = typ, mut
	binary.LittleEndian.PutUint32(h[2:6], uint32(vi))
	binary.LittleEndian.PutUint32(h[6:10], uint32(len(payload)))
	l.w.Write(h[:])
	l.w.Write(payload)
	l.n++
	return l.n - 1
}

func (l *inputLog) flush() {
	if err := l.w.Flush(); err != nil {
		fatal("inputs.bin: %v", err)
	}
}

func readRecord(path string, idx int) map[string]interface{} {
	if idx < 0 {
		return nil
	}
	f, err := os.Open(path)
	if err != nil {
		return nil
	}
	defer f.Close()
	br := bufio.NewReaderSize(f, 1<<20)
	for i := 0; ; i++ {
		var h [10]byte
		if _, err := io.ReadFull(br, h[:]); err != nil {
			return nil
		}
		n := int(binary.LittleEndian.Uint32(h[6:10]))
		if i < idx {
			if _, err := br.Discard(n); err != nil {
				return nil
			}
			continue
		}
		payload := make([]byte, n)
		if _, err := io.ReadFull(br, payload); err != nil {
			return nil
		}
		out := map[string]interface{}{"value_index": binary.LittleEndian.Uint32(h[2:6])}
		if h[0] == 1 {
			out["type"] = "value"
			out["value"] = string(payload)
		} else {
			out["type"] = "bytes"
			out["mutation"] = mutNames[int(h[1])%nMutKinds]
			out["input_len"] = n
			out["input_hex"] = hexCap(payload)
		}
		return out
	}
}

func selected(name, only string) bool {
	if only == "" {
		return true
	}
	for _, o := range strings.Split(only, ",") {
		if o != "" && strings.Contains(name, o) {
			return true
		}
	}
	return false
}

func fatal(format string, a ...interface{}) {
	fmt.Fprintf(os.Stderr, "c21: "+format+"\n", a...)
	os.Exit(3)
}

// ------------------------------------------------------------------------------------
// replay: one recorded input through all oracles, in a child (it may be a crasher)

func replayInput(path string) (string, []byte) {
	b, err := ioutil.ReadFile(path)
	if err != nil {
		fatal("replay: %v", err)
	}
	var doc struct {
		Witness map[string]interface{} `json:"witness"`
	}
	if err := json.Unmarshal(b, &doc); err != nil {
		fatal("replay: %v", err)
	}
	name, _ := doc.Witness["codec"].(string)
	hx, _ := doc.Witness["input_hex"].(string)
	if in, ok := doc.Witness["input"].(map[string]interface{}); ok && hx == "" {
		hx, _ = in["input_hex"].(string)
	}
	if hx == "" || strings.Contains(hx, "...") {
		fatal("replay: the witness holds no complete input (long value); re-run with the recorded seed/tier, job: %v", doc.Witness["job"])
	}
	x, err := hex.DecodeString(hx)
	if err != nil {
		fatal("replay: %v", err)
	}
	return name, x
}

func replay(r *vf.Run, codecs []encoder.VerifCodec) {
	name, x := replayInput(r.ReplayPath())
	dir := vf.TempDir("c21-replay")
	defer os.RemoveAll(dir)
	abs, _ := filepath.Abs(r.ReplayPath())
	res := vf.RunChild(dir, "", "replay", nil, []string{"C21_REPLAY=" + abs, "GOMAXPROCS=2"}, 5*time.Minute)
	var out result
	rb, err := ioutil.ReadFile(filepath.Join(dir, "result.json"))
	if err == nil {
		err = json.Unmarshal(rb, &out)
	}
	r.Eval(1)
	r.Distinct("replay:" + name)
	r.Distinct("replay-input:" + hex.EncodeToString(x))
	r.Sample(map[string]interface{}{"codec": name, "input_hex": hexCap(x)})
	switch {
	case res.TimedOut:
		r.Inconclusive("replay child exceeded the watchdog")
	case err != nil || !out.Done || res.ExitCode != 0:
		_, stage := readProgress(dir)
		headline, frame := vf.CrashSignature(res.Stderr)
		st := stageNames[stage%len(stageNames)]
		r.Violation("crash", map[string]string{"codec": name, "headline": headline, "frame": frame, "stage": st, "api": st},
			map[string]interface{}{"codec": name, "input_hex": hexCap(x), "stage": st})
	default:
		for k, v := range out.Counts {
			r.Count(k, v)
		}
		for _, v := range out.Violations {
			r.Violation(v.Kind, v.Attrs, v.Witness)
		}
	}
	os.RemoveAll(dir)
	r.Finish("replay of one recorded input through all oracles")
}

func replayChild() {
	lim := syscall.Rlimit{Cur: 6 << 30, Max: 6 << 30}
	_ = syscall.Setrlimit(syscall.RLIMIT_AS, &lim)
	name, x := replayInput(os.Getenv("C21_REPLAY"))
	dir, _ := os.Getwd()
	prog := openProgress(dir)
	for _, c := range allCodecs() {
		if c.Name != name {
			continue
		}
		ev := newEvaluator(c, prog.stage)
		ev.coords = "replay"
		prog.set(0)
		ev.evalBytes(x, "replay")
		// the bytes may be the reference encoding of a value case: read it back and run the value oracles too
		obj := c.New()
		if _, err := encoder.DeserializeRaw(x, obj); err == nil {
			ev.evalValue(obj, func() string { return fmt.Sprintf("%+v", obj) })
		}
		res := &result{Done: true, Counts: ev.counts}
		for _, v := range ev.viol {
			res.Violations = append(res.Violations, v)
		}
		b, _ := json.Marshal(res)
		if err := ioutil.WriteFile("result.json", b, 0644); err != nil {
			fatal("result: %v", err)
		}
		os.Exit(0)
	}
	fatal("replay: unknown codec %q", name)
}
