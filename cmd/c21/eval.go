package main

// Differential oracles: generated codec vs reference (reflection) encoder

import (
	"bytes"
	"encoding/hex"
	"fmt"
	"reflect"

	"github.com/skycoin/skycoin/src/cipher/encoder"

	"verif/lib/vf"
)

func kindOf(err error) string {
	switch err {
	case nil:
		return "ok"
	case encoder.ErrBufferUnderflow:
		return "underflow"
	case encoder.ErrBufferOverflow:
		return "overflow"
	case encoder.ErrMaxLenExceeded:
		return "maxlen"
	case encoder.ErrRemainingBytes:
		return "remaining"
	case encoder.ErrInvalidBool:
		return "invalid_bool"
	case encoder.ErrInvalidOmitEmpty:
		return "omitempty"
	case encoder.ErrMapDuplicateKeys:
		return "map_dup_keys"
	}
	return "other:" + err.Error()
}

// stages recorded in the progress page so that a dying child names the call
const (
	stIdle = iota
	stRefSerialize
	stRefSize
	stGenSize
	stGenEncode
	stGenEncodeToBuffer
	stRefDecode
	stGenDecode
	stRefDecodeExact
	stGenDecodeExact
	stGenReencode
	stGenerate
)

var stageNames = []string{"idle", "ref.Serialize", "ref.Size", "gen.EncodeSize", "gen.Encode", "gen.EncodeToBuffer",
	"ref.DeserializeRaw", "gen.Decode", "ref.DeserializeRawExact", "gen.DecodeExact", "gen.Encode(after DecodeExact)", "generate"}

type violation struct {
	Kind    string            `json:"kind"`
	Attrs   map[string]string `json:"attrs"`
	Witness map[string]string `json:"witness"`
	Size    int               `json:"size"`
}

type evaluator struct {
	c        encoder.VerifCodec
	name     string
	counts   map[string]int64
	distinct map[string]struct{}
	viol     map[string]*violation // class -> smallest witness
	violN    map[string]int64
	stage    func(int)
	coords   string
}

func newEvaluator(c encoder.VerifCodec, stage func(int)) *evaluator {
	return &evaluator{c: c, name: c.Name, counts: map[string]int64{}, distinct: map[string]struct{}{},
		viol: map[string]*violation{}, violN: map[string]int64{}, stage: stage}
}

func (e *evaluator) cnt(k string, n int64) { e.counts[e.name+"."+k] += n }

// violTotal: number of violations reported so far (all classes)
func (e *evaluator) violTotal() int64 {
	var t int64
	for _, n := range e.violN {
		t += n
	}
	return t
}

func hexCap(b []byte) string {
	if len(b) > 1<<16 {
		return hex.EncodeToString(b[:1<<16]) + fmt.Sprintf("...(%d bytes)", len(b))
	}
	return hex.EncodeToString(b)
}

func (e *evaluator) report(kind string, attrs map[string]string, in []byte, extra map[string]string) {
	attrs["codec"] = e.name
	class := kind
	for _, k := range []string{"ref", "gen", "frame", "side", "api", "detail"} {
		class += "|" + attrs[k]
	}
	e.violN[class]++
	old := e.viol[class]
	if old != nil && old.Size <= len(in) {
		return
	}
	w := map[string]string{"codec": e.name, "coords": e.coords}
	if in != nil {
		w["input_hex"] = hexCap(in)
		w["input_len"] = fmt.Sprint(len(in))
	}
	for k, v := range extra {
		if len(v) > 4096 {
			v = v[:4096] + "..."
		}
		w[k] = v
	}
	e.viol[class] = &violation{Kind: kind, Attrs: attrs, Witness: w, Size: len(in)}
}

func (e *evaluator) call(stage int, api, side string, in []byte, f func()) bool {
	e.stage(stage)
	p, msg, frame := vf.Recover(f)
	e.stage(stIdle)
	if p {
		e.cnt("panics", 1)
		e.report("panic", map[string]string{"api": api, "side": side, "frame": frame, "msg": msg}, in, map[string]string{"panic": msg})
	}
	return !p
}

// evalBytes: decode one byte string with both decoders
func (e *evaluator) evalBytes(x []byte, mut string) (refKind string) {
	c := e.c
	e.cnt("bytes", 1)
	e.counts["all.mutation."+mut]++

	// --- Decode vs DeserializeRaw
	ro, gobj := c.New(), c.New()
	var rn, gn uint64
	var rerr, gerr error
	if !e.call(stRefDecode, "DeserializeRaw", "ref", x, func() { rn, rerr = encoder.DeserializeRaw(x, ro) }) {
		return "panic"
	}
	rk := kindOf(rerr)
	e.cnt("kind."+shortKind(rk), 1)
	scratch := scratchOf(x) // the caller's buffer: private to this call, reused afterwards
	okGen := e.call(stGenDecode, "Decode", "gen", x, func() { gn, gerr = c.Decode(scratch, gobj) })
	if okGen {
		gk := kindOf(gerr)
		at := map[string]string{"ref": rk, "gen": gk, "mut": mut, "api": "Decode"}
		e.inputUntouched("Decode", scratch, x, gk, mut)
		switch {
		case (rerr == nil) != (gerr == nil):
			e.report("decode-accept-mismatch", at, x, nil)
		case rerr != nil && rk != gk:
			e.report("decode-kind-mismatch", at, x, nil)
		case rerr == nil:
			if rn != gn {
				e.report("decode-consumed-mismatch", at, x, map[string]string{"ref_n": fmt.Sprint(rn), "gen_n": fmt.Sprint(gn)})
			}
			if !reflect.DeepEqual(ro, gobj) {
				e.report("decode-value-mismatch", at, x, map[string]string{"ref_value": fmt.Sprintf("%+v", ro), "gen_value": fmt.Sprintf("%+v", gobj)})
			} else {
				// the decoded value is the caller's: it survives the reuse of the input buffer
				e.decodedSurvives("Decode", "decode_alias_checked", x, scratch, ro, gobj, nil, mut)
			}
		}
	}

	// --- DecodeExact vs DeserializeRawExact, canonical re-encoding
	re, ge := c.New(), c.New()
	var reerr, geerr error
	if !e.call(stRefDecodeExact, "DeserializeRawExact", "ref", x, func() { reerr = encoder.DeserializeRawExact(x, re) }) {
		return rk
	}
	rek := kindOf(reerr)
	if rek == "remaining" {
		e.cnt("kind.remaining", 1)
	}
	scratchE := scratchOf(x)
	if e.call(stGenDecodeExact, "DecodeExact", "gen", x, func() { geerr = c.DecodeExact(scratchE, ge) }) {
		gek := kindOf(geerr)
		at := map[string]string{"ref": rek, "gen": gek, "mut": mut, "api": "DecodeExact"}
		e.inputUntouched("DecodeExact", scratchE, x, gek, mut)
		sameValue := false
		switch {
		case (reerr == nil) != (geerr == nil):
			e.report("exact-accept-mismatch", at, x, nil)
		case reerr != nil && rek != gek:
			e.report("exact-kind-mismatch", at, x, nil)
		case reerr == nil:
			if sameValue = reflect.DeepEqual(re, ge); !sameValue {
				e.report("exact-value-mismatch", at, x, map[string]string{"ref_value": fmt.Sprintf("%+v", re), "gen_value": fmt.Sprintf("%+v", ge)})
			}
		}
		if geerr == nil {
			// canonical: whenever a byte string decodes, re-encoding yields the same bytes
			var b []byte
			var err error
			if e.call(stGenReencode, "Encode", "gen", x, func() { b, err = c.Encode(ge) }) {
				e.cnt("exact_ok_reencoded", 1)
				if err != nil {
					e.report("exact-not-canonical", map[string]string{"gen": kindOf(err), "mut": mut, "api": "Encode"}, x, map[string]string{"reencode_error": err.Error()})
				} else if !bytes.Equal(b, x) {
					detail := "bytes-differ"
					if len(b) < len(x) && bytes.Equal(b, x[:len(b)]) {
						// the re-encoding is a proper prefix of the input: name the shape of what was dropped
						tail := x[len(b):]
						if len(bytes.Trim(tail, "\x00")) == 0 {
							detail = fmt.Sprintf("dropped_tail=zeros:%d", len(tail))
						} else {
							detail = fmt.Sprintf("dropped_tail=nonzero:%d", len(tail))
						}
					}
					e.report("exact-not-canonical", map[string]string{"gen": "different-bytes", "detail": detail, "mut": mut, "api": "Encode"}, x, map[string]string{"reencoded_hex": hexCap(b)})
				}
				if sameValue && err == nil {
					// ... and still is that value, with that encoding, once the caller reuses its buffer
					e.decodedSurvives("DecodeExact", "exact_alias_checked", x, scratchE, re, ge, b, mut)
				}
			}
		}
	}
	lb := len(x)
	if lb > 600 {
		lb = 600 + lb/4096
	}
	e.distinct[fmt.Sprintf("%s|%s|%s|%s|%d", e.name, mut, rk, rek, lb)] = struct{}{}
	return rk
}

func shortKind(k string) string {
	if len(k) > 6 && k[:6] == "other:" {
		return "other"
	}
	return k
}

// evalValue: encode one value with both encoders. Returns the reference encoding.
func (e *evaluator) evalValue(obj interface{}, desc func() string) (ref []byte, ok bool) {
	c := e.c
	e.cnt("values", 1)
	var rsize, gsize uint64
	if !e.call(stRefSerialize, "Serialize", "ref", nil, func() { ref = encoder.Serialize(obj) }) {
		return nil, false
	}
	if !e.call(stRefSize, "Size", "ref", nil, func() { rsize = encoder.Size(obj) }) {
		return ref, true
	}
	ex := func() map[string]string { return map[string]string{"value": desc(), "ref_hex": hexCap(ref)} }
	if e.call(stGenSize, "EncodeSize", "gen", ref, func() { gsize = c.EncodeSize(obj) }) {
		if gsize != rsize || gsize != uint64(len(ref)) {
			m := ex()
			m["gen_size"], m["ref_size"], m["ref_len"] = fmt.Sprint(gsize), fmt.Sprint(rsize), fmt.Sprint(len(ref))
			e.report("size-mismatch", map[string]string{"api": "EncodeSize"}, ref, m)
		}
	}

	// does the reference enforce a maximum length on this value (when reading it back)?
	probe := c.New()
	var perr error
	if !e.call(stRefDecode, "DeserializeRaw", "ref", ref, func() { _, perr = encoder.DeserializeRaw(ref, probe) }) {
		return ref, true
	}
	refMax := perr == encoder.ErrMaxLenExceeded

	var gb []byte
	var gerr error
	if e.call(stGenEncode, "Encode", "gen", ref, func() { gb, gerr = c.Encode(obj) }) {
		gk := kindOf(gerr)
		switch {
		case refMax && gk != "maxlen":
			e.report("encode-maxlen-mismatch", map[string]string{"ref": "maxlen", "gen": gk, "api": "Encode"}, ref, ex())
		case !refMax && gk == "maxlen":
			e.report("encode-maxlen-mismatch", map[string]string{"ref": kindOf(perr), "gen": gk, "api": "Encode"}, ref, ex())
		case !refMax && gerr != nil:
			e.report("encode-error", map[string]string{"gen": gk, "api": "Encode"}, ref, ex())
		case !refMax && !bytes.Equal(gb, ref):
			m := ex()
			m["gen_hex"] = hexCap(gb)
			e.report("encode-bytes-mismatch", map[string]string{"api": "Encode"}, ref, m)
		}
		if refMax {
			e.cnt("encode_maxlen_rejected", 1)
		}
	}

	// EncodeToBuffer: exact, roomy and short buffers
	n := len(ref)
	var exactBuf []byte
	for _, extra := range []int{0, 7} {
		buf := make([]byte, n+extra)
		for i := range buf {
			buf[i] = 0xa5
		}
		var err error
		if e.call(stGenEncodeToBuffer, "EncodeToBuffer", "gen", ref, func() { err = c.EncodeToBuffer(buf, obj) }) {
			gk := kindOf(err)
			switch {
			case refMax != (gk == "maxlen"):
				e.report("encode-maxlen-mismatch", map[string]string{"ref": fmt.Sprint(refMax), "gen": gk, "api": "EncodeToBuffer"}, ref, ex())
			case !refMax && err != nil:
				e.report("encode-error", map[string]string{"gen": gk, "api": "EncodeToBuffer"}, ref, ex())
			case !refMax && !bytes.Equal(buf[:n], ref):
				m := ex()
				m["gen_hex"] = hexCap(buf[:n])
				e.report("encode-bytes-mismatch", map[string]string{"api": "EncodeToBuffer"}, ref, m)
			case !refMax && extra == 0:
				exactBuf = buf
			}
		}
	}
	if n > 0 {
		for _, short := range []int{n - 1, 0, n / 2} {
			buf := make([]byte, short)
			var err error
			if e.call(stGenEncodeToBuffer, "EncodeToBuffer", "gen", ref, func() { err = c.EncodeToBuffer(buf, obj) }) {
				e.cnt("short_buffer", 1)
				if err == nil {
					m := ex()
					m["buffer_len"] = fmt.Sprint(short)
					e.report("short-buffer-accepted", map[string]string{"api": "EncodeToBuffer"}, ref, m)
				}
			}
		}
	}
	// neither output shares memory with the object
	if !refMax && gerr == nil && bytes.Equal(gb, ref) {
		e.encodeAlias(obj, ref, gb, exactBuf, ex)
	}
	return ref, true
}
