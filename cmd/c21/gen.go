package main

// Type-directed value generator

import (
	"math/rand"
	"reflect"
)

type genCtx struct {
	rng       *rand.Rand
	target    *site // slice site forced to targetLen (nil: none)
	targetLen int
	targetNil bool // a zero-length target is nil (else empty, non-nil)
	done      bool // target already placed
	off       bool // target disabled in this subtree
	light     bool // inside a long target slice: keep elements small
	intMode   int  // 0 random, 1 extremes, 2 zeros, 3 all ones
	emptyBias int  // 0 normal, 1 prefer nil, 2 prefer empty non-nil
}

func extremeUint(rng *rand.Rand, bits uint) uint64 {
	mask := ^uint64(0)
	if bits < 64 {
		mask = (uint64(1) << bits) - 1
	}
	cands := []uint64{0, 1, 2, mask, mask - 1, uint64(1) << (bits - 1), (uint64(1) << (bits - 1)) - 1,
		(uint64(1) << (bits - 1)) + 1, 255, 256, 65535, 65536, 0x7fffffff, 0x80000000, 0xffffffff, 0x100000000}
	return cands[rng.Intn(len(cands))] & mask
}

func (g *genCtx) smallLen() (n int, nonNilEmpty bool) {
	r := g.rng
	if g.light {
		switch r.Intn(8) {
		case 0:
			return 1, false
		case 1:
			return 0, true
		default:
			return 0, false
		}
	}
	switch g.emptyBias {
	case 1:
		if r.Intn(3) != 0 {
			return 0, false
		}
	case 2:
		if r.Intn(3) != 0 {
			return 0, true
		}
	}
	switch r.Intn(10) {
	case 0:
		return 0, false
	case 1:
		return 0, true
	case 2, 3, 4:
		return 1, false
	case 5, 6:
		return 2, false
	case 7:
		return 3, false
	default:
		return r.Intn(6), r.Intn(2) == 0
	}
}

func (g *genCtx) isParent(s *site) bool {
	if g.target == nil || g.done || g.off {
		return false
	}
	for _, p := range g.target.Parents {
		if p == s {
			return true
		}
	}
	return false
}

func (g *genCtx) fill(n *node, v reflect.Value) {
	r := g.rng
	switch n.kind {
	case nBool:
		v.SetBool(r.Intn(2) == 1)
	case nInt:
		bits := uint(n.size * 8)
		var u uint64
		switch g.intMode {
		case 0:
			u = r.Uint64()
		case 1:
			if r.Intn(10) < 7 {
				u = extremeUint(r, bits)
			} else {
				u = r.Uint64()
			}
		case 2:
			u = 0
		default:
			u = ^uint64(0)
		}
		if bits < 64 {
			u &= (uint64(1) << bits) - 1
		}
		if n.signed {
			sh := 64 - bits
			v.SetInt(int64(u<<sh) >> sh)
		} else {
			v.SetUint(u)
		}
	case nByteArray:
		b := v.Slice(0, n.n).Bytes()
		switch {
		case g.intMode == 2:
		case g.intMode == 3:
			for i := range b {
				b[i] = 0xff
			}
		default:
			r.Read(b)
		}
	case nArray:
		for i := 0; i < n.n; i++ {
			g.fill(n.elem, v.Index(i))
		}
	case nString:
		ln, _ := g.pickLen(n.site)
		b := make([]byte, ln)
		r.Read(b)
		v.SetString(string(b))
	case nBytes:
		ln, nonNil := g.pickLen(n.site)
		if ln == 0 {
			if nonNil {
				v.Set(reflect.MakeSlice(n.t, 0, 0))
			}
			return
		}
		s := reflect.MakeSlice(n.t, ln, ln)
		if g.intMode != 2 {
			r.Read(s.Bytes())
		}
		v.Set(s)
	case nSlice:
		if g.isParent(n.site) {
			ln := 1 + r.Intn(2)
			pick := r.Intn(ln)
			s := reflect.MakeSlice(n.t, ln, ln)
			for i := 0; i < ln; i++ {
				if i == pick {
					g.fill(n.elem, s.Index(i))
				} else {
					save := g.off
					g.off = true
					g.fill(n.elem, s.Index(i))
					g.off = save
				}
			}
			v.Set(s)
			return
		}
		isTarget := g.target == n.site && !g.done && !g.off
		ln, nonNil := g.pickLen(n.site)
		if ln == 0 {
			if nonNil {
				v.Set(reflect.MakeSlice(n.t, 0, 0))
			}
			return
		}
		s := reflect.MakeSlice(n.t, ln, ln)
		saveLight, saveOff := g.light, g.off
		if isTarget {
			g.off = true
			if ln > 40 {
				g.light = true
			}
		}
		for i := 0; i < ln; i++ {
			g.fill(n.elem, s.Index(i))
		}
		g.light, g.off = saveLight, saveOff
		v.Set(s)
	case nStruct:
		for _, f := range n.fields {
			g.fill(f.n, v.Field(f.idx))
		}
	}
}

// pickLen returns the length for a slice/string site
func (g *genCtx) pickLen(s *site) (int, bool) {
	if g.target == s && !g.done && !g.off {
		g.done = true
		return g.targetLen, !g.targetNil
	}
	return g.smallLen()
}

// genValue fills a fresh value of the codec's type
func genValue(p *plan, ptr interface{}, g *genCtx) {
	g.fill(p.root, reflect.ValueOf(ptr).Elem())
}
