// Command c07 decides property C07 on the shared ledger workload (see lib/ledgerrun)
package main

import "verif/lib/ledgerrun"

func main() { ledgerrun.Main("C07") }
