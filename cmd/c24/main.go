// C24 — Connection bookkeeping matches the set of live connections.
//
// Sequential leg: random event sequences drive a real daemon.Connections (through the verif hooks)
// and a shadow registry written from the statement; after every event the success/failure class, the
// public views (all, IPCount, getByGnetID, getByListenAddr, Len...) and the five internal maps
// (locked snapshot hook) are compared with the shadow. Concurrent leg (child processes, this binary is
// built with -race): 3-4 goroutines issue short op lists against one Connections, the recorded
// history is checked for linearizability against the same shadow model with porcupine, and an
// unrecorded stress loop lets the race detector watch every method. Daemon legs (child processes,
// dmn.go and real.go): the same events delivered to a running daemon.Daemon through its gnet callbacks
// and message handlers, and real-socket scenarios with low pool limits, checked against the shadow /
// against the connections the harness really holds.
package main

import (
	"encoding/json"
	"fmt"
	"io/ioutil"
	"os"
	"runtime/debug"
	"sort"
	"strconv"
	"strings"
	"sync"

	"github.com/sirupsen/logrus"

	"github.com/skycoin/skycoin/src/daemon"
	"github.com/skycoin/skycoin/src/util/logging"
	"github.com/skycoin/skycoin/src/util/useragent"

	"verif/lib/vf"
)

// ---- real side ---------------------------------------------------------------------------

func errClass(err error) string {
	switch err {
	case nil:
		return "ok"
	case daemon.ErrConnectionNotExist:
		return "not-exist"
	case daemon.ErrConnectionExists:
		return "exists"
	case daemon.ErrConnectionIPMirrorExists:
		return "ip-mirror-exists"
	case daemon.ErrConnectionStateNotConnected:
		return "not-connected"
	case daemon.ErrConnectionGnetIDMismatch:
		return "id-mismatch"
	case daemon.ErrConnectionAlreadyIntroduced:
		return "already-introduced"
	case daemon.ErrConnectionAlreadyConnected:
		return "already-connected"
	case daemon.ErrInvalidGnetID:
		return "invalid-id"
	}
	return "bad-addr"
}

func introMsg(e Event) *daemon.IntroductionMessage {
	return &daemon.IntroductionMessage{
		Mirror:          e.Mirror,
		ListenPort:      e.Listen,
		ProtocolVersion: 2,
		UserAgent:       useragent.Data{Coin: "skycoin", Version: "0.27.0"},
	}
}

// applyReal performs a mutating event on the real registry
func applyReal(c *daemon.Connections, e Event) error {
	var err error
	switch e.Op {
	case opPending:
		_, err = c.VerifPending(e.Addr)
	case opConnected:
		_, err = c.VerifConnected(e.Addr, e.ID)
	case opIntroduced:
		_, err = c.VerifIntroduced(e.Addr, e.ID, introMsg(e))
	case opRemove:
		err = c.VerifRemove(e.Addr, e.ID)
	case opSetHeight:
		err = c.SetHeight(e.Addr, e.ID, e.Height)
	default:
		panic("applyReal: not a mutating event")
	}
	return err
}

func stateNum(s daemon.ConnectionState) int {
	switch s {
	case daemon.ConnectionStatePending:
		return stPending
	case daemon.ConnectionStateConnected:
		return stConnected
	case daemon.ConnectionStateIntroduced:
		return stIntroduced
	}
	return stNone
}

func realConnLine(c daemon.VerifConn) string {
	return connLine(c.Addr, stateNum(c.State), c.Outgoing, c.GnetID, c.Mirror, c.ListenPort, c.Height)
}

func realViews(s daemon.VerifConnSnapshot) views {
	var v views
	lines := []string{}
	for k, c := range s.Conns {
		l := realConnLine(c)
		if k != c.Addr {
			l += " KEY=" + k
		}
		lines = append(lines, l)
	}
	sort.Strings(lines)
	v.conns = strings.Join(lines, "\n")
	mirs := []string{}
	for m, x := range s.Mirrors {
		for ip, port := range x { // an empty inner map is the same as no entry
			mirs = append(mirs, fmt.Sprintf("%d/%s=%d", m, ip, port))
		}
	}
	sort.Strings(mirs)
	v.mirrors = strings.Join(mirs, " ")
	v.ipCounts = canonCounts(s.IPCounts)
	ids := []string{}
	for id, a := range s.GnetIDs {
		ids = append(ids, fmt.Sprintf("%d=%s", id, a))
	}
	sort.Strings(ids)
	v.gnetIDs = strings.Join(ids, " ")
	v.listenAddrs = canonLists(s.ListenAddrs)
	return v
}

// ---- one sequence ------------------------------------------------------------------------

type finding struct {
	Kind    string
	Trigger string
	Step    int
	Detail  map[string]string
	Events  []Event
}

func (f *finding) class() string { return f.Kind + "|" + f.Trigger }

type counters map[string]int64

type seqRun struct {
	cnt      counters
	states   map[uint64]struct{}
	keepGo   bool // scripted scenarios: structural mismatches are recorded and the run goes on
	diverged bool // (keepGo only) a structural mismatch was recorded: only outcome classes are compared from here on
	findings []*finding
}

func fnv64(s string) uint64 {
	h := uint64(14695981039346656037)
	for i := 0; i < len(s); i++ {
		h ^= uint64(s[i])
		h *= 1099511628211
	}
	return h
}

// trigger describes the event class that exposed a mismatch (for structural finding matchers)
func trigger(m *Model, e Event) string {
	t := opName[e.Op] + ":" + stName[m.stateOf(e.Addr)]
	c := m.conns[e.Addr]
	if c == nil {
		return t
	}
	switch e.Op {
	case opIntroduced:
		if c.outgoing {
			t += ":out"
		} else {
			t += ":in"
			if e.Listen == 0 {
				t += ":lp0"
			}
		}
	case opRemove:
		if c.state != stIntroduced && c.id == e.ID && m.mir[mirKey(c.ip, 0)] {
			t += ":mirror0-shared"
		}
	}
	return t
}

// listen addresses worth asking for
var askListen []string

func init() {
	for _, ip := range domIPs {
		for _, p := range []int{0, 6000, 6001, 7000} {
			askListen = append(askListen, ip+":"+strconv.Itoa(p))
		}
	}
}

// duplicateIPMirror: "two introduced connections never share an IP and mirror value"
func duplicateIPMirror(c *daemon.Connections) (string, map[string]string) {
	seen := map[string]string{}
	for _, x := range c.VerifAll() {
		if x.State == daemon.ConnectionStateIntroduced {
			ip, _, _ := splitAddr(x.Addr)
			k := mirKey(ip, x.Mirror)
			if o, dup := seen[k]; dup {
				return "duplicate-ip-mirror", map[string]string{"a": o, "b": x.Addr, "ip_mirror": k}
			}
			seen[k] = x.Addr
		}
	}
	return "", nil
}

// compare returns the first mismatch between the real registry and the model ("" if none)
func compare(c *daemon.Connections, m *Model, e Event) (string, map[string]string) {
	exp := m.views()
	got := realViews(c.VerifSnapshot())
	type pair struct{ kind, e, g string }
	for _, p := range []pair{
		{"conns-mismatch", exp.conns, got.conns},
		{"mirrors-mismatch", exp.mirrors, got.mirrors},
		{"ipcounts-mismatch", exp.ipCounts, got.ipCounts},
		{"gnetids-mismatch", exp.gnetIDs, got.gnetIDs},
		{"listenaddrs-mismatch", exp.listenAddrs, got.listenAddrs},
	} {
		if p.e != p.g {
			return p.kind, map[string]string{"expected": p.e, "observed": p.g}
		}
	}
	// public views
	if kind, d := duplicateIPMirror(c); kind != "" {
		return kind, d
	}
	all := c.VerifAll()
	lines := make([]string, 0, len(all))
	for _, x := range all {
		lines = append(lines, realConnLine(x))
	}
	sort.Strings(lines)
	if g := strings.Join(lines, "\n"); g != exp.conns {
		return "all-mismatch", map[string]string{"expected": exp.conns, "observed": g}
	}
	if n := c.Len(); n != len(m.conns) {
		return "len-mismatch", map[string]string{"expected": strconv.Itoa(len(m.conns)), "observed": strconv.Itoa(n)}
	}
	np, no := 0, 0
	for _, x := range m.conns {
		if x.state == stPending {
			np++
		}
		if x.outgoing {
			no++
		}
	}
	if g := c.PendingLen(); g != np {
		return "pendinglen-mismatch", map[string]string{"expected": strconv.Itoa(np), "observed": strconv.Itoa(g)}
	}
	if g := c.OutgoingLen(); g != no {
		return "outgoinglen-mismatch", map[string]string{"expected": strconv.Itoa(no), "observed": strconv.Itoa(g)}
	}
	for _, ip := range domIPs {
		if g, w := c.IPCount(ip), m.ipCount(ip); g != w {
			return "ipcount-api-mismatch", map[string]string{"ip": ip, "expected": strconv.Itoa(w), "observed": strconv.Itoa(g)}
		}
	}
	if x := c.VerifGet(e.Addr); (x == nil) != (m.conns[e.Addr] == nil) {
		return "get-mismatch", map[string]string{"addr": e.Addr}
	}
	// connection ids: every live one, the event's one, 0 and a never-used one
	ids := []uint64{0, e.ID, 999999}
	for _, x := range m.conns {
		ids = append(ids, x.id)
	}
	for _, id := range ids {
		w := "none"
		if x := m.byID(id); x != nil {
			w = x.addr
		}
		g := "none"
		if x := c.VerifGetByGnetID(id); x != nil {
			g = x.Addr
		}
		if g != w {
			return "getbygnetid-mismatch", map[string]string{"id": strconv.FormatUint(id, 10), "expected": w, "observed": g}
		}
	}
	for _, la := range askListen {
		w := strings.Join(m.byListen(la), ",")
		var g string
		if p, msg, _ := vf.Recover(func() {
			xs := c.VerifGetByListenAddr(la)
			as := make([]string, 0, len(xs))
			for _, x := range xs {
				as = append(as, x.Addr)
			}
			sort.Strings(as)
			g = strings.Join(as, ",")
		}); p {
			return "getbylistenaddr-dangling", map[string]string{"listen_addr": la, "panic": msg}
		}
		if g != w {
			return "getbylistenaddr-mismatch", map[string]string{"listen_addr": la, "expected": w, "observed": g}
		}
	}
	return "", nil
}

// step applies one event to both sides and checks; returns a finding or nil
func (s *seqRun) step(c *daemon.Connections, m *Model, e Event, i int) *finding {
	trig := trigger(m, e)
	before := stName[m.stateOf(e.Addr)]
	var err error
	if p, msg, frame := vf.Recover(func() { err = applyReal(c, e) }); p {
		return &finding{Kind: "panic", Trigger: trig, Step: i, Detail: map[string]string{"panic": msg, "frame": frame}}
	}
	res := m.apply(e)
	ok := err == nil
	if s.diverged {
		if kind, d := duplicateIPMirror(c); kind != "" {
			d["event"] = e.String()
			return &finding{Kind: kind, Trigger: trig, Step: i, Detail: d}
		}
	}
	oc := "fail"
	if ok {
		oc = "ok"
	}
	s.cnt["ev."+opName[e.Op]+"."+before+"."+oc]++
	s.cnt["err."+opName[e.Op]+"."+errClass(err)]++
	s.cnt["events"]++
	if strings.HasSuffix(trig, ":lp0") || strings.HasSuffix(trig, ":mirror0-shared") {
		// the two situations the statement singles out (listen port 0, mirror 0 next to a
		// never-introduced connection of the same IP)
		s.cnt["cover."+trig+"."+oc]++
	}
	if (res == resOK && !ok) || (res == resFail && ok) {
		kind := opName[e.Op] + "-wrongly-refused"
		if ok {
			kind = opName[e.Op] + "-wrongly-accepted"
		}
		return &finding{Kind: kind, Trigger: trig, Step: i, Detail: map[string]string{"real": errClass(err), "event": e.String()}}
	}
	if !m.selfCheck() {
		panic("model self-check failed")
	}
	if s.diverged {
		return nil
	}
	if kind, d := compare(c, m, e); kind != "" {
		d["event"] = e.String()
		return &finding{Kind: kind, Trigger: trig, Step: i, Detail: d}
	}
	if s.states != nil {
		s.states[fnv64(m.key())] = struct{}{}
	}
	return nil
}

// run executes a sequence. With g != nil events are generated (n of them), otherwise `fixed` is
// replayed. Afterwards every remaining connection is removed ("removing every connection leaves all
// of these maps empty"). Returns the executed events.
func (s *seqRun) run(g *gen, n int, fixed []Event) []Event {
	c := daemon.NewConnections()
	m := newModel()
	evs := []Event{}
	do := func(e Event) bool {
		e.Name = opName[e.Op]
		evs = append(evs, e)
		var beforeID uint64
		had := false
		if x := m.conns[e.Addr]; x != nil {
			beforeID, had = x.id, true
		}
		f := s.step(c, m, e, len(evs)-1)
		if g != nil && f == nil && e.Op == opRemove && had && m.conns[e.Addr] == nil {
			g.retire(beforeID)
		}
		if f != nil {
			f.Events = append([]Event(nil), evs...)
			s.findings = append(s.findings, f)
			structural := strings.HasSuffix(f.Kind, "-mismatch") || f.Kind == "getbylistenaddr-dangling"
			if !(s.keepGo && structural) {
				return false
			}
			s.diverged = true
		}
		return true
	}
	if g != nil {
		for i := 0; i < n; i++ {
			if !do(g.next(m)) {
				return evs
			}
		}
	} else {
		for _, e := range fixed {
			if !do(e) {
				return evs
			}
		}
	}
	// drain
	addrs := []string{}
	for a := range m.conns {
		addrs = append(addrs, a)
	}
	sort.Strings(addrs)
	for _, a := range addrs {
		if !do(Event{Op: opRemove, Addr: a, ID: m.conns[a].id}) {
			return evs
		}
	}
	if !s.diverged {
		// the last compare() saw an empty shadow: all five maps were empty
		s.cnt["seq.drained-empty"]++
	}
	return evs
}

// shrink removes events while the same (kind, trigger) finding still fires
func shrink(f *finding) *finding {
	best := f
	cur := f.Events
	// the drain events at the tail are regenerated by run; cut at the failing step first
	for changed := true; changed; {
		changed = false
		for i := len(cur) - 1; i >= 0; i-- {
			cand := append(append([]Event(nil), cur[:i]...), cur[i+1:]...)
			s := &seqRun{cnt: counters{}}
			s.run(nil, 0, cand)
			if len(s.findings) > 0 && s.findings[0].class() == f.class() && len(s.findings[0].Events) < len(cur) {
				best = s.findings[0]
				cur = best.Events
				changed = true
				if i > len(cur) {
					i = len(cur)
				}
			}
		}
	}
	return best
}

// ---- scripted scenarios (one per clause of the statement) -----------------------------------

func scripted() [][]Event {
	a1, a2, a3 := "11.1.1.1:6000", "11.1.1.1:6001", "11.1.1.1:7000"
	b1 := "22.2.2.2:6000"
	return [][]Event{
		{ // mirror 0: removing a never-introduced connection must not free another one's (ip, mirror)
			{Op: opConnected, Addr: a1, ID: 1}, {Op: opIntroduced, Addr: a1, ID: 1, Mirror: 0, Listen: 6000},
			{Op: opConnected, Addr: a2, ID: 2}, {Op: opRemove, Addr: a2, ID: 2},
			{Op: opConnected, Addr: a3, ID: 3}, {Op: opIntroduced, Addr: a3, ID: 3, Mirror: 0, Listen: 6001},
		},
		{ // same with a pending (outgoing attempt that failed)
			{Op: opConnected, Addr: a1, ID: 1}, {Op: opIntroduced, Addr: a1, ID: 1, Mirror: 0, Listen: 6000},
			{Op: opPending, Addr: a2}, {Op: opRemove, Addr: a2, ID: 0},
			{Op: opConnected, Addr: a3, ID: 3}, {Op: opIntroduced, Addr: a3, ID: 3, Mirror: 0, Listen: 6001},
		},
		{ // listen port 0
			{Op: opConnected, Addr: a1, ID: 1}, {Op: opIntroduced, Addr: a1, ID: 1, Mirror: 1, Listen: 0},
			{Op: opRemove, Addr: a1, ID: 1},
		},
		{ // introduced only from connected with the matching id
			{Op: opPending, Addr: a1}, {Op: opIntroduced, Addr: a1, ID: 0, Mirror: 1, Listen: 6000},
			{Op: opIntroduced, Addr: a1, ID: 5, Mirror: 1, Listen: 6000},
			{Op: opConnected, Addr: a1, ID: 5}, {Op: opIntroduced, Addr: a1, ID: 6, Mirror: 1, Listen: 6000},
			{Op: opIntroduced, Addr: a1, ID: 5, Mirror: 1, Listen: 6000}, {Op: opIntroduced, Addr: a1, ID: 5, Mirror: 2, Listen: 6000},
			{Op: opRemove, Addr: a1, ID: 4}, {Op: opRemove, Addr: a1, ID: 5},
		},
		{ // same ip + mirror refused, other ip accepted, accepted again after the first one left
			{Op: opConnected, Addr: a1, ID: 1}, {Op: opIntroduced, Addr: a1, ID: 1, Mirror: 2, Listen: 6000},
			{Op: opConnected, Addr: a2, ID: 2}, {Op: opIntroduced, Addr: a2, ID: 2, Mirror: 2, Listen: 6001},
			{Op: opConnected, Addr: b1, ID: 3}, {Op: opIntroduced, Addr: b1, ID: 3, Mirror: 2, Listen: 6000},
			{Op: opRemove, Addr: a1, ID: 1}, {Op: opIntroduced, Addr: a2, ID: 2, Mirror: 2, Listen: 6001},
		},
		{ // incoming peer whose listen address equals an outgoing connection's address
			{Op: opPending, Addr: a1}, {Op: opConnected, Addr: a3, ID: 9}, {Op: opIntroduced, Addr: a3, ID: 9, Mirror: 1, Listen: 6000},
			{Op: opRemove, Addr: a1, ID: 0}, {Op: opRemove, Addr: a3, ID: 9},
		},
	}
}

// ---- main --------------------------------------------------------------------------------

type witness struct {
	Events   []Event           `json:"events"`
	Sequence []string          `json:"sequence"`
	Step     int               `json:"failing_step"`
	Detail   map[string]string `json:"detail"`
	Hits     int64             `json:"sequences_hitting_this_class"`
}

func report(r *vf.Run, f *finding, hits int64) {
	seq := []string{}
	for _, e := range f.Events {
		seq = append(seq, e.String())
	}
	attrs := map[string]string{"trigger": f.Trigger, "leg": "sequential"}
	for _, k := range []string{"frame", "event"} {
		if v, ok := f.Detail[k]; ok {
			attrs[k] = v
		}
	}
	r.Violation(f.Kind, attrs, witness{Events: f.Events, Sequence: seq, Step: f.Step, Detail: f.Detail, Hits: hits})
}

func main() {
	logging.SetLevel(logrus.PanicLevel)
	logging.Disable()
	switch vf.ChildMode() {
	case "conc":
		concChild()
		return
	case "dmn":
		dmnChild()
		return
	case "dmnreal":
		realChild()
		return
	}
	r := vf.Start("C24", "exploration")
	debug.SetGCPercent(400)

	if p := r.ReplayPath(); p != "" {
		replay(r, p)
		return
	}

	// scripted scenarios
	type group struct {
		best *finding
		hits int64
	}
	groups := map[string]*group{}
	add := func(f *finding) {
		g := groups[f.class()]
		if g == nil {
			g = &group{}
			groups[f.class()] = g
		}
		g.hits++
		if g.best == nil || len(f.Events) < len(g.best.Events) {
			g.best = f
		}
	}
	total := counters{}
	for _, sc := range scripted() {
		s := &seqRun{cnt: counters{}, keepGo: true}
		s.run(nil, 0, sc)
		for _, f := range s.findings {
			add(f)
		}
		for k, v := range s.cnt {
			total[k] += v
		}
		total["seq.scripted"]++
		r.Eval(1)
	}

	// daemon legs (child processes) run next to the in-process legs
	dmnDone := make(chan struct{})
	go func() {
		defer close(dmnDone)
		dmnParent(r)
		realParent(r)
	}()

	// random sequences
	nSeq := r.Pick(20000, 600000)
	onlyDmn := os.Getenv("C24_LEGS") == "dmn" // development aid: daemon legs only (the other floors then fail)
	if onlyDmn {
		nSeq = 0
	}
	const workers = 16
	var mu sync.Mutex
	allStates := map[uint64]struct{}{}
	chunk := 250
	nChunks := (nSeq + chunk - 1) / chunk
	vf.Parallel(nChunks, workers, func(ci int) {
		s := &seqRun{cnt: counters{}, states: map[uint64]struct{}{}}
		var local []*finding
		shrunk := 0
		for i := ci * chunk; i < (ci+1)*chunk && i < nSeq; i++ {
			rng := r.Rand("seq", i)
			g := newGen(rng)
			n := 5 + rng.Intn(36)
			s.findings = s.findings[:0]
			evs := s.run(g, n, nil)
			s.cnt["seq.random"]++
			s.cnt["seq.len."+strconv.Itoa(len(evs)/10*10)+"+"]++
			if len(s.findings) > 0 {
				f := s.findings[0]
				if shrunk < 2 {
					f = shrink(f)
					shrunk++
				}
				local = append(local, f)
			}
			if i < 2 {
				seq := []string{}
				for _, e := range evs {
					seq = append(seq, e.String())
				}
				r.Sample(map[string]interface{}{"sequence": seq, "index": i})
			}
		}
		mu.Lock()
		for k, v := range s.cnt {
			total[k] += v
		}
		for h := range s.states {
			if len(allStates) < 3000000 {
				allStates[h] = struct{}{}
			}
		}
		for _, f := range local {
			add(f)
		}
		mu.Unlock()
	})
	r.Eval(int64(nSeq))
	for h := range allStates {
		r.Distinct("st:" + strconv.FormatUint(h, 36))
	}
	total["states.distinct"] = int64(len(allStates))
	for k, v := range total {
		r.Count(k, v)
	}
	keys := []string{}
	for k := range groups {
		keys = append(keys, k)
	}
	sort.Strings(keys)
	for _, k := range keys {
		g := groups[k]
		r.Count("seq.with-finding", g.hits)
		report(r, shrink(g.best), g.hits)
	}

	// concurrent leg
	if !onlyDmn {
		concParent(r)
	}
	<-dmnDone

	// floors: every transition class of the state machine, refusals of every kind, clean drains
	scale := int64(1)
	if !r.Quick() {
		scale = 25
	}
	for k, v := range map[string]int64{
		"events": 200000, "seq.drained-empty": 15000,
		"ev.pending.none.ok": 10000, "ev.pending.connected.fail": 200, "ev.pending.introduced.fail": 200,
		"ev.connected.none.ok": 20000, "ev.connected.pending.ok": 2000, "ev.connected.connected.fail": 300, "ev.connected.introduced.fail": 300,
		"ev.introduced.connected.ok": 10000, "ev.introduced.connected.fail": 2000, "ev.introduced.pending.fail": 500, "ev.introduced.introduced.fail": 1000, "ev.introduced.none.fail": 100,
		"ev.remove.pending.ok": 2000, "ev.remove.connected.ok": 5000, "ev.remove.introduced.ok": 5000, "ev.remove.introduced.fail": 500, "ev.remove.connected.fail": 500,
		"ev.setheight.introduced.ok":      500,
		"err.introduced.ip-mirror-exists": 1000, "err.introduced.id-mismatch": 500, "err.connected.invalid-id": 200,
		"cover.introduced:connected:in:lp0.ok": 2000, "cover.remove:connected:mirror0-shared.ok": 300, "cover.remove:pending:mirror0-shared.ok": 100,
	} {
		r.Floor(k, v*scale)
	}
	r.Floor("states.distinct", int64(r.Pick(5000, 100000)))
	r.Floor("conc.histories", int64(r.Pick(300, 4000)))
	r.Floor("conc.linearizable", int64(r.Pick(250, 3500)))
	r.Floor("conc.histories-with-overlap", int64(r.Pick(60, 600)))
	r.Floor("race.stress-ops", int64(r.Pick(20000, 300000)))
	// daemon legs: every handler on every state, every failure error value on a pending connection,
	// the pool's own refusals really occurring on real sockets
	for k, v := range map[string][2]int{
		"dmn.events": {4000, 80000}, "dmn.seq.drained-empty": {250, 5000}, "dmn.states.distinct": {500, 5000},
		"dmn.failure.pending.applied": {200, 4000}, "dmn.connect.pending.applied": {100, 2000}, "dmn.connect.none.applied": {400, 8000},
		"dmn.intro.connected.applied": {200, 4000}, "dmn.disconnect.connected.applied": {200, 4000}, "dmn.disconnect.introduced.applied": {200, 4000},
		"dmn.redial-after-failure": {50, 1000},
		"real.scenario.slots":      {2, 12}, "real.scenario.defaults": {2, 12}, "real.final-states-compared": {8, 48}, "real.checks": {25, 150},
		"real.redialled-after-refusal":          {2, 12},
		"real.log.connect-failure.max-outgoing": {2, 12}, "real.log.connect-failure.max-incoming": {2, 12}, "real.log.connect-failure.max-outgoing-default": {1, 6},
	} {
		r.Floor(k, int64(r.Pick(v[0], v[1])))
	}
	for _, x := range failureErrors("11.1.1.1:6000") {
		r.Floor("dmn.failure-error."+x.name+".pending", int64(r.Pick(3, 60)))
	}

	r.Finish("random event sequences (5-40 events + drain) over 3 IPs x 3 ports, mirrors {0,1,2}, listen ports {0,6000,6001}, fresh/zero/foreign/stale connection ids, "+
		"with deliberate wrong-state and wrong-id events; a case is non-trivial when it reaches a registry state (canonical shadow snapshot) not seen before; "+
		"concurrent histories: 3-4 clients x 4-6 ops on 2-3 addresses of one IP, checked with porcupine; race detector on the whole binary; "+
		"daemon legs: the same kind of sequences delivered to a running daemon.Daemon through its gnet callbacks and IntroductionMessage.Handle (connect, disconnect with 24 reasons, "+
		"connect failure with 20 error values, introduction; outgoing attempt and SetHeight through the registry), compared with the shadow after a FIFO barrier per event; "+
		"and two real-socket scenarios (trusted peers = harness listeners, 2 outgoing / 2 default / 1 incoming slots) checked against the connections the harness really holds",
		"gnet connection ids are unique among live connections (gnet hands them out from a counter); connected() is never called with an id that another live connection holds",
		"zero-valued ipCounts entries and empty inner mirror maps are treated as absent (observationally equal through IPCount)",
		"the return value of remove() for an unknown address is not compared (comment and code disagree); only that nothing changes",
		"addresses with port 0 are not used as connection addresses (listen port 0 is exercised through the introduction message)",
		"daemon legs: a connect-failure event amounts to remove(addr, id 0) whatever its error value; the registry is compared at quiescent points only (FIFO barrier through the daemon's event channel; "+
			"on real sockets additionally every daemon/gnet goroutine parked in its idle place); a pending entry for an address the daemon may be dialling is stale only if it survives 7 consecutive quiescent rounds",
		"data-race reports of the daemon as a whole (e.g. pool map lengths read outside the strand) are counted, not judged: only the five registry maps are the subject",
	)
}

func replay(r *vf.Run, path string) {
	b, err := ioutil.ReadFile(path)
	if err != nil {
		fmt.Fprintln(os.Stderr, err)
		os.Exit(3)
	}
	var doc struct {
		Witness witness `json:"witness"`
	}
	if err := json.Unmarshal(b, &doc); err != nil || len(doc.Witness.Events) == 0 {
		fmt.Fprintln(os.Stderr, "replay file has no registry event sequence (concurrent histories and daemon-leg witnesses are narratives; re-run the check with the same VERIF_SEED)")
		os.Exit(3)
	}
	s := &seqRun{cnt: counters{}, keepGo: true, states: map[uint64]struct{}{}}
	evs := s.run(nil, 0, doc.Witness.Events)
	r.Eval(1)
	for i, e := range evs {
		fmt.Printf("  %2d %s\n", i, e.String())
		r.Distinct("replay:" + strconv.Itoa(i) + e.String())
	}
	for k, v := range s.cnt {
		r.Count(k, v)
	}
	for _, f := range s.findings {
		report(r, f, 1)
	}
	r.Sample(map[string]interface{}{"replayed": path, "events": len(evs)})
	r.Finish("replay of a recorded event sequence")
}
