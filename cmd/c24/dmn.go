package main

// Daemon leg. The sequential and concurrent legs drive the registry (daemon.Connections) directly;
// this leg drives the component that owns it: a real daemon.Daemon (daemon.New + Run, real visor on a
// bolt file, real gnet pool listening on loopback) whose event loop calls the registry from its own
// handlers (onConnectEvent, onDisconnectEvent, onConnectFailure, onMessageEvent -> introduction).
//
// The handlers are unexported. Events reach them the way they do in production: through the three
// gnet callbacks the daemon hands to its pool (daemon.NewPool(cfg, d) is exported and returns a pool
// whose Config carries d's ConnectCallback / DisconnectCallback / ConnectFailureCallback; the extra
// pool is never run, it is only the handle to the callbacks) and through
// IntroductionMessage.Handle(ctx, d), which is what gnet calls for a received message. All of them
// push onto the daemon's FIFO event channel, which the Run loop drains one event at a time.
//
// Quiescence is logical: after a stimulus the connect event of a sentinel connection is pushed (the
// next time: its disconnect event) and the registry is polled until the sentinel shows up (is gone):
// the channel is FIFO, so everything pushed before has been handled. Only then is the registry
// compared with the shadow model (the same model and the same comparison as the sequential leg).
//
// Mapping of the statement's events onto the model:
//   outgoing attempt  registry.pending(addr) through the hook (what connectToPeer does before dialling)
//   connect           ConnectCallback(addr, id, solicited)            -> connected(addr, id)
//   introduce         IntroductionMessage.Handle({id, addr}, daemon)  -> introduced(addr, id, msg)
//   disconnect        DisconnectCallback(addr, id, reason)            -> remove(addr, id)
//   failure           ConnectFailureCallback(addr, solicited, error)  -> remove(addr, 0), whatever the error

import (
	"context"
	"encoding/json"
	"errors"
	"fmt"
	"io"
	"io/ioutil"
	"math/rand"
	"net"
	"os"
	"path/filepath"
	"runtime"
	"runtime/debug"
	"sort"
	"strconv"
	"strings"
	"syscall"
	"time"

	"github.com/skycoin/skycoin/src/cipher"
	"github.com/skycoin/skycoin/src/daemon"
	"github.com/skycoin/skycoin/src/daemon/gnet"
	"github.com/skycoin/skycoin/src/params"

	"verif/lib/fix"
	"verif/lib/vf"
)

// ---- a real daemon in this process --------------------------------------------------------------

type dnode struct {
	d        *daemon.Daemon
	cb       gnet.Config // only the three callbacks are used
	conns    *daemon.Connections
	fx       *fix.Node
	chain    *fix.Chain
	peerAddr string
	cfg      daemon.Config
	runDone  chan error
	// barrier sentinel: id of the current / last sentinel connection, and whether it is registered
	sentinel   uint64
	sentinelUp bool
}

func freePort(ip string) int {
	l, err := net.Listen("tcp", ip+":0")
	if err != nil {
		return 0
	}
	defer l.Close()
	return l.Addr().(*net.TCPAddr).Port
}

const dmnMirror = 0xC24C24

// startDaemon assembles visor + daemon like skycoin.Coin.Run does (no wallet, no API) and starts
// the daemon's Run loop. Every timer is an hour unless tweak changes it.
func startDaemon(dir, tag string, tweak func(c *daemon.Config)) (*dnode, error) {
	if err := os.MkdirAll(dir, 0700); err != nil {
		return nil, err
	}
	n := &dnode{chain: fix.NewChain(tag, 100e12, 7, 4, 2), runDone: make(chan error, 1), sentinel: 1 << 62}
	fx, err := n.chain.Open(filepath.Join(dir, "data.db"), true, false)
	if err != nil {
		return nil, fmt.Errorf("visor: %v", err)
	}
	n.fx = fx

	dc := daemon.NewConfig()
	port := freePort("127.0.0.1")
	dc.Daemon.Address = "127.0.0.1"
	dc.Daemon.Port = port
	dc.Daemon.DataDirectory = dir
	dc.Daemon.BlockchainPubkey = n.chain.Publisher.Pub
	dc.Daemon.UserAgent.Coin = "skycoin"
	dc.Daemon.UserAgent.Version = "0.27.0"
	dc.Daemon.UnconfirmedVerifyTxn = n.chain.Unconfirmed
	dc.Daemon.MaxBlockTransactionsSize = n.chain.MaxBlock
	dc.Daemon.LogPings = false
	dc.Daemon.Mirror = dmnMirror
	dc.Daemon.IPCountsMax = 1000
	dc.Daemon.DisableOutgoingConnections = true
	dc.Daemon.IntroductionWait = time.Hour
	dc.Daemon.CullInvalidRate = time.Hour
	dc.Daemon.FlushAnnouncedTxnsRate = time.Hour
	dc.Daemon.BlocksRequestRate = time.Hour
	dc.Daemon.BlocksAnnounceRate = time.Hour
	dc.Daemon.UnconfirmedRefreshRate = time.Hour
	dc.Daemon.UnconfirmedRemoveInvalidRate = time.Hour
	dc.Daemon.BlockCreationInterval = 1 << 30
	dc.Daemon.OutgoingRate = time.Hour
	dc.Daemon.OutgoingTrustedRate = time.Hour
	dc.Pool.IdleLimit = time.Hour
	dc.Pool.PingRate = time.Hour
	dc.Pool.IdleCheckRate = time.Hour
	dc.Pool.ClearStaleRate = time.Hour
	dc.Pex.DataDirectory = dir
	dc.Pex.DownloadPeerList = false
	dc.Pex.RequestRate = time.Hour
	dc.Pex.AllowLocalhost = true
	if tweak != nil {
		tweak(&dc)
	}
	n.cfg = dc

	gnet.EraseMessages()
	d, err := daemon.New(dc, fx.V)
	if err != nil {
		fx.Close()
		return nil, fmt.Errorf("daemon.New: %v", err)
	}
	n.d = d
	n.conns = d.VerifConnections()
	n.peerAddr = fmt.Sprintf("127.0.0.1:%d", dc.Daemon.Port)
	// the handle to the daemon's gnet callbacks
	p, err := daemon.NewPool(dc.Pool, d)
	if err != nil {
		fx.Close()
		return nil, fmt.Errorf("daemon.NewPool: %v", err)
	}
	n.cb = p.Pool.Config
	if n.cb.ConnectCallback == nil || n.cb.DisconnectCallback == nil || n.cb.ConnectFailureCallback == nil {
		fx.Close()
		return nil, errors.New("daemon.NewPool did not wire the callbacks")
	}
	go func() { n.runDone <- d.Run() }()
	// the pool starts listening inside Run
	deadline := time.Now().Add(60 * time.Second)
	for {
		c, err := net.DialTimeout("tcp", n.peerAddr, time.Second)
		if err == nil {
			// the probe is a connection like any other: wait until the daemon has registered it and,
			// after closing it, until the daemon has dropped it again, so that the run starts from an
			// empty registry with no event of the probe still on its way
			me := c.LocalAddr().String()
			err1 := pollUntil(func() bool { return n.conns.VerifGet(me) != nil })
			c.Close()
			err2 := pollUntil(func() bool { return n.conns.VerifGet(me) == nil })
			if err1 != nil || err2 != nil {
				return nil, errors.New("the start-up probe connection was not registered and dropped")
			}
			break
		}
		if time.Now().After(deadline) {
			return nil, fmt.Errorf("peer port never opened: %v", err)
		}
		time.Sleep(5 * time.Millisecond)
	}
	return n, nil
}

func (n *dnode) stop() {
	n.d.Shutdown()
	select {
	case <-n.runDone:
	case <-time.After(60 * time.Second):
	}
	n.fx.Close()
}

const sentinelAddr = "99.9.9.9:9999"

var errStalled = errors.New("daemon event loop did not reach the sentinel (watchdog)")

// pollUntil spins (then sleeps) until f is true; the watchdog only ever yields "inconclusive"
func pollUntil(f func() bool) error {
	for i := 0; ; i++ {
		if f() {
			return nil
		}
		switch {
		case i < 200:
			runtime.Gosched()
		case i < 2000:
			time.Sleep(20 * time.Microsecond)
		default:
			time.Sleep(time.Millisecond)
			if i > 2000+120000 {
				return errStalled
			}
		}
	}
}

// barrier returns when every event pushed onto the daemon's event channel before the call has been
// handled: it pushes a connect event (next time: the disconnect event) of a sentinel connection and
// polls the registry until the sentinel is there (gone). The sentinel is an incoming connection like
// any other and is mirrored in the model.
func (n *dnode) barrier(m *Model) error {
	if !n.sentinelUp {
		n.sentinel++
		n.cb.ConnectCallback(sentinelAddr, n.sentinel, false)
		if err := pollUntil(func() bool { return n.conns.VerifGet(sentinelAddr) != nil }); err != nil {
			return err
		}
		m.apply(Event{Op: opConnected, Addr: sentinelAddr, ID: n.sentinel})
		n.sentinelUp = true
		return nil
	}
	n.cb.DisconnectCallback(sentinelAddr, n.sentinel, gnet.ErrDisconnectShutdown)
	if err := pollUntil(func() bool { return n.conns.VerifGet(sentinelAddr) == nil }); err != nil {
		return err
	}
	m.apply(Event{Op: opRemove, Addr: sentinelAddr, ID: n.sentinel})
	n.sentinelUp = false
	return nil
}

// ---- the error values a connect failure can carry -------------------------------------------------

type namedErr struct {
	name string
	err  error
}

type timeoutErr struct{}

func (timeoutErr) Error() string   { return "i/o timeout" }
func (timeoutErr) Timeout() bool   { return true }
func (timeoutErr) Temporary() bool { return true }

func dialErr(addr string, inner error) error {
	ip, port, _ := splitAddr(addr)
	return &net.OpError{Op: "dial", Net: "tcp", Addr: &net.TCPAddr{IP: net.ParseIP(ip), Port: int(port)}, Err: inner}
}

// failureErrors: every error gnet's Connect / handleConnection / strand can hand to the failure
// callback (dial errors of the net package, the pool's own refusals, pool shutdown), the other gnet
// error values, and arbitrary ones
func failureErrors(addr string) []namedErr {
	return []namedErr{
		{"dial-refused", dialErr(addr, os.NewSyscallError("connect", syscall.ECONNREFUSED))},
		{"dial-timeout", dialErr(addr, timeoutErr{})},
		{"dial-unreachable", dialErr(addr, os.NewSyscallError("connect", syscall.ENETUNREACH))},
		{"dial-hostunreach", dialErr(addr, os.NewSyscallError("connect", syscall.EHOSTUNREACH))},
		{"dial-no-fds", dialErr(addr, os.NewSyscallError("socket", syscall.EMFILE))},
		{"conn-exists", gnet.ErrConnectionExists},
		{"max-incoming", gnet.ErrMaxIncomingConnectionsReached},
		{"max-outgoing", gnet.ErrMaxOutgoingConnectionsReached},
		{"max-outgoing-default", gnet.ErrMaxOutgoingDefaultConnectionsReached},
		{"pool-closed", gnet.ErrConnectionPoolClosed},
		{"no-reachable", gnet.ErrNoReachableConnections},
		{"no-matching", gnet.ErrNoMatchingConnections},
		{"pool-empty", gnet.ErrPoolEmpty},
		{"write-queue-full", gnet.ErrWriteQueueFull},
		{"no-addresses", gnet.ErrNoAddresses},
		{"deadline-exceeded", context.DeadlineExceeded},
		{"eof", io.EOF},
		{"arbitrary", errors.New("some other failure")},
		{"wrapped-max-outgoing", fmt.Errorf("connect %s: %w", addr, gnet.ErrMaxOutgoingConnectionsReached)},
		{"empty-text", errors.New("")},
	}
}

func disconnectReasons() []namedErr {
	return []namedErr{
		{"read-eof", errors.New("read failed: EOF")},
		{"read-reset", errors.New("read failed: read tcp 127.0.0.1:1->127.0.0.1:2: read: connection reset by peer")},
		{"intro-timeout", daemon.ErrDisconnectIntroductionTimeout},
		{"pubkey-not-matched", daemon.ErrDisconnectBlockchainPubkeyNotMatched},
		{"invalid-extra", daemon.ErrDisconnectInvalidExtraData},
		{"invalid-user-agent", daemon.ErrDisconnectInvalidUserAgent},
		{"no-intro", daemon.ErrDisconnectNoIntroduction},
		{"version", daemon.ErrDisconnectVersionNotSupported},
		{"self", daemon.ErrDisconnectSelf},
		{"twice", daemon.ErrDisconnectConnectedTwice},
		{"idle", daemon.ErrDisconnectIdle},
		{"ip-limit", daemon.ErrDisconnectIPLimitReached},
		{"unexpected", daemon.ErrDisconnectUnexpectedError},
		{"max-outgoing", daemon.ErrDisconnectMaxOutgoingConnectionsReached},
		{"received-disc", daemon.ErrDisconnectReceivedDisconnect},
		{"operator", daemon.ErrDisconnectRequestedByOperator},
		{"peerlist-full", daemon.ErrDisconnectPeerlistFull},
		{"unknown", daemon.ErrDisconnectUnknownReason},
		{"gnet-shutdown", gnet.ErrDisconnectShutdown},
		{"gnet-malformed", gnet.ErrDisconnectMalformedMessage},
		{"gnet-length", gnet.ErrDisconnectInvalidMessageLength},
		{"gnet-unknown-msg", gnet.ErrDisconnectUnknownMessage},
		{"gnet-write-queue", gnet.ErrWriteQueueFull},
		{"gnet-max-outgoing", gnet.ErrMaxOutgoingConnectionsReached},
	}
}

// ---- stimuli ---------------------------------------------------------------------------------------

const (
	viaHook       = "hook"       // registry call the daemon makes outside the event loop (pending, SetHeight)
	viaConnect    = "connect"    // ConnectCallback
	viaDisconnect = "disconnect" // DisconnectCallback
	viaFailure    = "failure"    // ConnectFailureCallback
	viaIntro      = "intro"      // IntroductionMessage.Handle
)

type stim struct {
	Via       string
	E         Event  // the model event this stimulus amounts to
	Solicited bool   // connect / failure
	ErrName   string // failure error / disconnect reason
	err       error
}

func (s stim) String() string {
	switch s.Via {
	case viaConnect:
		return fmt.Sprintf("ConnectEvent(%s,id=%d,solicited=%v)", s.E.Addr, s.E.ID, s.Solicited)
	case viaDisconnect:
		return fmt.Sprintf("DisconnectEvent(%s,id=%d,reason=%s)", s.E.Addr, s.E.ID, s.ErrName)
	case viaFailure:
		return fmt.Sprintf("ConnectFailureEvent(%s,solicited=%v,error=%s)", s.E.Addr, s.Solicited, s.ErrName)
	case viaIntro:
		return fmt.Sprintf("INTR(%s,id=%d,mirror=%d,listen=%d)", s.E.Addr, s.E.ID, s.E.Mirror, s.E.Listen)
	}
	return s.E.String()
}

// toStim turns a generated registry event into the daemon-level stimulus that amounts to it
func toStim(rng *rand.Rand, m *Model, e Event) stim {
	c := m.conns[e.Addr]
	switch e.Op {
	case opConnected:
		// gnet reports solicited=true exactly for the connections the pool dialled itself
		return stim{Via: viaConnect, E: e, Solicited: c != nil && c.outgoing}
	case opIntroduced:
		return stim{Via: viaIntro, E: e}
	case opRemove:
		pending := c != nil && c.state == stPending
		asFailure := (pending && rng.Intn(5) > 0) || (!pending && rng.Intn(7) == 0)
		if asFailure {
			errs := failureErrors(e.Addr)
			x := errs[rng.Intn(len(errs))]
			e.ID = 0 // a failure event carries no connection id: it can only ever clear a pending entry
			return stim{Via: viaFailure, E: e, Solicited: c == nil || c.outgoing || rng.Intn(4) == 0, ErrName: x.name, err: x.err}
		}
		rs := disconnectReasons()
		x := rs[rng.Intn(len(rs))]
		return stim{Via: viaDisconnect, E: e, ErrName: x.name, err: x.err}
	}
	return stim{Via: viaHook, E: e}
}

func (n *dnode) intro(e Event) *daemon.IntroductionMessage {
	return daemon.NewIntroductionMessage(e.Mirror, 2, e.Listen, n.chain.Publisher.Pub, "skycoin:0.27.0", params.UserVerifyTxn, cipher.SHA256{})
}

// fire delivers a stimulus; hookErr is the registry's answer for hook stimuli
func (n *dnode) fire(s stim) (hookErr error) {
	switch s.Via {
	case viaHook:
		return applyReal(n.conns, s.E)
	case viaConnect:
		n.cb.ConnectCallback(s.E.Addr, s.E.ID, s.Solicited)
	case viaDisconnect:
		n.cb.DisconnectCallback(s.E.Addr, s.E.ID, s.err)
	case viaFailure:
		n.cb.ConnectFailureCallback(s.E.Addr, s.Solicited, s.err)
	case viaIntro:
		_ = n.intro(s.E).Handle(&gnet.MessageContext{ConnID: s.E.ID, Addr: s.E.Addr}, n.d)
	}
	return nil
}

// ---- child: event sequences through the daemon's handlers ------------------------------------------

type dmnFinding struct {
	Part    string            `json:"part"`
	Kind    string            `json:"kind"`
	Trigger string            `json:"trigger"`
	Step    int               `json:"failing_step"`
	Detail  map[string]string `json:"detail"`
	Events  []string          `json:"sequence"`
}

type dmnResult struct {
	Counts   map[string]int64         `json:"counts"`
	Findings []dmnFinding             `json:"findings"`
	Samples  []map[string]interface{} `json:"samples"`
	States   []uint64                 `json:"states"`
	Stalled  string                   `json:"stalled"`
	Finished bool                     `json:"finished"`
}

func stimTrigger(m *Model, s stim) string {
	t := s.Via + ":" + stName[m.stateOf(s.E.Addr)]
	if s.Via == viaFailure || s.Via == viaDisconnect {
		t += ":" + s.ErrName
	}
	if s.Via == viaHook {
		t = opName[s.E.Op] + ":" + stName[m.stateOf(s.E.Addr)]
	}
	return t
}

func dmnChild() {
	out := os.Getenv("VERIF_DMN_OUT")
	seed, _ := strconv.ParseInt(os.Getenv("VERIF_DMN_SEED"), 10, 64)
	nSeq, _ := strconv.Atoi(os.Getenv("VERIF_DMN_SEQS"))
	dir := os.Getenv("VERIF_DMN_DIR")
	res := dmnResult{Counts: map[string]int64{}}
	write := func() {
		b, _ := json.Marshal(res)
		_ = ioutil.WriteFile(out+".tmp", b, 0644)
		_ = os.Rename(out+".tmp", out)
	}
	debug.SetGCPercent(400)
	runtime.GOMAXPROCS(2) // few Ps: the poll loops below would otherwise keep waking idle ones
	n, err := startDaemon(filepath.Join(dir, "node"), "c24-dmn", nil)
	if err != nil {
		res.Stalled = "daemon start: " + err.Error()
		write()
		return
	}
	classes := map[string]bool{}
	states := map[uint64]struct{}{}

	for si := 0; si < nSeq && res.Stalled == "" && len(res.Findings) < 8; si++ {
		rng := rand.New(rand.NewSource(seed + int64(si)*104729))
		g := newGen(rng)
		// ids stay unique over the daemon's lifetime, like gnet's counter
		g.nextID = uint64(si)*1000 + 1
		m := newModel()
		trace := []string{}
		var bad *dmnFinding
		do := func(s stim) bool {
			s.E.Name = opName[s.E.Op]
			trig := stimTrigger(m, s)
			before := stName[m.stateOf(s.E.Addr)]
			trace = append(trace, s.String())
			hookErr := n.fire(s)
			if err := n.barrier(m); err != nil {
				res.Stalled = err.Error() + " after " + s.String()
				return false
			}
			r := m.apply(s.E)
			res.Counts["dmn.events"]++
			res.Counts["dmn.via."+s.Via]++
			changed := "nochange"
			if r == resOK {
				changed = "applied"
			}
			res.Counts["dmn."+s.Via+"."+before+"."+changed]++
			if s.Via == viaFailure {
				st := "not-pending"
				if before == "pending" {
					st = "pending"
				}
				res.Counts["dmn.failure-error."+s.ErrName+"."+st]++
			}
			if s.Via == viaDisconnect && r == resOK {
				res.Counts["dmn.disconnect-reason."+s.ErrName]++
			}
			if s.Via == viaHook && r != resEither && (r == resOK) != (hookErr == nil) {
				kind := opName[s.E.Op] + "-wrongly-refused"
				if hookErr == nil {
					kind = opName[s.E.Op] + "-wrongly-accepted"
				}
				bad = &dmnFinding{Part: "handlers", Kind: kind, Trigger: trig, Step: len(trace) - 1,
					Detail: map[string]string{"real": errClass(hookErr), "event": s.String()}}
				return false
			}
			if kind, d := compare(n.conns, m, s.E); kind != "" {
				d["event"] = s.String()
				bad = &dmnFinding{Part: "handlers", Kind: kind, Trigger: trig, Step: len(trace) - 1, Detail: d}
				return false
			}
			if !n.sentinelUp {
				states[fnv64(m.key())] = struct{}{}
			}
			return true
		}
		nEv := 8 + rng.Intn(30)
		ok := true
		for i := 0; i < nEv && ok; i++ {
			e := g.next(m)
			var hadID uint64
			if c := m.conns[e.Addr]; c != nil {
				hadID = c.id
			}
			s := toStim(rng, m, e)
			wasPending := m.stateOf(e.Addr) == stPending
			ok = do(s)
			if ok && m.conns[e.Addr] == nil && e.Op == opRemove {
				g.retire(hadID)
				// "a failed connection leaves nothing behind and its address can be dialled again"
				if wasPending && rng.Intn(2) == 0 {
					ok = do(stim{Via: viaHook, E: Event{Op: opPending, Addr: e.Addr}})
					if ok {
						res.Counts["dmn.redial-after-failure"]++
					}
				}
			}
		}
		// drain through the handlers: failures for what is still pending, disconnects for the rest
		if ok {
			addrs := []string{}
			for a := range m.conns {
				if a != sentinelAddr {
					addrs = append(addrs, a)
				}
			}
			sort.Strings(addrs)
			for _, a := range addrs {
				c := m.conns[a]
				e := Event{Op: opRemove, Addr: a, ID: c.id}
				var s stim
				if c.state == stPending {
					errs := failureErrors(a)
					x := errs[rng.Intn(len(errs))]
					s = stim{Via: viaFailure, E: e, Solicited: true, ErrName: x.name, err: x.err}
				} else {
					rs := disconnectReasons()
					x := rs[rng.Intn(len(rs))]
					s = stim{Via: viaDisconnect, E: e, ErrName: x.name, err: x.err}
				}
				if ok = do(s); !ok {
					break
				}
			}
			if ok && n.sentinelUp {
				// take the sentinel down as well: "removing every connection leaves all of these maps empty"
				if err := n.barrier(m); err != nil {
					res.Stalled = err.Error()
					ok = false
				} else if kind, d := compare(n.conns, m, Event{Op: opRemove, Addr: sentinelAddr}); kind != "" {
					bad = &dmnFinding{Part: "handlers", Kind: kind, Trigger: "drain", Step: len(trace), Detail: d}
					ok = false
				}
			}
			if ok && len(m.conns) == 0 {
				res.Counts["dmn.seq.drained-empty"]++
			}
		}
		res.Counts["dmn.seq"]++
		if bad != nil {
			bad.Events = trace
			cl := bad.Kind + "|" + bad.Trigger
			res.Counts["dmn.seq.with-finding"]++
			if !classes[cl] {
				classes[cl] = true
				res.Findings = append(res.Findings, *bad)
			}
			// the registry is out of step with the model: start the next sequence from a clean one
			for _, x := range n.conns.VerifAll() {
				_ = n.conns.VerifRemove(x.Addr, x.GnetID)
			}
			n.sentinelUp = false
			if n.conns.Len() != 0 {
				res.Stalled = "registry could not be cleaned after a finding"
			}
		}
		if si < 2 {
			res.Samples = append(res.Samples, map[string]interface{}{"leg": "daemon", "index": si, "sequence": trace})
		}
		if si%50 == 0 {
			write()
		}
	}
	for h := range states {
		if len(res.States) < 20000 {
			res.States = append(res.States, h)
		}
	}
	res.Counts["dmn.states.distinct"] = int64(len(states))
	select {
	case err := <-n.runDone:
		res.Stalled = fmt.Sprintf("daemon.Run returned during the run: %v", err)
	default:
		n.stop()
	}
	res.Finished = true
	write()
}

// ---- parent ------------------------------------------------------------------------------------------

func dmnParent(r *vf.Run) {
	dir := vf.TempDir("c24dmn")
	defer os.RemoveAll(dir)
	outp := filepath.Join(dir, "result.json")
	env := []string{
		"VERIF_DMN_OUT=" + outp,
		"VERIF_DMN_DIR=" + dir,
		"VERIF_DMN_SEED=" + strconv.FormatInt(r.SubSeed("dmn"), 10),
		"VERIF_DMN_SEQS=" + strconv.Itoa(r.Pick(300, 6000)),
		"GORACE=log_path=" + filepath.Join(dir, "race") + " halt_on_error=0 exitcode=0",
	}
	cr := vf.RunChild(dir, "", "dmn", nil, env, time.Duration(r.Pick(600, 2400))*time.Second)
	dmnCollect(r, "daemon-handlers", dir, outp, cr)
}

// dmnCollect turns a daemon-leg child's result file into counters, samples and verdicts
func dmnCollect(r *vf.Run, leg, dir, outp string, cr vf.ChildResult) {
	var res dmnResult
	ok := false
	if b, err := ioutil.ReadFile(outp); err == nil {
		ok = json.Unmarshal(b, &res) == nil
	}
	for k, v := range res.Counts {
		r.Count(k, v)
	}
	r.Eval(res.Counts["dmn.seq"] + res.Counts["real.checks"])
	for _, h := range res.States {
		r.Distinct("dst:" + strconv.FormatUint(h, 36))
	}
	for _, s := range res.Samples {
		r.Sample(s)
	}
	for _, f := range res.Findings {
		attrs := map[string]string{"leg": "daemon", "part": f.Part, "trigger": f.Trigger}
		if v, ok := f.Detail["event"]; ok {
			attrs["event"] = v
		}
		r.Violation(f.Kind, attrs, f)
	}
	files, _ := filepath.Glob(filepath.Join(dir, "race.*"))
	nRace := 0
	for _, f := range files {
		b, _ := ioutil.ReadFile(f)
		nRace += strings.Count(string(b), "WARNING: DATA RACE")
	}
	// the daemon as a whole is not the subject of this property; its race reports are only counted
	r.Count(leg+".race-reports-not-judged", int64(nRace))
	switch {
	case cr.TimedOut:
		r.Inconclusive(leg + " child timed out")
	case !ok || !res.Finished:
		if head, frame := vf.CrashSignature(cr.Stderr); head != "" {
			r.Violation("daemon-crash", map[string]string{"leg": leg, "headline": head, "frame": frame},
				map[string]interface{}{"frames": vf.FirstFrames(cr.Stderr, 8), "exit": cr.ExitCode, "last_counts": res.Counts})
		} else {
			r.Inconclusive(fmt.Sprintf("%s child left no complete result (exit %d)", leg, cr.ExitCode))
		}
	case res.Stalled != "":
		r.Inconclusive(leg + ": " + res.Stalled)
	}
}
