package main

// Daemon leg, real sockets. A real daemon (localhost-only, trusted peers = listeners owned by this
// harness, pool limits set low, trusted-peer dialling every 150 ms) really dials, is really refused by
// its own pool (max outgoing / max default outgoing / max incoming), by closed ports and by the
// harness hanging up; the registry must keep describing exactly the connections that exist.
//
// Truth is what the harness holds: a TCP connection the harness accepted (or dialled) and on which it
// has not seen the daemon's EOF exists; nothing else does. Addresses the daemon may be dialling right
// now (trusted peers it is not connected to) may additionally appear as "pending", but only
// transiently.
//
// Quiescence is logical, not timed:
//   - "no connection event is under way": a dump of all goroutines shows every daemon/gnet goroutine
//     parked in its idle place (no dial goroutine, no connection being registered or torn down, no
//     callback, no tick in progress, event loop idle);
//   - then a barrier through the daemon's FIFO event channel (sentinel connect + disconnect);
//   - then ONE locked snapshot of the five maps, and the harness' connection set must be the same
//     before and after.
// A pending entry for a dial candidate is judged stale only if it is still there in 7 consecutive
// such rounds: each round ends after the dial that created the entry has finished and its failure
// event has been handled, so in a correct daemon every further sighting needs a further 150 ms tick;
// the wall clock is only used to *discard* a judgement whose rounds took long enough for that.

import (
	"encoding/binary"
	"encoding/json"
	"fmt"
	"io/ioutil"
	"net"
	"os"
	"path/filepath"
	"runtime"
	"sort"
	"strconv"
	"strings"
	"sync"
	"time"

	"github.com/sirupsen/logrus"

	"github.com/skycoin/skycoin/src/daemon"
	"github.com/skycoin/skycoin/src/util/logging"

	"verif/lib/vf"
	"verif/lib/wire"
)

const trustedTick = 150 * time.Millisecond

// ---- harness side of a connection -------------------------------------------------------------------

type hconn struct {
	c        net.Conn
	key      string // the address under which the daemon must know this connection
	outgoing bool   // from the daemon's point of view
	dead     bool   // the daemon's EOF (or a reset) was seen
	intro    bool   // a valid introduction was sent and a later PING was answered
	mirror   uint32
	listen   uint16
	buf      []byte
	pongs    int
}

// probe reads whatever has arrived (at most ~2 ms of waiting) and notes EOF. The daemon closes a
// connection before it even queues the corresponding event, so once the daemon is quiescent a probe
// cannot miss an EOF.
func (h *hconn) probe() {
	if h.dead {
		return
	}
	tmp := make([]byte, 16384)
	for {
		_ = h.c.SetReadDeadline(time.Now().Add(2 * time.Millisecond))
		n, err := h.c.Read(tmp)
		if n > 0 {
			h.buf = append(h.buf, tmp[:n]...)
			for len(h.buf) >= 8 {
				l := int(binary.LittleEndian.Uint32(h.buf))
				if l < 4 || l > 1<<24 {
					h.buf = nil
					break
				}
				if len(h.buf) < 4+l {
					break
				}
				if string(h.buf[4:8]) == "PONG" {
					h.pongs++
				}
				h.buf = h.buf[4+l:]
			}
		}
		if err != nil {
			if ne, ok := err.(net.Error); ok && ne.Timeout() {
				return
			}
			h.dead = true
			return
		}
	}
}

// hangUp half-closes the connection and waits for the daemon's EOF (a positive event)
func (h *hconn) hangUp() error {
	if tc, ok := h.c.(*net.TCPConn); ok {
		_ = tc.CloseWrite()
	}
	err := pollUntil(func() bool { h.probe(); return h.dead })
	h.c.Close()
	return err
}

// introduce sends a valid introduction and a PING and waits for the PONG: the introduction has been
// handled by then (same connection, FIFO)
func (h *hconn) introduce(n *dnode, mirror uint32, listen uint16) error {
	p := wire.DefaultIntro(n.chain.Publisher.Pub, mirror)
	p.ListenPort = listen
	_ = h.c.SetWriteDeadline(time.Now().Add(20 * time.Second))
	if _, err := h.c.Write(append(wire.Frame("INTR", wire.IntroBody(p)), wire.Frame("PING", nil)...)); err != nil {
		return err
	}
	before := h.pongs
	if err := pollUntil(func() bool { h.probe(); return h.dead || h.pongs > before }); err != nil {
		return err
	}
	if h.dead {
		return fmt.Errorf("the daemon closed %s instead of answering the PING after a valid introduction", h.key)
	}
	h.intro, h.mirror, h.listen = true, mirror, listen
	return nil
}

// a listener owned by the harness (a "peer" the daemon may dial)
type hpeer struct {
	addr string
	mu   sync.Mutex
	ln   net.Listener
	acc  []*hconn
}

func (p *hpeer) open() error {
	ln, err := net.Listen("tcp", p.addr)
	if err != nil {
		return err
	}
	p.mu.Lock()
	p.ln = ln
	p.mu.Unlock()
	go func() {
		for {
			c, err := ln.Accept()
			if err != nil {
				return
			}
			if tc, ok := c.(*net.TCPConn); ok {
				_ = tc.SetNoDelay(true)
			}
			p.mu.Lock()
			p.acc = append(p.acc, &hconn{c: c, key: p.addr, outgoing: true})
			p.mu.Unlock()
		}
	}()
	return nil
}

func (p *hpeer) closeListener() {
	p.mu.Lock()
	if p.ln != nil {
		p.ln.Close()
		p.ln = nil
	}
	p.mu.Unlock()
}

func (p *hpeer) conns() []*hconn {
	p.mu.Lock()
	defer p.mu.Unlock()
	return append([]*hconn(nil), p.acc...)
}

func reserveAddr(ip string) string {
	return ip + ":" + strconv.Itoa(freePort(ip))
}

// ---- the world of one scenario ------------------------------------------------------------------------

type world struct {
	n      *dnode
	peers  []*hpeer
	dialed []*hconn // connections the harness made to the daemon
	res    *dmnResult
	name   string
	trace  []string
	t0     time.Time
}

// note appends to the scenario's narrative (the time stamps are for the reader only)
func (w *world) note(f string, a ...interface{}) {
	if w.t0.IsZero() {
		w.t0 = time.Now()
	}
	w.trace = append(w.trace, fmt.Sprintf("[%4dms] ", time.Since(w.t0).Milliseconds())+fmt.Sprintf(f, a...))
	if os.Getenv("VERIF_DMN_TRACE") != "" {
		fmt.Fprintln(os.Stderr, w.name, w.trace[len(w.trace)-1])
	}
}

// truth probes every harness connection and returns the live ones, keyed by the daemon-side address
func (w *world) truth() (map[string]*hconn, string) {
	live := map[string]*hconn{}
	dup := ""
	add := func(h *hconn) {
		h.probe()
		if h.dead {
			return
		}
		if _, ok := live[h.key]; ok {
			dup = h.key
		}
		live[h.key] = h
	}
	for _, p := range w.peers {
		for _, h := range p.conns() {
			add(h)
		}
	}
	for _, h := range w.dialed {
		add(h)
	}
	keys := []string{}
	for k, h := range live {
		keys = append(keys, fmt.Sprintf("%s/%v/%d/%d", k, h.intro, h.mirror, h.listen))
	}
	sort.Strings(keys)
	if dup != "" {
		keys = append(keys, "DUP:"+dup)
	}
	return live, strings.Join(keys, " ")
}

// ---- goroutine-dump quiescence --------------------------------------------------------------------------

// busyGoroutine returns the first daemon/gnet goroutine that is not parked in its idle place ("" if
// all are). Unknown daemon goroutines count as busy (the caller then retries; never a verdict).
func busyGoroutine() string {
	buf := make([]byte, 1<<20)
	for {
		n := runtime.Stack(buf, true)
		if n < len(buf) {
			buf = buf[:n]
			break
		}
		buf = make([]byte, 2*len(buf))
	}
	for _, blk := range strings.Split(string(buf), "\n\n") {
		if !strings.Contains(blk, "skycoin/src/daemon") {
			continue
		}
		lines := strings.Split(blk, "\n")
		if len(lines) < 2 || strings.Contains(lines[0], "[running]") && strings.Contains(blk, "main.busyGoroutine") {
			continue
		}
		head := lines[0]
		state := ""
		if i := strings.IndexByte(head, '['); i >= 0 {
			state = head[i+1:]
		}
		if strings.Contains(blk, "main.") && !strings.Contains(blk, "main.startDaemon.func1") {
			// a harness goroutine calling into the daemon package (this one, hooks)
			continue
		}
		// function lines only (not "created by", not file lines)
		fns := []string{}
		for _, l := range lines[1:] {
			if strings.HasPrefix(l, "\t") || strings.HasPrefix(l, "created by") {
				continue
			}
			fns = append(fns, l)
		}
		if len(fns) == 0 {
			continue
		}
		top := fns[0]
		has := func(s string) bool {
			for _, f := range fns {
				if strings.Contains(f, s) {
					return true
				}
			}
			return false
		}
		st := func(p string) bool { return strings.HasPrefix(state, p) }
		idle := false
		switch {
		case has("daemon.(*Daemon).connectToPeer"), has("daemon.(*Daemon).maybeConnectToTrustedPeer"), has("daemon.(*Daemon).connectToRandomPeer"),
			has("daemon.(*Daemon).handleEvent"), has("daemon.(*Daemon).onGnet"), has("gnet.(*ConnectionPool).Connect("),
			has("gnet.(*ConnectionPool).handleConnection.func1"), has("gnet.(*ConnectionPool).newConnection("),
			has("gnet.(*ConnectionPool).Disconnect"), has("gnet.(*ConnectionPool).disconnect("), has("gnet.(*ConnectionPool).receiveMessage("):
			idle = false
		case strings.Contains(top, "gnet.(*ConnectionPool).handleConnection(") && st("select"):
			idle = true
		case has("gnet.(*ConnectionPool).handleConnection(") && has("sync.(*WaitGroup).Wait"):
			idle = true // torn down already, waiting for its loops to return
		case has("gnet.(*ConnectionPool).readLoop(") && st("IO wait"):
			idle = true
		case has("gnet.(*ConnectionPool).sendLoop("):
			idle = true // sending never touches the registry
		case strings.Contains(top, "gnet.(*ConnectionPool).handleConnection.func") && st("chan receive"):
			idle = true // message loop waiting for the read loop
		case strings.Contains(top, "gnet.(*ConnectionPool).processStrand(") && st("select"):
			idle = true
		case has("gnet.(*ConnectionPool).Run(") && has("Accept") && st("IO wait"):
			idle = true
		case strings.Contains(top, "gnet.(*ConnectionPool).Run(") && (st("semacquire") || st("sync.")):
			idle = true
		case strings.Contains(top, "daemon.(*Daemon).Run(") && st("select"),
			strings.Contains(top, "daemon.(*Daemon).startConnPool(") && st("select"),
			strings.Contains(top, "daemon.(*Daemon).startPex(") && st("select"),
			strings.Contains(top, "daemon.(*Daemon).startMessageSendResultProcess(") && st("select"),
			strings.Contains(top, "daemon.(*Daemon).startUnconfirmedTxnsProcess(") && st("select"),
			strings.Contains(top, "pex.(*Pex).Run(") && st("select"):
			idle = true
		case strings.Contains(top, "daemon.(*Pool).Run") || strings.Contains(top, "daemon.(*Daemon).startConnPool.func1"):
			idle = true
		}
		if !idle {
			if len(blk) > 1500 {
				blk = blk[:1500]
			}
			return blk
		}
	}
	return ""
}

// settle: no connection event under way, then a barrier through the event loop
func (w *world) settle() error {
	var last string
	err := pollUntil(func() bool { last = busyGoroutine(); return last == "" })
	if err != nil {
		return fmt.Errorf("the daemon's goroutines never all went idle; last busy one:\n%s", last)
	}
	m := newModel()
	if err := w.n.barrier(m); err != nil {
		return err
	}
	if w.n.sentinelUp {
		return w.n.barrier(m)
	}
	return nil
}

// ---- judging one snapshot ---------------------------------------------------------------------------------

type verdict struct {
	kind    string
	detail  map[string]string
	pending []string // dial candidates seen as pending
}

// judge compares ONE locked snapshot with the truth. candidates may appear as pending outgoing entries.
func judge(s daemon.VerifConnSnapshot, live map[string]*hconn, candidates map[string]bool) verdict {
	v := verdict{}
	fail := func(kind string, kv ...string) verdict {
		d := map[string]string{"observed": realViews(s).conns}
		for i := 0; i+1 < len(kv); i += 2 {
			d[kv[i]] = kv[i+1]
		}
		return verdict{kind: kind, detail: d}
	}
	// every connection that exists is described, and described correctly
	ids := map[uint64]string{}
	for k, h := range live {
		c, ok := s.Conns[k]
		if !ok {
			return fail("connection-not-in-registry", "addr", k)
		}
		want := daemon.ConnectionStateConnected
		if h.intro {
			want = daemon.ConnectionStateIntroduced
		}
		if c.State != want || c.Outgoing != h.outgoing || c.Addr != k {
			return fail("connection-described-wrongly", "addr", k, "expected", fmt.Sprintf("%s outgoing=%v", want, h.outgoing),
				"got", fmt.Sprintf("%s outgoing=%v", c.State, c.Outgoing))
		}
		if c.GnetID == 0 {
			return fail("connection-described-wrongly", "addr", k, "got", "connection id 0")
		}
		if o, dup := ids[c.GnetID]; dup {
			return fail("connection-id-shared", "a", o, "b", k)
		}
		ids[c.GnetID] = k
		if h.intro {
			wl := h.listen
			if h.outgoing {
				_, port, _ := splitAddr(k)
				wl = port
			}
			if c.Mirror != h.mirror || c.ListenPort != wl {
				return fail("connection-described-wrongly", "addr", k, "expected", fmt.Sprintf("mirror=%d listen=%d", h.mirror, wl),
					"got", fmt.Sprintf("mirror=%d listen=%d", c.Mirror, c.ListenPort))
			}
		}
	}
	// every entry corresponds to a connection that exists or is being dialled
	for k, c := range s.Conns {
		if _, ok := live[k]; ok {
			continue
		}
		if candidates[k] && c.State == daemon.ConnectionStatePending && c.Outgoing && c.GnetID == 0 {
			v.pending = append(v.pending, k)
			continue
		}
		return fail("entry-without-connection", "addr", k, "entry", realConnLine(c))
	}
	sort.Strings(v.pending)
	// the four secondary maps describe exactly the entries of the first one (same snapshot)
	m := newModel()
	for k, c := range s.Conns {
		ip, port, _ := splitAddr(k)
		m.conns[k] = &mconn{addr: k, ip: ip, port: port, state: stateNum(c.State), outgoing: c.Outgoing, id: c.GnetID,
			mirror: c.Mirror, listen: c.ListenPort, height: c.Height}
		if c.State == daemon.ConnectionStateIntroduced {
			m.mir[mirKey(ip, c.Mirror)] = true
		}
	}
	exp, got := m.views(), realViews(s)
	for _, p := range [][3]string{
		{"mirrors-mismatch", exp.mirrors, got.mirrors},
		{"ipcounts-mismatch", exp.ipCounts, got.ipCounts},
		{"gnetids-mismatch", exp.gnetIDs, got.gnetIDs},
		{"listenaddrs-mismatch", exp.listenAddrs, got.listenAddrs},
	} {
		if p[1] != p[2] {
			return fail(p[0], "expected", p[1], "got", p[2])
		}
	}
	return v
}

// check performs settle + snapshot until the harness' connection set was the same before and after,
// judges it, and runs the staleness test on pending dial candidates. With strict (the daemon has no
// reason to dial any more) the whole registry is then compared in full. Returns false if the scenario
// cannot go on (finding or stall).
func (w *world) check(label string, candidates map[string]bool, strict bool) bool {
	res := w.res
	for attempt := 0; ; attempt++ {
		_, t1 := w.truth()
		if err := w.settle(); err != nil {
			res.Stalled = w.name + "/" + label + ": " + err.Error()
			return false
		}
		snap := w.n.conns.VerifSnapshot()
		live, t2 := w.truth()
		if t1 != t2 {
			if attempt > 2000 {
				res.Stalled = w.name + "/" + label + ": the harness' own connection set never held still"
				return false
			}
			res.Counts["real.check-retried"]++
			continue
		}
		res.Counts["real.checks"]++
		res.Counts["real.check."+w.name+"."+label]++
		v := judge(snap, live, candidates)
		if v.kind == "" && len(v.pending) > 0 {
			res.Counts["real.pending-candidate-seen"]++
			for _, a := range v.pending {
				switch w.stale(a) {
				case "stale":
					v = verdict{kind: "stale-pending-entry", detail: map[string]string{"addr": a, "observed": realViews(w.n.conns.VerifSnapshot()).conns,
						"why": "pending in 7 consecutive quiescent rounds: no dial under way, every event handled, no connection to this address exists"}}
				case "transient":
					res.Counts["real.pending-candidate-transient"]++
				default:
					res.Counts["real.pending-candidate-unjudged"]++
				}
				if v.kind != "" {
					break
				}
			}
		}
		if v.kind != "" {
			v.detail["truth"] = t2
			cand := []string{}
			for a := range candidates {
				cand = append(cand, a)
			}
			sort.Strings(cand)
			v.detail["dial_candidates"] = strings.Join(cand, " ")
			w.note("check %s: %s", label, v.kind)
			res.Findings = append(res.Findings, dmnFinding{Part: "sockets", Kind: v.kind, Trigger: w.name + ":" + label, Detail: v.detail, Events: append([]string(nil), w.trace...)})
			return false
		}
		w.note("check %s ok (%d connections)", label, len(live))
		if strict && len(v.pending) == 0 {
			return w.final(label)
		}
		return true
	}
}

// stale: is the pending entry for addr still there after 6 further quiescent rounds?
func (w *world) stale(addr string) string {
	for try := 0; try < 4; try++ {
		t0 := time.Now()
		seen := 0
		for seen < 6 {
			if err := w.settle(); err != nil {
				return "unjudged"
			}
			c := w.n.conns.VerifGet(addr)
			if c == nil || c.State != daemon.ConnectionStatePending {
				return "transient"
			}
			seen++
		}
		// 6 further sightings in a correct daemon need 6 further ticks; discard the judgement if the
		// rounds took long enough for even two
		if time.Since(t0) < 2*trustedTick {
			return "stale"
		}
	}
	return "unjudged"
}

// waitFor polls a harness-side condition (a positive event); the watchdog yields "inconclusive"
func (w *world) waitFor(what string, f func() bool) bool {
	if err := pollUntil(f); err != nil {
		w.res.Stalled = w.name + ": waiting for " + what + ": watchdog"
		return false
	}
	w.note("%s", what)
	return true
}

func (w *world) liveOn(p *hpeer) *hconn {
	for _, h := range p.conns() {
		h.probe()
		if !h.dead {
			return h
		}
	}
	return nil
}

func (w *world) dialIn(fromIP string) (*hconn, error) {
	d := net.Dialer{LocalAddr: &net.TCPAddr{IP: net.ParseIP(fromIP)}, Timeout: 20 * time.Second}
	c, err := d.Dial("tcp", w.n.peerAddr)
	if err != nil {
		return nil, err
	}
	if tc, ok := c.(*net.TCPConn); ok {
		_ = tc.SetNoDelay(true)
	}
	h := &hconn{c: c, key: c.LocalAddr().String()}
	w.dialed = append(w.dialed, h)
	return h, nil
}

func (w *world) cleanup() {
	for _, p := range w.peers {
		p.closeListener()
		for _, h := range p.conns() {
			h.c.Close()
		}
	}
	for _, h := range w.dialed {
		h.c.Close()
	}
	if w.n != nil {
		w.note("stopping the daemon")
		w.n.stop()
		w.note("stopped")
	}
}

func (w *world) start(dir string, trusted []*hpeer, tweak func(c *daemon.Config)) bool {
	w.note("starting the daemon")
	addrs := []string{}
	for _, p := range trusted {
		addrs = append(addrs, p.addr)
	}
	n, err := startDaemon(dir, "c24-real", func(c *daemon.Config) {
		c.Daemon.LocalhostOnly = true
		c.Daemon.DisableOutgoingConnections = false
		c.Daemon.OutgoingTrustedRate = trustedTick
		c.Daemon.DefaultConnections = addrs
		c.Pool.DefaultConnections = addrs
		c.Pex.DefaultConnections = addrs
		c.Pex.AllowLocalhost = true
		tweak(c)
	})
	if err != nil {
		w.res.Stalled = w.name + ": " + err.Error()
		return false
	}
	w.n = n
	w.note("daemon started, trusted peers %v", addrs)
	return true
}

func set(ps ...*hpeer) map[string]bool {
	m := map[string]bool{}
	for _, p := range ps {
		m[p.addr] = true
	}
	return m
}

// ---- scenario A: three trusted peers, two outgoing slots ------------------------------------------------------

// The daemon dials all three at start-up; its pool admits two and turns the third away ("max outgoing
// connections reached", either before dialling or after the TCP connection was made), and keeps doing
// so on every tick. Then one of the two hangs up and stops listening: the third must get its slot.
func scenarioSlots(res *dmnResult, dir string, round int) {
	w := &world{res: res, name: "slots"}
	defer w.cleanup()
	ips := []string{"127.0.0.2", "127.0.0.3", "127.0.0.2"}
	for _, ip := range ips {
		p := &hpeer{addr: reserveAddr(ip)}
		if err := p.open(); err != nil {
			res.Stalled = "listen " + p.addr + ": " + err.Error()
			return
		}
		w.peers = append(w.peers, p)
	}
	if !w.start(dir, w.peers, func(c *daemon.Config) {
		c.Pool.MaxOutgoingConnections = 2
		c.Daemon.MaxOutgoingConnections = 2
		c.Pool.MaxDefaultPeerOutgoingConnections = 3
	}) {
		return
	}
	nLive := func() (n int, loser *hpeer) {
		for _, p := range w.peers {
			if w.liveOn(p) != nil {
				n++
			} else {
				loser = p
			}
		}
		return
	}
	if !w.waitFor("two of the three trusted peers hold a connection", func() bool { n, _ := nLive(); return n == 2 }) {
		return
	}
	_, loser := nLive()
	for i := 0; i < 6; i++ {
		if n, l := nLive(); n != 2 || l != loser {
			res.Stalled = "slots: the set of connected trusted peers changed without the harness doing anything"
			return
		}
		if !w.check("third-peer-turned-away", set(loser), false) {
			return
		}
		if i == 1 {
			// one of the two introduces itself
			for _, p := range w.peers {
				if h := w.liveOn(p); h != nil {
					if err := h.introduce(w.n, uint32(100+round), 0); err != nil {
						res.Stalled = "slots: " + err.Error()
						return
					}
					w.note("%s introduced itself", p.addr)
					break
				}
			}
		}
		time.Sleep(trustedTick / 3)
	}
	// free a slot: a connected peer hangs up and goes away
	var gone *hpeer
	for _, p := range w.peers {
		if h := w.liveOn(p); h != nil {
			p.closeListener()
			if err := h.hangUp(); err != nil {
				res.Stalled = "slots: no EOF from the daemon after the peer hung up"
				return
			}
			gone = p
			w.note("%s hung up and stopped listening", p.addr)
			break
		}
	}
	// "its address can be dialled again": the peer that was turned away gets the slot
	if !w.waitFor("the peer that was turned away is connected", func() bool { return w.liveOn(loser) != nil }) {
		return
	}
	res.Counts["real.redialled-after-refusal"]++
	for i := 0; i < 4; i++ {
		if !w.check("slot-taken-over", set(gone), false) {
			return
		}
		time.Sleep(trustedTick / 3)
	}
	res.Counts["real.scenario.slots"]++
}

// ---- scenario B: four trusted peers, two default slots, one incoming slot ------------------------------------------

// All four listen; the daemon connects to two of them at start-up and then stops dialling (both
// default slots taken). An incoming peer connects and introduces itself, a second one is turned away
// ("max incoming"). Then one of the two connected trusted peers hangs up: on the next tick the daemon
// dials two of the unconnected ones for the one free default slot; one gets it, the other is turned
// away ("max outgoing default", before or after the TCP connection was made). After that the daemon
// stops dialling again, so the states are compared in full.
func scenarioDefaults(res *dmnResult, dir string, round int) {
	w := &world{res: res, name: "defaults"}
	defer w.cleanup()
	for _, ip := range []string{"127.0.0.2", "127.0.0.3", "127.0.0.3", "127.0.0.2"} {
		p := &hpeer{addr: reserveAddr(ip)}
		if err := p.open(); err != nil {
			res.Stalled = "listen " + p.addr + ": " + err.Error()
			return
		}
		w.peers = append(w.peers, p)
	}
	if !w.start(dir, w.peers, func(c *daemon.Config) {
		c.Pool.MaxOutgoingConnections = 8
		c.Daemon.MaxOutgoingConnections = 8
		c.Pool.MaxDefaultPeerOutgoingConnections = 2
		c.Pool.MaxIncomingConnections = 1
	}) {
		return
	}
	connected := func() (on []*hpeer, off []*hpeer) {
		for _, p := range w.peers {
			if w.liveOn(p) != nil && w.n.conns.VerifGet(p.addr) != nil {
				on = append(on, p)
			} else {
				off = append(off, p)
			}
		}
		return
	}
	two := func() bool { on, _ := connected(); return len(on) == 2 }
	if !w.waitFor("two of the four trusted peers are connected", two) {
		return
	}
	_, off := connected()
	if !w.check("default-slots-full", set(off...), true) {
		return
	}
	// incoming
	in1, err := w.dialIn("127.0.0.4")
	if err != nil {
		res.Stalled = "defaults: dial in: " + err.Error()
		return
	}
	if !w.waitFor("the incoming connection is registered", func() bool { return w.n.conns.VerifGet(in1.key) != nil }) {
		return
	}
	in2, err := w.dialIn("127.0.0.4")
	if err != nil {
		res.Stalled = "defaults: dial in: " + err.Error()
		return
	}
	if !w.waitFor("the second incoming connection is turned away", func() bool { in2.probe(); return in2.dead }) {
		return
	}
	if !w.check("second-incoming-turned-away", set(off...), true) {
		return
	}
	if err := in1.introduce(w.n, uint32(200+round), uint16(7001+round)); err != nil {
		res.Stalled = "defaults: " + err.Error()
		return
	}
	w.note("incoming %s introduced itself", in1.key)
	if !w.check("incoming-introduced", set(off...), true) {
		return
	}
	// a connected trusted peer hangs up (it keeps listening): one default slot is free and both
	// unconnected trusted peers are dialled for it
	on, _ := connected()
	h1 := w.liveOn(on[0])
	if h1 == nil {
		res.Stalled = "defaults: a trusted connection went away by itself"
		return
	}
	if err := h1.hangUp(); err != nil {
		res.Stalled = "defaults: no EOF from the daemon after the trusted peer hung up"
		return
	}
	w.note("%s hung up (still listening)", on[0].addr)
	if !w.waitFor("two trusted peers are connected again", two) {
		return
	}
	_, off = connected()
	if !w.check("default-slot-refilled", set(off...), true) {
		return
	}
	for _, p := range off {
		if p != on[0] && len(p.conns()) > 0 {
			res.Counts["real.default-slot-loser-closed-after-tcp"]++
		}
	}
	if err := in1.hangUp(); err != nil {
		res.Stalled = "defaults: no EOF from the daemon after the incoming peer hung up"
		return
	}
	w.note("incoming %s hung up", in1.key)
	if !w.check("incoming-gone", set(off...), true) {
		return
	}
	res.Counts["real.scenario.defaults"]++
}

// final: the daemon has nothing left to dial; the whole registry (five maps and every public view)
// must equal a model built from the harness' connections (connection ids are opaque: taken over)
func (w *world) final(label string) bool {
	live, _ := w.truth()
	m := newModel()
	for k, h := range live {
		ip, port, _ := splitAddr(k)
		c := &mconn{addr: k, ip: ip, port: port, state: stConnected, outgoing: h.outgoing}
		if h.outgoing {
			c.listen = port
		}
		if x := w.n.conns.VerifGet(k); x != nil {
			c.id = x.GnetID
		}
		if h.intro {
			c.state, c.mirror = stIntroduced, h.mirror
			if !h.outgoing {
				c.listen = h.listen
			}
			m.mir[mirKey(ip, h.mirror)] = true
		}
		m.conns[k] = c
	}
	if kind, d := compare(w.n.conns, m, Event{Op: opGet, Addr: sentinelAddr}); kind != "" {
		w.res.Findings = append(w.res.Findings, dmnFinding{Part: "sockets", Kind: kind, Trigger: w.name + ":" + label + ":final", Detail: d, Events: append([]string(nil), w.trace...)})
		return false
	}
	w.res.Counts["real.final-states-compared"]++
	return true
}

// ---- log observer: evidence only (which failures really occurred), never a verdict -------------------------------

type logCounter struct {
	mu sync.Mutex
	n  map[string]int64
}

func (l *logCounter) Levels() []logrus.Level { return logrus.AllLevels }

func (l *logCounter) Fire(e *logrus.Entry) error {
	key := ""
	switch e.Message {
	case "onConnectFailure":
		cls := "other"
		if err, ok := e.Data[logrus.ErrorKey].(error); ok {
			for _, x := range failureErrors("127.0.0.1:1") {
				if x.err == err {
					cls = x.name
				}
			}
			if strings.HasSuffix(err.Error(), "connection refused") {
				cls = "dial-refused"
			}
		}
		key = "real.log.connect-failure." + cls
	case "Establishing outgoing connection":
		key = "real.log.dials"
	case "onConnectEvent":
		key = "real.log.connect-events"
	case "onDisconnectEvent":
		key = "real.log.disconnect-events"
	}
	if key != "" {
		l.mu.Lock()
		l.n[key]++
		l.mu.Unlock()
	}
	return nil
}

// ---- child / parent -------------------------------------------------------------------------------------------

func realChild() {
	out := os.Getenv("VERIF_DMN_OUT")
	dir := os.Getenv("VERIF_DMN_DIR")
	rounds, _ := strconv.Atoi(os.Getenv("VERIF_DMN_ROUNDS"))
	res := dmnResult{Counts: map[string]int64{}}
	write := func() {
		b, _ := json.Marshal(res)
		_ = ioutil.WriteFile(out+".tmp", b, 0644)
		_ = os.Rename(out+".tmp", out)
	}
	lc := &logCounter{n: map[string]int64{}}
	logging.SetLevel(logrus.DebugLevel)
	logging.AddHook(lc)
	if os.Getenv("VERIF_DMN_TRACE") == "2" {
		logging.SetOutputTo(os.Stderr)
	}
	runtime.GOMAXPROCS(4)
	for r := 0; r < rounds && res.Stalled == "" && len(res.Findings) == 0; r++ {
		scenarioSlots(&res, filepath.Join(dir, fmt.Sprintf("slots%d", r)), r)
		write()
		if res.Stalled != "" || len(res.Findings) > 0 {
			break
		}
		scenarioDefaults(&res, filepath.Join(dir, fmt.Sprintf("defaults%d", r)), r)
		write()
	}
	lc.mu.Lock()
	for k, v := range lc.n {
		res.Counts[k] = v
	}
	lc.mu.Unlock()
	res.Finished = true
	write()
}

func realParent(r *vf.Run) {
	dir := vf.TempDir("c24real")
	defer os.RemoveAll(dir)
	outp := filepath.Join(dir, "result.json")
	env := []string{
		"VERIF_DMN_OUT=" + outp,
		"VERIF_DMN_DIR=" + dir,
		"VERIF_DMN_ROUNDS=" + strconv.Itoa(r.Pick(2, 12)),
		"GORACE=log_path=" + filepath.Join(dir, "race") + " halt_on_error=0 exitcode=0",
	}
	cr := vf.RunChild(dir, "", "dmnreal", nil, env, time.Duration(r.Pick(600, 2400))*time.Second)
	dmnCollect(r, "daemon-sockets", dir, outp, cr)
}
