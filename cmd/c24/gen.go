package main

import (
	"math/rand"
	"strconv"
)

// Domain of the statement's quantifier: a few addresses, IPs, mirror values (including 0), listen
// ports (including 0) and connection ids.
var (
	domIPs     = []string{"11.1.1.1", "22.2.2.2", "33.3.3.3"}
	domPorts   = []uint16{6000, 6001, 7000}
	domMirrors = []uint32{0, 1, 2}
	domListen  = []uint16{0, 6000, 6001}
	domAddrs   []string
)

func init() {
	for _, ip := range domIPs {
		for _, p := range domPorts {
			domAddrs = append(domAddrs, ip+":"+strconv.Itoa(int(p)))
		}
	}
}

// generator state: hands out fresh gnet ids (gnet never reuses an id), remembers retired ones
type gen struct {
	rng     *rand.Rand
	nextID  uint64
	retired []uint64
	nIPs    int // this sequence uses the first nIPs IPs (fewer IPs -> more collisions)
}

func newGen(rng *rand.Rand) *gen {
	g := &gen{rng: rng, nextID: 1}
	g.nIPs = 1 + rng.Intn(len(domIPs))
	return g
}

func (g *gen) fresh() uint64 {
	id := g.nextID
	g.nextID++
	return id
}

func (g *gen) addr() string {
	ip := domIPs[g.rng.Intn(g.nIPs)]
	return ip + ":" + strconv.Itoa(int(domPorts[g.rng.Intn(len(domPorts))]))
}

// pickConn picks the address of an existing model connection in one of the wanted states ("" if none)
func (g *gen) pickConn(m *Model, states ...int) string {
	c := []string{}
	for _, a := range domAddrs {
		s := m.stateOf(a)
		for _, w := range states {
			if s == w {
				c = append(c, a)
			}
		}
	}
	if len(c) == 0 {
		return ""
	}
	return c[g.rng.Intn(len(c))]
}

// wrongID returns a connection id that is NOT the one on record for addr: 0, another live
// connection's id, a retired id or a never-used one
func (g *gen) wrongID(m *Model, addr string) uint64 {
	var own uint64
	if c := m.conns[addr]; c != nil {
		own = c.id
	}
	for try := 0; try < 8; try++ {
		var id uint64
		switch g.rng.Intn(4) {
		case 0:
			id = 0
		case 1:
			if o := g.pickConn(m, stConnected, stIntroduced); o != "" {
				id = m.conns[o].id
			}
		case 2:
			if len(g.retired) > 0 {
				id = g.retired[g.rng.Intn(len(g.retired))]
			}
		default:
			id = g.nextID + 1000
		}
		if id != own {
			return id
		}
	}
	return own + 7777
}

// next produces the next event; the model is consulted only to steer towards interesting events
func (g *gen) next(m *Model) Event {
	r := g.rng
	for {
		switch x := r.Intn(100); {
		case x < 14: // outgoing attempt
			a := g.addr()
			if r.Intn(4) == 0 {
				if b := g.pickConn(m, stPending, stConnected, stIntroduced); b != "" {
					a = b // deliberate: already known
				}
			}
			return Event{Op: opPending, Addr: a}
		case x < 36: // connect
			a := g.addr()
			if r.Intn(3) == 0 {
				if b := g.pickConn(m, stPending); b != "" {
					a = b
				}
			}
			id := g.fresh()
			if r.Intn(25) == 0 {
				id = 0
			}
			return Event{Op: opConnected, Addr: a, ID: id}
		case x < 66: // introduce
			var a string
			if r.Intn(10) < 7 {
				a = g.pickConn(m, stConnected)
			} else {
				a = g.pickConn(m, stPending, stIntroduced) // deliberate wrong state
			}
			if a == "" {
				if r.Intn(3) > 0 {
					continue
				}
				a = g.addr() // possibly unknown
			}
			var id uint64
			if c := m.conns[a]; c != nil {
				id = c.id
			}
			if r.Intn(6) == 0 {
				id = g.wrongID(m, a)
			}
			return Event{Op: opIntroduced, Addr: a, ID: id,
				Mirror: domMirrors[r.Intn(len(domMirrors))], Listen: domListen[r.Intn(len(domListen))]}
		case x < 90: // disconnect / failure
			a := g.pickConn(m, stPending, stConnected, stIntroduced)
			if a == "" || r.Intn(12) == 0 {
				a = g.addr()
			}
			var id uint64
			if c := m.conns[a]; c != nil {
				id = c.id
			}
			if r.Intn(6) == 0 {
				id = g.wrongID(m, a)
			}
			return Event{Op: opRemove, Addr: a, ID: id}
		case x < 98:
			a := g.pickConn(m, stPending, stConnected, stIntroduced)
			if a == "" || r.Intn(8) == 0 {
				a = g.addr()
			}
			var id uint64
			if c := m.conns[a]; c != nil {
				id = c.id
			}
			if r.Intn(5) == 0 {
				id = g.wrongID(m, a)
			}
			return Event{Op: opSetHeight, Addr: a, ID: id, Height: uint64(1 + r.Intn(1000))}
		default: // malformed address: every operation must refuse it and change nothing
			bad := []string{"11.1.1.1", ":6000", "11.1.1.1:x", "11.1.1.1:70000", ""}[r.Intn(5)]
			op := []int{opPending, opConnected, opIntroduced, opRemove}[r.Intn(4)]
			return Event{Op: op, Addr: bad, ID: g.fresh(), Mirror: 1, Listen: 6000}
		}
	}
}

// retire remembers the id of a connection that has gone (stale ids are used as wrong ids later)
func (g *gen) retire(id uint64) {
	if id != 0 {
		g.retired = append(g.retired, id)
	}
}
