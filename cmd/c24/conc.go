package main

// Concurrent leg. Runs in child processes (VERIF_CHILD=conc) so that a runtime-fatal "concurrent map
// writes" cannot take the run down and so that race-detector reports (GORACE log_path) can be counted
// per child.

import (
	"encoding/json"
	"fmt"
	"io/ioutil"
	"math/rand"
	"os"
	"path/filepath"
	"regexp"
	"runtime"
	"sort"
	"strconv"
	"strings"
	"sync"
	"sync/atomic"
	"time"

	"github.com/anishathalye/porcupine"

	"github.com/skycoin/skycoin/src/daemon"

	"verif/lib/vf"
)

type hop struct {
	Client int    `json:"client"`
	In     Event  `json:"-"`
	Desc   string `json:"op"`
	Out    string `json:"out"`
	Call   int64  `json:"call"`
	Ret    int64  `json:"ret"`
}

// concResult is what a child hands back
type concResult struct {
	Counts   map[string]int64 `json:"counts"`
	Illegal  []illegalHistory `json:"illegal"`
	Panics   []string         `json:"panics"`
	Finished bool             `json:"finished"`
}

type illegalHistory struct {
	Index       int      `json:"history"`
	Prefix      []string `json:"prefix"`
	Ops         []hop    `json:"ops"`
	D10Explains bool     `json:"d10_explains"`
}

// ---- operations: real side and model side produce the same canonical output text -------------

func connOut(addr string, state int, outgoing bool, id uint64, mirror uint32, listen uint16, height uint64) string {
	return connLine(addr, state, outgoing, id, mirror, listen, height)
}

func doReal(c *daemon.Connections, e Event) string {
	switch e.Op {
	case opPending, opConnected, opIntroduced, opRemove, opSetHeight:
		if applyReal(c, e) == nil {
			return "ok"
		}
		return "fail"
	case opGet:
		// get/getByGnetID hand out a pointer to the live record; only its immutable Addr is used
		// here (the mutable fields are read through all(), which copies under the lock)
		if x := c.VerifGet(e.Addr); x != nil {
			return x.Addr
		}
		return "none"
	case opGetByID:
		if x := c.VerifGetByGnetID(e.ID); x != nil {
			return x.Addr
		}
		return "none"
	case opAllOf:
		for _, x := range c.VerifAll() {
			if x.Addr == e.Addr {
				return realConnLine(x)
			}
		}
		return "none"
	case opGetByListen:
		xs := c.VerifGetByListenAddr(e.Addr)
		as := make([]string, 0, len(xs))
		for _, x := range xs {
			as = append(as, x.Addr)
		}
		sort.Strings(as)
		return strings.Join(as, ",")
	case opIPCount:
		return strconv.Itoa(c.IPCount(e.Addr))
	case opLen:
		return strconv.Itoa(c.Len())
	}
	panic("doReal")
}

// stepModel: can the model, in state m, answer `out` to e? Returns the successor state (m itself
// for reads). m is never modified.
func stepModel(m *Model, e Event, out string) (bool, *Model) {
	switch e.Op {
	case opPending, opConnected, opIntroduced, opRemove, opSetHeight:
		n := m.clone()
		switch n.apply(e) {
		case resOK:
			return out == "ok", n
		case resFail:
			return out == "fail", m
		default:
			return true, m
		}
	case opGet:
		w := "none"
		if x := m.conns[e.Addr]; x != nil {
			w = x.addr
		}
		return out == w, m
	case opGetByID:
		w := "none"
		if x := m.byID(e.ID); x != nil {
			w = x.addr
		}
		return out == w, m
	case opAllOf:
		w := "none"
		if x := m.conns[e.Addr]; x != nil {
			w = connOut(x.addr, x.state, x.outgoing, x.id, x.mirror, x.listen, x.height)
		}
		return out == w, m
	case opGetByListen:
		return out == strings.Join(m.byListen(e.Addr), ","), m
	case opIPCount:
		return out == strconv.Itoa(m.ipCount(e.Addr)), m
	case opLen:
		return out == strconv.Itoa(len(m.conns)), m
	}
	panic("stepModel")
}

func porcupineModel(init *Model) porcupine.Model {
	return porcupine.Model{
		Init: func() interface{} { return init },
		Step: func(state, input, output interface{}) (bool, interface{}) {
			ok, n := stepModel(state.(*Model), input.(Event), output.(string))
			return ok, n
		},
		Equal: func(a, b interface{}) bool { return a.(*Model).key() == b.(*Model).key() },
		Hash:  func(a interface{}) uint64 { return fnv64(a.(*Model).key()) },
	}
}

// ---- one history -----------------------------------------------------------------------------

type plan struct {
	prefix  []Event
	clients [][]Event
	final   []Event
}

// makePlan: a short sequential prefix, then 3-4 clients with 4-6 ops each on 2-3 addresses of one IP
// (so that the clients really conflict), then a few reads that pin the final state
func makePlan(rng *rand.Rand) plan {
	var p plan
	ip := domIPs[rng.Intn(len(domIPs))]
	other := domIPs[(rng.Intn(2)+1+indexOf(domIPs, ip))%len(domIPs)]
	na := 2 + rng.Intn(2)
	addrs := []string{}
	for i := 0; i < na; i++ {
		addrs = append(addrs, ip+":"+strconv.Itoa(int(domPorts[i])))
	}
	if rng.Intn(3) == 0 {
		addrs = append(addrs, other+":6000")
	}
	pick := func() string { return addrs[rng.Intn(len(addrs))] }
	mir := func() uint32 { return uint32(rng.Intn(2)) }
	lis := func() uint16 { return domListen[rng.Intn(len(domListen))] }

	// ids known so far per address (the most recent connected() per address, per planner)
	known := map[string]uint64{}
	next := uint64(1)
	// prefix
	for i, n := 0, rng.Intn(7); i < n; i++ {
		a := pick()
		switch rng.Intn(4) {
		case 0:
			p.prefix = append(p.prefix, Event{Op: opPending, Addr: a})
		case 1, 2:
			p.prefix = append(p.prefix, Event{Op: opConnected, Addr: a, ID: next})
			known[a] = next
			next++
		default:
			p.prefix = append(p.prefix, Event{Op: opIntroduced, Addr: a, ID: known[a], Mirror: mir(), Listen: lis()})
		}
	}
	nc := 3 + rng.Intn(2)
	per := 6
	if nc == 4 {
		per = 5
	}
	for c := 0; c < nc; c++ {
		mine := map[string]uint64{}
		idOf := func(a string) uint64 {
			if id, ok := mine[a]; ok && rng.Intn(4) > 0 {
				return id
			}
			if rng.Intn(8) == 0 {
				return 0
			}
			return known[a]
		}
		ops := []Event{}
		for i, n := 0, per-rng.Intn(2); i < n; i++ {
			a := pick()
			switch x := rng.Intn(100); {
			case x < 10:
				ops = append(ops, Event{Op: opPending, Addr: a})
			case x < 30:
				id := uint64(100*(c+1) + i)
				ops = append(ops, Event{Op: opConnected, Addr: a, ID: id})
				mine[a] = id
			case x < 50:
				ops = append(ops, Event{Op: opIntroduced, Addr: a, ID: idOf(a), Mirror: mir(), Listen: lis()})
			case x < 68:
				ops = append(ops, Event{Op: opRemove, Addr: a, ID: idOf(a)})
			case x < 73:
				ops = append(ops, Event{Op: opSetHeight, Addr: a, ID: idOf(a), Height: uint64(1 + rng.Intn(9))})
			case x < 76:
				ops = append(ops, Event{Op: opGet, Addr: a})
			case x < 81:
				ops = append(ops, Event{Op: opAllOf, Addr: a})
			case x < 86:
				ops = append(ops, Event{Op: opGetByID, ID: idOf(a)})
			case x < 91:
				ip2, _, _ := splitAddr(a)
				ops = append(ops, Event{Op: opGetByListen, Addr: ip2 + ":" + strconv.Itoa(int(domPorts[rng.Intn(2)]))})
			case x < 96:
				ip2, _, _ := splitAddr(a)
				ops = append(ops, Event{Op: opIPCount, Addr: ip2})
			default:
				ops = append(ops, Event{Op: opLen})
			}
		}
		p.clients = append(p.clients, ops)
	}
	total := 0
	for _, c := range p.clients {
		total += len(c)
	}
	for _, a := range addrs {
		if total+len(p.final) >= 23 {
			break
		}
		p.final = append(p.final, Event{Op: opAllOf, Addr: a})
	}
	if total+len(p.final) < 24 {
		p.final = append(p.final, Event{Op: opIPCount, Addr: ip})
	}
	return p
}

func indexOf(xs []string, s string) int {
	for i, x := range xs {
		if x == s {
			return i
		}
	}
	return 0
}

func concChild() {
	out := os.Getenv("VERIF_CONC_OUT")
	seed, _ := strconv.ParseInt(os.Getenv("VERIF_CONC_SEED"), 10, 64)
	from, _ := strconv.Atoi(os.Getenv("VERIF_CONC_FROM"))
	to, _ := strconv.Atoi(os.Getenv("VERIF_CONC_TO"))
	stress, _ := strconv.Atoi(os.Getenv("VERIF_CONC_STRESS"))
	res := concResult{Counts: map[string]int64{}}
	write := func() {
		b, _ := json.Marshal(res)
		_ = ioutil.WriteFile(out, b, 0644)
	}
	runtime.GOMAXPROCS(4)

	for h := from; h < to; h++ {
		rng := rand.New(rand.NewSource(seed + int64(h)*7919))
		p := makePlan(rng)
		c := daemon.NewConnections()
		m := newModel()
		// sequential prefix, both sides
		diverged := false
		for _, e := range p.prefix {
			var err error
			if pn, _, _ := vf.Recover(func() { err = applyReal(c, e) }); pn {
				diverged = true
				break
			}
			r := m.apply(e)
			if (r == resOK) != (err == nil) && r != resEither {
				diverged = true
			}
		}
		if k, _ := compare(c, m, Event{Op: opGet, Addr: domAddrs[0]}); k != "" {
			diverged = true
		}
		if diverged {
			// the sequential leg reports this; a history needs a sound initial state
			res.Counts["conc.prefix-diverged"]++
			continue
		}
		var clock int64
		hist := make([][]hop, len(p.clients))
		start := make(chan struct{})
		var wg sync.WaitGroup
		var panics []string
		var pmu sync.Mutex
		for ci := range p.clients {
			wg.Add(1)
			go func(ci int) {
				defer wg.Done()
				ops := p.clients[ci]
				rec := make([]hop, 0, len(ops))
				<-start
				for _, e := range ops {
					var o string
					call := atomic.AddInt64(&clock, 1)
					if pn, msg, frame := vf.Recover(func() { o = doReal(c, e) }); pn {
						pmu.Lock()
						panics = append(panics, e.String()+": "+msg+" @ "+frame)
						pmu.Unlock()
						o = "panic"
					}
					ret := atomic.AddInt64(&clock, 1)
					rec = append(rec, hop{Client: ci, In: e, Desc: e.String(), Out: o, Call: call, Ret: ret})
				}
				hist[ci] = rec
			}(ci)
		}
		close(start)
		wg.Wait()
		all := []hop{}
		for _, hs := range hist {
			all = append(all, hs...)
		}
		for _, e := range p.final {
			call := atomic.AddInt64(&clock, 1)
			o := doReal(c, e)
			ret := atomic.AddInt64(&clock, 1)
			all = append(all, hop{Client: len(p.clients), In: e, Desc: e.String(), Out: o, Call: call, Ret: ret})
		}
		res.Panics = append(res.Panics, panics...)
		res.Counts["conc.histories"]++
		res.Counts["conc.ops"] += int64(len(all))
		// did operations of different clients really overlap?
		overlap := false
		for i := range all {
			for j := range all {
				if all[i].Client != all[j].Client && all[i].Call < all[j].Ret && all[j].Call < all[i].Ret {
					overlap = true
				}
			}
		}
		if overlap {
			res.Counts["conc.histories-with-overlap"]++
		}
		for _, o := range all {
			res.Counts["conc.op."+opName[o.In.Op]+"."+map[bool]string{true: "read", false: o.Out}[o.In.Op >= opGet]]++
		}
		ops := make([]porcupine.Operation, 0, len(all))
		for _, o := range all {
			ops = append(ops, porcupine.Operation{ClientId: o.Client, Input: o.In, Call: o.Call, Output: o.Out, Return: o.Ret})
		}
		switch porcupine.CheckOperationsTimeout(porcupineModel(m), ops, 20*time.Second) {
		case porcupine.Ok:
			res.Counts["conc.linearizable"]++
		case porcupine.Unknown:
			res.Counts["conc.unknown"]++
		case porcupine.Illegal:
			res.Counts["conc.illegal"]++
			if len(res.Illegal) < 3 {
				md := m.clone()
				md.d10 = true
				ih := illegalHistory{Index: h, Ops: all,
					D10Explains: porcupine.CheckOperationsTimeout(porcupineModel(md), ops, 20*time.Second) == porcupine.Ok}
				for _, e := range p.prefix {
					ih.Prefix = append(ih.Prefix, e.String())
				}
				res.Illegal = append(res.Illegal, ih)
			}
		}
		if h%50 == 0 {
			write()
		}
	}

	// unrecorded stress: nothing but the registry's own lock orders the accesses, so the race
	// detector sees every unprotected access
	for round := 0; round < stress; round++ {
		c := daemon.NewConnections()
		start := make(chan struct{})
		var wg sync.WaitGroup
		for g := 0; g < 4; g++ {
			wg.Add(1)
			go func(g int) {
				defer wg.Done()
				rng := rand.New(rand.NewSource(seed ^ int64(round*4+g+1)*104729))
				ip := domIPs[0]
				<-start
				for i := 0; i < 60; i++ {
					a := ip + ":" + strconv.Itoa(int(domPorts[rng.Intn(3)]))
					id := uint64(1 + g*1000 + i)
					switch rng.Intn(16) {
					case 0:
						doReal(c, Event{Op: opPending, Addr: a})
					case 1, 2:
						doReal(c, Event{Op: opConnected, Addr: a, ID: id})
					case 3, 4:
						if x := c.VerifGet(a); x != nil {
							doReal(c, Event{Op: opIntroduced, Addr: a, ID: x.GnetID, Mirror: uint32(rng.Intn(3)), Listen: 6000})
						}
					case 5, 6:
						if x := c.VerifGet(a); x != nil {
							doReal(c, Event{Op: opRemove, Addr: a, ID: x.GnetID})
						}
					case 7:
						if x := c.VerifGet(a); x != nil {
							doReal(c, Event{Op: opSetHeight, Addr: a, ID: x.GnetID, Height: uint64(i)})
						}
					case 8:
						c.VerifGetByGnetID(id - 1)
					case 9:
						_, _, _ = vf.Recover(func() { c.VerifGetByListenAddr(a) })
					case 10:
						c.IPCount(ip)
					case 11:
						c.Len()
					case 12:
						c.OutgoingLen()
					case 13:
						c.PendingLen()
					case 14:
						c.VerifAll()
					default:
						c.VerifSnapshot()
					}
				}
			}(g)
		}
		close(start)
		wg.Wait()
		res.Counts["race.stress-rounds"]++
		res.Counts["race.stress-ops"] += 240
	}
	res.Finished = true
	write()
}

// ---- parent ----------------------------------------------------------------------------------

var raceAccessRe = regexp.MustCompile(`(?m)^(?:Write|Read|Previous write|Previous read|Atomic write|Atomic read|Previous atomic write|Previous atomic read) at 0x[0-9a-f]+ by (?:main )?goroutine(?: \d+)?:\n\s+(\S+)\(`)

// hookCopyRace: one of the two racing accesses is the hook's copy of a record returned by pointer
func hookCopyRace(rep string) bool {
	ms := raceAccessRe.FindAllStringSubmatch(rep, -1)
	if len(ms) == 0 {
		return false
	}
	for _, m := range ms {
		if strings.HasSuffix(m[1], "/src/daemon.verifConn") {
			return true
		}
	}
	return false
}

var raceFrameRe = regexp.MustCompile(`(?m)^\s+(github\.com/skycoin/skycoin/[^\s(]+(?:\([^)]*\))?[^\s(]*)\(`)

func concParent(r *vf.Run) {
	nHist := r.Pick(600, 5000)
	nStress := r.Pick(160, 2400)
	const shards = 8
	dir := vf.TempDir("c24")
	defer os.RemoveAll(dir)
	type shardOut struct {
		res   concResult
		child vf.ChildResult
		races []string
		ok    bool
	}
	outs := make([]shardOut, shards)
	vf.Parallel(shards, 4, func(i int) {
		d := filepath.Join(dir, "s"+strconv.Itoa(i))
		_ = os.MkdirAll(d, 0755)
		from, to := i*nHist/shards, (i+1)*nHist/shards
		env := []string{
			"VERIF_CONC_OUT=" + filepath.Join(d, "result.json"),
			"VERIF_CONC_SEED=" + strconv.FormatInt(r.SubSeed("conc"), 10),
			"VERIF_CONC_FROM=" + strconv.Itoa(from),
			"VERIF_CONC_TO=" + strconv.Itoa(to),
			"VERIF_CONC_STRESS=" + strconv.Itoa(nStress/shards),
			"GORACE=log_path=" + filepath.Join(d, "race") + " halt_on_error=0 exitcode=0",
		}
		timeout := time.Duration(r.Pick(600, 2400)) * time.Second // watchdog only: a timeout gives "inconclusive"
		cr := vf.RunChild(d, "", "conc", nil, env, timeout)
		o := shardOut{child: cr}
		if b, err := ioutil.ReadFile(filepath.Join(d, "result.json")); err == nil {
			o.ok = json.Unmarshal(b, &o.res) == nil
		}
		files, _ := filepath.Glob(filepath.Join(d, "race.*"))
		for _, f := range files {
			b, _ := ioutil.ReadFile(f)
			for _, rep := range strings.Split(string(b), "WARNING: DATA RACE")[1:] {
				o.races = append(o.races, rep)
			}
		}
		// a race build without log_path support would write to stderr
		for _, rep := range strings.Split(string(cr.Stderr), "WARNING: DATA RACE")[1:] {
			o.races = append(o.races, rep)
		}
		outs[i] = o
	})
	raceFrames := map[string]string{}
	for i, o := range outs {
		for k, v := range o.res.Counts {
			r.Count(k, v)
		}
		r.Count("conc.children", 1)
		r.Count("race.reports", 0)
		for _, rep := range o.races {
			if hookCopyRace(rep) {
				// the verif hook (like Daemon.GetConnection in the product) copies the record that
				// get()/connected()/... returned by pointer after the lock was released; that read is
				// not an access to the five maps and is outside the statement
				r.Count("race.ignored.copy-of-returned-record", 1)
				continue
			}
			r.Count("race.reports", 1)
			frame := "(no skycoin frame)"
			if m := raceFrameRe.FindStringSubmatch(rep); m != nil {
				frame = strings.TrimPrefix(m[1], "github.com/skycoin/skycoin/")
			}
			if _, ok := raceFrames[frame]; !ok {
				if len(rep) > 3000 {
					rep = rep[:3000]
				}
				raceFrames[frame] = rep
			}
		}
		if o.child.TimedOut {
			r.Inconclusive(fmt.Sprintf("concurrent child %d timed out", i))
			continue
		}
		if head, frame := vf.CrashSignature(o.child.Stderr); head != "" {
			r.Violation("concurrent-crash", map[string]string{"headline": head, "frame": frame, "leg": "concurrent"},
				map[string]interface{}{"shard": i, "frames": vf.FirstFrames(o.child.Stderr, 6), "exit": o.child.ExitCode})
			continue
		}
		if !o.ok || !o.res.Finished {
			r.Inconclusive(fmt.Sprintf("concurrent child %d left no complete result (exit %d)", i, o.child.ExitCode))
			continue
		}
		for _, p := range o.res.Panics {
			r.Violation("panic", map[string]string{"leg": "concurrent", "panic": p}, p)
		}
		for _, ih := range o.res.Illegal {
			r.Violation("nonlinearizable-history", map[string]string{"leg": "concurrent", "d10_explains": strconv.FormatBool(ih.D10Explains)}, ih)
		}
		if n := o.res.Counts["conc.unknown"]; n > 0 {
			r.Inconclusive(fmt.Sprintf("porcupine timed out on %d histories (shard %d)", n, i))
		}
	}
	frames := []string{}
	for f := range raceFrames {
		frames = append(frames, f)
	}
	sort.Strings(frames)
	for _, f := range frames {
		r.Violation("data-race", map[string]string{"frame": f, "leg": "concurrent"}, raceFrames[f])
	}
	r.Extra("race_detector", "binary built with -race; GORACE log_path per child; reports counted in race.reports")
}
