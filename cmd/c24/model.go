package main

// Shadow registry for daemon.Connections, written from the C24 statement and the state machine
// documented in src/daemon/connections.go (comment on ConnectionState, the exported Err* variables,
// the comment in `introduced` about the listen port of outgoing connections). It never looks at the
// code under test.

import (
	"fmt"
	"sort"
	"strconv"
	"strings"
)

const (
	stNone       = 0
	stPending    = 1
	stConnected  = 2
	stIntroduced = 3
)

var stName = []string{"none", "pending", "connected", "introduced"}

// event kinds
const (
	opPending = iota
	opConnected
	opIntroduced
	opRemove
	opSetHeight
	// read-only operations (concurrent leg)
	opGet
	opGetByID
	opGetByListen
	opIPCount
	opLen
	opAllOf // the record of one address as reported by all() (a copy taken under the lock)
)

var opName = []string{"pending", "connected", "introduced", "remove", "setheight", "get", "getbyid", "getbylisten", "ipcount", "len", "allof"}

// Event is one concrete connection event (all arguments explicit, so a sequence can be shrunk)
type Event struct {
	Op     int    `json:"op"`
	Name   string `json:"name"`
	Addr   string `json:"addr,omitempty"`
	ID     uint64 `json:"id"`
	Mirror uint32 `json:"mirror"`
	Listen uint16 `json:"listen"`
	Height uint64 `json:"height,omitempty"`
}

func (e Event) String() string {
	switch e.Op {
	case opPending:
		return fmt.Sprintf("pending(%s)", e.Addr)
	case opConnected:
		return fmt.Sprintf("connected(%s,id=%d)", e.Addr, e.ID)
	case opIntroduced:
		return fmt.Sprintf("introduced(%s,id=%d,mirror=%d,listen=%d)", e.Addr, e.ID, e.Mirror, e.Listen)
	case opRemove:
		return fmt.Sprintf("remove(%s,id=%d)", e.Addr, e.ID)
	case opSetHeight:
		return fmt.Sprintf("SetHeight(%s,id=%d,h=%d)", e.Addr, e.ID, e.Height)
	case opGet:
		return fmt.Sprintf("get(%s)", e.Addr)
	case opGetByID:
		return fmt.Sprintf("getByGnetID(%d)", e.ID)
	case opGetByListen:
		return fmt.Sprintf("getByListenAddr(%s)", e.Addr)
	case opIPCount:
		return fmt.Sprintf("IPCount(%s)", e.Addr)
	case opLen:
		return "Len()"
	case opAllOf:
		return fmt.Sprintf("all()[%s]", e.Addr)
	}
	return "?"
}

type mconn struct {
	addr     string
	ip       string
	port     uint16
	state    int
	outgoing bool
	id       uint64
	mirror   uint32
	listen   uint16 // listen port; meaningful for outgoing (always the address' port) and introduced
	height   uint64
}

// listenAddr: "the addr that connection listens on, if available"
func (c *mconn) listenAddr() string {
	if c.outgoing {
		if c.port == 0 {
			return ""
		}
		return c.addr
	}
	if c.state == stIntroduced && c.listen != 0 {
		return c.ip + ":" + strconv.Itoa(int(c.listen))
	}
	return ""
}

// Model is the shadow registry. d10 switches on the *diagnostic* variant that reproduces defect D10
// (remove of a never-introduced connection erases the (ip, mirror 0) registration); it is used only to
// label a violation, never to accept one.
type Model struct {
	conns map[string]*mconn
	// explicit (ip, mirror) registry; in the correct model it always equals the set derived from the
	// introduced connections (checked by selfCheck)
	mir map[string]bool
	d10 bool
}

func newModel() *Model {
	return &Model{conns: map[string]*mconn{}, mir: map[string]bool{}}
}

func (m *Model) clone() *Model {
	n := &Model{conns: make(map[string]*mconn, len(m.conns)), mir: make(map[string]bool, len(m.mir)), d10: m.d10}
	for k, v := range m.conns {
		c := *v
		n.conns[k] = &c
	}
	for k := range m.mir {
		n.mir[k] = true
	}
	return n
}

func mirKey(ip string, mirror uint32) string {
	return ip + "/" + strconv.FormatUint(uint64(mirror), 10)
}

// splitAddr: "ip:port" with a non-empty ip and a decimal port 0..65535
func splitAddr(addr string) (string, uint16, bool) {
	i := strings.LastIndexByte(addr, ':')
	if i <= 0 {
		return "", 0, false
	}
	ip, ps := addr[:i], addr[i+1:]
	if strings.ContainsAny(ip, ":[]") || ps == "" {
		return "", 0, false
	}
	p, err := strconv.ParseUint(ps, 10, 16)
	if err != nil {
		return "", 0, false
	}
	return ip, uint16(p), true
}

func (m *Model) stateOf(addr string) int {
	if c := m.conns[addr]; c != nil {
		return c.state
	}
	return stNone
}

// outcome of a mutating event in the model
const (
	resOK     = 1
	resFail   = 2
	resEither = 3 // the documentation is ambiguous about the return value; state must not change
)

// apply applies a mutating event to the model
func (m *Model) apply(e Event) int {
	ip, port, okAddr := splitAddr(e.Addr)
	if !okAddr {
		return resFail
	}
	c := m.conns[e.Addr]
	switch e.Op {
	case opPending:
		// "adds a new pending outgoing connection"; ErrConnectionExists
		if c != nil {
			return resFail
		}
		m.conns[e.Addr] = &mconn{addr: e.Addr, ip: ip, port: port, state: stPending, outgoing: true, listen: port}
		return resOK
	case opConnected:
		// incoming connections begin at "connected"; outgoing ones move pending -> connected;
		// ErrInvalidGnetID, ErrConnectionAlreadyConnected, ErrConnectionAlreadyIntroduced
		if e.ID == 0 {
			return resFail
		}
		if c == nil {
			m.conns[e.Addr] = &mconn{addr: e.Addr, ip: ip, port: port, state: stConnected, id: e.ID}
			return resOK
		}
		if c.state != stPending {
			return resFail
		}
		c.state = stConnected
		c.id = e.ID
		return resOK
	case opIntroduced:
		// "a connection becomes introduced only from the connected state with the matching connection
		// id, two introduced connections never share an IP and mirror value"
		if c == nil || c.state != stConnected || e.ID == 0 || c.id != e.ID {
			return resFail
		}
		if m.mir[mirKey(ip, e.Mirror)] {
			return resFail
		}
		c.state = stIntroduced
		c.mirror = e.Mirror
		if !c.outgoing {
			c.listen = e.Listen
		}
		m.mir[mirKey(ip, e.Mirror)] = true
		return resOK
	case opRemove:
		// "If a connection with this address does not exist, nothing happens" (the code returns
		// ErrConnectionNotExist, the comment says nothing happens: either return value is accepted);
		// ErrConnectionGnetIDMismatch
		if c == nil {
			return resEither
		}
		if c.id != e.ID {
			return resFail
		}
		if c.state == stIntroduced {
			delete(m.mir, mirKey(ip, c.mirror))
		} else if m.d10 {
			delete(m.mir, mirKey(ip, 0))
		}
		delete(m.conns, e.Addr)
		return resOK
	case opSetHeight:
		if c == nil || c.id != e.ID {
			return resFail
		}
		c.height = e.Height
		return resOK
	}
	panic("model: not a mutating event")
}

// selfCheck: the explicit registry equals the one derived from the introduced connections (correct
// model only)
func (m *Model) selfCheck() bool {
	d := map[string]bool{}
	for _, c := range m.conns {
		if c.state == stIntroduced {
			if d[mirKey(c.ip, c.mirror)] {
				return false
			}
			d[mirKey(c.ip, c.mirror)] = true
		}
	}
	if len(d) != len(m.mir) {
		return false
	}
	for k := range d {
		if !m.mir[k] {
			return false
		}
	}
	return true
}

// ---- expected views ----------------------------------------------------------------------

func (m *Model) ipCount(ip string) int {
	n := 0
	for _, c := range m.conns {
		if c.ip == ip {
			n++
		}
	}
	return n
}

func (m *Model) byID(id uint64) *mconn {
	if id == 0 {
		return nil
	}
	for _, c := range m.conns {
		if c.state >= stConnected && c.id == id {
			return c
		}
	}
	return nil
}

func (m *Model) byListen(la string) []string {
	out := []string{}
	if la == "" {
		return out
	}
	for _, c := range m.conns {
		if c.listenAddr() == la {
			out = append(out, c.addr)
		}
	}
	sort.Strings(out)
	return out
}

// expected five maps, canonical text per map
type views struct {
	conns, mirrors, ipCounts, gnetIDs, listenAddrs string
}

func connLine(addr string, state int, outgoing bool, id uint64, mirror uint32, listen uint16, height uint64) string {
	// mirror and listen port are part of the comparison only where the statement fixes them:
	// mirror for introduced connections; listen port for outgoing and for introduced connections
	ms, ls := "-", "-"
	if state == stIntroduced {
		ms = strconv.FormatUint(uint64(mirror), 10)
	}
	if outgoing || state == stIntroduced {
		ls = strconv.Itoa(int(listen))
	}
	return fmt.Sprintf("%s %s out=%v id=%d mirror=%s listen=%s h=%d", addr, stName[state], outgoing, id, ms, ls, height)
}

func (m *Model) views() views {
	var v views
	lines := []string{}
	ipc := map[string]int{}
	ids := []string{}
	mirs := []string{}
	la := map[string][]string{}
	for _, c := range m.conns {
		lines = append(lines, connLine(c.addr, c.state, c.outgoing, c.id, c.mirror, c.listen, c.height))
		ipc[c.ip]++
		if c.state >= stConnected {
			ids = append(ids, fmt.Sprintf("%d=%s", c.id, c.addr))
		}
		if c.state == stIntroduced {
			mirs = append(mirs, fmt.Sprintf("%d/%s=%d", c.mirror, c.ip, c.listen))
		}
		if l := c.listenAddr(); l != "" {
			la[l] = append(la[l], c.addr)
		}
	}
	sort.Strings(lines)
	sort.Strings(ids)
	sort.Strings(mirs)
	v.conns = strings.Join(lines, "\n")
	v.gnetIDs = strings.Join(ids, " ")
	v.mirrors = strings.Join(mirs, " ")
	v.ipCounts = canonCounts(ipc)
	v.listenAddrs = canonLists(la)
	return v
}

func canonCounts(m map[string]int) string {
	ks := []string{}
	for k, n := range m {
		if n != 0 { // zero-valued entries are treated as absent (DESIGN C24)
			ks = append(ks, fmt.Sprintf("%s=%d", k, n))
		}
	}
	sort.Strings(ks)
	return strings.Join(ks, " ")
}

func canonLists(m map[string][]string) string {
	ks := []string{}
	for k, l := range m {
		if len(l) == 0 && k != "" { // an empty list is the same as no entry
			continue
		}
		s := append([]string(nil), l...)
		sort.Strings(s)
		ks = append(ks, fmt.Sprintf("%q=[%s]", k, strings.Join(s, ",")))
	}
	sort.Strings(ks)
	return strings.Join(ks, " ")
}

// key is a canonical text of the whole model state (porcupine Equal/Hash, distinct-state counting)
func (m *Model) key() string {
	v := m.views()
	if !m.d10 {
		return v.conns
	}
	ks := []string{}
	for k := range m.mir {
		ks = append(ks, k)
	}
	sort.Strings(ks)
	return v.conns + "\n#" + strings.Join(ks, " ")
}
