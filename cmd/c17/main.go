// C17 — Wallet address derivation is deterministic and consistent.
//
// For every wallet kind a random operation sequence (generate k, scan k against a scripted
// activity oracle, serialise+reload through bytes or through a file, clone, lock+unlock with
// operations while locked) runs next to ONE-SHOT wallets that derive the same total from the
// same seed in a single call per chain. After every step:
//   - the address list of every chain equals the one-shot list's prefix of the length the model
//     predicts (generated + kept-by-scan), so batch splitting / reloading / locking cannot matter;
//   - a scan asks the activity oracle about exactly the next k one-shot addresses of each chain
//     and returns/keeps exactly those up to the highest active one;
//   - every entry: Address = address(Public); Public = textbook public key of Secret where a
//     secret is held (lib/refsecp); bip44/xpub child numbers are 0,1,2,... per chain;
//   - the xpub wallet built from the bip44 account's external-chain xpub is compared against the
//     bip44 one-shot external chain (watch-only == seed wallet);
//   - a collection wallet holds exactly the supplied keys, in order.
//
// Service leg: Service.NewAddresses / ScanAddresses sequences interleaved with restarting the
// service on the same directory, same oracle.
// Refused and failing operations are part of every sequence (wallet objects and service): a scan
// whose activity oracle fails at the first or a later chain, wrong/missing/superfluous passwords,
// lock/unlock in the wrong state, generation on a missing account, more than 2^32 xpub children,
// an invalid collection key, an unknown wallet id. They return an error and no addresses, the
// model does not move, and the same wallet object carries on with generate/scan/save/reload.
package main

import (
	"bytes"
	"fmt"
	"math/rand"
	"os"
	"path/filepath"
	"strings"

	"github.com/skycoin/skycoin/src/cipher"
	"github.com/skycoin/skycoin/src/cipher/crypto"
	"github.com/skycoin/skycoin/src/wallet"
	"github.com/skycoin/skycoin/src/wallet/bip44wallet"
	_ "github.com/skycoin/skycoin/src/wallet/collection"
	_ "github.com/skycoin/skycoin/src/wallet/deterministic"
	_ "github.com/skycoin/skycoin/src/wallet/xpubwallet"

	"verif/lib/vf"
	"verif/lib/wfix"
)

func pickK(rng *rand.Rand) int {
	// k from {0,1,2,7,50}; 50 is rare (cost), the small ones dominate
	switch x := rng.Intn(20); {
	case x < 2:
		return 0
	case x < 8:
		return 1
	case x < 13:
		return 2
	case x < 19:
		return 7
	default:
		return 50
	}
}

type chainKey struct {
	account uint32
	chain   uint32
}

// seq is one wallet under test together with its model
type seq struct {
	r     *vf.Run
	id    string
	kind  string
	coin  wallet.CoinType
	w     wallet.Wallet
	want  map[chainKey]int      // model: number of entries per chain
	ref   map[chainKey][]string // one-shot address list per chain (grown by fresh one-shot wallets)
	one   func(ck chainKey, n int) ([]string, error)
	cache *wfix.RefPubCache
	dir   string
	trace []string
	bad   bool
	pw    []byte
	// service leg
	svc    *wallet.Service
	svcCfg wallet.Config
	encPw  []byte
	// a refused / failed operation happened and no generation (resp. reload) has followed yet
	pendGen, pendReload bool
}

// ---- refused and failing operations ---------------------------------------------------------
//
// The model says address i of a chain depends only on the seed material and on i. An operation
// that is refused (wrong password, missing account, impossible count, invalid key) or that fails
// half way (the activity oracle of a scan returns an error, possibly after it answered for other
// chains) hands the caller an error and no addresses, so the number derived so far is what it was
// before, and everything generated afterwards on the SAME wallet object must continue the one-shot
// list exactly where it stood. The operations below are mixed into every sequence; the ordinary
// per-step comparison plus the following generate / scan / reload steps do the checking.

var errFinder = fmt.Errorf("c17: activity lookup failed")

// failTF is an activity oracle that answers the first failAt queries from patterns and fails from
// then on (optionally handing back a filled slice next to the error). Every query is logged.
type failTF struct {
	failAt   int
	withData bool
	patterns [][]bool
	calls    [][]cipher.Addresser
}

func (t *failTF) AddressesActivity(addrs []cipher.Addresser) ([]bool, error) {
	n := len(t.calls)
	t.calls = append(t.calls, append([]cipher.Addresser(nil), addrs...))
	out := make([]bool, len(addrs))
	if n >= t.failAt {
		if t.withData {
			for i := range out {
				out[i] = true
			}
			return out, errFinder
		}
		return nil, errFinder
	}
	if n < len(t.patterns) {
		copy(out, t.patterns[n])
	}
	return out, nil
}

// failPlan draws a failing scan: window k >= 1, the query that fails, hit patterns for the
// queries answered before it
func failPlan(rng *rand.Rand, nchains int) (int, *failTF) {
	k := []int{1, 2, 3, 7, 12}[rng.Intn(5)]
	tf := &failTF{failAt: rng.Intn(nchains), withData: rng.Intn(3) == 0}
	for i := 0; i < tf.failAt; i++ {
		p, _ := wfix.Pattern(rng, k)
		if rng.Intn(2) == 0 {
			p[k-1] = true // hit at the far end of the window: the clone would keep all k
		}
		tf.patterns = append(tf.patterns, p)
	}
	return k, tf
}

// abandon ends a sequence without a verdict (the model cannot follow); the per-kind sequence
// floors then make the run inconclusive
func (s *seq) abandon(step, why string) {
	s.log("ABANDONED at %s: %s", step, why)
	s.bad = true
	s.r.Count("sequences.abandoned", 1)
}

// refusedOutcome handles the result of an operation that cannot deliver addresses.
// mustFail: success would mean addresses were derived that no reference can name (violation);
// otherwise success is outside this property (password handling) and the sequence is abandoned.
func (s *seq) refusedOutcome(step, class string, ngot int, err error, mustFail bool) bool {
	if err == nil {
		if mustFail {
			s.violation("impossible-operation-succeeded", step, fmt.Sprintf("%s: no error, %d addresses returned", class, ngot))
		} else {
			s.abandon(step, class+" was accepted")
		}
		return false
	}
	if ngot != 0 {
		s.violation("refused-operation-returned-addresses", step, fmt.Sprintf("%s: error %v together with %d addresses", class, err, ngot))
		return false
	}
	s.r.Count("op.refused", 1)
	s.r.Count("op.refused."+class, 1)
	s.pendGen, s.pendReload = true, true
	return true
}

// failedScanWindows: whatever a failing scan asked before (and when) it failed must still be the
// next k one-shot addresses of the chains in order
func (s *seq) failedScanWindows(step string, k int, tf *failTF) bool {
	cks := s.chains()
	if len(tf.calls) > len(cks) {
		s.violation("scan-oracle-calls", step, fmt.Sprintf("%d activity queries for %d chains", len(tf.calls), len(cks)))
		return false
	}
	for i, c := range tf.calls {
		ck := cks[i]
		old := s.want[ck]
		if !s.need(ck, old+k) {
			return false
		}
		if !sameStrings(addrStrings(c), s.ref[ck][old:old+k]) {
			s.violation("scan-window", step, fmt.Sprintf("chain %v: asked about %v, one-shot window %v", ck, addrStrings(c), s.ref[ck][old:old+k]))
			return false
		}
	}
	return true
}

// opFailedScan: ScanAddresses on the wallet object itself with an oracle that fails
func (s *seq) opFailedScan(rng *rand.Rand) {
	k, tf := failPlan(rng, len(s.chains()))
	step := fmt.Sprintf("scan %d, activity query #%d fails (data=%v, locked=%v)", k, tf.failAt, tf.withData, s.w.IsEncrypted())
	s.log(step)
	got, err := s.w.ScanAddresses(uint64(k), tf)
	class := "scan_finder_error"
	if s.kind == wallet.WalletTypeCollection {
		class = "scan_unsupported"
	} else if s.w.IsEncrypted() && s.kind == wallet.WalletTypeDeterministic {
		class = "scan_locked"
	}
	if class != "scan_finder_error" && err == nil && len(got) == 0 {
		// a locked deterministic wallet has no seed to derive from and a collection wallet
		// derives nothing; saying so with an empty answer instead of an error is accepted
		err = fmt.Errorf("empty answer")
	}
	if !s.refusedOutcome(step, class, len(got), err, true) {
		return
	}
	if class == "scan_finder_error" {
		if len(tf.calls) == 0 {
			s.violation("scan-oracle-calls", step, "scan failed with "+err.Error()+" before asking the activity oracle")
			return
		}
		if !s.failedScanWindows(step, k, tf) {
			return
		}
		if tf.failAt > 0 {
			s.r.Count("op.refused.scan_finder_error.after_answers", 1)
		}
		if s.want[chainKey{0, 0}] > 0 {
			s.r.Count("op.refused.scan_finder_error.nonempty_wallet", 1)
		}
	}
	s.check(step)
}

// opRefusedLock: lock/unlock requests that must be turned down
func (s *seq) opRefusedLock(rng *rand.Rand) {
	var step, class string
	var err error
	if s.w.IsEncrypted() {
		if rng.Intn(3) == 0 {
			step, class = "lock again while locked", "lock_locked"
			s.log(step)
			err = s.w.Lock([]byte("other " + wfix.RandToken(rng, 6)))
		} else {
			wrong := append([]byte(nil), s.pw...)
			switch rng.Intn(3) {
			case 0:
				wrong[rng.Intn(len(wrong))] ^= 1 << uint(rng.Intn(7))
			case 1:
				wrong = append(wrong, 'x')
			default:
				wrong = []byte("pw " + wfix.RandToken(rng, 9))
			}
			step, class = "unlock with wrong password", "unlock_wrong_password"
			s.log(step)
			var w2 wallet.Wallet
			w2, err = s.w.Unlock(wrong)
			if err == nil && w2 != nil {
				s.w = w2
			}
		}
	} else {
		if rng.Intn(2) == 0 {
			step, class = "lock with empty password", "lock_empty_password"
			s.log(step)
			err = s.w.Lock(nil)
		} else {
			step, class = "unlock while not locked", "unlock_unlocked"
			s.log(step)
			_, err = s.w.Unlock([]byte("pw " + wfix.RandToken(rng, 8)))
		}
	}
	if s.refusedOutcome(step, class, 0, err, false) {
		s.check(step)
	}
}

// opRefusedGenerate: a generation request that names something that does not exist
func (s *seq) opRefusedGenerate(rng *rand.Rand) {
	switch s.kind {
	case wallet.WalletTypeBip44:
		acc := uint32(len(s.w.Accounts()) + rng.Intn(3))
		k := 1 + rng.Intn(7)
		step := fmt.Sprintf("generate %d on missing account %d", k, acc)
		s.log(step)
		o := []wallet.Option{wallet.OptionGenerateN(uint64(k)), wallet.OptionAccount(acc)}
		if rng.Intn(2) == 0 {
			o = append(o, wallet.OptionChange())
		}
		got, err := s.w.GenerateAddresses(o...)
		if s.refusedOutcome(step, "generate_missing_account", len(got), err, true) {
			s.check(step)
		}
	case wallet.WalletTypeXPub:
		// more than 2^32-1 children do not exist; the low 32 bits are small on purpose
		n := uint64(1)<<32*uint64(1+rng.Intn(3)) + uint64(rng.Intn(8))
		step := fmt.Sprintf("generate %d", n)
		s.log(step)
		got, err := s.w.GenerateAddresses(wallet.OptionGenerateN(n))
		if s.refusedOutcome(step, "generate_too_many", len(got), err, true) {
			s.check(step)
		}
	default:
		s.opFailedScan(rng)
	}
}

func (s *seq) opRefused(rng *rand.Rand, canLock bool) {
	switch x := rng.Intn(10); {
	case x < 6:
		s.opFailedScan(rng)
	case x < 8 && canLock:
		s.opRefusedLock(rng)
	default:
		s.opRefusedGenerate(rng)
	}
}

func (s *seq) chains() []chainKey {
	var out []chainKey
	if s.kind == wallet.WalletTypeBip44 {
		for _, a := range s.w.Accounts() {
			out = append(out, chainKey{a.Index, 0}, chainKey{a.Index, 1})
		}
		return out
	}
	return []chainKey{{0, 0}}
}

func chainOpts(s *seq, ck chainKey) []wallet.Option {
	if s.kind != wallet.WalletTypeBip44 {
		return nil
	}
	o := []wallet.Option{wallet.OptionAccount(ck.account)}
	if ck.chain == 1 {
		return append(o, wallet.OptionChange())
	}
	return append(o, wallet.OptionExternal())
}

func (s *seq) violation(kind, step, detail string) {
	s.bad = true
	var ws []byte
	if s.w != nil {
		ws, _ = s.w.Serialize()
	}
	s.r.Violation(kind, map[string]string{"wallet": s.kind, "step": step, "detail": detail},
		map[string]interface{}{"sequence": s.id, "trace": s.trace, "detail": detail, "wallet": string(ws), "model": fmt.Sprint(s.want)})
}

// need makes sure the one-shot list of chain ck has at least n addresses. A longer list is
// always derived by a FRESH wallet in one call; it must agree with the shorter one derived before.
func (s *seq) need(ck chainKey, n int) bool {
	if len(s.ref[ck]) >= n {
		return true
	}
	size := 32
	for size < n {
		size *= 2
	}
	l, err := s.one(ck, size)
	if err != nil || len(l) != size {
		s.violation("one-shot-failed", "one-shot", fmt.Sprintf("chain %v size %d: %v (got %d)", ck, size, err, len(l)))
		return false
	}
	old := s.ref[ck]
	for i := range old {
		if old[i] != l[i] {
			s.violation("one-shot-lists-disagree", "one-shot", fmt.Sprintf("chain %v index %d: %s (of %d) vs %s (of %d)", ck, i, old[i], len(old), l[i], size))
			return false
		}
	}
	s.ref[ck] = l
	s.r.Count("oneshot.derivations", 1)
	return true
}

// check compares the wallet with the model and the one-shot lists
func (s *seq) check(step string) {
	if s.bad {
		return
	}
	s.r.Eval(1)
	for _, ck := range s.chains() {
		es, err := s.w.GetEntries(chainOpts(s, ck)...)
		if err != nil {
			s.violation("entries-unreadable", step, err.Error())
			return
		}
		if len(es) != s.want[ck] {
			s.violation("address-count", step, fmt.Sprintf("chain %v holds %d entries, model says %d", ck, len(es), s.want[ck]))
			return
		}
		if !s.need(ck, len(es)) {
			return
		}
		ref := s.ref[ck]
		for i, e := range es {
			if e.Address.String() != ref[i] {
				s.violation("address-differs-from-one-shot", step, fmt.Sprintf("chain %v index %d: %s, one-shot wallet has %s", ck, i, e.Address, ref[i]))
				return
			}
			if err := wfix.CheckEntry(s.coin, e, s.cache); err != nil {
				s.violation("entry-inconsistent", step, fmt.Sprintf("chain %v index %d: %v", ck, i, err))
				return
			}
			if (s.kind == wallet.WalletTypeBip44 || s.kind == wallet.WalletTypeXPub) && e.ChildNumber != uint32(i) {
				s.violation("child-number", step, fmt.Sprintf("chain %v index %d has child number %d", ck, i, e.ChildNumber))
				return
			}
			if e.Secret != (cipher.SecKey{}) {
				s.r.Count("entries.secret_checked_refsecp", 1)
			}
			s.r.Count("entries.checked", 1)
		}
	}
	// GetAddresses agrees with the entries of the first chain
	ck0 := chainKey{0, 0}
	addrs, err := s.w.GetAddresses(chainOpts(s, ck0)...)
	if err != nil {
		s.violation("addresses-unreadable", step, err.Error())
		return
	}
	if len(addrs) != s.want[ck0] {
		s.violation("address-count", step, fmt.Sprintf("GetAddresses returns %d, model says %d", len(addrs), s.want[ck0]))
		return
	}
	for i, a := range addrs {
		if a.String() != s.ref[ck0][i] {
			s.violation("address-differs-from-one-shot", step, fmt.Sprintf("GetAddresses[%d] = %s, one-shot %s", i, a, s.ref[ck0][i]))
			return
		}
	}
}

func (s *seq) log(f string, a ...interface{}) { s.trace = append(s.trace, fmt.Sprintf(f, a...)) }

func addrStrings(as []cipher.Addresser) []string {
	out := make([]string, len(as))
	for i, a := range as {
		out[i] = a.String()
	}
	return out
}

func skyStrings(as []cipher.Address) []string {
	out := make([]string, len(as))
	for i, a := range as {
		out[i] = a.String()
	}
	return out
}

func sameStrings(a, b []string) bool {
	if len(a) != len(b) {
		return false
	}
	for i := range a {
		if a[i] != b[i] {
			return false
		}
	}
	return true
}

// ---- wallet-level operations -----------------------------------------------------------

func (s *seq) opGenerate(rng *rand.Rand) {
	cks := s.chains()
	ck := cks[rng.Intn(len(cks))]
	k := pickK(rng)
	step := fmt.Sprintf("generate %d on %v (locked=%v)", k, ck, s.w.IsEncrypted())
	s.log(step)
	opts := append([]wallet.Option{wallet.OptionGenerateN(uint64(k))}, chainOpts(s, ck)...)
	got, err := s.w.GenerateAddresses(opts...)
	if s.w.IsEncrypted() && s.kind == wallet.WalletTypeDeterministic {
		// a locked deterministic wallet has no seed to derive from: no addresses may appear
		if err == nil && len(got) > 0 {
			s.violation("generate-on-locked-deterministic", step, "returned addresses")
		}
		s.r.Count("op.generate.locked_refused", 1)
		s.check(step)
		return
	}
	if err != nil {
		s.violation("generate-failed", step, err.Error())
		return
	}
	old := s.want[ck]
	s.want[ck] += k
	if !s.need(ck, old+k) {
		return
	}
	if !sameStrings(addrStrings(got), s.ref[ck][old:old+k]) {
		s.violation("generate-return-value", step, fmt.Sprintf("returned %v, one-shot slice %v", addrStrings(got), s.ref[ck][old:old+k]))
		return
	}
	s.r.Count("op.generate", 1)
	s.r.Count(fmt.Sprintf("op.generate.k%d", k), 1)
	if s.w.IsEncrypted() {
		s.r.Count("op.generate.while_locked", 1)
	}
	if ck.chain == 1 {
		s.r.Count("op.generate.change_chain", 1)
	}
	if ck.account > 0 {
		s.r.Count("op.generate.second_account", 1)
	}
	if k > 0 && s.pendGen {
		s.pendGen = false
		s.r.Count("refused.then_generate", 1)
		s.r.Count("refused.then_generate."+s.kind, 1)
	}
	s.check(step)
}

// scanPlan draws the activity patterns for one scan
func scanPlan(rng *rand.Rand, nchains int) (int, *wfix.StubTF, []int) {
	k := pickK(rng)
	if k == 50 {
		k = 8 + rng.Intn(12)
	}
	tf := &wfix.StubTF{}
	keeps := make([]int, nchains)
	for i := 0; i < nchains; i++ {
		var p []bool
		p, keeps[i] = wfix.Pattern(rng, k)
		tf.Patterns = append(tf.Patterns, p)
	}
	return k, tf, keeps
}

// scanOracle checks what a scan asked and returned, and advances the model
func (s *seq) scanOracle(step string, k int, tf *wfix.StubTF, keeps []int, got []string) bool {
	cks := s.chains()
	if k == 0 {
		if len(got) != 0 || len(tf.Calls) != 0 {
			s.violation("scan-return-value", step, "scan of 0 asked or returned addresses")
			return false
		}
		return true
	}
	if len(tf.Calls) != len(cks) {
		s.violation("scan-oracle-calls", step, fmt.Sprintf("%d activity queries for %d chains", len(tf.Calls), len(cks)))
		return false
	}
	var wantRet []string
	for i, ck := range cks {
		old := s.want[ck]
		if !s.need(ck, old+k) {
			return false
		}
		if !sameStrings(addrStrings(tf.Calls[i]), s.ref[ck][old:old+k]) {
			s.violation("scan-window", step, fmt.Sprintf("chain %v: asked about %v, one-shot window %v", ck, addrStrings(tf.Calls[i]), s.ref[ck][old:old+k]))
			return false
		}
		if ck.chain == 0 {
			wantRet = append(wantRet, s.ref[ck][old:old+keeps[i]]...)
		}
		s.want[ck] = old + keeps[i]
		if keeps[i] > 0 {
			s.r.Count("op.scan.chain_kept_some", 1)
		} else {
			s.r.Count("op.scan.chain_kept_none", 1)
		}
	}
	if !sameStrings(got, wantRet) {
		s.violation("scan-return-value", step, fmt.Sprintf("returned %v, expected %v", got, wantRet))
		return false
	}
	s.r.Count("op.scan", 1)
	return true
}

func (s *seq) opScan(rng *rand.Rand) {
	k, tf, keeps := scanPlan(rng, len(s.chains()))
	step := fmt.Sprintf("scan %d keeps=%v (locked=%v)", k, keeps, s.w.IsEncrypted())
	s.log(step)
	got, err := s.w.ScanAddresses(uint64(k), tf)
	if s.w.IsEncrypted() && s.kind == wallet.WalletTypeDeterministic {
		if err == nil && len(got) > 0 {
			s.violation("scan-on-locked-deterministic", step, "returned addresses")
		}
		s.r.Count("op.scan.locked_refused", 1)
		s.check(step)
		return
	}
	if err != nil {
		s.violation("scan-failed", step, err.Error())
		return
	}
	if s.scanOracle(step, k, tf, keeps, addrStrings(got)) {
		if s.w.IsEncrypted() {
			s.r.Count("op.scan.while_locked", 1)
		}
		s.check(step)
	}
}

func (s *seq) opReload(rng *rand.Rand) {
	via := []string{"bytes", "file"}[rng.Intn(2)]
	step := "reload via " + via
	s.log(step)
	data, err := s.w.Serialize()
	if err != nil {
		s.violation("serialize-failed", step, err.Error())
		return
	}
	var w2 wallet.Wallet
	if via == "bytes" {
		w2, err = wfix.LoadBytes(s.kind, data)
	} else {
		if err = wallet.Save(s.w, s.dir); err == nil {
			w2, err = wallet.Load(filepath.Join(s.dir, s.w.Filename()))
		}
	}
	if err != nil || w2 == nil {
		s.violation("reload-failed", step, fmt.Sprint(err))
		return
	}
	s.w = w2
	s.r.Count("op.reload."+via, 1)
	if s.pendReload {
		s.pendReload = false
		s.r.Count("refused.then_reload", 1)
	}
	s.check(step)
}

func (s *seq) opClone() {
	s.log("clone")
	s.w = s.w.Clone()
	s.r.Count("op.clone", 1)
	s.check("clone")
}

func (s *seq) opLock(rng *rand.Rand) {
	ct := crypto.CryptoTypeSha256Xor
	if rng.Intn(6) == 0 {
		ct = crypto.CryptoTypeScryptChacha20poly1305Insecure
	}
	s.pw = []byte("pw " + wfix.RandToken(rng, 8))
	step := "lock " + string(ct)
	s.log(step)
	s.w.SetCryptoType(ct)
	if err := s.w.Lock(s.pw); err != nil {
		s.violation("lock-failed", step, err.Error())
		return
	}
	s.r.Count("op.lock."+string(ct), 1)
	s.check(step)
}

func (s *seq) opUnlock() {
	step := "unlock"
	s.log(step)
	w2, err := s.w.Unlock(s.pw)
	if err != nil {
		s.violation("unlock-failed", step, err.Error())
		return
	}
	s.w = w2
	s.r.Count("op.unlock", 1)
	s.check(step)
}

func (s *seq) run(rng *rand.Rand, nops int) {
	s.check("create")
	canLock := s.kind == wallet.WalletTypeDeterministic || s.kind == wallet.WalletTypeBip44
	for i := 0; i < nops && !s.bad; i++ {
		switch x := rng.Intn(116); {
		case x >= 100:
			s.opRefused(rng, canLock)
		case x < 38:
			s.opGenerate(rng)
		case x < 56:
			s.opScan(rng)
		case x < 74:
			s.opReload(rng)
		case x < 80:
			s.opClone()
		default:
			if !canLock {
				s.opGenerate(rng)
			} else if s.w.IsEncrypted() {
				s.opUnlock()
			} else {
				s.opLock(rng)
			}
		}
	}
	if !s.bad && s.w.IsEncrypted() {
		s.opUnlock()
	}
	s.finish()
}

func (s *seq) finish() {
	total := 0
	for _, n := range s.want {
		total += n
	}
	if !s.bad {
		s.r.Distinct(fmt.Sprintf("%s:%s:%d:%s", s.kind, s.id, total, strings.Join(s.trace, "|")))
		s.r.Count("sequences."+s.kind, 1)
		s.r.Count("addresses.final_total", int64(total))
		s.r.Sample(map[string]interface{}{"sequence": s.id, "kind": s.kind, "final_counts": fmt.Sprint(s.want), "ops": s.trace})
	}
}

func newSeq(r *vf.Run, id, kind, dir string) *seq {
	return &seq{r: r, id: id, kind: kind, coin: wallet.CoinTypeSkycoin, want: map[chainKey]int{}, ref: map[chainKey][]string{},
		cache: wfix.NewRefPubCache(), dir: dir}
}

// ---- one-shot derivations -------------------------------------------------------------

func oneShotDeterministic(seed string, coin wallet.CoinType) func(chainKey, int) ([]string, error) {
	return func(_ chainKey, n int) ([]string, error) {
		one, err := wallet.NewWallet("oneshot.wlt", "label", seed, wallet.Options{Type: wallet.WalletTypeDeterministic, Coin: coin, GenerateN: uint64(n)})
		if err != nil {
			return nil, err
		}
		as, err := one.GetAddresses()
		return addrStrings(as), err
	}
}

// bip44: a fresh wallet per request; the external chain of account 0 comes from the creation
// call itself, every other chain from a single GenerateAddresses call
func oneShotBip44(seed, pass string, opts wallet.Options, accounts int) func(chainKey, int) ([]string, error) {
	return func(ck chainKey, n int) ([]string, error) {
		o := opts
		o.GenerateN = 1
		if ck.account == 0 && ck.chain == 0 {
			o.GenerateN = uint64(n)
		}
		one, err := wallet.NewWallet("oneshot.wlt", "label", seed, o)
		if err != nil {
			return nil, err
		}
		for a := 1; a < accounts; a++ {
			if _, err := one.(*bip44wallet.Wallet).NewAccount(fmt.Sprintf("acc%d", a)); err != nil {
				return nil, err
			}
		}
		sel := []wallet.Option{wallet.OptionAccount(ck.account), wallet.OptionExternal()}
		if ck.chain == 1 {
			sel = []wallet.Option{wallet.OptionAccount(ck.account), wallet.OptionChange()}
		}
		have, err := one.EntriesLen(sel...)
		if err != nil {
			return nil, err
		}
		if n > have {
			if _, err := one.GenerateAddresses(append(sel, wallet.OptionGenerateN(uint64(n-have)))...); err != nil {
				return nil, err
			}
		}
		as, err := one.GetAddresses(sel...)
		return addrStrings(as), err
	}
}

func xpubOf(b44 wallet.Wallet) string {
	data, err := b44.Serialize()
	if err != nil {
		panic(err)
	}
	// the first "public_key" of the first account is the external chain's extended public key
	const key = `"public_key": "`
	i := bytes.Index(data, []byte(key))
	if i < 0 {
		panic("no public_key in bip44 serialisation")
	}
	rest := data[i+len(key):]
	return string(rest[:bytes.IndexByte(rest, '"')])
}

// ---- wallet-level sequences -------------------------------------------------------------

func runDeterministic(r *vf.Run, i int, dir string) {
	rng := r.Rand("det", i)
	s := newSeq(r, fmt.Sprintf("det-%d", i), wallet.WalletTypeDeterministic, dir)
	seed := wfix.SeedString(rng)
	if rng.Intn(6) == 0 {
		s.coin = wallet.CoinTypeBitcoin
		r.Count("coin.bitcoin_sequences", 1)
	}
	n0 := []int{0, 1, 1, 3}[rng.Intn(4)]
	w, err := wallet.NewWallet(s.id+".wlt", "label", seed, wallet.Options{Type: s.kind, Coin: s.coin, GenerateN: uint64(n0)})
	if err != nil {
		s.violation("create-failed", "create", err.Error())
		return
	}
	s.w = w
	s.want[chainKey{0, 0}] = n0
	s.log("create deterministic seed=%q coin=%s n=%d", seed, s.coin, n0)
	s.one = oneShotDeterministic(seed, s.coin)
	s.run(rng, 9+rng.Intn(10))
}

func bip44Setup(rng *rand.Rand, s *seq) (seed, pass string, opts wallet.Options, accounts int) {
	seed = wfix.Mnemonic(rng)
	switch rng.Intn(3) {
	case 1:
		pass = "pass " + wfix.RandToken(rng, 1+rng.Intn(12))
	case 2:
		pass = "пароль-" + wfix.RandToken(rng, 4)
	}
	opts = wallet.Options{Type: wallet.WalletTypeBip44, SeedPassphrase: pass, Coin: s.coin}
	accounts = 1
	if rng.Intn(3) == 0 {
		accounts = 2
	}
	return
}

func runBip44(r *vf.Run, i int, dir string) {
	rng := r.Rand("bip44", i)
	s := newSeq(r, fmt.Sprintf("bip44-%d", i), wallet.WalletTypeBip44, dir)
	if rng.Intn(6) == 0 {
		s.coin = wallet.CoinTypeBitcoin
		r.Count("coin.bitcoin_sequences", 1)
	}
	seed, pass, opts, accounts := bip44Setup(rng, s)
	n0 := []int{1, 1, 2, 5}[rng.Intn(4)]
	o := opts
	o.GenerateN = uint64(n0)
	w, err := wallet.NewWallet(s.id+".wlt", "label", seed, o)
	if err != nil {
		s.violation("create-failed", "create", err.Error())
		return
	}
	s.w = w
	s.want[chainKey{0, 0}] = n0
	s.want[chainKey{0, 1}] = 1 // creation derives one change address
	for a := 1; a < accounts; a++ {
		if _, err := w.(*bip44wallet.Wallet).NewAccount(fmt.Sprintf("acc%d", a)); err != nil {
			s.violation("new-account-failed", "create", err.Error())
			return
		}
		s.want[chainKey{uint32(a), 0}] = 0
		s.want[chainKey{uint32(a), 1}] = 0
	}
	s.log("create bip44 seed=%q pass=%q coin=%s n=%d accounts=%d", seed, pass, s.coin, n0, accounts)
	s.one = oneShotBip44(seed, pass, opts, accounts)
	s.run(rng, 9+rng.Intn(10))
	if !s.bad && accounts > 1 {
		// different accounts / chains must not collide
		seen := map[string]chainKey{}
		for ck, l := range s.ref {
			for _, a := range l[:s.want[ck]] {
				if o, dup := seen[a]; dup {
					s.violation("address-on-two-chains", "final", fmt.Sprintf("%s on %v and %v", a, o, ck))
				}
				seen[a] = ck
			}
		}
	}
}

func runXPub(r *vf.Run, i int, dir string) {
	rng := r.Rand("xpub", i)
	s := newSeq(r, fmt.Sprintf("xpub-%d", i), wallet.WalletTypeXPub, dir)
	seed, pass, opts, _ := bip44Setup(rng, s)
	base, err := wallet.NewWallet("base.wlt", "label", seed, opts)
	if err != nil {
		s.violation("create-failed", "create-base", err.Error())
		return
	}
	xpub := xpubOf(base)
	n0 := []int{0, 1, 1, 4}[rng.Intn(4)]
	w, err := wallet.NewWallet(s.id+".wlt", "label", "", wallet.Options{Type: wallet.WalletTypeXPub, XPub: xpub, GenerateN: uint64(n0)})
	if err != nil {
		s.violation("create-failed", "create", err.Error())
		return
	}
	s.w = w
	s.want[chainKey{0, 0}] = n0
	s.log("create xpub from bip44 seed=%q pass=%q xpub=%s n=%d", seed, pass, xpub, n0)
	// reference: the SEED wallet's external chain, one-shot
	b := oneShotBip44(seed, pass, opts, 1)
	s.one = func(_ chainKey, n int) ([]string, error) { return b(chainKey{0, 0}, n) }
	s.run(rng, 9+rng.Intn(10))
	if !s.bad {
		r.Count("xpub.addresses_equal_seed_wallet", int64(s.want[chainKey{0, 0}]))
	}
}

func runCollection(r *vf.Run, i int, dir string) {
	rng := r.Rand("collection", i)
	s := newSeq(r, fmt.Sprintf("collection-%d", i), wallet.WalletTypeCollection, dir)
	ck := chainKey{0, 0}
	addKeys := func(n int) []cipher.SecKey {
		keys := make([]cipher.SecKey, n)
		for j := range keys {
			keys[j] = wfix.SecKey(rng)
			// expected address from the reference public key
			pk, err := cipher.NewPubKey(s.cache.Pub(keys[j]))
			if err != nil {
				panic(err)
			}
			s.ref[ck] = append(s.ref[ck], cipher.AddressFromPubKey(pk).String())
		}
		return keys
	}
	s.one = func(chainKey, int) ([]string, error) { return nil, fmt.Errorf("collection wallets have no derivation") }
	var supplied []cipher.SecKey
	n0 := rng.Intn(5)
	supplied = append(supplied, addKeys(n0)...)
	w, err := wallet.NewWallet(s.id+".wlt", "label", "", wallet.Options{Type: s.kind, CollectionPrivateKeys: supplied})
	if err != nil {
		s.violation("create-failed", "create", err.Error())
		return
	}
	s.w = w
	s.want[ck] = n0
	s.log("create collection n=%d", n0)
	s.check("create")
	nops := 7 + rng.Intn(9)
	for j := 0; j < nops && !s.bad; j++ {
		switch x := rng.Intn(116); {
		case x >= 100:
			switch y := rng.Intn(10); {
			case y < 4 && !s.w.IsEncrypted():
				// a key list that starts with a key that is no key: nothing of it may be taken
				bad := []cipher.SecKey{{}}
				if rng.Intn(2) == 0 {
					for b := range bad[0] {
						bad[0][b] = 0xff // above the group order
					}
				}
				for n := rng.Intn(3); n > 0; n-- {
					bad = append(bad, wfix.SecKey(rng))
				}
				step := fmt.Sprintf("add %d keys, the first one invalid", len(bad))
				s.log(step)
				got, err := s.w.GenerateAddresses(wallet.OptionCollectionPrivateKeys(bad))
				if s.refusedOutcome(step, "collection_invalid_key", len(got), err, true) {
					s.check(step)
				}
			case y < 7:
				s.opRefusedLock(rng)
			default:
				s.opFailedScan(rng)
			}
		case x < 40 && !s.w.IsEncrypted():
			k := []int{0, 1, 2, 7}[rng.Intn(4)]
			keys := addKeys(k)
			supplied = append(supplied, keys...)
			step := fmt.Sprintf("add %d keys", k)
			s.log(step)
			got, err := s.w.GenerateAddresses(wallet.OptionCollectionPrivateKeys(keys))
			if err != nil {
				s.violation("add-keys-failed", step, err.Error())
				break
			}
			if !sameStrings(addrStrings(got), s.ref[ck][s.want[ck]:s.want[ck]+k]) {
				s.violation("generate-return-value", step, fmt.Sprint(addrStrings(got)))
				break
			}
			s.want[ck] += k
			s.r.Count("op.collection.add_keys", 1)
			if k > 0 && s.pendGen {
				s.pendGen = false
				s.r.Count("refused.then_generate", 1)
				s.r.Count("refused.then_generate."+s.kind, 1)
			}
			s.check(step)
		case x < 65:
			s.opReload(rng)
		case x < 75:
			s.opClone()
		default:
			if s.w.IsEncrypted() {
				s.opUnlock()
			} else {
				s.opLock(rng)
			}
		}
	}
	if !s.bad && s.w.IsEncrypted() {
		s.opUnlock()
	}
	if !s.bad {
		// exactly the supplied keys, in order
		es, _ := s.w.GetEntries()
		if len(es) != len(supplied) {
			s.violation("collection-keys", "final", "count")
		}
		for j := range es {
			if j < len(supplied) && es[j].Secret != supplied[j] {
				s.violation("collection-keys", "final", fmt.Sprintf("entry %d holds another key", j))
				break
			}
		}
	}
	s.finish()
}

// ---- service leg -----------------------------------------------------------------------

func (s *seq) refresh(step string) bool {
	w, err := s.svc.GetWallet(s.w.Filename())
	if err != nil {
		s.violation("service-wallet-missing", step, err.Error())
		return false
	}
	s.w = w
	return true
}

// svcRefused: requests the service must turn down (or that fail inside it), on the stored wallet
func (s *seq) svcRefused(rng *rand.Rand, encrypt bool) {
	id := s.w.Filename()
	var right []byte // the password a well-formed request carries
	if encrypt && s.kind != wallet.WalletTypeBip44 {
		right = s.encPw
	}
	wrongPw := func() ([]byte, string) {
		// returns a password the service cannot accept for this wallet
		switch {
		case !encrypt:
			return []byte("pw " + wfix.RandToken(rng, 8)), "password_for_unencrypted"
		case rng.Intn(4) == 0:
			return nil, "password_missing"
		default:
			w := append([]byte(nil), s.encPw...)
			w[rng.Intn(len(w))] ^= 1 << uint(rng.Intn(7))
			return w, "password_wrong"
		}
	}
	var step, class string
	var got []cipher.Address
	var err error
	mustFail := true
	switch x := rng.Intn(10); {
	case x < 4:
		k, tf := failPlan(rng, len(s.chains()))
		step, class = fmt.Sprintf("Service.ScanAddresses %d, activity query #%d fails (data=%v)", k, tf.failAt, tf.withData), "scan_finder_error"
		s.log(step)
		got, err = s.svc.ScanAddresses(id, right, uint64(k), tf)
		if err != nil && !s.failedScanWindows(step, k, tf) {
			return
		}
	case x < 6:
		// scan with a password the wallet cannot be opened with; the oracle would report hits everywhere
		var pw []byte
		if s.kind == wallet.WalletTypeBip44 {
			pw, class = []byte("pw "+wfix.RandToken(rng, 8)), "password_for_bip44" // bip44 scans take no password
		} else {
			pw, class = wrongPw()
		}
		class, mustFail = "scan_"+class, false
		k := 1 + rng.Intn(7)
		tf := &wfix.StubTF{}
		for range s.chains() {
			p := make([]bool, k)
			p[k-1] = true
			tf.Patterns = append(tf.Patterns, p)
		}
		step = fmt.Sprintf("Service.ScanAddresses %d (%s)", k, class)
		s.log(step)
		got, err = s.svc.ScanAddresses(id, pw, uint64(k), tf)
	case x < 8 && s.kind != wallet.WalletTypeBip44:
		// bip44 wallets generate from public keys and take any password
		pw, c := wrongPw()
		class, mustFail = "new_addresses_"+c, false
		k := 1 + rng.Intn(7)
		step = fmt.Sprintf("Service.NewAddresses %d (%s)", k, c)
		s.log(step)
		got, err = s.svc.NewAddresses(id, pw, wallet.OptionGenerateN(uint64(k)))
	default:
		switch s.kind {
		case wallet.WalletTypeBip44:
			acc := uint32(1 + rng.Intn(3))
			k := 1 + rng.Intn(7)
			step, class = fmt.Sprintf("Service.NewAddresses %d on missing account %d", k, acc), "generate_missing_account"
			s.log(step)
			got, err = s.svc.NewAddresses(id, right, wallet.OptionGenerateN(uint64(k)), wallet.OptionAccount(acc))
		case wallet.WalletTypeXPub:
			n := uint64(1)<<32*uint64(1+rng.Intn(3)) + uint64(rng.Intn(8))
			step, class = fmt.Sprintf("Service.NewAddresses %d", n), "generate_too_many"
			s.log(step)
			got, err = s.svc.NewAddresses(id, right, wallet.OptionGenerateN(n))
		default:
			k := 1 + rng.Intn(7)
			step, class = fmt.Sprintf("Service.NewAddresses %d on a wallet id that does not exist", k), "unknown_wallet"
			s.log(step)
			got, err = s.svc.NewAddresses("no-"+id, right, wallet.OptionGenerateN(uint64(k)))
		}
	}
	if !s.refusedOutcome(step, class, len(got), err, mustFail) {
		return
	}
	s.r.Count("service.refused", 1)
	s.r.Count("service.refused."+class, 1)
	if s.refresh(step) {
		s.check(step)
	}
}

func runService(r *vf.Run, i int) {
	rng := r.Rand("service", i)
	dir := vf.TempDir("c17svc")
	defer os.RemoveAll(dir)
	kind := []string{wallet.WalletTypeDeterministic, wallet.WalletTypeBip44, wallet.WalletTypeBip44, wallet.WalletTypeXPub}[rng.Intn(4)]
	s := newSeq(r, fmt.Sprintf("service-%s-%d", kind, i), kind, dir)
	s.svcCfg = wallet.NewConfig()
	s.svcCfg.WalletDir = dir
	s.svcCfg.EnableWalletAPI = true
	s.svcCfg.CryptoType = crypto.CryptoTypeSha256Xor
	if rng.Intn(8) == 0 {
		s.svcCfg.CryptoType = crypto.CryptoTypeScryptChacha20poly1305Insecure
	}
	svc, err := wallet.NewService(s.svcCfg)
	if err != nil {
		s.violation("service-start-failed", "start", err.Error())
		return
	}
	s.svc = svc
	n0 := []int{0, 1, 2, 5}[rng.Intn(4)] // 0 means the service default of one address
	opts := wallet.Options{Type: kind, Label: "label", GenerateN: uint64(n0)}
	encrypt := kind != wallet.WalletTypeXPub && rng.Intn(2) == 0
	if encrypt {
		s.encPw = []byte("pw " + wfix.RandToken(rng, 8))
		opts.Encrypt, opts.Password = true, s.encPw
	}
	if n0 == 0 {
		n0 = 1
	}
	switch kind {
	case wallet.WalletTypeDeterministic:
		opts.Seed = wfix.SeedString(rng)
		s.one = oneShotDeterministic(opts.Seed, wallet.CoinTypeSkycoin)
	case wallet.WalletTypeBip44:
		seed, pass, o, _ := bip44Setup(rng, s)
		opts.Seed, opts.SeedPassphrase = seed, pass
		s.one = oneShotBip44(seed, pass, o, 1)
		s.want[chainKey{0, 1}] = 1
	case wallet.WalletTypeXPub:
		seed, pass, o, _ := bip44Setup(rng, s)
		base, err := wallet.NewWallet("base.wlt", "label", seed, o)
		if err != nil {
			s.violation("create-failed", "create-base", err.Error())
			return
		}
		opts.XPub = xpubOf(base)
		b := oneShotBip44(seed, pass, o, 1)
		s.one = func(_ chainKey, n int) ([]string, error) { return b(chainKey{0, 0}, n) }
	}
	w, err := svc.CreateWallet(fmt.Sprintf("w%d.wlt", i), opts)
	if err != nil {
		s.violation("create-failed", "service-create", err.Error())
		return
	}
	s.w = w
	s.want[chainKey{0, 0}] = n0
	s.log("service create %s encrypted=%v n=%d seed=%q pass=%q", kind, encrypt, n0, opts.Seed, opts.SeedPassphrase)
	s.check("service-create")
	nops := 9 + rng.Intn(8)
	for j := 0; j < nops && !s.bad; j++ {
		switch x := rng.Intn(118); {
		case x >= 100:
			s.svcRefused(rng, encrypt)
		case x < 45:
			cks := s.chains()
			ck := cks[rng.Intn(len(cks))]
			k := pickK(rng)
			step := fmt.Sprintf("Service.NewAddresses %d on %v", k, ck)
			s.log(step)
			o := []wallet.Option{wallet.OptionGenerateN(uint64(k))}
			if ck.chain == 1 {
				o = append(o, wallet.OptionChange())
			}
			var pw []byte
			if encrypt && kind != wallet.WalletTypeBip44 {
				pw = s.encPw
			}
			got, err := svc.NewAddresses(s.w.Filename(), pw, o...)
			if err != nil {
				s.violation("service-new-addresses-failed", step, err.Error())
				break
			}
			old := s.want[ck]
			s.want[ck] += k
			if !s.need(ck, old+k) {
				break
			}
			if !sameStrings(skyStrings(got), s.ref[ck][old:old+k]) {
				s.violation("generate-return-value", step, fmt.Sprintf("returned %v, one-shot slice %v", skyStrings(got), s.ref[ck][old:old+k]))
				break
			}
			s.r.Count("service.new_addresses", 1)
			if encrypt {
				s.r.Count("service.new_addresses.encrypted", 1)
			}
			if k > 0 && s.pendGen {
				s.pendGen = false
				s.r.Count("service.refused.then_new_addresses", 1)
			}
			if s.refresh(step) {
				s.check(step)
			}
		case x < 65:
			k, tf, keeps := scanPlan(rng, len(s.chains()))
			step := fmt.Sprintf("Service.ScanAddresses %d keeps=%v", k, keeps)
			s.log(step)
			var pw []byte
			if encrypt && kind != wallet.WalletTypeBip44 {
				pw = s.encPw
			}
			got, err := svc.ScanAddresses(s.w.Filename(), pw, uint64(k), tf)
			if err != nil {
				s.violation("service-scan-failed", step, err.Error())
				break
			}
			if s.scanOracle(step, k, tf, keeps, skyStrings(got)) && s.refresh(step) {
				s.r.Count("service.scan", 1)
				s.check(step)
			}
		default:
			step := "restart service"
			s.log(step)
			svc2, err := wallet.NewService(s.svcCfg)
			if err != nil {
				s.violation("service-restart-failed", step, err.Error())
				break
			}
			svc, s.svc = svc2, svc2
			s.r.Count("service.restart", 1)
			if s.pendReload {
				s.pendReload = false
				s.r.Count("service.refused.then_restart", 1)
			}
			if s.refresh(step) {
				s.check(step)
			}
		}
	}
	if !s.bad && encrypt {
		// the secrets behind the encrypted service wallet are the right ones
		step := "Service.DecryptWallet"
		s.log(step)
		w, err := svc.DecryptWallet(s.w.Filename(), s.encPw)
		if err != nil {
			s.violation("service-decrypt-failed", step, err.Error())
		} else {
			s.w = w
			s.check(step)
		}
	}
	s.finish()
	if !s.bad {
		r.Count("sequences.service", 1)
	}
}

func main() {
	wfix.Quiet()
	r := vf.Start("C17", "exploration")
	// sequences per kind (4 wallet-level kinds + service leg)
	per := r.Pick(80, 2400)
	nsvc := r.Pick(80, 2400)
	dir := vf.TempDir("c17")
	defer os.RemoveAll(dir)

	type job struct {
		kind string
		i    int
	}
	var jobs []job
	for i := 0; i < per; i++ {
		jobs = append(jobs, job{"det", i}, job{"bip44", i}, job{"xpub", i}, job{"collection", i})
	}
	for i := 0; i < nsvc; i++ {
		jobs = append(jobs, job{"service", i})
	}
	vf.Parallel(len(jobs), 16, func(j int) {
		jb := jobs[j]
		d := filepath.Join(dir, fmt.Sprintf("%s-%d", jb.kind, jb.i))
		panicked, msg, frame := vf.Recover(func() {
			switch jb.kind {
			case "det":
				_ = os.MkdirAll(d, 0700)
				runDeterministic(r, jb.i, d)
			case "bip44":
				_ = os.MkdirAll(d, 0700)
				runBip44(r, jb.i, d)
			case "xpub":
				_ = os.MkdirAll(d, 0700)
				runXPub(r, jb.i, d)
			case "collection":
				_ = os.MkdirAll(d, 0700)
				runCollection(r, jb.i, d)
			case "service":
				runService(r, jb.i)
			}
		})
		_ = os.RemoveAll(d)
		if panicked {
			r.Violation("panic", map[string]string{"frame": frame, "msg": msg, "sequence": fmt.Sprintf("%s-%d", jb.kind, jb.i)}, map[string]string{"msg": msg, "frame": frame})
		}
	})
	os.RemoveAll(dir)

	q := r.Quick()
	fl := func(k string, qv, tv int64) {
		if q {
			r.Floor(k, qv)
		} else {
			r.Floor(k, tv)
		}
	}
	for _, k := range []string{"deterministic", "bip44", "xpub", "collection"} {
		fl("sequences."+k, int64(per), int64(per)) // 2x for deterministic/bip44/xpub once the service leg is added
	}
	fl("sequences.service", int64(nsvc), int64(nsvc))
	fl("op.generate", 500, 15000)
	fl("op.generate.k50", 10, 300)
	fl("op.generate.while_locked", 10, 300)
	fl("op.generate.change_chain", 30, 900)
	fl("op.generate.second_account", 10, 300)
	fl("op.scan", 200, 6000)
	fl("op.scan.chain_kept_some", 100, 3000)
	fl("op.scan.chain_kept_none", 50, 1500)
	fl("op.reload.bytes", 100, 3000)
	fl("op.reload.file", 100, 3000)
	fl("op.clone", 50, 1500)
	fl("op.unlock", 50, 1500)
	fl("op.collection.add_keys", 50, 1500)
	fl("service.new_addresses", 200, 6000)
	fl("service.new_addresses.encrypted", 50, 1500)
	fl("service.scan", 80, 2400)
	fl("service.restart", 150, 4500)
	fl("entries.secret_checked_refsecp", 20000, 600000)
	fl("xpub.addresses_equal_seed_wallet", 500, 15000)
	fl("coin.bitcoin_sequences", 5, 150)
	// refused / failing operations and what followed them on the same wallet
	fl("op.refused", 300, 9000)
	fl("op.refused.scan_finder_error", 120, 3600)
	fl("op.refused.scan_finder_error.after_answers", 15, 450)
	fl("op.refused.scan_finder_error.nonempty_wallet", 100, 3000)
	fl("op.refused.unlock_wrong_password", 8, 240)
	fl("op.refused.generate_missing_account", 8, 240)
	fl("op.refused.generate_too_many", 8, 240)
	fl("op.refused.collection_invalid_key", 8, 240)
	fl("refused.then_generate", 150, 4500)
	for _, k := range []string{"deterministic", "bip44", "xpub"} {
		fl("refused.then_generate."+k, 20, 600)
	}
	fl("refused.then_generate.collection", 8, 240)
	fl("refused.then_reload", 100, 3000)
	fl("service.refused", 60, 1800)
	fl("service.refused.scan_finder_error", 20, 600)
	fl("service.refused.then_new_addresses", 30, 900)
	fl("service.refused.then_restart", 30, 900)
	r.Finish("per wallet kind a seed/passphrase/coin and a sequence of 9-18 operations (generate k in {0,1,2,7,50} on a random chain/account, scan with a scripted activity pattern, reload via bytes or file, clone, lock/unlock with operations while locked, and refused or failing operations: a scan whose activity oracle errors at the first or a later chain, wrong/missing passwords, lock/unlock in the wrong state, missing account, impossible count, invalid key, after which the same wallet object keeps being used) are drawn from the run seed; the wallet is compared after every step with one-shot wallets derived from the same seed; a sequence is distinct by its operation trace and final counts",
		"one-shot wallets are produced by the code under test in a single derivation call per chain (the statement is about independence from batch splitting, not about the derivation function itself, which C14/C16 cover); the change chain of account 0 necessarily contains the address derived at creation plus one call",
		"address-of-public-key uses cipher.AddressFromPubKey / BitcoinAddressFromPubKey (C15 covers the encoding); public-key-of-secret uses lib/refsecp",
		"the service leg uses skycoin-coin wallets only (the service refuses others) and crypto types sha256-xor / scrypt-insecure")
}
